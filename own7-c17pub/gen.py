#!/usr/bin/env python3
# Generates the own variants (v*: break the publication discipline) and benign edits (b*) as diffs against /repo.
import os, subprocess, shutil, sys
HERE = os.path.dirname(os.path.abspath(__file__))
WORK = os.path.join(HERE, '..', 'mut', 'gen')

DIST = 'submission/distributor.go'
A_OLD = '''		d.mu.RLock()
		defer d.mu.RUnlock()
		vOpts := ctfe.NewCertValidationOpts(d.rootPool, time.Time{}, false, false, nil, nil, false, nil)
		rootedChain, err := ctfe.ValidateChain(rawChain, vOpts)
		if err == nil {
			return d.usableLl.Compatible(rootedChain[0], rootedChain[len(rootedChain)-1], d.logRoots), rootedChain, nil
		}
		if d.rootDataFull {
			// Could not verify the chain while root info for logs is complete.
			return loglist3.LogList{}, nil, fmt.Errorf("distributor unable to process cert-chain: %w", err)
		}

		// Chain might be rooted to the Log which has no root-info yet.
		return d.usableLl.Compatible(parsedChain[0], nil, d.logRoots), parsedChain, nil
'''
A_NEW = '''		d.mu.RLock()
		rootPool, logRoots, rootDataFull := d.rootPool, d.logRoots, d.rootDataFull
		d.mu.RUnlock()
		vOpts := ctfe.NewCertValidationOpts(rootPool, time.Time{}, false, false, nil, nil, false, nil)
		rootedChain, err := ctfe.ValidateChain(rawChain, vOpts)
		if err == nil {
			return d.usableLl.Compatible(rootedChain[0], rootedChain[len(rootedChain)-1], logRoots), rootedChain, nil
		}
		if rootDataFull {
			// Could not verify the chain while root info for logs is complete.
			return loglist3.LogList{}, nil, fmt.Errorf("distributor unable to process cert-chain: %w", err)
		}

		// Chain might be rooted to the Log which has no root-info yet.
		return d.usableLl.Compatible(parsedChain[0], nil, logRoots), parsedChain, nil
'''
B_OLD = '''	// Merge individual root-pools into a unified one
	d.rootPool = x509util.NewPEMCertPool()
	for _, pool := range d.logRoots {
'''
B_NEW = '''	// Merge individual root-pools into the unified one (AddCert skips known certificates)
	for _, pool := range d.logRoots {
'''
HALF_A = (DIST, A_OLD, A_NEW)
HALF_B = (DIST, B_OLD, B_NEW)

V = {}
# ---- variants: both an escaping use and an in-place mutation -----------------------------------
V['v01-getter-returns-pool+inplace-refresh'] = [HALF_B, (DIST, '''// incRspsCounter extracts''', '''// RootPool returns the merged pool of roots accepted by the logs.
func (d *Distributor) RootPool() *x509util.PEMCertPool {
	d.mu.RLock()
	defer d.mu.RUnlock()
	return d.rootPool
}

// incRspsCounter extracts''')]
V['v02-weights-getter-added'] = [('ctpolicy/ctpolicy.go', '''// SetLogWeight tries setting''', '''// Weights returns the weights currently used for submission.
func (group *LogGroupInfo) Weights() map[string]float32 {
	group.wMu.RLock()
	defer group.wMu.RUnlock()
	return group.LogWeights
}

// SetLogWeight tries setting''')]
V['v03-results-stored-in-global'] = [('submission/races.go', '''func (sub *safeSubmissionState) collectSCTs() []*AssignedSCT {
	sub.mu.Lock()
	defer sub.mu.Unlock()
''', '''// lastResults keeps the per-log outcomes of the most recent submission for the debug page.
var lastResults map[string]*submissionResult

func (sub *safeSubmissionState) collectSCTs() []*AssignedSCT {
	sub.mu.Lock()
	defer sub.mu.Unlock()
	lastResults = sub.results
''')]
V['v04-C06-setsth-in-place'] = [('ctutil/loginfo.go', '''	li.lastSTH = sth
}''', '''	if li.lastSTH != nil && sth != nil {
		*li.lastSTH = *sth // reuse the allocation
		return
	}
	li.lastSTH = sth
}''')]
V['v05-loglist-updated-in-place'] = [('submission/loglist_manager.go', '''	llm.previousLL = llm.latestLL
	llm.latestLL = ll
	return llm.latestLL, nil''', '''	if llm.latestLL == nil {
		llm.latestLL = ll
		return llm.latestLL, nil
	}
	prev := *llm.latestLL
	llm.previousLL = &prev
	llm.latestLL.JSON, llm.latestLL.List, llm.latestLL.DownloadTime = ll.JSON, ll.List, ll.DownloadTime
	return llm.latestLL, nil''')]
V['v06-lastjson-buffer-reused'] = [('submission/loglist_refresher.go', '''	llr.lastJSON = json
	return &LogListData''', '''	llr.lastJSON = append(llr.lastJSON[:0], json...) // reuse the buffer
	return &LogListData''')]
V['v07-proxy-dist-patched-in-place'] = [('submission/proxy.go', '''	d, err := p.distributorBuilder(ll)
	if err != nil {
		// losing ll info. No good.
		return err
	}
''', '''	d, err := p.distributorBuilder(ll)
	if err != nil {
		// losing ll info. No good.
		return err
	}
	p.distMu.Lock()
	if p.dist != nil {
		// keep the running distributor (and its roots), just swap the lists in
		p.dist.ll, p.dist.usableLl, p.dist.pendingQualifiedLl = d.ll, d.usableLl, d.pendingQualifiedLl
		p.distMu.Unlock()
		return nil
	}
	p.distMu.Unlock()
''')]
V['v08-seed-refactored-opts-container+merge-helper'] = [
    (DIST, A_OLD, '''		d.mu.RLock()
		vOpts := ctfe.NewCertValidationOpts(d.rootPool, time.Time{}, false, false, nil, nil, false, nil)
		logRoots, rootDataFull := d.logRoots, d.rootDataFull
		d.mu.RUnlock()
		rootedChain, err := ctfe.ValidateChain(rawChain, vOpts)
		if err == nil {
			return d.usableLl.Compatible(rootedChain[0], rootedChain[len(rootedChain)-1], logRoots), rootedChain, nil
		}
		if rootDataFull {
			// Could not verify the chain while root info for logs is complete.
			return loglist3.LogList{}, nil, fmt.Errorf("distributor unable to process cert-chain: %w", err)
		}

		// Chain might be rooted to the Log which has no root-info yet.
		return d.usableLl.Compatible(parsedChain[0], nil, logRoots), parsedChain, nil
'''),
    (DIST, '''	// Merge individual root-pools into a unified one
	d.rootPool = x509util.NewPEMCertPool()
	for _, pool := range d.logRoots {
		for _, c := range pool.RawCertificates() {
			d.rootPool.AddCert(c)
		}
	}

	return errors
}
''', '''	mergeRoots(d.merged(), d.logRoots)

	return errors
}

// merged returns the unified pool; the caller holds d.mu.
func (d *Distributor) merged() *x509util.PEMCertPool {
	return d.rootPool
}

// mergeRoots adds the roots of every log to the unified pool.
func mergeRoots(into *x509util.PEMCertPool, roots loglist3.LogRoots) {
	for _, pool := range roots {
		for _, c := range pool.RawCertificates() {
			into.AddCert(c)
		}
	}
}
''')]
V['v09-pool-captured-by-goroutine+inplace-refresh'] = [HALF_B, (DIST, '''		vOpts := ctfe.NewCertValidationOpts(d.rootPool, time.Time{}, false, false, nil, nil, false, nil)
''', '''		pool := d.rootPool
		go func() {
			klog.V(2).Infof("validating against %d roots", len(pool.RawCertificates()))
		}()
		vOpts := ctfe.NewCertValidationOpts(pool, time.Time{}, false, false, nil, nil, false, nil)
''')]
V['v10-C06-sigcache-copy-into-published'] = [('trillian/ctfe/serialize.go', '''	sc.input, sc.sig = input, sig
''', '''	if len(sc.sig.Signature) == len(sig.Signature) {
		// same size: overwrite in place
		sc.input = input
		sc.sig.Algorithm = sig.Algorithm
		copy(sc.sig.Signature, sig.Signature)
		return
	}
	sc.input, sc.sig = input, sig
''')]
V['v11-logroots-snapshot+per-log-pool-updated-in-place'] = [HALF_A, (DIST, '''	d.logRoots = freshRoots
	d.rootDataFull = len(d.logRoots) == len(d.logClients)
''', '''	if d.logRoots == nil {
		d.logRoots = freshRoots
	} else {
		for u, p := range freshRoots {
			d.logRoots[u] = p // keep the entries of logs that did not answer this time
		}
	}
	d.rootDataFull = len(d.logRoots) == len(d.logClients)
''')]
V['v12-published-local-mutated-after-unlock'] = [HALF_A, (DIST, '''	d.mu.Lock()
	defer d.mu.Unlock()

	d.logRoots = freshRoots
	d.rootDataFull = len(d.logRoots) == len(d.logClients)
	// Merge individual root-pools into a unified one
	d.rootPool = x509util.NewPEMCertPool()
	for _, pool := range d.logRoots {
		for _, c := range pool.RawCertificates() {
			d.rootPool.AddCert(c)
		}
	}

	return errors
''', '''	merged := x509util.NewPEMCertPool()
	d.mu.Lock()
	d.logRoots = freshRoots
	d.rootDataFull = len(d.logRoots) == len(d.logClients)
	d.rootPool = merged
	d.mu.Unlock()
	// Merge individual root-pools into a unified one (outside the lock: it may take a while)
	for _, pool := range freshRoots {
		for _, c := range pool.RawCertificates() {
			merged.AddCert(c)
		}
	}

	return errors
''')]
V['v13-mutation-under-read-lock'] = [(DIST, '''		d.mu.RLock()
		defer d.mu.RUnlock()
		vOpts :=''', '''		d.mu.RLock()
		defer d.mu.RUnlock()
		if len(parsedChain) > 1 && parsedChain[len(parsedChain)-1].CheckSignatureFrom(parsedChain[len(parsedChain)-1]) == nil {
			d.rootPool.AddCert(parsedChain[len(parsedChain)-1]) // remember self-signed roots we were shown
		}
		vOpts :=''')]

# ---- benign: the mechanism is touched, the clause holds ------------------------------------------
B = {}
B['b01-half-A-snapshot-with-copy-on-write-refresh'] = [HALF_A]
B['b02-half-B-inplace-refresh-readers-confined'] = [HALF_B]
B['b03-unlocked-getter-called-under-lock+inplace'] = [HALF_B, (DIST, '''		vOpts := ctfe.NewCertValidationOpts(d.rootPool, time.Time{}''', '''		vOpts := ctfe.NewCertValidationOpts(d.merged(), time.Time{}'''),
    (DIST, '''// incRspsCounter extracts''', '''// merged returns the unified pool; the caller holds d.mu.
func (d *Distributor) merged() *x509util.PEMCertPool {
	return d.rootPool
}

// incRspsCounter extracts''')]
B['b04-weights-copy-on-write+getter'] = [('ctpolicy/ctpolicy.go', '''	// All group weights initially reset to 0.0
	for logURL := range group.LogURLs {
		group.LogWeights[logURL] = 0.0
	}
	for logURL, w := range weights {
		if group.LogURLs[logURL] {
			group.LogWeights[logURL] = w
		}
	}
	return nil''', '''	// All group weights initially reset to 0.0
	fresh := make(map[string]float32, len(group.LogURLs))
	for logURL := range group.LogURLs {
		fresh[logURL] = 0.0
	}
	for logURL, w := range weights {
		if group.LogURLs[logURL] {
			fresh[logURL] = w
		}
	}
	group.LogWeights = fresh
	return nil'''), ('ctpolicy/ctpolicy.go', '''// SetLogWeight tries setting''', '''// Weights returns the weights currently used for submission (read-only snapshot).
func (group *LogGroupInfo) Weights() map[string]float32 {
	group.wMu.RLock()
	defer group.wMu.RUnlock()
	return group.LogWeights
}

// SetLogWeight tries setting''')]
B['b05-pool-built-locally-then-published+snapshot'] = [HALF_A, (DIST, '''	d.mu.Lock()
	defer d.mu.Unlock()

	d.logRoots = freshRoots
	d.rootDataFull = len(d.logRoots) == len(d.logClients)
	// Merge individual root-pools into a unified one
	d.rootPool = x509util.NewPEMCertPool()
	for _, pool := range d.logRoots {
		for _, c := range pool.RawCertificates() {
			d.rootPool.AddCert(c)
		}
	}

	return errors
''', '''	// Merge individual root-pools into a unified one (before taking the lock)
	merged := x509util.NewPEMCertPool()
	for _, pool := range freshRoots {
		for _, c := range pool.RawCertificates() {
			merged.AddCert(c)
		}
	}

	d.mu.Lock()
	defer d.mu.Unlock()
	d.logRoots = freshRoots
	d.rootDataFull = len(d.logRoots) == len(d.logClients)
	d.rootPool = merged

	return errors
''')]
B['b06-C06-sth-in-place-with-copying-getter'] = [('ctutil/loginfo.go', '''	return li.lastSTH
}''', '''	if li.lastSTH == nil {
		return nil
	}
	sth := *li.lastSTH
	return &sth
}'''), ('ctutil/loginfo.go', '''	li.lastSTH = sth
}''', '''	if li.lastSTH != nil && sth != nil {
		*li.lastSTH = *sth // reuse the allocation
		return
	}
	li.lastSTH = sth
}''')]
B['b07-lastjson-getter-copies+buffer-reused'] = [('submission/loglist_refresher.go', '''	llr.lastJSON = json
	return &LogListData''', '''	llr.lastJSON = append(llr.lastJSON[:0], json...) // reuse the buffer
	return &LogListData'''), ('submission/loglist_refresher.go', '''	return llr.lastJSON
}''', '''	return append([]byte(nil), llr.lastJSON...)
}''')]
B['b08-results-snapshot-copied-under-lock'] = [('submission/races.go', '''func (sub *safeSubmissionState) collectSCTs() []*AssignedSCT {
	sub.mu.Lock()
	defer sub.mu.Unlock()
''', '''// lastResults keeps the per-log outcomes of the most recent submission for the debug page.
var lastResults atomic.Value

func (sub *safeSubmissionState) collectSCTs() []*AssignedSCT {
	sub.mu.Lock()
	defer sub.mu.Unlock()
	snapshot := make(map[string]bool, len(sub.results))
	for u, r := range sub.results {
		snapshot[u] = r != nil && r.sct != nil
	}
	lastResults.Store(snapshot)
'''), ('submission/races.go', '''	"sync"
''', '''	"sync"
	"sync/atomic"
''')]

V['v14-weights-one-map-republished-in-loop+getter'] = [('ctpolicy/ctpolicy.go', '\tgroup.wMu.Lock()\n\tdefer group.wMu.Unlock()\n\t// All group weights initially reset to 0.0\n\tfor logURL := range group.LogURLs {\n\t\tgroup.LogWeights[logURL] = 0.0\n\t}\n\tfor logURL, w := range weights {\n\t\tif group.LogURLs[logURL] {\n\t\t\tgroup.LogWeights[logURL] = w\n\t\t}\n\t}\n\treturn nil', '\tfresh := make(map[string]float32, len(group.LogURLs))\n\t// apply in two steps so that readers never see a half-applied set: zeros first, then the weights\n\tfor step := 0; step < 2; step++ {\n\t\tfor logURL := range group.LogURLs {\n\t\t\tfresh[logURL] = 0.0\n\t\t}\n\t\tif step == 1 {\n\t\t\tfor logURL, w := range weights {\n\t\t\t\tif group.LogURLs[logURL] {\n\t\t\t\t\tfresh[logURL] = w\n\t\t\t\t}\n\t\t\t}\n\t\t}\n\t\tgroup.wMu.Lock()\n\t\tgroup.LogWeights = fresh\n\t\tgroup.wMu.Unlock()\n\t}\n\treturn nil'), ('ctpolicy/ctpolicy.go', '''// SetLogWeight tries setting''', '''// Weights returns the weights currently used for submission (read-only snapshot).
func (group *LogGroupInfo) Weights() map[string]float32 {
	group.wMu.RLock()
	defer group.wMu.RUnlock()
	return group.LogWeights
}

// SetLogWeight tries setting''')]
B['b09-weights-fresh-map-per-round-in-loop+getter'] = [('ctpolicy/ctpolicy.go', '\tgroup.wMu.Lock()\n\tdefer group.wMu.Unlock()\n\t// All group weights initially reset to 0.0\n\tfor logURL := range group.LogURLs {\n\t\tgroup.LogWeights[logURL] = 0.0\n\t}\n\tfor logURL, w := range weights {\n\t\tif group.LogURLs[logURL] {\n\t\t\tgroup.LogWeights[logURL] = w\n\t\t}\n\t}\n\treturn nil', '\t// apply in two steps so that readers never see a half-applied set: zeros first, then the weights\n\tfor step := 0; step < 2; step++ {\n\t\tfresh := make(map[string]float32, len(group.LogURLs))\n\t\tfor logURL := range group.LogURLs {\n\t\t\tfresh[logURL] = 0.0\n\t\t}\n\t\tif step == 1 {\n\t\t\tfor logURL, w := range weights {\n\t\t\t\tif group.LogURLs[logURL] {\n\t\t\t\t\tfresh[logURL] = w\n\t\t\t\t}\n\t\t\t}\n\t\t}\n\t\tgroup.wMu.Lock()\n\t\tgroup.LogWeights = fresh\n\t\tgroup.wMu.Unlock()\n\t}\n\treturn nil'), ('ctpolicy/ctpolicy.go', '''// SetLogWeight tries setting''', '''// Weights returns the weights currently used for submission (read-only snapshot).
func (group *LogGroupInfo) Weights() map[string]float32 {
	group.wMu.RLock()
	defer group.wMu.RUnlock()
	return group.LogWeights
}

// SetLogWeight tries setting''')]

B['b10-rebuild-helper-called-under-write-lock+snapshot'] = [HALF_A, (DIST, '''	// Merge individual root-pools into a unified one
	d.rootPool = x509util.NewPEMCertPool()
	for _, pool := range d.logRoots {
		for _, c := range pool.RawCertificates() {
			d.rootPool.AddCert(c)
		}
	}

	return errors
}
''', '''	d.rebuildPool()

	return errors
}

// rebuildPool merges the individual root-pools into a new unified one; the caller holds d.mu for writing.
func (d *Distributor) rebuildPool() {
	d.rootPool = x509util.NewPEMCertPool()
	for _, pool := range d.logRoots {
		for _, c := range pool.RawCertificates() {
			d.rootPool.AddCert(c)
		}
	}
}
''')]

V['v15-lastjson-written-by-library-function'] = [('submission/loglist_refresher.go', '''	llr.lastJSON = json
	return &LogListData''', '''	if len(llr.lastJSON) == len(json) && len(json) >= 8 {
		// same size: keep the buffer, stamp the download time into the (ignored) leading bytes
		copyInto(llr.lastJSON, json)
		binary.BigEndian.PutUint64(llr.lastJSON, uint64(t.Unix()))
		return &LogListData{JSON: json, List: ll, DownloadTime: t}, nil
	}
	llr.lastJSON = json
	return &LogListData'''), ('submission/loglist_refresher.go', '''// LastJSON returns last version''', '''func copyInto(dst, src []byte) {
	for i := range src {
		_ = dst[i]
	}
}

// LastJSON returns last version'''), ('submission/loglist_refresher.go', '''	"bytes"
''', '''	"bytes"
	"encoding/binary"
''')]

def counter(locked):
    lock = '\td.statsMu.Lock()\n' if locked else ''
    unlock = '\td.statsMu.Unlock()\n' if locked else ''
    return [(DIST, '''	rootCompatibilityCheckDisabled bool
}''', '''	rootCompatibilityCheckDisabled bool

	// submissions counts the requests sent per Log (debug page).
	statsMu     sync.Mutex
	submissions map[string]int
}'''), (DIST, '''	reqsCounter.Inc(logURL, endpoint)
	addChain := lc.AddChain''', '''	reqsCounter.Inc(logURL, endpoint)
''' + lock + '''	if d.submissions == nil {
		d.submissions = make(map[string]int)
	}
	d.submissions[logURL]++
''' + unlock + '''	addChain := lc.AddChain''')]
V['v16-distributor-counter-map-written-without-its-mutex'] = counter(False)
B['b11-distributor-counter-map-under-its-own-mutex'] = counter(True)

V['v17-pool-handed-to-a-function-value'] = [(DIST, '''	rootCompatibilityCheckDisabled bool
}''', '''	rootCompatibilityCheckDisabled bool

	// OnValidate, if set, is told which pool a chain is about to be validated against.
	OnValidate func(*x509util.PEMCertPool)
}'''), (DIST, '''		vOpts := ctfe.NewCertValidationOpts(d.rootPool, time.Time{}''', '''		if d.OnValidate != nil {
			d.OnValidate(d.rootPool)
		}
		vOpts := ctfe.NewCertValidationOpts(d.rootPool, time.Time{}''')]

def each(asyncly):
    body = '\t\tgo f(k)\n' if asyncly else '\t\tf(k)\n'
    return [('ctpolicy/ctpolicy.go', '''	unProcessedWeights := make(map[string]float32)
	for logURL, w := range group.LogWeights {
		unProcessedWeights[logURL] = w
	}
''', '''	unProcessedWeights := make(map[string]float32)
	var fill sync.Mutex
	weights := group.LogWeights
	eachLog(group.LogURLs, func(logURL string) {
		fill.Lock()
		defer fill.Unlock()
		if w, ok := weights[logURL]; ok {
			unProcessedWeights[logURL] = w
		}
	})
'''), ('ctpolicy/ctpolicy.go', '''// SetLogWeight tries setting''', '''// eachLog calls f for every Log of the set.
func eachLog(urls map[string]bool, f func(string)) {
	for k := range urls {
''' + body + '''	}
}

// SetLogWeight tries setting''')]
V['v18-weights-captured-by-literal-run-on-goroutines'] = each(True)
B['b12-weights-captured-by-literal-called-synchronously'] = each(False)

def build(name, edits, kind):
    if os.path.exists(WORK): shutil.rmtree(WORK)
    os.makedirs(WORK)
    files = sorted({e[0] for e in edits})
    out = []
    for f in files:
        src = open('/repo/'+f).read()
        dst = src
        for (ff, old, new) in edits:
            if ff != f: continue
            if dst.count(old) != 1:
                print('!!', name, f, 'pattern occurs', dst.count(old), 'times:', old[:60]); sys.exit(1)
            dst = dst.replace(old, new)
        os.makedirs(os.path.join(WORK, 'b', os.path.dirname(f)), exist_ok=True)
        open(os.path.join(WORK, 'b', f), 'w').write(dst)
        subprocess.run(['gofmt', '-w', os.path.join(WORK, 'b', f)], check=True)
        p = subprocess.run(['diff', '-u', '--label', 'a/'+f, '--label', 'b/'+f, '/repo/'+f, os.path.join(WORK, 'b', f)], capture_output=True, text=True)
        out.append('diff --git a/%s b/%s\n' % (f, f) + p.stdout)
    open(os.path.join(HERE, name + '.diff'), 'w').write(''.join(out))

for n, e in V.items(): build(n, e, 'v')
for n, e in B.items(): build(n, e, 'b')
shutil.rmtree(WORK)
print(len(V), 'variants,', len(B), 'benign')
