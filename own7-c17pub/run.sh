#!/bin/bash
# usage: run.sh [pattern]   — applies each own diff to a scratch copy of /repo, compiles, runs the checks.
#   v*: the property's own check (C17, or C06 for the C06 tables) must report; b*: all 20 checks silent.
export GOFLAGS=-mod=mod GOPROXY=off GOSUMDB=off GOTOOLCHAIN=local; unset GOWORK
H=$(cd $(dirname $0) && pwd); W=$(cd $H/.. && pwd); BIN=${CTVERIF_BIN:-$W/bin/ctverif}
S=$W/mut/own; mkdir -p $S/home; cp /verif/known_findings.json $S/home/
for d in $H/${1:-*}.diff; do
  n=$(basename $d .diff)
  rsync -a --delete --exclude .git /repo/ $S/repo/
  (cd $S/repo && patch -p1 -s < $d) || { echo "$n: PATCH DOES NOT APPLY"; continue; }
  (cd $S/repo && go build ./... && go vet ./submission/ ./ctpolicy/ ./ctutil/ ./trillian/ctfe/ >/dev/null 2>$S/vet.txt) || { echo "$n: DOES NOT COMPILE / VET"; cat $S/vet.txt | head -5; continue; }
  case $n in
    v*) p=C17; case $n in *C06*) p=C06;; esac
        out=$(CTVERIF_REPO=$S/repo CTVERIF_HOME=$S/home /verif/tools/throttle $BIN check $p 2>&1)
        if echo "$out" | grep -q '^VIOLATION'; then echo "$n: reported [$p] $(echo "$out" | grep 'rule=' | sed 's/.*key=\([^ ]*\) at.*/\1/' | tr '\n' ' ')"; else echo "$n: MISSED [$p]"; fi;;
    b*) out=$(CTVERIF_REPO=$S/repo CTVERIF_HOME=$S/home /verif/tools/throttle $BIN checkall 2>&1)
        if echo "$out" | grep -q '^VIOLATION'; then echo "$n: ALARM $(echo "$out" | grep 'rule=' | cut -c1-300)"; elif [ "$(echo "$out" | grep -c ' quick: ')" != 20 ]; then echo "$n: CHECKER DID NOT COMPLETE"; else echo "$n: silent (20 checks)"; fi;;
  esac
done
