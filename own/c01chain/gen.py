#!/usr/bin/env python3
# Own variants (v*: break "the validated data stays unwritten until the entry is derived", must be reported by C01)
# and benign edits (b*: touch the same mechanism without breaking it, must stay silent under all 20 checks).
# usage: gen.py   -> writes <name>.diff next to this file (diffs against /repo)
import os, subprocess, shutil, tempfile, sys

REPO = "/repo"
HERE = os.path.dirname(os.path.abspath(__file__))
H = "trillian/ctfe/handlers.go"
Q = "trillian/ctfe/cert_quota.go"
S = "trillian/ctfe/services.go"
RL = "trillian/ctfe/requestlog.go"
SER = "serialization.go"

QUOTA_OLD = """	req := trillian.QueueLeafRequest{
		LogId:    li.logID,
		Leaf:     leaf,
		ChargeTo: li.chargeUser(r),
	}
	if li.instanceOpts.CertificateQuotaUser != nil {
		// TODO(al): ignore pre-issuers? Probably doesn't matter
		for _, cert := range chain[1:] {
			req.ChargeTo = appendUserCharge(req.ChargeTo, li.instanceOpts.CertificateQuotaUser(cert))
		}
	}
"""
QUOTA_NEW = """	req := trillian.QueueLeafRequest{
		LogId:    li.logID,
		Leaf:     leaf,
		ChargeTo: chargeTo,
	}
"""
TIME_OLD = """	// Get the current time in the form used throughout RFC6962, namely milliseconds since Unix
	// epoch, and use this throughout.
"""


def early(loop):
    """half A of the seed: the quota users are worked out before the leaf is built"""
    return [(H, QUOTA_OLD, QUOTA_NEW),
            (H, TIME_OLD, "	// Work out who is charged for the submission.\n	chargeTo := li.chargeUser(r)\n	if li.instanceOpts.CertificateQuotaUser != nil {\n" + loop + "	}\n\n" + TIME_OLD)]


LOOP = "		for _, cert := range %s {\n			chargeTo = appendUserCharge(chargeTo, li.instanceOpts.CertificateQuotaUser(cert))\n		}\n"
IMP_CT = (Q, '	"github.com/google/certificate-transparency-go/x509"\n)', '	"github.com/google/certificate-transparency-go/x509"\n\n	ct "github.com/google/certificate-transparency-go"\n)')

EDITS = {
    # ---- variants ------------------------------------------------------------------------------------------
    # v1: the seed's filter as an exported function (not a helper the normaliser expands) written with the
    #     slices package: slices.DeleteFunc filters IN PLACE
    "v1-exported-deletefunc": early(LOOP % "QuotaIssuers(chain)") + [IMP_CT,
        (Q, '	"strings"\n', '	"slices"\n	"strings"\n'),
        (Q, "// QuotaUserForCert returns", "// QuotaIssuers returns the certificates above the leaf that are charged: all but\n// precertificate signing certificates.\nfunc QuotaIssuers(chain []*x509.Certificate) []*x509.Certificate {\n	return slices.DeleteFunc(chain[1:], ct.IsPreIssuer)\n}\n\n// QuotaUserForCert returns")],
    # v2: an implementation of the RequestLog interface (called for every certificate right after validation)
    #     blanks the signature bytes "for the log line" — they are a sub-slice of cert.Raw
    "v2-requestlog-impl-writes": [(RL, "	klog.V(vLevel).Infof(\"RL: Cert: Sub: %s Iss: %s notBef: %s notAft: %s\",", "	for i := range cert.Signature {\n		cert.Signature[i] = 0\n	}\n	klog.V(vLevel).Infof(\"RL: Cert: Sub: %s Iss: %s notBef: %s notAft: %s\",")],
    # v3: a reader writes: MerkleTreeLeafFromChain drops the pre-issuer from the chain in place
    "v3-reader-drops-preissuer-in-place": [(SER, "		issuer = chain[2]\n	}\n", "		issuer = chain[2]\n		chain = append(chain[:1], chain[2:]...)\n	}\n")],
    # v4: the request buffers are wiped once the chain has been verified (the certificates' Raw bytes are
    #     slices of exactly these buffers)
    "v4-request-wiped-after-verify": [(H, "	for _, cert := range chain {\n		li.RequestLog.AddCertToChain(ctx, cert)\n	}\n", "	for _, cert := range chain {\n		li.RequestLog.AddCertToChain(ctx, cert)\n	}\n	// The submitted DER is not needed any more.\n	for _, der := range addChainReq.Chain {\n		clear(der)\n	}\n")],
    # v5: the quota user function (reached through a function value) is moved in front of the leaf
    #     construction and scribbles a digest over the key bytes it hashes
    "v5-funcvalue-callee-writes": early(LOOP % "chain[1:]") + [
        (Q, "	spkiHash := sha256.Sum256(c.RawSubjectPublicKeyInfo)\n", "	spkiHash := sha256.Sum256(c.RawSubjectPublicKeyInfo)\n	hex.Encode(c.RawSubjectPublicKeyInfo[:10], spkiHash[0:5])\n")],
    # v6: a library mutator on a view: the chain is sorted by expiry for the quota, before the leaf is built
    "v6-sorted-before-leaf": early("		issuers := chain[1:]\n		sort.Slice(issuers, func(i, j int) bool { return issuers[i].NotAfter.Before(issuers[j].NotAfter) })\n" + LOOP % "issuers") + [
        (H, '	"strconv"\n', '	"sort"\n	"strconv"\n')],
    # v7: the list of raw certificates extracted from the chain is reversed by the function that received it
    "v7-extracted-list-reversed": [(S, "	raw := extractRawCerts(chain)\n	// Trillian gRPC\n", "	raw := extractRawCerts(chain)\n	slices.Reverse(raw[1:])\n	// Trillian gRPC\n"),
        (S, '	"fmt"\n', '	"fmt"\n	"slices"\n')],
    # v8: a goroutine started right after validation scrubs the chain while the leaf is being built
    "v8-goroutine-scrubs": [(H, "	for _, cert := range chain {\n		li.RequestLog.AddCertToChain(ctx, cert)\n	}\n", "	for _, cert := range chain {\n		li.RequestLog.AddCertToChain(ctx, cert)\n	}\n	go func() {\n		for i := 1; i < len(chain); i++ {\n			chain[i] = nil\n		}\n	}()\n")],
    # v9: the returned leaf is adjusted by a callee before the SCT is built (addition, through a helper method)
    "v9-returned-leaf-adjusted-by-callee": [(H, "	// As the Log server has definitely got the Merkle tree leaf, we can\n", "	CapTimestamp(&loggedLeaf, timeMillis)\n	// As the Log server has definitely got the Merkle tree leaf, we can\n"),
        (H, "// appendUserCharge adds", "// CapTimestamp keeps a leaf from being dated after now.\nfunc CapTimestamp(leaf *ct.MerkleTreeLeaf, now uint64) {\n	if leaf.TimestampedEntry.Timestamp > now {\n		leaf.TimestampedEntry.Timestamp = now\n	}\n}\n\n// appendUserCharge adds")],
    # v10: three calls below the reader, the function that lays out the extra data drops a trailing root by
    #      blanking the element of the list it was handed (precert submissions only)
    "v10-extra-data-blanks-element": [("trillian/util/log_leaf.go", "		// For a pre-cert, the extra data is a TLS-encoded PrecertChainEntry.\n		extra = ct.PrecertChainEntry{", "		// For a pre-cert, the extra data is a TLS-encoded PrecertChainEntry.\n		if n := len(chain); n > 1 {\n			chain[n-1].Data = nil\n		}\n		extra = ct.PrecertChainEntry{")],
    # v11: buildLeaf shifts the pre-issuer out of the chain with copy before handing it on
    "v11-copy-shift-in-wrapper": [(H, "	return li.issuanceChainService.BuildLogLeaf(ctx, chain, li.LogPrefix, merkleLeaf, isPrecert)\n", "	if isPrecert && len(chain) > 2 && ct.IsPreIssuer(chain[1]) {\n		n := copy(chain[1:], chain[2:])\n		chain = chain[:1+n]\n	}\n	return li.issuanceChainService.BuildLogLeaf(ctx, chain, li.LogPrefix, merkleLeaf, isPrecert)\n")],
    # v12: the seed's filter as a method, compacting with index stores instead of append
    "v12-method-compacts-by-index": early(LOOP % "li.quotaIssuers(chain)") + [
        (H, "// appendUserCharge adds", "// quotaIssuers returns the certificates that are charged for a submission.\nfunc (li *logInfo) quotaIssuers(chain []*x509.Certificate) []*x509.Certificate {\n	issuers := chain[1:]\n	n := 0\n	for _, cert := range issuers {\n		if !ct.IsPreIssuer(cert) {\n			issuers[n] = cert\n			n++\n		}\n	}\n	return issuers[:n]\n}\n\n// appendUserCharge adds")],
    # ---- benign --------------------------------------------------------------------------------------------
    # b1: the legitimate version of the seed: quota users first, pre-issuers skipped, filter allocates
    "b1-quota-early-filter-allocates": early(LOOP % "QuotaIssuers(chain)") + [IMP_CT,
        (Q, "// QuotaUserForCert returns", "// QuotaIssuers returns the certificates above the leaf that are charged: all but\n// precertificate signing certificates.\nfunc QuotaIssuers(chain []*x509.Certificate) []*x509.Certificate {\n	charged := make([]*x509.Certificate, 0, len(chain))\n	for _, cert := range chain[1:] {\n		if !ct.IsPreIssuer(cert) {\n			charged = append(charged, cert)\n		}\n	}\n	return charged\n}\n\n// QuotaUserForCert returns")],
    # b2: half B of the seed alone: the in-place filter runs after the leaf has been built (last read passed)
    "b2-inplace-filter-after-last-read": [IMP_CT,
        (H, "		for _, cert := range chain[1:] {\n			req.ChargeTo", "		for _, cert := range quotaIssuers(chain) {\n			req.ChargeTo"),
        (Q, "// QuotaUserForCert returns", "func quotaIssuers(chain []*x509.Certificate) []*x509.Certificate {\n	issuers := chain[1:]\n	charged := issuers[:0]\n	for _, cert := range issuers {\n		if !ct.IsPreIssuer(cert) {\n			charged = append(charged, cert)\n		}\n	}\n	return charged\n}\n\n// QuotaUserForCert returns")],
    # b3: quota users first; the filter works in place ON A COPY of the chain, which is then sorted
    "b3-inplace-on-a-copy": early("		issuers := append([]*x509.Certificate(nil), chain[1:]...)\n		charged := issuers[:0]\n		for _, cert := range issuers {\n			if !ct.IsPreIssuer(cert) {\n				charged = append(charged, cert)\n			}\n		}\n		sort.Slice(charged, func(i, j int) bool { return charged[i].NotAfter.Before(charged[j].NotAfter) })\n" + LOOP % "charged") + [
        (H, '	"strconv"\n', '	"sort"\n	"strconv"\n')],
    # b4: an exported helper returns a fresh list; the caller reverses that list (a container nobody reads for the entry)
    "b4-fresh-list-reversed-by-caller": early("		issuers := QuotaIssuers(chain)\n		slices.Reverse(issuers)\n" + LOOP % "issuers") + [IMP_CT,
        (H, '	"strconv"\n', '	"slices"\n	"strconv"\n'),
        (Q, "// QuotaUserForCert returns", "// QuotaIssuers returns the certificates above the leaf that are charged.\nfunc QuotaIssuers(chain []*x509.Certificate) []*x509.Certificate {\n	var charged []*x509.Certificate\n	for _, cert := range chain[1:] {\n		if !ct.IsPreIssuer(cert) {\n			charged = append(charged, cert)\n		}\n	}\n	return charged\n}\n\n// QuotaUserForCert returns")],
    # b5: the request log implementation reads more of the certificate (and copies what it keeps)
    "b5-requestlog-impl-reads-more": [(RL, "	klog.V(vLevel).Infof(\"RL: Cert: Sub: %s Iss: %s notBef: %s notAft: %s\",", "	sig := append([]byte(nil), cert.Signature...)\n	for i := range sig {\n		sig[i] ^= 0xff\n	}\n	klog.V(vLevel).Infof(\"RL: Cert: %d bytes, ~sig %x, spki %x\", len(cert.Raw), sig, cert.RawSubjectPublicKeyInfo)\n	klog.V(vLevel).Infof(\"RL: Cert: Sub: %s Iss: %s notBef: %s notAft: %s\",")],
    # b6: the returned leaf is logged before the SCT is built, and a certificate's fields are read between validation and leaf construction
    "b6-leaf-logged-fields-read": [
        (H, "	for _, cert := range chain {\n		li.RequestLog.AddCertToChain(ctx, cert)\n	}\n", "	for _, cert := range chain {\n		li.RequestLog.AddCertToChain(ctx, cert)\n	}\n	klog.V(3).Infof(\"%s: %s: leaf %x issued by %x, %d certificates\", li.LogPrefix, method, sha256.Sum256(chain[0].Raw), chain[len(chain)-1].RawSubject, len(chain))\n"),
        (H, "	// As the Log server has definitely got the Merkle tree leaf, we can\n", "	klog.V(3).Infof(\"%s: %s: logged leaf timestamp %d (local %d)\", li.LogPrefix, method, loggedLeaf.TimestampedEntry.Timestamp, timeMillis)\n	// As the Log server has definitely got the Merkle tree leaf, we can\n")],
    # x1 (NOT silent today, by rules of other files — see the report): the chain is scrubbed when the handler returns (deferred).
    #     C01.R12 itself passes (a deferred write runs after every call of the body); the defer statement turns the results of
    #     addChainInternal into cells, which C08.R2/R3, C06.R9, C02.R5 and the argument terms of C01.R1 do not read through.
    "x1-deferred-scrub": [(H, "	for _, cert := range chain {\n		li.RequestLog.AddCertToChain(ctx, cert)\n	}\n", "	for _, cert := range chain {\n		li.RequestLog.AddCertToChain(ctx, cert)\n	}\n	defer func() {\n		for i := range chain {\n			chain[i] = nil\n		}\n	}()\n")],
}


def main():
    only = sys.argv[1:]
    for name, edits in EDITS.items():
        if only and name not in only:
            continue
        tmp = tempfile.mkdtemp()
        files = sorted({f for f, _, _ in edits})
        for f in files:
            os.makedirs(os.path.join(tmp, "a", os.path.dirname(f)), exist_ok=True)
            os.makedirs(os.path.join(tmp, "b", os.path.dirname(f)), exist_ok=True)
            shutil.copy(os.path.join(REPO, f), os.path.join(tmp, "a", f))
            shutil.copy(os.path.join(REPO, f), os.path.join(tmp, "b", f))
        for f, old, new in edits:
            p = os.path.join(tmp, "b", f)
            s = open(p).read()
            if s.count(old) != 1:
                print("EDIT DOES NOT APPLY", name, f, repr(old[:50]), s.count(old))
                sys.exit(1)
            open(p, "w").write(s.replace(old, new))
        out = subprocess.run(["diff", "-ruN", "a", "b"], cwd=tmp, capture_output=True, text=True).stdout
        open(os.path.join(HERE, name + ".diff"), "w").write(out)
        shutil.rmtree(tmp)
        print("wrote", name)


main()
