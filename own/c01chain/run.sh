#!/bin/bash
# usage: run.sh [name-prefix ...]   (W = worktree; variants: C01 check must report; benign: all 20 checks silent)
export GOFLAGS=-mod=mod GOPROXY=off GOSUMDB=off GOTOOLCHAIN=local; unset GOWORK
W=${W:-/tmp/dev7/c01chain}; BIN=${BIN:-$W/bin/ctverif}; D=$W/own/c01chain; M=$W/mut/own
mkdir -p $M/home; cp $W/known_findings.json $M/home/
for p in $D/${1:-}*.diff; do
  n=$(basename $p .diff)
  rsync -a --delete --exclude .git /repo/ $M/repo/
  (cd $M/repo && patch -p1 -s < $p) || { echo "$n: PATCH DOES NOT APPLY"; continue; }
  (cd $M/repo && go build ./... 2>&1 | head -5) | grep . && { echo "$n: DOES NOT COMPILE"; continue; }
  case $n in
  v*) out=$(CTVERIF_REPO=$M/repo CTVERIF_HOME=$M/home /verif/tools/throttle $BIN check C01 2>&1)
      if echo "$out" | grep -q '^VIOLATION'; then echo "$n: reported ($(echo "$out" | grep -c '^VIOLATION'))"; echo "$out" | grep 'rule=' | sed 's/ at .*//' | sed 's/^/      /'; [ -n "$VERBOSE" ] && echo "$out" | grep 'rule=' | cut -c1-700
      else echo "$n: MISSED"; echo "$out" | tail -3; fi;;
  b*) out=$(CTVERIF_REPO=$M/repo CTVERIF_HOME=$M/home /verif/tools/throttle $BIN checkall 2>&1)
      if echo "$out" | grep -q '^VIOLATION'; then echo "$n: ALARM"; echo "$out" | grep 'rule=' | cut -c1-600
      elif [ "$(echo "$out" | grep -c ' quick: ')" != 20 ]; then echo "$n: CHECKER DID NOT COMPLETE"; echo "$out" | tail -5
      else echo "$n: silent (20 checks)"; fi;;
  esac
done
