import os,subprocess,sys
twin=open('base/jsonclient/backoff.go').read()
def rep(s,a,b,n=1):
    assert s.count(a)>=1,(a)
    return s.replace(a,b,n)
M={}
M['m1-wrong-direction']=rep(twin,'if *override > wait {','if *override < wait {')
M['m2-wrong-operand']=rep(twin,'b.notBefore = now.Add(*override)','b.notBefore = now.Add(wait)')
M['m3-cap-off-by-one']=rep(twin,'min(b.multiplier+1, maxMultiplier)','min(b.multiplier+1, maxMultiplier+1)')
M['m4-exponent-off-by-one']=rep(twin,'time.Second << (b.multiplier - 1)','time.Second << b.multiplier')
M['m5-store-skipped-with-override']=rep(rep(twin,'		wait = b.nextInterval()\n','		wait = b.nextInterval()\n		b.notBefore = now.Add(wait)\n'),'	b.notBefore = now.Add(wait)\n	return wait\n}','	return wait\n}')
M['m6-shift-before-step']=rep(twin,'	b.multiplier = min(b.multiplier+1, maxMultiplier)\n	return time.Second << (b.multiplier - 1)','	iv := time.Second << (b.multiplier - 1)\n	b.multiplier = min(b.multiplier+1, maxMultiplier)\n	return iv')
M['m7-early-return-at-cap']=rep(twin,'		if override != nil {\n			if *override > wait {','		if b.multiplier >= maxMultiplier {\n			return wait\n		}\n		if override != nil {\n			if *override > wait {')
M['m8-stale-base']=rep(twin,'	b.notBefore = now.Add(wait)\n	return wait','	b.notBefore = b.notBefore.Add(wait)\n	return wait')
M['m9-pending-ignored-without-override']=rep(twin,'if wait := b.notBefore.Sub(now); wait > 0 {','if wait := b.notBefore.Sub(now); wait > 0 && override != nil {')
M['m10-step-unguarded']=rep(twin,'b.multiplier = min(b.multiplier+1, maxMultiplier)','b.multiplier = b.multiplier + 1')
head=twin[:twin.index('func (b *backoff) set(')]
tail=twin[twin.index('func (b *backoff) decreaseMultiplier()'):]
B={}
B['b1-remaining-early-returns']=head+'''func (b *backoff) set(override *time.Duration) time.Duration {
	b.mu.Lock()
	defer b.mu.Unlock()
	now := time.Now()
	remaining := time.Until(b.notBefore)
	if remaining <= 0 {
		interval := b.intervalFor(override)
		b.notBefore = now.Add(interval)
		return interval
	}
	if override == nil || *override <= remaining {
		return remaining
	}
	b.notBefore = now.Add(*override)
	return *override
}

func (b *backoff) intervalFor(override *time.Duration) time.Duration {
	if override != nil {
		return *override
	}
	if b.multiplier != maxMultiplier {
		b.multiplier++
	}
	return (1 << (b.multiplier - 1)) * time.Second
}

'''+tail
B['b2-single-store-target']=head+'''func (b *backoff) set(override *time.Duration) time.Duration {
	b.mu.Lock()
	defer b.mu.Unlock()
	now := time.Now()
	target := b.notBefore
	if !now.Before(target) {
		var wait time.Duration
		if override != nil {
			wait = *override
		} else {
			b.multiplier++
			if b.multiplier > maxMultiplier {
				b.multiplier = maxMultiplier
			}
			wait = time.Second << (b.multiplier - 1)
		}
		target = now.Add(wait)
	} else if override != nil {
		if candidate := now.Add(*override); candidate.Compare(target) > 0 {
			target = candidate
		}
	}
	b.notBefore = target
	return target.Sub(now)
}

'''+tail
B['b3-since-negated']=head+'''func (b *backoff) set(override *time.Duration) time.Duration {
	b.mu.Lock()
	defer b.mu.Unlock()
	if overdue := time.Since(b.notBefore); overdue >= 0 {
		wait := b.fresh(override)
		b.notBefore = time.Now().Add(wait)
		return wait
	}
	if override != nil && time.Until(b.notBefore) < *override {
		b.notBefore = time.Now().Add(*override)
	}
	return time.Until(b.notBefore)
}

func (b *backoff) fresh(override *time.Duration) time.Duration {
	if override != nil {
		return *override
	}
	if b.multiplier <= maxMultiplier-1 {
		b.multiplier += 1
	}
	return time.Duration(int64(time.Second) << (b.multiplier - 1))
}

'''+tail
for name,src in list(M.items())+list(B.items()):
    os.makedirs('w/jsonclient',exist_ok=True)
    open('w/jsonclient/backoff.go','w').write(src)
    subprocess.run(['gofmt','-l','w/jsonclient/backoff.go'],check=True)
    d=subprocess.run(['diff','-u','--label','a/jsonclient/backoff.go','--label','b/jsonclient/backoff.go','/repo/jsonclient/backoff.go','w/jsonclient/backoff.go'],capture_output=True,text=True).stdout
    open(name+'.diff','w').write(d)
print(len(M),len(B))
