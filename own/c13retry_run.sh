#!/bin/bash
# usage: own/c13retry_run.sh [binary]  — applies each variant of own/c13retry_variants.py (v* = defects, must be reported by C13;
# b* = benign re-shapings, all 20 checks must stay silent) to a copy of the REPAIRED tree (/repo + findings/C13-retry-after-forms/fix.diff)
export GOFLAGS=-mod=mod GOPROXY=off GOSUMDB=off GOTOOLCHAIN=local; unset GOWORK
W=${W:-$(cd $(dirname $0)/.. && pwd)}; BIN=${1:-$W/bin/ctverif}; V=$W/mut/v
mkdir -p $V/home $W/mut/repaired; cp $W/known_findings.json $V/home/
rsync -a --delete --exclude .git /repo/ $W/mut/repaired/
(cd $W/mut/repaired && git init -q . 2>/dev/null; git apply $W/findings/C13-retry-after-forms/fix.diff) || { echo "fix.diff does not apply"; exit 1; }
rsync -a --delete --exclude .git $W/mut/repaired/ $V/repo/
for n in $(python3 $W/own/c13retry_variants.py list x x); do
  python3 $W/own/c13retry_variants.py $n $W/mut/repaired/jsonclient/client.go $V/repo/jsonclient/client.go || continue
  if ! (cd $V/repo && gofmt -l jsonclient | grep -q . ; go build ./jsonclient/ 2>&1 | head -3 | grep -q .); then :; fi
  if ! (cd $V/repo && go build ./jsonclient/ >/dev/null 2>&1); then echo "$n: DOES NOT COMPILE"; (cd $V/repo && go build ./jsonclient/ 2>&1 | head -3); continue; fi
  case $n in
    v*) out=$(CTVERIF_REPO=$V/repo CTVERIF_HOME=$V/home /verif/tools/throttle $BIN check C13 2>&1);;
    b*) out=$(CTVERIF_REPO=$V/repo CTVERIF_HOME=$V/home /verif/tools/throttle $BIN checkall 2>&1);;
  esac
  nv=$(echo "$out" | grep -c '^VIOLATION')
  echo "$n: $nv violation(s)  $(echo "$out" | grep 'rule=' | sed 's/.*key=\([^ ]*\) at [^:]*:[^:]*: \(.*\)/\1 — \2/' | cut -c1-330 | head -4 | tr '\n' '|')"
done
