#!/bin/bash
# runs every own/*.diff through the C13 check (mutants must be reported, b* must be silent under all 20 checks)
export GOFLAGS=-mod=mod GOPROXY=off GOSUMDB=off GOTOOLCHAIN=local; unset GOWORK
W=/tmp/dev6/c13; export CTVERIF_BIN=$W/bin/ctverif VERIF=$W
for f in ${@:-$W/own/*.diff}; do
  n=$(basename $f .diff)
  out=$(MUT_DIR=$W/mut3 MUT_LINES=400 $W/tools/mut.sh C13 $f 2>&1)
  echo "== $n: $(echo "$out" | grep -m1 'quick:' | sed 's/, [0-9]* functions.*//')"
  echo "$out" | grep -e 'DOES NOT COMPILE' -e 'rule=' | cut -c1-420 | sort -u | head -6
  case $n in b*)
    (cd $W/mut3/repo && go test -count=1 ./jsonclient 2>&1 | tail -1)
    CTVERIF_REPO=$W/mut3/repo CTVERIF_HOME=$W/mut3/home /verif/tools/throttle $CTVERIF_BIN checkall 2>&1 | grep -c ' 0 violations' ;;
  esac
done
