#!/usr/bin/env python3
# own variants (defects, must be reported) and benign re-shapings (must stay silent) of the REPAIRED jsonclient/client.go
import sys
CLAMP='b := time.Duration(min(max(int64(seconds), -maxRetryAfterSeconds), maxRetryAfterSeconds)) * time.Second'
LOOP='''						for _, layout := range []string{time.RFC1123, time.RFC850, time.ANSIC} {
							if date, err := time.Parse(layout, retryAfter); err == nil {
								b := time.Until(date)
								backoff = &b
								break
							}
						}
'''
V={
# ---- defects
'v01-upper-clamp-dropped': [(CLAMP,'b := time.Duration(max(int64(seconds), -maxRetryAfterSeconds)) * time.Second')],
'v02-bound-too-large': [('const maxRetryAfterSeconds = int64(math.MaxInt64 / time.Second)','const maxRetryAfterSeconds = int64(math.MaxInt64 / time.Millisecond)')],
'v03-clamp-cuts-short': [('const maxRetryAfterSeconds = int64(math.MaxInt64 / time.Second)','const maxRetryAfterSeconds = int64(math.MaxInt16)')],
'v04-narrowing-conversion': [(CLAMP,'b := time.Duration(int32(seconds)) * time.Second')],
'v05-clamp-after-the-product': [(CLAMP,'b := time.Duration(seconds) * time.Second\n\t\t\t\t\t\tif b > time.Duration(maxRetryAfterSeconds)*time.Second {\n\t\t\t\t\t\t\tb = time.Duration(maxRetryAfterSeconds) * time.Second\n\t\t\t\t\t\t}')],
'v06-asctime-dropped': [('[]string{time.RFC1123, time.RFC850, time.ANSIC}','[]string{time.RFC1123, time.RFC850}')],
'v07-rfc822-for-rfc850': [('[]string{time.RFC1123, time.RFC850, time.ANSIC}','[]string{time.RFC1123, time.RFC822, time.ANSIC}')],
'v08-break-after-first-layout': [('''								backoff = &b
								break
							}
''','''								backoff = &b
							}
							break
''')],
'v09-part-of-the-table': [('range []string{time.RFC1123, time.RFC850, time.ANSIC} {','range []string{time.RFC1123, time.RFC850, time.ANSIC}[:1] {')],
'v10-local-time-asctime': [('time.Parse(layout, retryAfter)','time.ParseInLocation(layout, retryAfter, time.Local)')],
'v11-decode-straight-into-rsp': [('if err := json.Unmarshal(body, tmp.Interface()); err != nil {','if err := json.Unmarshal(body, rsp); err != nil {')],
'v12-commit-although-decode-failed': [('''	if err := json.Unmarshal(body, tmp.Interface()); err != nil {
		return err
	}
	dst.Elem().Set(tmp.Elem())
	return nil''','''	err := json.Unmarshal(body, tmp.Interface())
	dst.Elem().Set(tmp.Elem())
	return err''')],
'v13-rsp-never-filled': [('	dst.Elem().Set(tmp.Elem())\n	return nil','	return nil')],
'v14-errrange-taken-for-unparsable': [('err == nil || errors.Is(err, strconv.ErrRange) {','err == nil {')],
'v15-errrange-compared-by-identity': [('err == nil || errors.Is(err, strconv.ErrRange) {','err == nil || err == strconv.ErrRange {')],
# ---- benign
'b07-range-test-in-a-local': [('if seconds, err := strconv.Atoi(retryAfter); err == nil || errors.Is(err, strconv.ErrRange) {','seconds, err := strconv.Atoi(retryAfter)\n\t\t\t\t\ttooLarge := errors.Is(err, strconv.ErrRange) // Atoi has returned the nearest int\n\t\t\t\t\tif err == nil || tooLarge {')],
'b01-clamp-in-place-if-chain': [(CLAMP,'''b := time.Duration(seconds)
						if b > time.Duration(maxRetryAfterSeconds) {
							b = time.Duration(maxRetryAfterSeconds)
						} else if b < -time.Duration(maxRetryAfterSeconds) {
							b = -time.Duration(maxRetryAfterSeconds)
						}
						b *= time.Second''')],
'b02-parsetime-then-rfc1123': [('					} else {\n'+'						// An HTTP date comes in one of three formats, and a recipient\n						// has to accept them all (RFC 7231 Section 7.1.1.1).\n'+LOOP+'					}\n','''					} else if date, err := http.ParseTime(retryAfter); err == nil {
						b := time.Until(date)
						backoff = &b
					} else if date, err := time.Parse(time.RFC1123, retryAfter); err == nil {
						// RFC 1123 with a zone other than GMT
						b := time.Until(date)
						backoff = &b
					}
''')],
'b03-index-loop-package-table': [('const maxJitter = 250 * time.Millisecond\n','const maxJitter = 250 * time.Millisecond\n\nvar httpDateLayouts = []string{time.RFC1123, time.RFC850, time.ANSIC}\n'),
   (LOOP,'''						for i := 0; i < len(httpDateLayouts); i++ {
							date, err := time.Parse(httpDateLayouts[i], retryAfter)
							if err != nil {
								continue
							}
							wait := time.Until(date)
							backoff = &wait
							break
						}
''')],
'b04-date-helper': [(LOOP,'''						if date, err := parseHTTPDate(retryAfter); err == nil {
							b := time.Until(date)
							backoff = &b
						}
'''),('// unmarshalInto decodes body','''// parseHTTPDate parses a date in any of the three formats of RFC 7231 Section 7.1.1.1.
func parseHTTPDate(s string) (time.Time, error) {
	for _, layout := range [...]string{time.RFC1123, time.RFC850, time.ANSIC} {
		if t, err := time.Parse(layout, s); err == nil {
			return t, nil
		}
	}
	return time.Time{}, fmt.Errorf("not an HTTP date: %q", s)
}

// unmarshalInto decodes body''')],
'b05-switch-clamp-one-local': [(CLAMP,'''var b time.Duration
						switch s := int64(seconds); {
						case s > maxRetryAfterSeconds:
							b = math.MaxInt64
						case s < 0:
							b = 0
						default:
							b = time.Duration(s) * time.Second
						}''')],
'b06-commit-via-indirect': [('''	tmp := reflect.New(dst.Type().Elem())
	tmp.Elem().Set(dst.Elem())
	if err := json.Unmarshal(body, tmp.Interface()); err != nil {
		return err
	}
	dst.Elem().Set(tmp.Elem())
	return nil''','''	scratch := reflect.New(dst.Type().Elem())
	reflect.Indirect(scratch).Set(reflect.Indirect(dst))
	err := json.Unmarshal(body, scratch.Interface())
	if err == nil {
		reflect.Indirect(dst).Set(reflect.Indirect(scratch))
	}
	return err''')],
}
name,src,dst=sys.argv[1],sys.argv[2],sys.argv[3]
if name=='list':
    print(' '.join(sorted(V))); sys.exit(0)
s=open(src).read()
for a,b in V[name]:
    if a not in s:
        print('PATTERN NOT FOUND in',name,':',a[:60]); sys.exit(2)
    s=s.replace(a,b)
open(dst,'w').write(s)
