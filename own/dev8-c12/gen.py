#!/usr/bin/env python3
"""Own mutants (m*) and benign re-shapings (b*) of the round-8 C12 twins.
Each item = a twin patch + textual edits; writes <name>.diff (relative to /repo) next to this file.
usage: gen.py            (regenerate all diffs; needs /repo and a scratch dir $W/mut2)"""
import os, subprocess, shutil, sys
HERE = os.path.dirname(os.path.abspath(__file__))
W = os.path.dirname(os.path.dirname(HERE))
TI = os.path.join(W, 'benign7/C12/twin-i/patch.diff')
TJ = os.path.join(W, 'benign7/C12/twin-j/patch.diff')
LC, SER, SIG = 'client/logclient.go', 'serialization.go', 'signatures.go'

SEEN = '''	return last != nil && c.Verifier != nil && *c.Verifier == c.lastVerifier &&
		last.Version == sth.Version && last.TreeSize == sth.TreeSize && last.Timestamp == sth.Timestamp &&
		last.SHA256RootHash == sth.SHA256RootHash && last.LogID == sth.LogID &&
		last.TreeHeadSignature.Algorithm == sth.TreeHeadSignature.Algorithm &&
		bytes.Equal(last.TreeHeadSignature.Signature, sth.TreeHeadSignature.Signature)
'''
VERIFY = '''	if err := c.VerifySTHSignature(*sth); err != nil {
		return nil, RspError{Err: err, StatusCode: httpRsp.StatusCode, Body: body}
	}
	c.rememberSTH(sth)
	return sth, nil
'''
ITEMS = [
 # ---- twin-j: behaviour-breaking
 ('j-m1-key-without-timestamp', TJ, [(LC, ' && last.Timestamp == sth.Timestamp &&', ' &&')]),
 ('j-m2-key-without-signature-bytes', TJ, [(LC, '''Algorithm == sth.TreeHeadSignature.Algorithm &&
		bytes.Equal(last.TreeHeadSignature.Signature, sth.TreeHeadSignature.Signature)''', '''Algorithm == sth.TreeHeadSignature.Algorithm &&
		len(last.TreeHeadSignature.Signature) == len(sth.TreeHeadSignature.Signature)''')]),
 ('j-m3-key-without-verifier', TJ, [(LC, ' && *c.Verifier == c.lastVerifier &&', ' &&')]),
 ('j-m4-fill-before-verification', TJ, [(LC, VERIFY, '''	c.rememberSTH(sth)
	if err := c.VerifySTHSignature(*sth); err != nil {
		return nil, RspError{Err: err, StatusCode: httpRsp.StatusCode, Body: body}
	}
	return sth, nil
''')]),
 ('j-m5-record-shares-signature-bytes', TJ, [(LC, '''	verified.TreeHeadSignature.Signature = bytes.Clone(sth.TreeHeadSignature.Signature)
''', '')]),
 ('j-m6-fill-without-lock', TJ, [(LC, '''	verified.TreeHeadSignature.Signature = bytes.Clone(sth.TreeHeadSignature.Signature)
	c.mu.Lock()
	defer c.mu.Unlock()
''', '''	verified.TreeHeadSignature.Signature = bytes.Clone(sth.TreeHeadSignature.Signature)
''')]),
 ('j-m7-fill-forgets-verifier', TJ, [(LC, 'c.lastSTH, c.lastVerifier = &verified, *c.Verifier', 'c.lastSTH = &verified')]),
 ('j-m8-key-hash-algorithm-only', TJ, [(LC, 'last.TreeHeadSignature.Algorithm == sth.TreeHeadSignature.Algorithm &&', 'last.TreeHeadSignature.Algorithm.Hash == sth.TreeHeadSignature.Algorithm.Hash &&')]),
 ('j-m9-size-or-timestamp', TJ, [(LC, 'last.TreeSize == sth.TreeSize && last.Timestamp == sth.Timestamp &&', '(last.TreeSize == sth.TreeSize || last.Timestamp == sth.Timestamp) &&')]),
 ('j-m10-fill-on-rejection-too', TJ, [(LC, VERIFY, '''	err = c.VerifySTHSignature(*sth)
	c.rememberSTH(sth)
	if err != nil {
		return nil, RspError{Err: err, StatusCode: httpRsp.StatusCode, Body: body}
	}
	return sth, nil
''')]),
 ('j-m11-verifier-by-pointer', TJ, [
   (LC, 'lastVerifier ct.SignatureVerifier // the verifier (key) it passed under', 'lastVerifier *ct.SignatureVerifier // the verifier (key) it passed under'),
   (LC, '*c.Verifier == c.lastVerifier &&', 'c.Verifier == c.lastVerifier &&'),
   (LC, 'c.lastSTH, c.lastVerifier = &verified, *c.Verifier', 'c.lastSTH, c.lastVerifier = &verified, c.Verifier')]),
 ('j-m12-remembers-another-head', TJ, [(LC, '	verified := *sth\n', '	verified := *sth\n	verified.Timestamp = 0\n')]),
 # ---- twin-j: benign
 ('j-b1-key-without-log-id', TJ, [(LC, ' && last.LogID == sth.LogID &&', ' &&')]),
 ('j-b2-hit-test-written-out', TJ, [(LC, '''	if c.seenSTH(sth) {
		return sth, nil
	}
''', '''	c.mu.Lock()
	last, lastV := c.lastSTH, c.lastVerifier
	c.mu.Unlock()
	if v := c.Verifier; last != nil && v != nil && *v == lastV &&
		bytes.Equal(last.TreeHeadSignature.Signature, sth.TreeHeadSignature.Signature) &&
		last.TreeHeadSignature.Algorithm == sth.TreeHeadSignature.Algorithm &&
		last.SHA256RootHash == sth.SHA256RootHash && last.Timestamp == sth.Timestamp &&
		last.TreeSize == sth.TreeSize && last.Version == sth.Version {
		return sth, nil
	}
'''), (LC, '''// seenSTH reports whether sth is, field for field and signature included, the
// head that was verified last, and the verifier is still the one it passed under.
func (c *LogClient) seenSTH(sth *ct.SignedTreeHead) bool {
	c.mu.Lock()
	defer c.mu.Unlock()
	last := c.lastSTH
''' + SEEN + '''}

''', '')]),
 ('j-b3-one-return-for-both-ways', TJ, [(LC, '''	if c.seenSTH(sth) {
		return sth, nil
	}
''' + VERIFY, '''	if !c.seenSTH(sth) {
		if err := c.VerifySTHSignature(*sth); err != nil {
			return nil, RspError{Err: err, StatusCode: httpRsp.StatusCode, Body: body}
		}
		c.rememberSTH(sth)
	}
	return sth, nil
''')]),
 ('j-b4-if-chain-split-algorithm', TJ, [(LC, SEEN, '''	if last == nil || c.Verifier == nil {
		return false
	}
	if *c.Verifier != c.lastVerifier {
		return false
	}
	if !bytes.Equal(last.TreeHeadSignature.Signature, sth.TreeHeadSignature.Signature) {
		return false
	}
	sameAlg := last.TreeHeadSignature.Algorithm.Hash == sth.TreeHeadSignature.Algorithm.Hash &&
		last.TreeHeadSignature.Algorithm.Signature == sth.TreeHeadSignature.Algorithm.Signature
	if !sameAlg {
		return false
	}
	return last.Timestamp == sth.Timestamp && last.TreeSize == sth.TreeSize &&
		last.SHA256RootHash == sth.SHA256RootHash && last.Version == sth.Version
''')]),
 ('j-b5-clone-by-append-reset-on-failure', TJ, [
   (LC, 'bytes.Clone(sth.TreeHeadSignature.Signature)', 'append([]byte(nil), sth.TreeHeadSignature.Signature...)'),
   (LC, '''	if err := c.VerifySTHSignature(*sth); err != nil {
		return nil, RspError{Err: err, StatusCode: httpRsp.StatusCode, Body: body}
	}
	c.rememberSTH(sth)''', '''	if err := c.VerifySTHSignature(*sth); err != nil {
		c.mu.Lock()
		c.lastSTH = nil
		c.mu.Unlock()
		return nil, RspError{Err: err, StatusCode: httpRsp.StatusCode, Body: body}
	}
	c.rememberSTH(sth)''')]),
 # ---- twin-i: behaviour-breaking
 ('i-m1-precert-extensions-from-leaf', TI, [(SER, '''			input.PrecertEntry = &PreCert{''', '''			input.Extensions = te.Extensions
			input.PrecertEntry = &PreCert{''')]),
 ('i-m2-signed-extensions-empty', TI, [(SER, '''			Extensions:    sct.Extensions,
''', '')]),
 ('i-m3-wrapper-clears-extensions', TI, [(LC, '''	return c.Verifier.VerifySCTSignature(sct, ct.LogEntry{Leaf: *leaf})''', '''	sct.Extensions = leaf.TimestampedEntry.Extensions
	return c.Verifier.VerifySCTSignature(sct, ct.LogEntry{Leaf: *leaf})''')]),
 ('i-m4-verifier-overrides-extensions', TI, [(SIG, '''	sctData, err := SerializeSCTSignatureInput(sct, entry)''', '''	sct.Extensions = entry.Leaf.TimestampedEntry.Extensions
	sctData, err := SerializeSCTSignatureInput(sct, entry)''')]),
 ('i-m5-entry-without-leaf', TI, [(LC, 'ct.LogEntry{Leaf: *leaf})', 'ct.LogEntry{Index: int64(len(leaf.TimestampedEntry.Extensions))})')]),
 ('i-m6-leaf-extensions-of-other-origin', None, [(LC, 'leaf.TimestampedEntry.Extensions = sct.Extensions', 'leaf.TimestampedEntry.Extensions = nil'),
   (SER, '			Extensions:    sct.Extensions,', '			Extensions:    entry.Leaf.TimestampedEntry.Extensions,')]),
 # ---- twin-i: benign
 ('i-b1-serializer-half-only', None, [(SER, '''		input := CertificateTimestamp{
			SCTVersion:    sct.SCTVersion,
			SignatureType: CertificateTimestampSignatureType,
			Timestamp:     sct.Timestamp,
			EntryType:     entry.Leaf.TimestampedEntry.EntryType,
			Extensions:    sct.Extensions,
		}''', '''		te := entry.Leaf.TimestampedEntry
		ext := sct.Extensions
		input := CertificateTimestamp{
			SCTVersion:    sct.SCTVersion,
			SignatureType: CertificateTimestampSignatureType,
			Timestamp:     sct.Timestamp,
			EntryType:     te.EntryType,
		}
		input.Extensions = ext''')]),
 ('i-b2-entry-built-stepwise', TI, [(LC, '''	return c.Verifier.VerifySCTSignature(sct, ct.LogEntry{Leaf: *leaf})''', '''	var entry ct.LogEntry
	entry.Leaf = *leaf
	verifier := c.Verifier
	return verifier.VerifySCTSignature(sct, entry)''')]),
 ('i-b3-serializer-behind-helper', TI, [(SIG, '''	sctData, err := SerializeSCTSignatureInput(sct, entry)
	if err != nil {
		return err
	}
	return s.VerifySignature(sctData, tls.DigitallySigned(sct.Signature))''', '''	sctData, err := sctSignedBytes(sct, entry)
	if err != nil {
		return err
	}
	return s.VerifySignature(sctData, tls.DigitallySigned(sct.Signature))
}

func sctSignedBytes(sct SignedCertificateTimestamp, entry LogEntry) ([]byte, error) {
	return SerializeSCTSignatureInput(sct, entry)''')]),
]

def main():
    scratch = os.path.join(W, 'mut2', 'gen')
    for name, base, edits in ITEMS:
        if len(sys.argv) > 1 and name not in sys.argv[1:]:
            continue
        shutil.rmtree(scratch, ignore_errors=True)
        os.makedirs(scratch)
        files = set(f for f, _, _ in edits)
        if base:
            for line in open(base):
                if line.startswith('+++ b/'):
                    files.add(line[6:].strip())
        for f in files:
            os.makedirs(os.path.dirname(os.path.join(scratch, f)) or scratch, exist_ok=True)
            shutil.copy(os.path.join('/repo', f), os.path.join(scratch, f))
        if base:
            subprocess.run(['patch', '-p1', '-s', '-i', base], cwd=scratch, check=True)
        for f, old, new in edits:
            p = os.path.join(scratch, f)
            s = open(p).read()
            if s.count(old) != 1:
                sys.exit('%s: edit of %s matches %d times: %r' % (name, f, s.count(old), old[:60]))
            open(p, 'w').write(s.replace(old, new))
        out = ''
        for f in sorted(files):
            subprocess.run(['gofmt', '-w', os.path.join(scratch, f)], check=True)
            r = subprocess.run(['diff', '-u', '--label', 'a/' + f, '--label', 'b/' + f, os.path.join('/repo', f), os.path.join(scratch, f)], capture_output=True, text=True)
            if r.stdout:
                out += 'diff --git a/%s b/%s\n' % (f, f) + r.stdout
        open(os.path.join(HERE, name + '.diff'), 'w').write(out)
        print('wrote', name)
    shutil.rmtree(scratch, ignore_errors=True)

main()
