#!/bin/bash
# usage: run.sh [name-prefix ...]   — applies each own/dev8-c12/<name>.diff to a scratch copy of /repo, builds it,
# and runs the C12 check (m*: expects a violation) or all 20 checks (b*: expects silence).
export GOFLAGS=-mod=mod GOPROXY=off GOSUMDB=off GOTOOLCHAIN=local; unset GOWORK
HERE=$(cd $(dirname $0) && pwd); W=$(cd $HERE/../.. && pwd); BIN=${CTVERIF_BIN:-$W/bin/ctverif}
M=$W/mut2; S=$M/repo; mkdir -p $M/home; cp -f $W/known_findings.json $M/home/
for d in $HERE/*.diff; do
  n=$(basename $d .diff)
  if [ $# -gt 0 ]; then hit=0; for p in "$@"; do case $n in $p*) hit=1;; esac; done; [ $hit = 1 ] || continue; fi
  rsync -a --delete --exclude .git /repo/ $S/
  (cd $S && patch -p1 -s < $d) || { echo "$n: PATCH DOES NOT APPLY"; continue; }
  (cd $S && go build ./... && go vet ./client/ . >/dev/null 2>&1) || { echo "$n: DOES NOT COMPILE / VET"; continue; }
  case $n in
    *-m*) out=$(CTVERIF_REPO=$S CTVERIF_HOME=$M/home /verif/tools/throttle $BIN check C12 2>&1)
          echo "$n: $(echo "$out" | grep -c '^VIOLATION') violation(s)"; echo "$out" | grep 'rule=' | sed 's/^ *rule=[^ ]* key=\([^ ]*\) at \([^ ]*\) \(.*\)/    \1 @\2 \3/' | cut -c1-${COLS:-330};;
    *)    out=$(CTVERIF_REPO=$S CTVERIF_HOME=$M/home /verif/tools/throttle $BIN checkall 2>&1)
          echo "$n: $(echo "$out" | grep -c '^VIOLATION') violation(s) in $(echo "$out" | grep -c ' quick: ') checks"; echo "$out" | grep 'rule=' | cut -c1-${COLS:-400};;
  esac
done
