# the memo key no longer holds the timestamp (field stays zero on both sides)
s = s.replace("\t\ttimestamp: sth.Timestamp,\n", "")
