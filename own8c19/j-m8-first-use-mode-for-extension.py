# the verified extension is stored under the first-use condition (no comparison with the held bytes)
s = s.replace("return w.storeAndSign(ctx, logID, prevRaw, nextRaw, next)", "return w.storeAndSign(ctx, logID, nil, nextRaw, next)")
