# the row read in the transaction is not compared with what was checked (only its presence is)
s = s.replace("\tcase prevRaw == nil || !bytes.Equal(curRaw, prevRaw):", "\tcase prevRaw == nil || curRaw == nil:")
