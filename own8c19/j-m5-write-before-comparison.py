# the write is issued before the row is compared (and committed by setSTH)
old = "\tif err := w.setSTH(tx, logID, sthRaw); err != nil {\n\t\treturn nil, fmt.Errorf(\"failed to store new STH: %v\", err)\n\t}\n"
assert old in s
s = s.replace(old, "")
s = s.replace("\tcurRaw, err := w.getLatestSTH(tx.QueryRow, logID)\n", "\tcurRaw, err := w.getLatestSTH(tx.QueryRow, logID)\n" + old.replace("if err :=", "if err :=").replace("err := w.setSTH", "serr := w.setSTH").replace("; err != nil", "; serr != nil").replace("%v\", err)", "%v\", serr)"))
