# the row is compared with the candidate instead of the held bytes
s = s.replace("!bytes.Equal(curRaw, prevRaw)", "bytes.Equal(curRaw, sthRaw)")
