#!/bin/bash
# usage: run.sh <twin: i|j> <edit.py> [C19|ALL]   — /repo + benign7/C19/twin-<t> + python edit (s = s.replace(...)) of witness.go
export GOFLAGS=-mod=mod GOPROXY=off GOSUMDB=off GOTOOLCHAIN=local; unset GOWORK
W=${W:-/tmp/dev8/c19}; t=$1; edit=$2; prop=${3:-C19}; name=$(basename $edit .py)
F=internal/witness/cmd/witness/internal/witness/witness.go
M=$W/mut/own-$name; mkdir -p $M/home; rsync -a --delete --exclude .git /repo/ $M/repo/
(cd $M/repo && patch -p1 -s < $W/benign7/C19/twin-$t/patch.diff) || exit 3
python3 - "$M/repo/$F" "$edit" <<'PY' || exit 5
import sys
p, e = sys.argv[1], sys.argv[2]
s = open(p).read(); s0 = s
g = {'s': s}
exec(open(e).read(), g)
s = g['s']
assert s != s0, "edit changed nothing"
open(p, 'w').write(s)
PY
(cd $M/repo && gofmt -l internal/witness >/dev/null; go build ./internal/witness/... && go vet ./internal/witness/cmd/witness/internal/witness/ ) || { echo "$name: DOES NOT COMPILE"; exit 4; }
cp -f $W/known_findings.json $M/home/
if [ $prop = ALL ]; then
  out=$(CTVERIF_REPO=$M/repo CTVERIF_HOME=$M/home /verif/tools/throttle $W/bin/ctverif checkall 2>&1); echo "$out" | grep -e rule= | cut -c1-${CUT:-420}; echo "$name: $(echo "$out" | grep -c " quick: .* 0 violations") of 20 checks clean"
else
  CTVERIF_REPO=$M/repo CTVERIF_HOME=$M/home /verif/tools/throttle $W/bin/ctverif check $prop 2>&1 | grep -e quick -e rule= | cut -c1-${CUT:-420}
fi
rm -rf $M
