# a lost race is answered with a nil error
s = s.replace("\t\tif err != errLatestChanged {\n\t\t\treturn signed, err\n\t\t}", "\t\tif err == errLatestChanged {\n\t\t\terr = nil\n\t\t}\n\t\treturn signed, err")
