# the refresh is decided before the roots are compared: a fork of equal size with a later timestamp is stored
a = s.index("\t\tif !bytes.Equal(next.SHA256RootHash[:], prev.SHA256RootHash[:]) {")
b = s.index("\t\tif next.Timestamp <= prev.Timestamp {")
c = s.index("\t\treturn signed, nil\n\t}\n\t// The only remaining option")
roots = s[a:b]
refresh = s[b:c] + "\t\treturn signed, nil\n"
# refresh when later, otherwise the old equal-size answers
new = "\t\tif next.Timestamp > prev.Timestamp {\n" + refresh.replace("\t\tif next.Timestamp <= prev.Timestamp {\n\t\t\t// If it's identical to the previous one do nothing.\n\t\t\treturn prevRaw, nil\n\t\t}\n", "").replace("\n\t\t", "\n\t\t\t").replace("\t\t// The log", "\t\t\t// The log", 1) + "\t\t}\n" + roots + "\t\treturn prevRaw, nil\n"
s = s[:a] + new + s[c + len("\t\treturn signed, nil\n"):]
