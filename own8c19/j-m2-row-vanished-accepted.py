# no row in the transaction is accepted whatever the decision was made on
s = s.replace("\tcase status.Code(err) == codes.NotFound:\n\t\tif prevRaw != nil {\n\t\t\treturn nil, errLatestChanged\n\t\t}\n", "\tcase status.Code(err) == codes.NotFound:\n")
