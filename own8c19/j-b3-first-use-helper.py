# first use gets its own helper without a prevRaw parameter
s = s.replace("return w.storeAndSign(ctx, logID, nil, nextRaw, next)", "return w.storeFirst(ctx, logID, nextRaw, next)")
s = s.replace("// storeAndSign makes sthRaw the latest STH", '''// storeFirst stores the first STH of a log, provided there still is none.
func (w *Witness) storeFirst(ctx context.Context, logID string, sthRaw []byte, sth *ct.SignedTreeHead) ([]byte, error) {
	tx, err := w.db.BeginTx(ctx, nil)
	if err != nil {
		return nil, fmt.Errorf("couldn't create db tx: %v", err)
	}
	defer func() {
		if err := tx.Rollback(); err != nil && err != sql.ErrTxDone {
			klog.Errorf("Rollback(): %v", err)
		}
	}()
	if _, err := w.getLatestSTH(tx.QueryRow, logID); err == nil {
		return nil, errLatestChanged
	} else if status.Code(err) != codes.NotFound {
		return nil, fmt.Errorf("couldn't retrieve latest STH: %w", err)
	}
	if err := w.setSTH(tx, logID, sthRaw); err != nil {
		return nil, fmt.Errorf("failed to store new STH: %v", err)
	}
	signed, err := w.signSTH(sth)
	if err != nil {
		return nil, fmt.Errorf("failed to sign new STH: %v", err)
	}
	return signed, nil
}

// storeAndSign makes sthRaw the latest STH''')
