# setSTH: a failed commit no longer returns
s = s.replace("\tif err := tx.Commit(); err != nil {\n\t\treturn err\n\t}", "\tif err := tx.Commit(); err != nil {\n\t\tklog.Errorf(\"commit: %v\", err)\n\t}")
