# the memo is written without the mutex
s = s.replace("\tw.mu.Lock()\n\tw.held[logID] = headOf(sth)\n\tw.mu.Unlock()\n", "\tw.held[logID] = headOf(sth)\n")
