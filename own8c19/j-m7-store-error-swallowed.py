# a failed store is only logged; the cosigned STH is returned
s = s.replace("\tif err := w.setSTH(tx, logID, sthRaw); err != nil {\n\t\treturn nil, fmt.Errorf(\"failed to store new STH: %v\", err)\n\t}", "\tif err := w.setSTH(tx, logID, sthRaw); err != nil {\n\t\tklog.Errorf(\"failed to store new STH: %v\", err)\n\t}")
