# the second read does not go through the transaction
s = s.replace("curRaw, err := w.getLatestSTH(tx.QueryRow, logID)", "curRaw, err := w.getLatestSTH(w.db.QueryRow, logID)")
