# a failed store of the re-issue is only logged: the cosigned STH is returned although nothing was stored
s = s.replace("\t\t\treturn nil, fmt.Errorf(\"failed to store refreshed STH: %v\", err)\n", "\t\t\tklog.Errorf(\"failed to store refreshed STH: %v\", err)\n")
