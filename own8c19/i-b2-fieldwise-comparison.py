# the entry is compared field by field
s = s.replace("return ok && h == headOf(sth)", "return ok && h.size == sth.TreeSize && h.root == sth.SHA256RootHash && h.timestamp == sth.Timestamp && h.version == sth.Version && h.sigAlgo == sth.TreeHeadSignature.Algorithm && h.sig == string(sth.TreeHeadSignature.Signature)")
