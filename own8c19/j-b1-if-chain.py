# compare-and-set as an if chain, operands exchanged
a = s.index("\tswitch {\n\tcase status.Code(err) == codes.NotFound:")
b = s.index("\tif err := w.setSTH(tx, logID, sthRaw); err != nil {")
new = '''	if err != nil {
		if status.Code(err) != codes.NotFound {
			return nil, fmt.Errorf("couldn't retrieve latest STH: %w", err)
		}
		if prevRaw != nil {
			return nil, errLatestChanged
		}
	} else if unchanged := prevRaw != nil && bytes.Equal(prevRaw, curRaw); !unchanged {
		return nil, errLatestChanged
	}
'''
s = s[:a] + new + s[b:]
