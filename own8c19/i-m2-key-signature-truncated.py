# the signature component of the key is not the signature (non-injective: a prefix)
s = s.replace("sig:       string(sth.TreeHeadSignature.Signature),", "sig:       string(sth.TreeHeadSignature.Signature[:0]),")
