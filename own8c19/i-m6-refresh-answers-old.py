# after storing the re-issue the old STH is answered, not the cosigned new one
s = s.replace("\t\t\treturn nil, fmt.Errorf(\"failed to sign refreshed STH: %v\", err)\n\t\t}\n\t\treturn signed, nil", "\t\t\treturn nil, fmt.Errorf(\"failed to sign refreshed STH: %v\", err)\n\t\t}\n\t\t_ = signed\n\t\treturn prevRaw, nil")
