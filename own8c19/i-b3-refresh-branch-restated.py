# refresh branch: positive test, one exit for the no-op
old_a = s.index("\t\tif next.Timestamp <= prev.Timestamp {")
old_b = s.index("\t\treturn signed, nil\n\t}\n\t// The only remaining option") + len("\t\treturn signed, nil\n")
new = '''		if fresher := next.Timestamp > prev.Timestamp; fresher {
			// The log has re-issued the STH for an unchanged tree.
			if err := w.setSTH(tx, logID, nextRaw, next); err != nil {
				return nil, fmt.Errorf("failed to store refreshed STH: %v", err)
			}
			cosigned, err := w.signSTH(next)
			if err != nil {
				return nil, fmt.Errorf("failed to sign refreshed STH: %v", err)
			}
			return cosigned, nil
		}
		return prevRaw, nil
'''
s = s[:old_a] + new + s[old_b:]
