# isHeld written out in parse, no defer
old = "\tif w.isHeld(logID, &sth) {\n\t\treturn &sth, nil\n\t}\n"
new = "\tw.mu.Lock()\n\tlast, known := w.held[logID]\n\tw.mu.Unlock()\n\tif known && last == headOf(&sth) {\n\t\treturn &sth, nil\n\t}\n"
assert old in s
s = s.replace(old, new)
a = s.index("// isHeld reports whether")
b = s.index("// GetLogs returns")
s = s[:a] + s[b:]
