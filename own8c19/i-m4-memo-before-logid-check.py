# fast path taken before the log-ID agreement test
old = "\tif w.isHeld(logID, &sth) {\n\t\treturn &sth, nil\n\t}\n"
assert old in s
s = s.replace(old, "")
s = s.replace("\tvar empty ct.SHA256Hash\n", old + "\tvar empty ct.SHA256Hash\n")
