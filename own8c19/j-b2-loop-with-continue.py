s = s.replace("\t\tif err != errLatestChanged {\n\t\t\treturn signed, err\n\t\t}", "\t\tif err == errLatestChanged {\n\t\t\tcontinue\n\t\t}\n\t\treturn signed, err")
