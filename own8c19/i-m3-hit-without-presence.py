# a miss of the map counts as a hit
s = s.replace("return ok && h == headOf(sth)", "return !ok || h == headOf(sth)")
