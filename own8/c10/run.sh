#!/bin/bash
# usage: run.sh <name> <prop> <base patch> <edit.py>   — apply base patch to a copy of /repo, run edit.py (cwd = copy), check
export GOFLAGS=-mod=mod GOPROXY=off GOSUMDB=off GOTOOLCHAIN=local; unset GOWORK
W=/tmp/dev8/c10; M=$W/mut2; S=$M/repo; mkdir -p $M/home
name=$1; prop=$2; base=$3; edit=$4
rsync -a --delete --exclude .git /repo/ $S/
(cd $S && patch -p1 -s < $base) || { echo "$name: BASE DOES NOT APPLY"; exit 3; }
cp -r $S $M/base.$$ 
(cd $S && python3 $edit) || { echo "$name: EDIT FAILED"; rm -rf $M/base.$$; exit 3; }
(cd $M && diff -ru base.$$ repo > $W/own8/$name.diff); rm -rf $M/base.$$
[ -s $W/own8/$name.diff ] || { echo "$name: EDIT CHANGED NOTHING"; exit 3; }
(cd $S && gofmt -l asn1 x509 >/dev/null && go build ./... ) || { echo "$name: DOES NOT COMPILE"; exit 4; }
(cd $S && go vet ./asn1/ >/dev/null 2>&1) || echo "$name: (vet complains)"
cp -f /verif/known_findings.json $M/home/ 2>/dev/null
if [ "$prop" = ALL ]; then
  out=$(CTVERIF_REPO=$S CTVERIF_HOME=$M/home /verif/tools/throttle $W/bin/ctverif checkall 2>&1)
else
  out=$(CTVERIF_REPO=$S CTVERIF_HOME=$M/home /verif/tools/throttle $W/bin/ctverif check $prop 2>&1)
fi
n=$(echo "$out" | grep -c '^VIOLATION')
echo "== $name: $n violation(s)"
echo "$out" | grep 'rule=' | cut -c1-${CUT:-330} | head -${LINES_MAX:-6}
