import sys; sys.path.insert(0,"/tmp/dev8/c10/own8"); from sub import sub
sub("asn1/common.go","\tfields := make([]fieldParameters, t.NumField())\n\tfor i := range fields {","\tfields := make([]fieldParameters, t.NumField())\n\tfor i := range fields[1:] {")
