import sys; sys.path.insert(0,"/tmp/dev8/c10/own8"); from sub import sub
sub("asn1/common.go","func (p fieldParameters) elementParameters() fieldParameters {","func elementParameters(p fieldParameters) fieldParameters {"); sub("asn1/asn1.go","params.elementParameters()","elementParameters(params)")
