#!/usr/bin/env python3
# Own mutants (m*) and benign re-shapings (b*) of benign7/C16/twin-j: each is an edit of the twin's
# scanner/fetcher.go; the patch written is against /repo (twin + edit).
import os, subprocess, sys, shutil
W = os.environ.get('W', '/tmp/dev8/c16')
here = os.path.dirname(os.path.abspath(__file__))
tw = os.path.join(W, 'mut', 'tw')
shutil.rmtree(tw, ignore_errors=True)
os.makedirs(os.path.join(tw, 'scanner'))
shutil.copy('/repo/scanner/fetcher.go', os.path.join(tw, 'scanner', 'fetcher.go'))
subprocess.check_call(['patch', '-p1', '-s', '-i', os.path.join(W, 'benign7/C16/twin-j/patch.diff')], cwd=tw)
twin = open(os.path.join(tw, 'scanner', 'fetcher.go')).read()

FLUSH_ERR = '''				if len(entries) > 0 {
					fn(EntryBatch{Start: r.start, Entries: entries})
					r.start = next
					entries = make([]ct.LeafEntry, 0, r.end-r.start+1)
				}
'''
assert FLUSH_ERR in twin

def rep(old, new, count=1):
    def f(s):
        assert s.count(old) >= 1, old
        return s.replace(old, new, count)
    return f

def chain(*fs):
    def f(s):
        for g in fs:
            s = g(s)
        return s
    return f

edits = {
 # ---- behaviour-breaking ---------------------------------------------------------------------
 'm01-flush-keeps-label': ('after a failure the collected part is handed over but r.start is not moved on: the next batch is labelled with the old start',
    rep('					r.start = next\n', '')),
 'm02-flush-keeps-entries': ('after the hand-over on failure the slice is not renewed: the same entries are handed over again',
    rep('					r.start = next\n					entries = make([]ct.LeafEntry, 0, r.end-r.start+1)\n', '					r.start = next\n')),
 'm03-flush-reuses-backing-array': ('after the hand-over on failure the slice is emptied in place: the next responses overwrite the batch the consumer holds',
    rep('					entries = make([]ct.LeafEntry, 0, r.end-r.start+1)\n', '					entries = entries[:0]\n')),
 'm04-cursor-from-last-response': ('the cursor is recomputed from the last response only',
    rep('next = r.start + int64(len(entries))', 'next = r.start + int64(len(resp.Entries))')),
 'm05-no-final-handover': ('the batch of a completed range is never handed over',
    rep('		fn(EntryBatch{Start: r.start, Entries: entries})\n	}\n}', '	}\n}')),
 'm06-final-label-from-end': ('the completed range is labelled r.end - len(entries): one index too low',
    rep('		fn(EntryBatch{Start: r.start, Entries: entries})\n	}\n}', '		fn(EntryBatch{Start: r.end - int64(len(entries)), Entries: entries})\n	}\n}')),
 'm07-cancel-label-is-cursor': ('on cancellation the collected part is labelled with the cursor',
    rep('					fn(EntryBatch{Start: r.start, Entries: entries})\n				}\n				return', '					fn(EntryBatch{Start: next, Entries: entries})\n				}\n				return')),
 'm08-prepend': ('a response is put in front of what was collected',
    rep('entries = append(entries, resp.Entries...)', 'entries = append(resp.Entries, entries...)')),
 'm09-label-moved-without-handover': ('on failure the label is moved on and the slice renewed, but the collected part is not handed over',
    rep('					fn(EntryBatch{Start: r.start, Entries: entries})\n					r.start = next\n', '					r.start = next\n')),
 'm10-exclusive-bound': ('the loop stops one index early',
    rep('for next := r.start; next <= r.end; {', 'for next := r.start; next < r.end; {')),
 'm11-seed-shape-drop-without-rewind': ('the seed: collected entries dropped on failure, cursor left where it was',
    rep(FLUSH_ERR, '				entries = entries[:0]\n')),
 'm12-response-of-failed-request-collected': ('after a failed request, whatever the response variable holds is collected as well',
    rep('				if len(entries) > 0 {\n					fn(EntryBatch{Start: r.start, Entries: entries})\n					r.start = next\n', '				if resp != nil {\n					entries = append(entries, resp.Entries...)\n				}\n				if len(entries) > 0 {\n					fn(EntryBatch{Start: r.start, Entries: entries})\n					r.start = next\n')),
 'm13-off-by-one-start': ('the first request of a range starts one index late',
    rep('for next := r.start; next <= r.end; {', 'for next := r.start + 1; next <= r.end; {')),
 'm14-handover-only-first-on-failure': ('on failure only the first collected entry is handed over',
    rep('					fn(EntryBatch{Start: r.start, Entries: entries})\n					r.start = next\n', '					fn(EntryBatch{Start: r.start, Entries: entries[:1]})\n					r.start = next\n')),
 # ---- benign re-shapings -----------------------------------------------------------------------
 'b01-cursor-incremented': ('next += len(response) instead of recomputing it from the slice',
    rep('next = r.start + int64(len(entries))', 'next += int64(len(resp.Entries))')),
 'b02-count-kept-separately': ('a separate counter of collected entries drives the cursor',
    chain(rep('		entries := make([]ct.LeafEntry, 0, r.end-r.start+1)\n', '		entries := make([]ct.LeafEntry, 0, r.end-r.start+1)\n		var got int64\n'),
          rep('					r.start = next\n', '					r.start = next\n					got = 0\n'),
          rep('			next = r.start + int64(len(entries))\n', '			got += int64(len(resp.Entries))\n			next = r.start + got\n'))),
 'b03-drop-and-refetch': ('the one-line alternative: on failure the collected part is dropped and the cursor rewound to the start of the batch',
    rep(FLUSH_ERR, '				entries = entries[:0]\n				next = r.start\n')),
 'b04-nil-slice': ('the collecting slice starts out nil and is reset to nil',
    chain(rep('		entries := make([]ct.LeafEntry, 0, r.end-r.start+1)\n', '		var entries []ct.LeafEntry\n'),
          rep('					entries = make([]ct.LeafEntry, 0, r.end-r.start+1)\n', '					entries = nil\n'))),
 'b05-resp-hoisted-temporaries': ('response variable declared once per range, batch built in a temporary, label read into a local',
    chain(rep('		entries := make([]ct.LeafEntry, 0, r.end-r.start+1)\n', '		entries := make([]ct.LeafEntry, 0, r.end-r.start+1)\n		var resp *ct.GetEntriesResponse\n'),
          rep('			var resp *ct.GetEntriesResponse\n', ''),
          rep('		fn(EntryBatch{Start: r.start, Entries: entries})\n	}\n}', '		first := r.start\n		whole := EntryBatch{Entries: entries}\n		whole.Start = first\n		fn(whole)\n	}\n}'))),
 'b06-no-handover-on-cancel': ('on cancellation the worker just returns (the property does not ask for the fetched part once cancelled)',
    rep('				if len(entries) > 0 { // Do not lose what has been fetched already.\n					fn(EntryBatch{Start: r.start, Entries: entries})\n				}\n				return', '				return')),
 'b07-label-variable': ('the label of the batch under construction lives in a local of its own instead of r.start',
    chain(rep('		entries := make([]ct.LeafEntry, 0, r.end-r.start+1)\n		for next := r.start; next <= r.end; {', '		entries := make([]ct.LeafEntry, 0, r.end-r.start+1)\n		first := r.start\n		for next := first; next <= r.end; {'),
          rep('					fn(EntryBatch{Start: r.start, Entries: entries})\n				}\n				return', '					fn(EntryBatch{Start: first, Entries: entries})\n				}\n				return'),
          rep('					fn(EntryBatch{Start: r.start, Entries: entries})\n					r.start = next\n					entries = make([]ct.LeafEntry, 0, r.end-r.start+1)\n', '					fn(EntryBatch{Start: first, Entries: entries})\n					first = next\n					entries = make([]ct.LeafEntry, 0, r.end-first+1)\n'),
          rep('			next = r.start + int64(len(entries))\n', '			next = first + int64(len(entries))\n'),
          rep('		fn(EntryBatch{Start: r.start, Entries: entries})\n	}\n}', '		fn(EntryBatch{Start: first, Entries: entries})\n	}\n}'))),
 'b08-handover-each-response-too': ('mixed: a complete first response is handed over at once, only short reads are collected',
    rep('			entries = append(entries, resp.Entries...)\n			next = r.start + int64(len(entries))\n',
        '			if len(entries) == 0 && next+int64(len(resp.Entries)) > r.end {\n				fn(EntryBatch{Start: next, Entries: resp.Entries})\n				r.start = next + int64(len(resp.Entries))\n				next = r.start\n				continue\n			}\n			entries = append(entries, resp.Entries...)\n			next = r.start + int64(len(entries))\n')),
 'b09-handover-helper': ('the three hand-overs go through a small method that skips empty batches',
    chain(rep('				if len(entries) > 0 { // Do not lose what has been fetched already.\n					fn(EntryBatch{Start: r.start, Entries: entries})\n				}\n				return', '				f.handOver(fn, r.start, entries) // Do not lose what has been fetched already.\n				return'),
          rep('				if len(entries) > 0 {\n					fn(EntryBatch{Start: r.start, Entries: entries})\n					r.start = next\n', '				if len(entries) > 0 {\n					f.handOver(fn, r.start, entries)\n					r.start = next\n'),
          rep('		fn(EntryBatch{Start: r.start, Entries: entries})\n	}\n}', '		f.handOver(fn, r.start, entries)\n	}\n}\n\n// handOver passes a non-empty run of entries starting at index start to fn.\nfunc (f *Fetcher) handOver(fn func(EntryBatch), start int64, entries []ct.LeafEntry) {\n	if len(entries) == 0 {\n		return\n	}\n	fn(EntryBatch{Start: start, Entries: entries})\n}'))),
 'b10-range-loop-in-helper': ('the loop that works one range off moves into fetchWholeRange(ctx, r, fn) bool',
    chain(rep('	for r := range ranges {\n		// Logs MAY return fewer', '	for r := range ranges {\n		if !f.fetchWholeRange(ctx, r, fn) {\n			return\n		}\n	}\n}\n\n// fetchWholeRange fetches the range r and hands it to fn; false: the context was cancelled.\nfunc (f *Fetcher) fetchWholeRange(ctx context.Context, r fetchRange, fn func(EntryBatch)) bool {\n	{\n		// Logs MAY return fewer'),
          rep('					fn(EntryBatch{Start: r.start, Entries: entries})\n				}\n				return', '					fn(EntryBatch{Start: r.start, Entries: entries})\n				}\n				return false'),
          rep('		fn(EntryBatch{Start: r.start, Entries: entries})\n	}\n}', '		fn(EntryBatch{Start: r.start, Entries: entries})\n	}\n	return true\n}'))),
}

only = sys.argv[1:]
for name, (what, f) in sorted(edits.items()):
    if only and name not in only:
        continue
    out = f(twin)
    d = os.path.join(tw, 'm'); shutil.rmtree(d, ignore_errors=True); os.makedirs(os.path.join(d, 'a/scanner')); os.makedirs(os.path.join(d, 'b/scanner'))
    shutil.copy('/repo/scanner/fetcher.go', os.path.join(d, 'a/scanner/fetcher.go'))
    open(os.path.join(d, 'b/scanner/fetcher.go'), 'w').write(out)
    p = subprocess.run(['diff', '-u', 'a/scanner/fetcher.go', 'b/scanner/fetcher.go'], cwd=d, capture_output=True, text=True)
    open(os.path.join(here, name + '.diff'), 'w').write('# ' + what + '\n' + p.stdout)
print('\n'.join(sorted(edits)))
