#!/bin/bash
# usage: run.sh [name ...]   — m*: the check of C16 must report it; b*: all 20 checks silent
. /tmp/dev8/c16/mut/env.sh
cd $(dirname $0)
names="$*"; [ -z "$names" ] && names=$(ls *.diff | sed 's/.diff$//')
for n in $names; do
  out=$(MUT_DIR=$W/mut MUT_LINES=40 $W/tools/mut.sh C16 $PWD/$n.diff 2>&1)
  if echo "$out" | grep -q 'DOES NOT COMPILE\|^patch'; then echo "$n: DOES NOT COMPILE/APPLY"; echo "$out" | head -5; continue; fi
  case $n in
  m*) k=$(echo "$out" | grep -m1 'rule=' | sed 's/.*key=\([^ ]*\) at.*/\1/'); nv=$(echo "$out" | grep -c '^VIOLATION')
      if [ -n "$k" ]; then echo "$n: reported ($nv) $k"; else echo "$n: MISSED"; fi
      echo "$out" | grep 'rule=' | cut -c1-900 > $W/mut/last-$n.txt ;;
  b*) all=$(CTVERIF_REPO=$W/mut/repo CTVERIF_HOME=$W/mut/home /verif/tools/throttle $CTVERIF_BIN checkall 2>&1)
      nv=$(echo "$all" | grep -c '^VIOLATION'); nq=$(echo "$all" | grep -c ' quick: ')
      if [ "$nv" = 0 ] && [ "$nq" = 20 ]; then echo "$n: silent (20 checks)"; else echo "$n: ALARM ($nv) $(echo "$all" | grep -m1 'rule=' | cut -c1-600)"; fi ;;
  esac
done
