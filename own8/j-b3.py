import sys; sys.path.insert(0,"/tmp/dev8/c10/own8"); from sub import sub
sub("asn1/common.go","\tfor i := range fields {","\tfor i := 0; i < t.NumField(); i++ {")
