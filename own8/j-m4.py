import sys; sys.path.insert(0,"/tmp/dev8/c10/own8"); from sub import sub
sub("asn1/asn1.go","\t\t\tinnerParams := fieldParams[i]\n","\t\t\tinnerParams := fieldParams[0]\n")
