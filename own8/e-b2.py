import sys; sys.path.insert(0,"/tmp/dev8/c10/own8"); from sub import sub
sub("asn1/asn1.go","\tif numElements == 0 {","\tif 0 == numElements {")
