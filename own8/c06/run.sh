#!/bin/bash
# runs every own mutant (m*: expect a violation of its own property naming the clause) and benign re-shaping
# (b*: expect all 20 checks silent).  usage: run.sh [pattern]   env: W (tree), CTVERIF_BIN
export GOFLAGS=-mod=mod GOPROXY=off GOSUMDB=off GOTOOLCHAIN=local; unset GOWORK
W=${W:-$(cd $(dirname $0)/../.. && pwd)}; BIN=${CTVERIF_BIN:-$W/bin/ctverif}
D=$W/own8/c06; M=$W/mut/own
for p in $D/${1:-*}.diff; do
  n=$(basename $p .diff); mkdir -p $M/home; rsync -a --delete --exclude .git /repo/ $M/repo/
  (cd $M/repo && patch -p1 -s < $p) || { echo "$n: PATCH DOES NOT APPLY"; continue; }
  (cd $M/repo && go build ./trillian/... ) || { echo "$n: DOES NOT COMPILE"; continue; }
  cp -f $W/known_findings.json $M/home/
  case $n in
   m0*|m1*) props="C06";; m2[1-5]*) props="C08";; m2*) props="C06";; *) props=ALL;;
  esac
  if [ "$props" = ALL ]; then
    out=$(CTVERIF_REPO=$M/repo CTVERIF_HOME=$M/home /verif/tools/throttle $BIN checkall 2>&1)
    if echo "$out" | grep -q '^VIOLATION'; then echo "$n: ALARM  $(echo "$out" | grep -m3 'rule=' | cut -c1-260)"; elif [ "$(echo "$out" | grep -c ' quick: ')" = 20 ]; then echo "$n: silent (20 checks)"; else echo "$n: CHECKER DID NOT COMPLETE"; fi
  else
    out=$(CTVERIF_REPO=$M/repo CTVERIF_HOME=$M/home /verif/tools/throttle $BIN check $props 2>&1)
    echo "$n [$props]: $(echo "$out" | grep -c '^VIOLATION') violation(s)"; echo "$out" | grep 'rule=' | cut -c1-330 | sed 's/^/     /'
  fi
done
