#!/usr/bin/env python3
"""Own mutants / benign re-shapings of the twins benign7/C06/twin-j and benign7/C08/twin-j (round 8).
Each item: the twin is applied to trillian/ctfe/sth.go of /repo, then one edit (exact text replacement);
the result is written as a patch against /repo:  <name>.diff.  m* = behaviour-breaking, b* = benign."""
import subprocess, os, sys, tempfile, shutil
W = os.path.dirname(os.path.dirname(os.path.dirname(os.path.abspath(__file__))))
F = 'trillian/ctfe/sth.go'

def twin(which):
    d = tempfile.mkdtemp()
    os.makedirs(os.path.join(d, 'trillian/ctfe'))
    shutil.copy(os.path.join('/repo', F), os.path.join(d, F))
    subprocess.check_call(['patch', '-p1', '-s', '-d', d, '-i', os.path.join(W, 'benign7', which, 'twin-j', 'patch.diff')])
    s = open(os.path.join(d, F)).read()
    shutil.rmtree(d)
    return s

def emit(name, text):
    d = tempfile.mkdtemp()
    for side in ('a', 'b'):
        os.makedirs(os.path.join(d, side, 'trillian/ctfe'))
    shutil.copy(os.path.join('/repo', F), os.path.join(d, 'a', F))
    open(os.path.join(d, 'b', F), 'w').write(text)
    p = subprocess.run(['diff', '-u', os.path.join('a', F), os.path.join('b', F)], cwd=d, capture_output=True, text=True)
    open(os.path.join(os.path.dirname(os.path.abspath(__file__)), name + '.diff'), 'w').write(p.stdout)
    shutil.rmtree(d)

def edit(s, pairs):
    for old, new in pairs:
        assert s.count(old) == 1, (old, s.count(old))
        s = s.replace(old, new)
    return s

T6 = twin('C06')
T8 = twin('C08')

HIT = 'if l := sg.latest; l != nil && l.TreeSize == sth.TreeSize && l.Timestamp == sth.Timestamp && l.SHA256RootHash == sth.SHA256RootHash {'
items = {
 # ---- C06 twin: remembered last tree head ----
 'm01-key-without-timestamp': (T6, [(HIT, 'if l := sg.latest; l != nil && l.TreeSize == sth.TreeSize && l.SHA256RootHash == sth.SHA256RootHash {')]),
 'm02-key-without-roothash': (T6, [(HIT, 'if l := sg.latest; l != nil && l.TreeSize == sth.TreeSize && l.Timestamp == sth.Timestamp {')]),
 'm03-timestamp-inclusive-bound': (T6, [(HIT, HIT.replace('l.Timestamp == sth.Timestamp', 'l.Timestamp <= sth.Timestamp'))]),
 'm04-remembered-before-sign-check': (T6, [
     ('\terr = signV1TreeHead(sg.li.signer, sth, &sg.cache)\n\tif err != nil || len(sth.TreeHeadSignature.Signature) == 0 {',
      '\terr = signV1TreeHead(sg.li.signer, sth, &sg.cache)\n\tlatest := *sth\n\tsg.latest = &latest\n\tif err != nil || len(sth.TreeHeadSignature.Signature) == 0 {'),
     ('\t// Remember a copy: the caller owns the one we return.\n\tlatest := *sth\n\tsg.latest = &latest\n', '')]),
 'm05-copy-taken-before-signing': (T6, [
     ('\t// Add the signature over the STH contents.\n\terr = signV1TreeHead', '\tlatest := *sth\n\t// Add the signature over the STH contents.\n\terr = signV1TreeHead'),
     ('\t// Remember a copy: the caller owns the one we return.\n\tlatest := *sth\n\tsg.latest = &latest\n', '\tsg.latest = &latest\n')]),
 'm06-remembered-on-signer-error-only-checked-empty': (T6, [
     ('\tif err != nil || len(sth.TreeHeadSignature.Signature) == 0 {\n\t\treturn nil, fmt.Errorf("failed to sign tree head: %v", err)\n\t}\n\t// Remember',
      '\tif err != nil {\n\t\treturn nil, fmt.Errorf("failed to sign tree head: %v", err)\n\t}\n\t// Remember'),
     ('\tsg.latest = &latest\n\n\treturn sth, nil', '\tsg.latest = &latest\n\tif len(sth.TreeHeadSignature.Signature) == 0 {\n\t\treturn nil, fmt.Errorf("failed to sign tree head: %v", err)\n\t}\n\n\treturn sth, nil')]),
 'm07-no-lock': (T6, [('\tsg.mu.Lock()\n\tdefer sg.mu.Unlock()\n', '')]),
 'm10-remembered-modified-in-place': (T6, [('\tlatest := *sth\n\tsg.latest = &latest\n', '\tlatest := *sth\n\tsg.latest = &latest\n\tsg.latest.Timestamp = sth.Timestamp / 1000 * 1000\n')]),
 'm11-empty-tree-returned-unsigned': (T6, [('\t// Clients poll far more often', '\tif sth.TreeSize == 0 {\n\t\treturn sth, nil\n\t}\n\t// Clients poll far more often')]),
 'm12-hit-tested-before-root-hash-is-copied': (T6, [
     ('\t// Note: The size was checked in getSignedLogRoot.\n\tcopy(sth.SHA256RootHash[:], currentRoot.RootHash)\n', ''),
     ('\t// Add the signature over the STH contents.\n', '\t// Note: The size was checked in getSignedLogRoot.\n\tcopy(sth.SHA256RootHash[:], currentRoot.RootHash)\n\t// Add the signature over the STH contents.\n')]),
 'b05-compare-with-the-root-values': (T6, [(HIT, 'if l := sg.latest; l != nil && l.TreeSize == uint64(currentRoot.TreeSize) && l.Timestamp == uint64(currentRoot.TimestampNanos/1000/1000) && l.SHA256RootHash == sth.SHA256RootHash {')]),
 'b01-explicit-unlock': (T6, [
     ('\tsg.mu.Lock()\n\tdefer sg.mu.Unlock()\n', '\tsg.mu.Lock()\n'),
     ('\t\tsth.TreeHeadSignature = l.TreeHeadSignature\n\t\treturn sth, nil', '\t\tsth.TreeHeadSignature = l.TreeHeadSignature\n\t\tsg.mu.Unlock()\n\t\treturn sth, nil'),
     ('\tif err != nil || len(sth.TreeHeadSignature.Signature) == 0 {\n\t\treturn nil,', '\tif err != nil || len(sth.TreeHeadSignature.Signature) == 0 {\n\t\tsg.mu.Unlock()\n\t\treturn nil,'),
     ('\tsg.latest = &latest\n', '\tsg.latest = &latest\n\tsg.mu.Unlock()\n')]),
 'b02-compare-reordered-and-flipped': (T6, [(HIT, 'if l := sg.latest; l != nil && sth.SHA256RootHash == l.SHA256RootHash && !(sth.Timestamp != l.Timestamp) && sth.TreeSize == l.TreeSize {')]),
 'b04-nested-ifs-and-bytes-equal': (T6, [
     (HIT + '\n\t\tsth.TreeHeadSignature = l.TreeHeadSignature\n\t\treturn sth, nil\n\t}',
      'if l := sg.latest; l != nil {\n\t\tif l.TreeSize == sth.TreeSize && l.Timestamp == sth.Timestamp {\n\t\t\tif bytes.Equal(l.SHA256RootHash[:], sth.SHA256RootHash[:]) {\n\t\t\t\tsth.TreeHeadSignature = l.TreeHeadSignature\n\t\t\t\treturn sth, nil\n\t\t\t}\n\t\t}\n\t}'),
     ('import (\n\t"context"', 'import (\n\t"bytes"\n\t"context"')]),
 # ---- C08 twin: coalesced fetches of the root ----
 'm21-waiter-bare-context-error': (T8, [('return nil, status.FromContextError(ctx.Err()).Err()', 'return nil, ctx.Err()'), ('\t"google.golang.org/grpc/status"\n', '')]),
 'm22-waiter-formatted-context-error': (T8, [('return nil, status.FromContextError(ctx.Err()).Err()', 'return nil, fmt.Errorf("waiting for the log root: %w", ctx.Err())'), ('\t"google.golang.org/grpc/status"\n', '')]),
 'm23-waiter-context-error-as-internal': (T8, [('return nil, status.FromContextError(ctx.Err()).Err()', 'return nil, status.Error(codes.Internal, ctx.Err().Error())'), ('\t"google.golang.org/grpc/status"\n', '\t"google.golang.org/grpc/codes"\n\t"google.golang.org/grpc/status"\n')]),
 'm24-shared-error-rebuilt': (T8, [('f.root, f.err, f.shared = root, err, true', 'f.root, f.shared = root, true\n\t\tif err != nil {\n\t\t\tf.err = fmt.Errorf("shared fetch of the log root failed: %v", err)\n\t\t}')]),
 'm25-leader-wraps-error': (T8, [('\treturn root, err\n}', '\tif err != nil {\n\t\treturn nil, fmt.Errorf("fetching the log root: %v", err)\n\t}\n\treturn root, nil\n}')]),
 'm26-reset-forgotten-on-success-exit': (T8, [
     ('\tdefer func() {\n\t\tsg.mu.Lock()\n\t\tsg.inflight = nil\n\t\tsg.mu.Unlock()\n\t\tclose(f.done)\n\t}()\n', '\tdefer close(f.done)\n'),
     ('\treturn root, err\n}', '\tif err != nil {\n\t\tsg.mu.Lock()\n\t\tsg.inflight = nil\n\t\tsg.mu.Unlock()\n\t\treturn nil, err\n\t}\n\treturn root, nil\n}')]),
 'm27-leader-fetches-for-tree-zero': (T8, [('\troot, err := getSignedLogRoot(ctx, sg.li.rpcClient, sg.li.logID, sg.li.LogPrefix)', '\troot, err := getSignedLogRoot(ctx, sg.li.rpcClient, 0, sg.li.LogPrefix)')]),
 'm28-shared-root-is-a-stale-copy': (T8, [('f.root, f.err, f.shared = root, err, true', 'f.root, f.err, f.shared = sg.lastRoot, err, true\n\t\tif err == nil {\n\t\t\tsg.lastRoot = root\n\t\t}'), ('\tinflight *rootFetch\n}', '\tinflight *rootFetch\n\tlastRoot *types.LogRootV1\n}')]),
 'b21-no-defer-explicit-reset': (T8, [
     ('\tdefer func() {\n\t\tsg.mu.Lock()\n\t\tsg.inflight = nil\n\t\tsg.mu.Unlock()\n\t\tclose(f.done)\n\t}()\n', ''),
     ('\treturn root, err\n}', '\tsg.mu.Lock()\n\tsg.inflight = nil\n\tsg.mu.Unlock()\n\tclose(f.done)\n\treturn root, err\n}')]),
 'b22-context-status-via-local': (T8, [('\t\t\treturn nil, status.FromContextError(ctx.Err()).Err()', '\t\t\tcerr := ctx.Err()\n\t\t\tst := status.FromContextError(cerr)\n\t\t\treturn nil, st.Err()')]),
 'b23-outcome-parked-then-returned': (T8, [
     ('\troot, err := getSignedLogRoot(ctx, sg.li.rpcClient, sg.li.logID, sg.li.LogPrefix)\n\tif err == nil || ctx.Err() == nil {\n\t\tf.root, f.err, f.shared = root, err, true\n\t}\n\treturn root, err\n}',
      '\tf.root, f.err = getSignedLogRoot(ctx, sg.li.rpcClient, sg.li.logID, sg.li.LogPrefix)\n\tf.shared = f.err == nil || ctx.Err() == nil\n\treturn f.root, f.err\n}')]),
}
for name, (base, pairs) in items.items():
    emit(name, edit(base, pairs))
print(len(items), 'patches written')
