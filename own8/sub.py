# helper: sub(file, old, new) exact replace once
import sys
def sub(path, old, new, count=1):
    s=open(path).read()
    if old not in s:
        print("PATTERN NOT FOUND in", path, ":", old[:60]); sys.exit(1)
    s=s.replace(old,new,count)
    open(path,'w').write(s)
