#!/usr/bin/env python3
# generates own8/<name>.diff: /repo + twin-j + one edit of the twin's shape (m* break a clause, b* are benign re-shapings)
import subprocess, os, sys
W = os.path.dirname(os.path.abspath(__file__))
work = os.path.join(W, 'work')
twin = open(os.path.join(work, 'twin.go')).read()

RESET = "\t\tcert = certificate{}\n"
edits = {
 # --- behaviour-breaking
 'm1-reset-after-decode': [(RESET, ""), ("\t\tasn1Data = rest\n\n\t\tif parseErr != nil {", "\t\tasn1Data = rest\n\t\tcert = certificate{}\n\n\t\tif parseErr != nil {")],
 'm2-partial-reset': [(RESET, "\t\tcert.TBSCertificate.Extensions = nil\n")],
 'm3-reset-only-before-lax-retry': [(RESET, ""), ("\t\t\tvar laxErr error\n\t\t\trest, laxErr = asn1.UnmarshalWithParams(asn1Data, &cert,", "\t\t\tvar laxErr error\n\t\t\tcert = certificate{}\n\t\t\trest, laxErr = asn1.UnmarshalWithParams(asn1Data, &cert,")],
 'm4-parseErr-not-returned': [("\tif parseErr != nil {\n\t\treturn nil, parseErr\n\t}\n", "")],
 'm5-conversion-warnings-dropped': [("\tnfe.Errors = append(nfe.Errors, parseNFE.Errors...)\n", "")],
 'm6-mark-cleared-by-later-round': [("\t\t\tnfe.AddError(err)\n\t\t}\n\t\tasn1Data = rest\n", "\t\t\tnfe.AddError(err)\n\t\t\tparseErr = nil\n\t\t}\n\t\tasn1Data = rest\n")],
 'm7-fatal-round-not-marked': [("\t\t\t\tparseErr = err\n\t\t\t\tcontinue\n", "\t\t\t\tcontinue\n")],
 # --- not counted either way: most likely equivalent (every field present in the bytes is overwritten by the lax pass)
 'x1-lax-into-cleared': [("\t\t\trest, laxErr = asn1.UnmarshalWithParams(asn1Data, &cert, \"lax\")", "\t\t\tcert = certificate{}\n\t\t\trest, laxErr = asn1.UnmarshalWithParams(asn1Data, &cert, \"lax\")")],
 # --- benign re-shapings
 'b1-fresh-by-declaration': [("\tvar cert certificate\n\tvar nfe, parseNFE", "\tvar nfe, parseNFE"), (RESET, "\t\tvar cert certificate\n")],
 'b2-nested-instead-of-continue': [(
"""		if parseErr != nil {
			// Only split the remaining input: a certificate that cannot be
			// split takes precedence over one that cannot be converted.
			continue
		}
		parsed, err := parseCertificate(&cert)
		if err != nil {
			errs, ok := err.(NonFatalErrors)
			if !ok {
				parseErr = err
				continue
			}
			parseNFE.Errors = append(parseNFE.Errors, errs.Errors...)
		}
		ret = append(ret, parsed)
	}
	if parseErr != nil {
		return nil, parseErr
	}

	// Report the splitting errors of all certificates before the conversion errors.
	nfe.Errors = append(nfe.Errors, parseNFE.Errors...)
	if nfe.HasError() {
		return ret, nfe
	}
	return ret, nil
""",
"""		if parseErr == nil {
			parsed, err := parseCertificate(&cert)
			if errs, ok := err.(NonFatalErrors); ok {
				parseNFE.Errors = append(parseNFE.Errors, errs.Errors...)
			} else if err != nil {
				parseErr = err
			}
			if parseErr == nil {
				ret = append(ret, parsed)
			}
		}
	}
	if parseErr == nil {
		// Report the splitting errors of all certificates before the conversion errors.
		nfe.Errors = append(nfe.Errors, parseNFE.Errors...)
		if nfe.HasError() {
			return ret, nfe
		}
		return ret, nil
	}
	return nil, parseErr
""")],
 'b3-heap-scratch-cleared-through-pointer': [("\tvar cert certificate\n\tvar nfe, parseNFE", "\tcert := new(certificate)\n\tvar nfe, parseNFE"), (RESET, "\t\t*cert = certificate{}\n"), ("&cert", "cert")],
 'b4-nil-appended-in-failed-round': [("\t\t\t\tparseErr = err\n\t\t\t\tcontinue\n", "\t\t\t\tparseErr = err\n")],
}
for name, reps in sorted(edits.items()):
    i, j = twin.index('func ParseCertificates('), twin.index('func reverseBitsInAByte(')
    s = twin[i:j]
    for old, new in reps:
        if old not in s:
            sys.exit(name + ': pattern not found: ' + old[:60])
        s = s.replace(old, new)
    s = twin[:i] + s + twin[j:]
    open(os.path.join(work, 'b/x509/x509.go'), 'w').write(s)
    subprocess.run(['gofmt', '-l', 'b/x509/x509.go'], cwd=work)
    out = subprocess.run(['diff', '-u', 'a/x509/x509.go', 'b/x509/x509.go'], cwd=work, capture_output=True, text=True).stdout
    open(os.path.join(W, name + '.diff'), 'w').write(out)
    print(name, len(out.splitlines()))
