#!/usr/bin/env python3
# Own mutants (m*) and benign re-shapings (b*) of benign7/C15/twin-j: each is /repo + twin + one edit, written as a patch against /repo.
import os, subprocess, sys
W = os.path.dirname(os.path.dirname(os.path.abspath(__file__)))
import shutil, tempfile
T = tempfile.mkdtemp(dir=W)
os.makedirs(os.path.join(T, 'base/trillian/ctfe')); os.makedirs(os.path.join(T, 'v/trillian/ctfe'))
shutil.copy('/repo/trillian/ctfe/sth.go', os.path.join(T, 'base/trillian/ctfe/sth.go'))
subprocess.run(['patch', '-p1', '-s', '-i', os.path.join(W, 'benign7/C15/twin-j/patch.diff')], cwd=os.path.join(T, 'base'), check=True)
base = open(os.path.join(T, 'base/trillian/ctfe/sth.go')).read()

FAST = '''	if last != nil && last.TreeSize == currentRoot.TreeSize {
		return copySTH(last), nil
	}
'''
READ = '''	sg.mu.Lock()
	last := sg.lastSTH
	sg.mu.Unlock()
'''
STORE = '''	sg.mu.Lock()
	sg.lastSTH = copySTH(sth)
	sg.mu.Unlock()
'''
LOOKUP = '''	sth, err := sg.st.GetMirrorSTH(ctx, int64(currentRoot.TreeSize)) // nolint:staticcheck
	if err != nil {
		return nil, err
	}
'''
def rep(s, a, b, n=1):
    assert s.count(a) >= 1, a
    return s.replace(a, b, n)

V = {}
V['m1-ge'] = rep(base, 'last.TreeSize == currentRoot.TreeSize', 'last.TreeSize >= currentRoot.TreeSize')
V['m2-swapped-le'] = rep(base, 'last.TreeSize == currentRoot.TreeSize', 'currentRoot.TreeSize <= last.TreeSize')
V['m3-revision-not-size'] = rep(base, 'last.TreeSize == currentRoot.TreeSize', 'last.TreeSize == currentRoot.Revision')
V['m4-test-then-reread'] = rep(rep(base, READ, '''	sg.mu.Lock()
	hit := sg.lastSTH != nil && sg.lastSTH.TreeSize == currentRoot.TreeSize
	sg.mu.Unlock()
'''), FAST, '''	if hit {
		sg.mu.Lock()
		last := sg.lastSTH
		sg.mu.Unlock()
		return copySTH(last), nil
	}
''')
V['m5-fill-before-error-check'] = rep(rep(base, STORE, ''), LOOKUP, '''	sth, err := sg.st.GetMirrorSTH(ctx, int64(currentRoot.TreeSize)) // nolint:staticcheck
	sg.mu.Lock()
	sg.lastSTH = copySTH(sth)
	sg.mu.Unlock()
	if err != nil {
		return nil, err
	}
''')
V['m6-store-without-lock'] = rep(base, STORE, '	sg.lastSTH = copySTH(sth)\n')
V['m7-one-ahead-tolerated'] = rep(base, 'last.TreeSize == currentRoot.TreeSize', 'last.TreeSize <= currentRoot.TreeSize+1')
V['m8-copy-rounds-size-up'] = rep(base, '	return &c\n}', '	c.TreeSize = (c.TreeSize + 255) &^ 255\n	return &c\n}')
V['b5-remembers-unbounded-lookup'] = rep(base, STORE, '''	newest, err := sg.st.GetMirrorSTH(ctx, int64(^uint64(0)>>1)) // nolint:staticcheck
	if err != nil {
		return nil, err
	}
	sg.mu.Lock()
	sg.lastSTH = copySTH(newest)
	sg.mu.Unlock()
''')
V['m10-read-without-lock'] = rep(base, READ, '	last := sg.lastSTH\n')

# benign re-shapings
V['b1-inverted-guard'] = rep(rep(rep(base, FAST, ''), LOOKUP, '''	if last == nil || last.TreeSize != currentRoot.TreeSize {
		sth, err := sg.st.GetMirrorSTH(ctx, int64(currentRoot.TreeSize)) // nolint:staticcheck
		if err != nil {
			return nil, err
		}
'''), STORE + '	return sth, nil\n', '''		sg.mu.Lock()
		sg.lastSTH = copySTH(sth)
		sg.mu.Unlock()
		return sth, nil
	}
	return copySTH(last), nil
''')
V['b2-accessors-with-defer'] = rep(rep(rep(base, READ, '	last := sg.remembered()\n'), STORE, '	sg.remember(sth)\n'),
  '// copySTH returns a copy', '''// remembered returns the STH most recently obtained from the storage, if any.
func (sg *MirrorSTHGetter) remembered() *ct.SignedTreeHead {
	sg.mu.Lock()
	defer sg.mu.Unlock()
	return sg.lastSTH
}

// remember records a private copy of an STH obtained from the storage.
func (sg *MirrorSTHGetter) remember(sth *ct.SignedTreeHead) {
	c := copySTH(sth)
	sg.mu.Lock()
	defer sg.mu.Unlock()
	sg.lastSTH = c
}

// copySTH returns a copy''')
V['b3-rwmutex-switch-local-size'] = rep(rep(rep(base, 'mu      sync.Mutex', 'mu      sync.RWMutex'), READ, '''	size := currentRoot.TreeSize
	sg.mu.RLock()
	last := sg.lastSTH
	sg.mu.RUnlock()
'''), FAST, '''	switch {
	case last == nil:
	case size == last.TreeSize:
		return copySTH(last), nil
	}
''').replace('GetMirrorSTH(ctx, int64(currentRoot.TreeSize))', 'GetMirrorSTH(ctx, int64(size))')
V['b4-copy-tested-and-served'] = rep(base, FAST, '''	if last != nil {
		if c := copySTH(last); c.TreeSize <= currentRoot.TreeSize && c.TreeSize >= currentRoot.TreeSize {
			return c, nil
		}
	}
''')

for name, src in sorted(V.items()):
    assert src != base, name
    p = os.path.join(T, 'v/trillian/ctfe/sth.go')
    open(p, 'w').write(src)
    d = subprocess.run(['diff', '-u', '--label', 'a/trillian/ctfe/sth.go', '--label', 'b/trillian/ctfe/sth.go', '/repo/trillian/ctfe/sth.go', p], capture_output=True, text=True).stdout
    open(os.path.join(W, 'own8', name + '.diff'), 'w').write(d)
shutil.rmtree(T)
print(len(V), 'variants written')
