#!/bin/bash
# runs every own8/*.diff: mutants (m*) through the C15 check, benign re-shapings (b*) through all 20 checks
export GOFLAGS=-mod=mod GOPROXY=off GOSUMDB=off GOTOOLCHAIN=local; unset GOWORK
W=$(cd $(dirname $0)/.. && pwd); export CTVERIF_BIN=$W/bin/ctverif VERIF=$W
for d in $W/own8/${1:-*}.diff; do
  n=$(basename $d .diff)
  out=$(MUT_DIR=$W/mut MUT_LINES=200 $W/tools/mut.sh C15 $d 2>&1)
  if echo "$out" | grep -q 'DOES NOT COMPILE'; then echo "$n: DOES NOT COMPILE"; echo "$out" | head -5; continue; fi
  case $n in
  b*) all=$(CTVERIF_REPO=$W/mut/repo CTVERIF_HOME=$W/mut/home /verif/tools/throttle $CTVERIF_BIN checkall 2>&1)
      nv=$(echo "$all" | grep -c '^VIOLATION'); nc=$(echo "$all" | grep -c ' quick: ')
      echo "$n: $nv violation(s) in $nc checks"; echo "$all" | grep -A1 '^VIOLATION' | grep 'rule=' | cut -c1-400;;
  *)  echo "$n: $(echo "$out" | grep -c '^VIOLATION') violation(s)"; echo "$out" | grep 'rule=' | cut -c1-420;;
  esac
done
