import sys; sys.path.insert(0,"/tmp/dev8/c10/own8"); from sub import sub
sub("asn1/common.go","\tcached, _ := structFieldsCache.LoadOrStore(t, fields)\n\treturn cached.([]fieldParameters)","\tstructFieldsCache.Store(t, fields)\n\treturn fields")
