import sys; sys.path.insert(0,"/tmp/dev8/c10/own8"); from sub import sub
sub("asn1/asn1.go","\t\tif invalidLength(offset, t.length, len(bytes)) {\n\t\t\terr = SyntaxError{\"truncated sequence\", params.name}\n\t\t\treturn\n\t\t}\n","")
