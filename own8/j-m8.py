import sys; sys.path.insert(0,"/tmp/dev8/c10/own8"); from sub import sub
sub("asn1/common.go","\t\treturn cached.([]fieldParameters)\n\t}\n\tfields :=","\t\treturn cached.([]fieldParameters)[:0]\n\t}\n\tfields :=")
