#!/bin/bash
# usage: run.sh [name-prefix ...]   — applies own8/<name>.diff to a scratch copy of /repo and runs the C11 check (m*, x*) or all checks (b*)
W=$(cd $(dirname $0)/.. && pwd)
export GOFLAGS=-mod=mod GOPROXY=off GOSUMDB=off GOTOOLCHAIN=local; unset GOWORK
export CTVERIF_BIN=${CTVERIF_BIN:-$W/bin/ctverif} VERIF=$W
for f in $W/own8/${1:-}*.diff; do
  n=$(basename $f .diff)
  echo "=== $n"
  case $n in
    b*) MUT_DIR=$W/mut MUT_LINES=1 $W/tools/mut.sh C11 $f >/dev/null
        CTVERIF_REPO=$W/mut/repo CTVERIF_HOME=$W/mut/home /verif/tools/throttle $CTVERIF_BIN checkall 2>&1 | grep -e 'rule=' -e 'COMPILE' -e 'panic' | cut -c1-400
        echo "checks clean: $(CTVERIF_REPO=$W/mut/repo CTVERIF_HOME=$W/mut/home /verif/tools/throttle $CTVERIF_BIN checkall 2>&1 | grep -c ' 0 violations')/20" ;;
    *)  MUT_DIR=$W/mut MUT_LINES=40 $W/tools/mut.sh C11 $f 2>&1 | grep -e 'rule=' -e 'quick' -e 'COMPILE' -e 'panic' | cut -c1-420 ;;
  esac
done
