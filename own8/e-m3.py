import sys; sys.path.insert(0,"/tmp/dev8/c10/own8"); from sub import sub
sub("asn1/asn1.go","\t\treturn reflect.MakeSlice(sliceType, 0, 0), nil","\t\treturn reflect.MakeSlice(sliceType, 0, 1), nil")
