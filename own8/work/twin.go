// Copyright 2009 The Go Authors. All rights reserved.
// Use of this source code is governed by a BSD-style
// license that can be found in the LICENSE file.

// Package x509 parses X.509-encoded keys and certificates.
//
// On UNIX systems the environment variables SSL_CERT_FILE and SSL_CERT_DIR
// can be used to override the system default locations for the SSL certificate
// file and SSL certificate files directory, respectively.
//
// This is a fork of the Go library crypto/x509 package, primarily adapted for
// use with Certificate Transparency.  Main areas of difference are:
//
//	Life as a fork:
//	- Rename OS-specific cgo code so it doesn't clash with main Go library.
//	- Use local library imports (asn1, pkix) throughout.
//	- Add version-specific wrappers for Go version-incompatible code (in
//	  ptr_*_windows.go).
//	Laxer certificate parsing:
//	- Add options to disable various validation checks (times, EKUs etc).
//	- Use NonFatalErrors type for some errors and continue parsing; this
//	  can be checked with IsFatal(err).
//	- Support for short bitlength ECDSA curves (in curves.go).
//	Certificate Transparency specific function:
//	- Parsing and marshaling of SCTList extension.
//	- RemoveSCTList() function for rebuilding CT leaf entry.
//	- Pre-certificate processing (RemoveCTPoison(), BuildPrecertTBS(),
//	  ParseTBSCertificate(), IsPrecertificate()).
//	Revocation list processing:
//	- Detailed CRL parsing (in revoked.go)
//	- Detailed error recording mechanism (in error.go, errors.go)
//	- Factor out parseDistributionPoints() for reuse.
//	- Factor out and generalize GeneralNames parsing (in names.go)
//	- Fix CRL commenting.
//	RPKI support:
//	- Support for SubjectInfoAccess extension
//	- Support for RFC3779 extensions (in rpki.go)
//	RSAES-OAEP support:
//	- Support for parsing RSASES-OAEP public keys from certificates
//	Ed25519 support:
//	- Support for parsing and marshaling Ed25519 keys
//	General improvements:
//	- Export and use OID values throughout.
//	- Export OIDFromNamedCurve().
//	- Export SignatureAlgorithmFromAI().
//	- Add OID value to UnhandledCriticalExtension error.
//	- Minor typo/lint fixes.
package x509

import (
	"bytes"
	"crypto"
	"crypto/dsa"
	"crypto/ecdsa"
	"crypto/elliptic"
	"crypto/rsa"
	_ "crypto/sha1"
	_ "crypto/sha256"
	_ "crypto/sha512"
	"encoding/pem"
	"errors"
	"fmt"
	"io"
	"math/big"
	"net"
	"net/url"
	"strconv"
	"strings"
	"time"
	"unicode/utf8"

	"golang.org/x/crypto/cryptobyte"
	cryptobyte_asn1 "golang.org/x/crypto/cryptobyte/asn1"
	"golang.org/x/crypto/ed25519"

	"github.com/google/certificate-transparency-go/asn1"
	"github.com/google/certificate-transparency-go/tls"
	"github.com/google/certificate-transparency-go/x509/pkix"
)

// pkixPublicKey reflects a PKIX public key structure. See SubjectPublicKeyInfo
// in RFC 3280.
type pkixPublicKey struct {
	Algo      pkix.AlgorithmIdentifier
	BitString asn1.BitString
}

// ParsePKIXPublicKey parses a public key in PKIX, ASN.1 DER form.
//
// It returns a *rsa.PublicKey, *dsa.PublicKey, *ecdsa.PublicKey, or
// ed25519.PublicKey. More types might be supported in the future.
//
// This kind of key is commonly encoded in PEM blocks of type "PUBLIC KEY".
func ParsePKIXPublicKey(derBytes []byte) (pub interface{}, err error) {
	var pki publicKeyInfo
	if rest, err := asn1.Unmarshal(derBytes, &pki); err != nil {
		return nil, err
	} else if len(rest) != 0 {
		return nil, errors.New("x509: trailing data after ASN.1 of public-key")
	}
	algo := getPublicKeyAlgorithmFromOID(pki.Algorithm.Algorithm)
	if algo == UnknownPublicKeyAlgorithm {
		return nil, errors.New("x509: unknown public key algorithm")
	}
	var nfe NonFatalErrors
	pub, err = parsePublicKey(algo, &pki, &nfe)
	if err != nil {
		return pub, err
	}
	// Treat non-fatal errors as fatal for this entrypoint.
	if len(nfe.Errors) > 0 {
		return nil, nfe.Errors[0]
	}
	return pub, nil
}

func marshalPublicKey(pub interface{}) (publicKeyBytes []byte, publicKeyAlgorithm pkix.AlgorithmIdentifier, err error) {
	switch pub := pub.(type) {
	case *rsa.PublicKey:
		publicKeyBytes, err = asn1.Marshal(pkcs1PublicKey{
			N: pub.N,
			E: pub.E,
		})
		if err != nil {
			return nil, pkix.AlgorithmIdentifier{}, err
		}
		publicKeyAlgorithm.Algorithm = OIDPublicKeyRSA
		// This is a NULL parameters value which is required by
		// RFC 3279, Section 2.3.1.
		publicKeyAlgorithm.Parameters = asn1.NullRawValue
	case *ecdsa.PublicKey:
		publicKeyBytes = elliptic.Marshal(pub.Curve, pub.X, pub.Y)
		oid, ok := OIDFromNamedCurve(pub.Curve)
		if !ok {
			return nil, pkix.AlgorithmIdentifier{}, errors.New("x509: unsupported elliptic curve")
		}
		publicKeyAlgorithm.Algorithm = OIDPublicKeyECDSA
		var paramBytes []byte
		paramBytes, err = asn1.Marshal(oid)
		if err != nil {
			return
		}
		publicKeyAlgorithm.Parameters.FullBytes = paramBytes
	case ed25519.PublicKey:
		publicKeyBytes = pub
		publicKeyAlgorithm.Algorithm = OIDPublicKeyEd25519
	default:
		return nil, pkix.AlgorithmIdentifier{}, fmt.Errorf("x509: unsupported public key type: %T", pub)
	}

	return publicKeyBytes, publicKeyAlgorithm, nil
}

// MarshalPKIXPublicKey converts a public key to PKIX, ASN.1 DER form.
//
// The following key types are currently supported: *rsa.PublicKey, *ecdsa.PublicKey
// and ed25519.PublicKey. Unsupported key types result in an error.
//
// This kind of key is commonly encoded in PEM blocks of type "PUBLIC KEY".
func MarshalPKIXPublicKey(pub interface{}) ([]byte, error) {
	var publicKeyBytes []byte
	var publicKeyAlgorithm pkix.AlgorithmIdentifier
	var err error

	if publicKeyBytes, publicKeyAlgorithm, err = marshalPublicKey(pub); err != nil {
		return nil, err
	}

	pkix := pkixPublicKey{
		Algo: publicKeyAlgorithm,
		BitString: asn1.BitString{
			Bytes:     publicKeyBytes,
			BitLength: 8 * len(publicKeyBytes),
		},
	}

	ret, _ := asn1.Marshal(pkix)
	return ret, nil
}

// These structures reflect the ASN.1 structure of X.509 certificates.:

type certificate struct {
	Raw                asn1.RawContent
	TBSCertificate     tbsCertificate
	SignatureAlgorithm pkix.AlgorithmIdentifier
	SignatureValue     asn1.BitString
}

type tbsCertificate struct {
	Raw                asn1.RawContent
	Version            int `asn1:"optional,explicit,default:0,tag:0"`
	SerialNumber       *big.Int
	SignatureAlgorithm pkix.AlgorithmIdentifier
	Issuer             asn1.RawValue
	Validity           validity
	Subject            asn1.RawValue
	PublicKey          publicKeyInfo
	UniqueId           asn1.BitString   `asn1:"optional,tag:1"`
	SubjectUniqueId    asn1.BitString   `asn1:"optional,tag:2"`
	Extensions         []pkix.Extension `asn1:"optional,explicit,tag:3"`
}

// RFC 4055,  4.1
// The current ASN.1 parser does not support non-integer defaults so
// the 'default:' tags here do nothing.
type rsaesoaepAlgorithmParameters struct {
	HashFunc    pkix.AlgorithmIdentifier `asn1:"optional,explicit,tag:0,default:sha1Identifier"`
	MaskgenFunc pkix.AlgorithmIdentifier `asn1:"optional,explicit,tag:1,default:mgf1SHA1Identifier"`
	PSourceFunc pkix.AlgorithmIdentifier `asn1:"optional,explicit,tag:2,default:pSpecifiedEmptyIdentifier"`
}

type dsaAlgorithmParameters struct {
	P, Q, G *big.Int
}

type dsaSignature struct {
	R, S *big.Int
}

type ecdsaSignature dsaSignature

type validity struct {
	NotBefore, NotAfter time.Time
}

type publicKeyInfo struct {
	Raw       asn1.RawContent
	Algorithm pkix.AlgorithmIdentifier
	PublicKey asn1.BitString
}

// RFC 5280,  4.2.1.1
type authKeyId struct {
	Id []byte `asn1:"optional,tag:0"`
}

// SignatureAlgorithm indicates the algorithm used to sign a certificate.
type SignatureAlgorithm int

// SignatureAlgorithm values:
const (
	UnknownSignatureAlgorithm SignatureAlgorithm = iota
	MD2WithRSA
	MD5WithRSA
	SHA1WithRSA
	SHA256WithRSA
	SHA384WithRSA
	SHA512WithRSA
	DSAWithSHA1
	DSAWithSHA256
	ECDSAWithSHA1
	ECDSAWithSHA256
	ECDSAWithSHA384
	ECDSAWithSHA512
	SHA256WithRSAPSS
	SHA384WithRSAPSS
	SHA512WithRSAPSS
	PureEd25519
)

// RFC 4055,  6. Basic object identifiers
var oidpSpecified = asn1.ObjectIdentifier{1, 2, 840, 113549, 1, 1, 9}

// These are the default parameters for an RSAES-OAEP pubkey.
// The current ASN.1 parser does not support non-integer defaults so
// these currently do nothing.
var (
	sha1Identifier = pkix.AlgorithmIdentifier{
		Algorithm:  oidSHA1,
		Parameters: asn1.NullRawValue,
	}
	mgf1SHA1Identifier = pkix.AlgorithmIdentifier{
		Algorithm: oidMGF1,
		// RFC 4055, 2.1 sha1Identifier
		Parameters: asn1.RawValue{
			Class:      asn1.ClassUniversal,
			Tag:        asn1.TagSequence,
			IsCompound: false,
			Bytes:      []byte{6, 5, 43, 14, 3, 2, 26, 5, 0},
			FullBytes:  []byte{16, 9, 6, 5, 43, 14, 3, 2, 26, 5, 0}},
	}
	pSpecifiedEmptyIdentifier = pkix.AlgorithmIdentifier{
		Algorithm: oidpSpecified,
		// RFC 4055, 4.1 nullOctetString
		Parameters: asn1.RawValue{
			Class:      asn1.ClassUniversal,
			Tag:        asn1.TagOctetString,
			IsCompound: false,
			Bytes:      []byte{},
			FullBytes:  []byte{4, 0}},
	}
)

func (algo SignatureAlgorithm) isRSAPSS() bool {
	switch algo {
	case SHA256WithRSAPSS, SHA384WithRSAPSS, SHA512WithRSAPSS:
		return true
	default:
		return false
	}
}

func (algo SignatureAlgorithm) String() string {
	for _, details := range signatureAlgorithmDetails {
		if details.algo == algo {
			return details.name
		}
	}
	return strconv.Itoa(int(algo))
}

// PublicKeyAlgorithm indicates the algorithm used for a certificate's public key.
type PublicKeyAlgorithm int

// PublicKeyAlgorithm values:
const (
	UnknownPublicKeyAlgorithm PublicKeyAlgorithm = iota
	RSA
	DSA
	ECDSA
	Ed25519
	RSAESOAEP
)

var publicKeyAlgoName = [...]string{
	RSA:       "RSA",
	DSA:       "DSA",
	ECDSA:     "ECDSA",
	Ed25519:   "Ed25519",
	RSAESOAEP: "RSAESOAEP",
}

func (algo PublicKeyAlgorithm) String() string {
	if 0 < algo && int(algo) < len(publicKeyAlgoName) {
		return publicKeyAlgoName[algo]
	}
	return strconv.Itoa(int(algo))
}

// OIDs for signature algorithms
//
// pkcs-1 OBJECT IDENTIFIER ::= {
//    iso(1) member-body(2) us(840) rsadsi(113549) pkcs(1) 1 }
//
//
// RFC 3279 2.2.1 RSA Signature Algorithms
//
// md2WithRSAEncryption OBJECT IDENTIFIER ::= { pkcs-1 2 }
//
// md5WithRSAEncryption OBJECT IDENTIFIER ::= { pkcs-1 4 }
//
// sha-1WithRSAEncryption OBJECT IDENTIFIER ::= { pkcs-1 5 }
//
// dsaWithSha1 OBJECT IDENTIFIER ::= {
//    iso(1) member-body(2) us(840) x9-57(10040) x9cm(4) 3 }
//
// RFC 3279 2.2.3 ECDSA Signature Algorithm
//
// ecdsa-with-SHA1 OBJECT IDENTIFIER ::= {
// 	  iso(1) member-body(2) us(840) ansi-x962(10045)
//    signatures(4) ecdsa-with-SHA1(1)}
//
//
// RFC 4055 5 PKCS #1 Version 1.5
//
// sha256WithRSAEncryption OBJECT IDENTIFIER ::= { pkcs-1 11 }
//
// sha384WithRSAEncryption OBJECT IDENTIFIER ::= { pkcs-1 12 }
//
// sha512WithRSAEncryption OBJECT IDENTIFIER ::= { pkcs-1 13 }
//
//
// RFC 5758 3.1 DSA Signature Algorithms
//
// dsaWithSha256 OBJECT IDENTIFIER ::= {
//    joint-iso-ccitt(2) country(16) us(840) organization(1) gov(101)
//    csor(3) algorithms(4) id-dsa-with-sha2(3) 2}
//
// RFC 5758 3.2 ECDSA Signature Algorithm
//
// ecdsa-with-SHA256 OBJECT IDENTIFIER ::= { iso(1) member-body(2)
//    us(840) ansi-X9-62(10045) signatures(4) ecdsa-with-SHA2(3) 2 }
//
// ecdsa-with-SHA384 OBJECT IDENTIFIER ::= { iso(1) member-body(2)
//    us(840) ansi-X9-62(10045) signatures(4) ecdsa-with-SHA2(3) 3 }
//
// ecdsa-with-SHA512 OBJECT IDENTIFIER ::= { iso(1) member-body(2)
//    us(840) ansi-X9-62(10045) signatures(4) ecdsa-with-SHA2(3) 4 }
//
//
// RFC 8410 3 Curve25519 and Curve448 Algorithm Identifiers
//
// id-Ed25519   OBJECT IDENTIFIER ::= { 1 3 101 112 }

var (
	oidSignatureMD2WithRSA      = asn1.ObjectIdentifier{1, 2, 840, 113549, 1, 1, 2}
	oidSignatureMD5WithRSA      = asn1.ObjectIdentifier{1, 2, 840, 113549, 1, 1, 4}
	oidSignatureSHA1WithRSA     = asn1.ObjectIdentifier{1, 2, 840, 113549, 1, 1, 5}
	oidSignatureSHA256WithRSA   = asn1.ObjectIdentifier{1, 2, 840, 113549, 1, 1, 11}
	oidSignatureSHA384WithRSA   = asn1.ObjectIdentifier{1, 2, 840, 113549, 1, 1, 12}
	oidSignatureSHA512WithRSA   = asn1.ObjectIdentifier{1, 2, 840, 113549, 1, 1, 13}
	oidSignatureRSAPSS          = asn1.ObjectIdentifier{1, 2, 840, 113549, 1, 1, 10}
	oidSignatureDSAWithSHA1     = asn1.ObjectIdentifier{1, 2, 840, 10040, 4, 3}
	oidSignatureDSAWithSHA256   = asn1.ObjectIdentifier{2, 16, 840, 1, 101, 3, 4, 3, 2}
	oidSignatureECDSAWithSHA1   = asn1.ObjectIdentifier{1, 2, 840, 10045, 4, 1}
	oidSignatureECDSAWithSHA256 = asn1.ObjectIdentifier{1, 2, 840, 10045, 4, 3, 2}
	oidSignatureECDSAWithSHA384 = asn1.ObjectIdentifier{1, 2, 840, 10045, 4, 3, 3}
	oidSignatureECDSAWithSHA512 = asn1.ObjectIdentifier{1, 2, 840, 10045, 4, 3, 4}
	oidSignatureEd25519         = asn1.ObjectIdentifier{1, 3, 101, 112}

	oidSHA1   = asn1.ObjectIdentifier{1, 3, 14, 3, 2, 26}
	oidSHA256 = asn1.ObjectIdentifier{2, 16, 840, 1, 101, 3, 4, 2, 1}
	oidSHA384 = asn1.ObjectIdentifier{2, 16, 840, 1, 101, 3, 4, 2, 2}
	oidSHA512 = asn1.ObjectIdentifier{2, 16, 840, 1, 101, 3, 4, 2, 3}

	oidMGF1 = asn1.ObjectIdentifier{1, 2, 840, 113549, 1, 1, 8}

	// oidISOSignatureSHA1WithRSA means the same as oidSignatureSHA1WithRSA
	// but it's specified by ISO. Microsoft's makecert.exe has been known
	// to produce certificates with this OID.
	oidISOSignatureSHA1WithRSA = asn1.ObjectIdentifier{1, 3, 14, 3, 2, 29}
)

var signatureAlgorithmDetails = []struct {
	algo       SignatureAlgorithm
	name       string
	oid        asn1.ObjectIdentifier
	pubKeyAlgo PublicKeyAlgorithm
	hash       crypto.Hash
}{
	{MD2WithRSA, "MD2-RSA", oidSignatureMD2WithRSA, RSA, crypto.Hash(0) /* no value for MD2 */},
	{MD5WithRSA, "MD5-RSA", oidSignatureMD5WithRSA, RSA, crypto.MD5},
	{SHA1WithRSA, "SHA1-RSA", oidSignatureSHA1WithRSA, RSA, crypto.SHA1},
	{SHA1WithRSA, "SHA1-RSA", oidISOSignatureSHA1WithRSA, RSA, crypto.SHA1},
	{SHA256WithRSA, "SHA256-RSA", oidSignatureSHA256WithRSA, RSA, crypto.SHA256},
	{SHA384WithRSA, "SHA384-RSA", oidSignatureSHA384WithRSA, RSA, crypto.SHA384},
	{SHA512WithRSA, "SHA512-RSA", oidSignatureSHA512WithRSA, RSA, crypto.SHA512},
	{SHA256WithRSAPSS, "SHA256-RSAPSS", oidSignatureRSAPSS, RSA, crypto.SHA256},
	{SHA384WithRSAPSS, "SHA384-RSAPSS", oidSignatureRSAPSS, RSA, crypto.SHA384},
	{SHA512WithRSAPSS, "SHA512-RSAPSS", oidSignatureRSAPSS, RSA, crypto.SHA512},
	{DSAWithSHA1, "DSA-SHA1", oidSignatureDSAWithSHA1, DSA, crypto.SHA1},
	{DSAWithSHA256, "DSA-SHA256", oidSignatureDSAWithSHA256, DSA, crypto.SHA256},
	{ECDSAWithSHA1, "ECDSA-SHA1", oidSignatureECDSAWithSHA1, ECDSA, crypto.SHA1},
	{ECDSAWithSHA256, "ECDSA-SHA256", oidSignatureECDSAWithSHA256, ECDSA, crypto.SHA256},
	{ECDSAWithSHA384, "ECDSA-SHA384", oidSignatureECDSAWithSHA384, ECDSA, crypto.SHA384},
	{ECDSAWithSHA512, "ECDSA-SHA512", oidSignatureECDSAWithSHA512, ECDSA, crypto.SHA512},
	{PureEd25519, "Ed25519", oidSignatureEd25519, Ed25519, crypto.Hash(0) /* no pre-hashing */},
}

// pssParameters reflects the parameters in an AlgorithmIdentifier that
// specifies RSA PSS. See RFC 3447, Appendix A.2.3.
type pssParameters struct {
	// The following three fields are not marked as
	// optional because the default values specify SHA-1,
	// which is no longer suitable for use in signatures.
	Hash         pkix.AlgorithmIdentifier `asn1:"explicit,tag:0"`
	MGF          pkix.AlgorithmIdentifier `asn1:"explicit,tag:1"`
	SaltLength   int                      `asn1:"explicit,tag:2"`
	TrailerField int                      `asn1:"optional,explicit,tag:3,default:1"`
}

// rsaPSSParameters returns an asn1.RawValue suitable for use as the Parameters
// in an AlgorithmIdentifier that specifies RSA PSS.
func rsaPSSParameters(hashFunc crypto.Hash) asn1.RawValue {
	var hashOID asn1.ObjectIdentifier

	switch hashFunc {
	case crypto.SHA256:
		hashOID = oidSHA256
	case crypto.SHA384:
		hashOID = oidSHA384
	case crypto.SHA512:
		hashOID = oidSHA512
	}

	params := pssParameters{
		Hash: pkix.AlgorithmIdentifier{
			Algorithm:  hashOID,
			Parameters: asn1.NullRawValue,
		},
		MGF: pkix.AlgorithmIdentifier{
			Algorithm: oidMGF1,
		},
		SaltLength:   hashFunc.Size(),
		TrailerField: 1,
	}

	mgf1Params := pkix.AlgorithmIdentifier{
		Algorithm:  hashOID,
		Parameters: asn1.NullRawValue,
	}

	var err error
	params.MGF.Parameters.FullBytes, err = asn1.Marshal(mgf1Params)
	if err != nil {
		panic(err)
	}

	serialized, err := asn1.Marshal(params)
	if err != nil {
		panic(err)
	}

	return asn1.RawValue{FullBytes: serialized}
}

// SignatureAlgorithmFromAI converts an PKIX algorithm identifier to the
// equivalent local constant.
func SignatureAlgorithmFromAI(ai pkix.AlgorithmIdentifier) SignatureAlgorithm {
	if ai.Algorithm.Equal(oidSignatureEd25519) {
		// RFC 8410, Section 3
		// > For all of the OIDs, the parameters MUST be absent.
		if len(ai.Parameters.FullBytes) != 0 {
			return UnknownSignatureAlgorithm
		}
	}

	if !ai.Algorithm.Equal(oidSignatureRSAPSS) {
		for _, details := range signatureAlgorithmDetails {
			if ai.Algorithm.Equal(details.oid) {
				return details.algo
			}
		}
		return UnknownSignatureAlgorithm
	}

	// RSA PSS is special because it encodes important parameters
	// in the Parameters.

	var params pssParameters
	if _, err := asn1.Unmarshal(ai.Parameters.FullBytes, &params); err != nil {
		return UnknownSignatureAlgorithm
	}

	var mgf1HashFunc pkix.AlgorithmIdentifier
	if _, err := asn1.Unmarshal(params.MGF.Parameters.FullBytes, &mgf1HashFunc); err != nil {
		return UnknownSignatureAlgorithm
	}

	// PSS is greatly overburdened with options. This code forces them into
	// three buckets by requiring that the MGF1 hash function always match the
	// message hash function (as recommended in RFC 3447, Section 8.1), that the
	// salt length matches the hash length, and that the trailer field has the
	// default value.
	if (len(params.Hash.Parameters.FullBytes) != 0 && !bytes.Equal(params.Hash.Parameters.FullBytes, asn1.NullBytes)) ||
		!params.MGF.Algorithm.Equal(oidMGF1) ||
		!mgf1HashFunc.Algorithm.Equal(params.Hash.Algorithm) ||
		(len(mgf1HashFunc.Parameters.FullBytes) != 0 && !bytes.Equal(mgf1HashFunc.Parameters.FullBytes, asn1.NullBytes)) ||
		params.TrailerField != 1 {
		return UnknownSignatureAlgorithm
	}

	switch {
	case params.Hash.Algorithm.Equal(oidSHA256) && params.SaltLength == 32:
		return SHA256WithRSAPSS
	case params.Hash.Algorithm.Equal(oidSHA384) && params.SaltLength == 48:
		return SHA384WithRSAPSS
	case params.Hash.Algorithm.Equal(oidSHA512) && params.SaltLength == 64:
		return SHA512WithRSAPSS
	}

	return UnknownSignatureAlgorithm
}

// RFC 3279, 2.3 Public Key Algorithms
//
// pkcs-1 OBJECT IDENTIFIER ::== { iso(1) member-body(2) us(840)
//
//	rsadsi(113549) pkcs(1) 1 }
//
// rsaEncryption OBJECT IDENTIFIER ::== { pkcs1-1 1 }
//
// id-dsa OBJECT IDENTIFIER ::== { iso(1) member-body(2) us(840)
//
//	x9-57(10040) x9cm(4) 1 }
//
// # RFC 5480, 2.1.1 Unrestricted Algorithm Identifier and Parameters
//
//	id-ecPublicKey OBJECT IDENTIFIER ::= {
//	      iso(1) member-body(2) us(840) ansi-X9-62(10045) keyType(2) 1 }
var (
	OIDPublicKeyRSA         = asn1.ObjectIdentifier{1, 2, 840, 113549, 1, 1, 1}
	OIDPublicKeyRSAESOAEP   = asn1.ObjectIdentifier{1, 2, 840, 113549, 1, 1, 7}
	OIDPublicKeyDSA         = asn1.ObjectIdentifier{1, 2, 840, 10040, 4, 1}
	OIDPublicKeyECDSA       = asn1.ObjectIdentifier{1, 2, 840, 10045, 2, 1}
	OIDPublicKeyRSAObsolete = asn1.ObjectIdentifier{2, 5, 8, 1, 1}
	OIDPublicKeyEd25519     = oidSignatureEd25519
)

func getPublicKeyAlgorithmFromOID(oid asn1.ObjectIdentifier) PublicKeyAlgorithm {
	switch {
	case oid.Equal(OIDPublicKeyRSA):
		return RSA
	case oid.Equal(OIDPublicKeyDSA):
		return DSA
	case oid.Equal(OIDPublicKeyECDSA):
		return ECDSA
	case oid.Equal(OIDPublicKeyRSAESOAEP):
		return RSAESOAEP
	case oid.Equal(OIDPublicKeyEd25519):
		return Ed25519
	}
	return UnknownPublicKeyAlgorithm
}

// RFC 5480, 2.1.1.1. Named Curve
//
//	secp224r1 OBJECT IDENTIFIER ::= {
//	  iso(1) identified-organization(3) certicom(132) curve(0) 33 }
//
//	secp256r1 OBJECT IDENTIFIER ::= {
//	  iso(1) member-body(2) us(840) ansi-X9-62(10045) curves(3)
//	  prime(1) 7 }
//
//	secp384r1 OBJECT IDENTIFIER ::= {
//	  iso(1) identified-organization(3) certicom(132) curve(0) 34 }
//
//	secp521r1 OBJECT IDENTIFIER ::= {
//	  iso(1) identified-organization(3) certicom(132) curve(0) 35 }
//
//	secp192r1 OBJECT IDENTIFIER ::= {
//	    iso(1) member-body(2) us(840) ansi-X9-62(10045) curves(3)
//	    prime(1) 1 }
//
// NB: secp256r1 is equivalent to prime256v1,
// secp192r1 is equivalent to ansix9p192r and prime192v1
var (
	OIDNamedCurveP224 = asn1.ObjectIdentifier{1, 3, 132, 0, 33}
	OIDNamedCurveP256 = asn1.ObjectIdentifier{1, 2, 840, 10045, 3, 1, 7}
	OIDNamedCurveP384 = asn1.ObjectIdentifier{1, 3, 132, 0, 34}
	OIDNamedCurveP521 = asn1.ObjectIdentifier{1, 3, 132, 0, 35}
	OIDNamedCurveP192 = asn1.ObjectIdentifier{1, 2, 840, 10045, 3, 1, 1}
)

func namedCurveFromOID(oid asn1.ObjectIdentifier, nfe *NonFatalErrors) elliptic.Curve {
	switch {
	case oid.Equal(OIDNamedCurveP224):
		return elliptic.P224()
	case oid.Equal(OIDNamedCurveP256):
		return elliptic.P256()
	case oid.Equal(OIDNamedCurveP384):
		return elliptic.P384()
	case oid.Equal(OIDNamedCurveP521):
		return elliptic.P521()
	case oid.Equal(OIDNamedCurveP192):
		nfe.AddError(errors.New("insecure curve (secp192r1) specified"))
		return secp192r1()
	}
	return nil
}

// OIDFromNamedCurve returns the OID used to specify the use of the given
// elliptic curve.
func OIDFromNamedCurve(curve elliptic.Curve) (asn1.ObjectIdentifier, bool) {
	switch curve {
	case elliptic.P224():
		return OIDNamedCurveP224, true
	case elliptic.P256():
		return OIDNamedCurveP256, true
	case elliptic.P384():
		return OIDNamedCurveP384, true
	case elliptic.P521():
		return OIDNamedCurveP521, true
	case secp192r1():
		return OIDNamedCurveP192, true
	}

	return nil, false
}

// KeyUsage represents the set of actions that are valid for a given key. It's
// a bitmap of the KeyUsage* constants.
type KeyUsage int

// KeyUsage values:
const (
	KeyUsageDigitalSignature KeyUsage = 1 << iota
	KeyUsageContentCommitment
	KeyUsageKeyEncipherment
	KeyUsageDataEncipherment
	KeyUsageKeyAgreement
	KeyUsageCertSign
	KeyUsageCRLSign
	KeyUsageEncipherOnly
	KeyUsageDecipherOnly
)

// RFC 5280, 4.2.1.12  Extended Key Usage
//
// anyExtendedKeyUsage OBJECT IDENTIFIER ::= { id-ce-extKeyUsage 0 }
//
// id-kp OBJECT IDENTIFIER ::= { id-pkix 3 }
//
// id-kp-serverAuth             OBJECT IDENTIFIER ::= { id-kp 1 }
// id-kp-clientAuth             OBJECT IDENTIFIER ::= { id-kp 2 }
// id-kp-codeSigning            OBJECT IDENTIFIER ::= { id-kp 3 }
// id-kp-emailProtection        OBJECT IDENTIFIER ::= { id-kp 4 }
// id-kp-timeStamping           OBJECT IDENTIFIER ::= { id-kp 8 }
// id-kp-OCSPSigning            OBJECT IDENTIFIER ::= { id-kp 9 }
var (
	oidExtKeyUsageAny                            = asn1.ObjectIdentifier{2, 5, 29, 37, 0}
	oidExtKeyUsageServerAuth                     = asn1.ObjectIdentifier{1, 3, 6, 1, 5, 5, 7, 3, 1}
	oidExtKeyUsageClientAuth                     = asn1.ObjectIdentifier{1, 3, 6, 1, 5, 5, 7, 3, 2}
	oidExtKeyUsageCodeSigning                    = asn1.ObjectIdentifier{1, 3, 6, 1, 5, 5, 7, 3, 3}
	oidExtKeyUsageEmailProtection                = asn1.ObjectIdentifier{1, 3, 6, 1, 5, 5, 7, 3, 4}
	oidExtKeyUsageIPSECEndSystem                 = asn1.ObjectIdentifier{1, 3, 6, 1, 5, 5, 7, 3, 5}
	oidExtKeyUsageIPSECTunnel                    = asn1.ObjectIdentifier{1, 3, 6, 1, 5, 5, 7, 3, 6}
	oidExtKeyUsageIPSECUser                      = asn1.ObjectIdentifier{1, 3, 6, 1, 5, 5, 7, 3, 7}
	oidExtKeyUsageTimeStamping                   = asn1.ObjectIdentifier{1, 3, 6, 1, 5, 5, 7, 3, 8}
	oidExtKeyUsageOCSPSigning                    = asn1.ObjectIdentifier{1, 3, 6, 1, 5, 5, 7, 3, 9}
	oidExtKeyUsageMicrosoftServerGatedCrypto     = asn1.ObjectIdentifier{1, 3, 6, 1, 4, 1, 311, 10, 3, 3}
	oidExtKeyUsageNetscapeServerGatedCrypto      = asn1.ObjectIdentifier{2, 16, 840, 1, 113730, 4, 1}
	oidExtKeyUsageMicrosoftCommercialCodeSigning = asn1.ObjectIdentifier{1, 3, 6, 1, 4, 1, 311, 2, 1, 22}
	oidExtKeyUsageMicrosoftKernelCodeSigning     = asn1.ObjectIdentifier{1, 3, 6, 1, 4, 1, 311, 61, 1, 1}
	// RFC 6962 s3.1
	oidExtKeyUsageCertificateTransparency = asn1.ObjectIdentifier{1, 3, 6, 1, 4, 1, 11129, 2, 4, 4}
)

// ExtKeyUsage represents an extended set of actions that are valid for a given key.
// Each of the ExtKeyUsage* constants define a unique action.
type ExtKeyUsage int

// ExtKeyUsage values:
const (
	ExtKeyUsageAny ExtKeyUsage = iota
	ExtKeyUsageServerAuth
	ExtKeyUsageClientAuth
	ExtKeyUsageCodeSigning
	ExtKeyUsageEmailProtection
	ExtKeyUsageIPSECEndSystem
	ExtKeyUsageIPSECTunnel
	ExtKeyUsageIPSECUser
	ExtKeyUsageTimeStamping
	ExtKeyUsageOCSPSigning
	ExtKeyUsageMicrosoftServerGatedCrypto
	ExtKeyUsageNetscapeServerGatedCrypto
	ExtKeyUsageMicrosoftCommercialCodeSigning
	ExtKeyUsageMicrosoftKernelCodeSigning
	ExtKeyUsageCertificateTransparency
)

// extKeyUsageOIDs contains the mapping between an ExtKeyUsage and its OID.
var extKeyUsageOIDs = []struct {
	extKeyUsage ExtKeyUsage
	oid         asn1.ObjectIdentifier
}{
	{ExtKeyUsageAny, oidExtKeyUsageAny},
	{ExtKeyUsageServerAuth, oidExtKeyUsageServerAuth},
	{ExtKeyUsageClientAuth, oidExtKeyUsageClientAuth},
	{ExtKeyUsageCodeSigning, oidExtKeyUsageCodeSigning},
	{ExtKeyUsageEmailProtection, oidExtKeyUsageEmailProtection},
	{ExtKeyUsageIPSECEndSystem, oidExtKeyUsageIPSECEndSystem},
	{ExtKeyUsageIPSECTunnel, oidExtKeyUsageIPSECTunnel},
	{ExtKeyUsageIPSECUser, oidExtKeyUsageIPSECUser},
	{ExtKeyUsageTimeStamping, oidExtKeyUsageTimeStamping},
	{ExtKeyUsageOCSPSigning, oidExtKeyUsageOCSPSigning},
	{ExtKeyUsageMicrosoftServerGatedCrypto, oidExtKeyUsageMicrosoftServerGatedCrypto},
	{ExtKeyUsageNetscapeServerGatedCrypto, oidExtKeyUsageNetscapeServerGatedCrypto},
	{ExtKeyUsageMicrosoftCommercialCodeSigning, oidExtKeyUsageMicrosoftCommercialCodeSigning},
	{ExtKeyUsageMicrosoftKernelCodeSigning, oidExtKeyUsageMicrosoftKernelCodeSigning},
	{ExtKeyUsageCertificateTransparency, oidExtKeyUsageCertificateTransparency},
}

func extKeyUsageFromOID(oid asn1.ObjectIdentifier) (eku ExtKeyUsage, ok bool) {
	for _, pair := range extKeyUsageOIDs {
		if oid.Equal(pair.oid) {
			return pair.extKeyUsage, true
		}
	}
	return
}

func oidFromExtKeyUsage(eku ExtKeyUsage) (oid asn1.ObjectIdentifier, ok bool) {
	for _, pair := range extKeyUsageOIDs {
		if eku == pair.extKeyUsage {
			return pair.oid, true
		}
	}
	return
}

// SerializedSCT represents a single TLS-encoded signed certificate timestamp, from RFC6962 s3.3.
type SerializedSCT struct {
	Val []byte `tls:"minlen:1,maxlen:65535"`
}

// SignedCertificateTimestampList is a list of signed certificate timestamps, from RFC6962 s3.3.
type SignedCertificateTimestampList struct {
	SCTList []SerializedSCT `tls:"minlen:1,maxlen:65535"`
}

// A Certificate represents an X.509 certificate.
type Certificate struct {
	Raw                     []byte // Complete ASN.1 DER content (certificate, signature algorithm and signature).
	RawTBSCertificate       []byte // Certificate part of raw ASN.1 DER content.
	RawSubjectPublicKeyInfo []byte // DER encoded SubjectPublicKeyInfo.
	RawSubject              []byte // DER encoded Subject
	RawIssuer               []byte // DER encoded Issuer

	Signature          []byte
	SignatureAlgorithm SignatureAlgorithm

	PublicKeyAlgorithm PublicKeyAlgorithm
	PublicKey          interface{}

	Version             int
	SerialNumber        *big.Int
	Issuer              pkix.Name
	Subject             pkix.Name
	NotBefore, NotAfter time.Time // Validity bounds.
	KeyUsage            KeyUsage

	// Extensions contains raw X.509 extensions. When parsing certificates,
	// this can be used to extract non-critical extensions that are not
	// parsed by this package. When marshaling certificates, the Extensions
	// field is ignored, see ExtraExtensions.
	Extensions []pkix.Extension

	// ExtraExtensions contains extensions to be copied, raw, into any
	// marshaled certificates. Values override any extensions that would
	// otherwise be produced based on the other fields. The ExtraExtensions
	// field is not populated when parsing certificates, see Extensions.
	ExtraExtensions []pkix.Extension

	// UnhandledCriticalExtensions contains a list of extension IDs that
	// were not (fully) processed when parsing. Verify will fail if this
	// slice is non-empty, unless verification is delegated to an OS
	// library which understands all the critical extensions.
	//
	// Users can access these extensions using Extensions and can remove
	// elements from this slice if they believe that they have been
	// handled.
	UnhandledCriticalExtensions []asn1.ObjectIdentifier

	ExtKeyUsage        []ExtKeyUsage           // Sequence of extended key usages.
	UnknownExtKeyUsage []asn1.ObjectIdentifier // Encountered extended key usages unknown to this package.

	// BasicConstraintsValid indicates whether IsCA, MaxPathLen,
	// and MaxPathLenZero are valid.
	BasicConstraintsValid bool
	IsCA                  bool

	// MaxPathLen and MaxPathLenZero indicate the presence and
	// value of the BasicConstraints' "pathLenConstraint".
	//
	// When parsing a certificate, a positive non-zero MaxPathLen
	// means that the field was specified, -1 means it was unset,
	// and MaxPathLenZero being true mean that the field was
	// explicitly set to zero. The case of MaxPathLen==0 with MaxPathLenZero==false
	// should be treated equivalent to -1 (unset).
	//
	// When generating a certificate, an unset pathLenConstraint
	// can be requested with either MaxPathLen == -1 or using the
	// zero value for both MaxPathLen and MaxPathLenZero.
	MaxPathLen int
	// MaxPathLenZero indicates that BasicConstraintsValid==true
	// and MaxPathLen==0 should be interpreted as an actual
	// maximum path length of zero. Otherwise, that combination is
	// interpreted as MaxPathLen not being set.
	MaxPathLenZero bool

	SubjectKeyId   []byte
	AuthorityKeyId []byte

	// RFC 5280, 4.2.2.1 (Authority Information Access)
	OCSPServer            []string
	IssuingCertificateURL []string

	// Subject Information Access
	SubjectTimestamps     []string
	SubjectCARepositories []string

	// Subject Alternate Name values. (Note that these values may not be valid
	// if invalid values were contained within a parsed certificate. For
	// example, an element of DNSNames may not be a valid DNS domain name.)
	DNSNames       []string
	EmailAddresses []string
	IPAddresses    []net.IP
	URIs           []*url.URL

	// Name constraints
	PermittedDNSDomainsCritical bool // if true then the name constraints are marked critical.
	PermittedDNSDomains         []string
	ExcludedDNSDomains          []string
	PermittedIPRanges           []*net.IPNet
	ExcludedIPRanges            []*net.IPNet
	PermittedEmailAddresses     []string
	ExcludedEmailAddresses      []string
	PermittedURIDomains         []string
	ExcludedURIDomains          []string

	// CRL Distribution Points
	CRLDistributionPoints []string

	PolicyIdentifiers []asn1.ObjectIdentifier

	RPKIAddressRanges                   []*IPAddressFamilyBlocks
	RPKIASNumbers, RPKIRoutingDomainIDs *ASIdentifiers

	// Certificate Transparency SCT extension contents; this is a TLS-encoded
	// SignedCertificateTimestampList (RFC 6962 s3.3).
	RawSCT  []byte
	SCTList SignedCertificateTimestampList
}

// ErrUnsupportedAlgorithm results from attempting to perform an operation that
// involves algorithms that are not currently implemented.
var ErrUnsupportedAlgorithm = errors.New("x509: cannot verify signature: algorithm unimplemented")

// InsecureAlgorithmError results when the signature algorithm for a certificate
// is known to be insecure.
type InsecureAlgorithmError SignatureAlgorithm

func (e InsecureAlgorithmError) Error() string {
	return fmt.Sprintf("x509: cannot verify signature: insecure algorithm %v", SignatureAlgorithm(e))
}

// ConstraintViolationError results when a requested usage is not permitted by
// a certificate. For example: checking a signature when the public key isn't a
// certificate signing key.
type ConstraintViolationError struct{}

func (ConstraintViolationError) Error() string {
	return "x509: invalid signature: parent certificate cannot sign this kind of certificate"
}

// Equal indicates whether two Certificate objects are equal (by comparing their
// DER-encoded values).
func (c *Certificate) Equal(other *Certificate) bool {
	if c == nil || other == nil {
		return c == other
	}
	return bytes.Equal(c.Raw, other.Raw)
}

// IsPrecertificate checks whether the certificate is a precertificate, by
// checking for the presence of the CT Poison extension.
func (c *Certificate) IsPrecertificate() bool {
	if c == nil {
		return false
	}
	for _, ext := range c.Extensions {
		if ext.Id.Equal(OIDExtensionCTPoison) {
			return true
		}
	}
	return false
}

func (c *Certificate) hasSANExtension() bool {
	return oidInExtensions(OIDExtensionSubjectAltName, c.Extensions)
}

// Entrust have a broken root certificate (CN=Entrust.net Certification
// Authority (2048)) which isn't marked as a CA certificate and is thus invalid
// according to PKIX.
// We recognise this certificate by its SubjectPublicKeyInfo and exempt it
// from the Basic Constraints requirement.
// See http://www.entrust.net/knowledge-base/technote.cfm?tn=7869
//
// TODO(agl): remove this hack once their reissued root is sufficiently
// widespread.
var entrustBrokenSPKI = []byte{
	0x30, 0x82, 0x01, 0x22, 0x30, 0x0d, 0x06, 0x09,
	0x2a, 0x86, 0x48, 0x86, 0xf7, 0x0d, 0x01, 0x01,
	0x01, 0x05, 0x00, 0x03, 0x82, 0x01, 0x0f, 0x00,
	0x30, 0x82, 0x01, 0x0a, 0x02, 0x82, 0x01, 0x01,
	0x00, 0x97, 0xa3, 0x2d, 0x3c, 0x9e, 0xde, 0x05,
	0xda, 0x13, 0xc2, 0x11, 0x8d, 0x9d, 0x8e, 0xe3,
	0x7f, 0xc7, 0x4b, 0x7e, 0x5a, 0x9f, 0xb3, 0xff,
	0x62, 0xab, 0x73, 0xc8, 0x28, 0x6b, 0xba, 0x10,
	0x64, 0x82, 0x87, 0x13, 0xcd, 0x57, 0x18, 0xff,
	0x28, 0xce, 0xc0, 0xe6, 0x0e, 0x06, 0x91, 0x50,
	0x29, 0x83, 0xd1, 0xf2, 0xc3, 0x2a, 0xdb, 0xd8,
	0xdb, 0x4e, 0x04, 0xcc, 0x00, 0xeb, 0x8b, 0xb6,
	0x96, 0xdc, 0xbc, 0xaa, 0xfa, 0x52, 0x77, 0x04,
	0xc1, 0xdb, 0x19, 0xe4, 0xae, 0x9c, 0xfd, 0x3c,
	0x8b, 0x03, 0xef, 0x4d, 0xbc, 0x1a, 0x03, 0x65,
	0xf9, 0xc1, 0xb1, 0x3f, 0x72, 0x86, 0xf2, 0x38,
	0xaa, 0x19, 0xae, 0x10, 0x88, 0x78, 0x28, 0xda,
	0x75, 0xc3, 0x3d, 0x02, 0x82, 0x02, 0x9c, 0xb9,
	0xc1, 0x65, 0x77, 0x76, 0x24, 0x4c, 0x98, 0xf7,
	0x6d, 0x31, 0x38, 0xfb, 0xdb, 0xfe, 0xdb, 0x37,
	0x02, 0x76, 0xa1, 0x18, 0x97, 0xa6, 0xcc, 0xde,
	0x20, 0x09, 0x49, 0x36, 0x24, 0x69, 0x42, 0xf6,
	0xe4, 0x37, 0x62, 0xf1, 0x59, 0x6d, 0xa9, 0x3c,
	0xed, 0x34, 0x9c, 0xa3, 0x8e, 0xdb, 0xdc, 0x3a,
	0xd7, 0xf7, 0x0a, 0x6f, 0xef, 0x2e, 0xd8, 0xd5,
	0x93, 0x5a, 0x7a, 0xed, 0x08, 0x49, 0x68, 0xe2,
	0x41, 0xe3, 0x5a, 0x90, 0xc1, 0x86, 0x55, 0xfc,
	0x51, 0x43, 0x9d, 0xe0, 0xb2, 0xc4, 0x67, 0xb4,
	0xcb, 0x32, 0x31, 0x25, 0xf0, 0x54, 0x9f, 0x4b,
	0xd1, 0x6f, 0xdb, 0xd4, 0xdd, 0xfc, 0xaf, 0x5e,
	0x6c, 0x78, 0x90, 0x95, 0xde, 0xca, 0x3a, 0x48,
	0xb9, 0x79, 0x3c, 0x9b, 0x19, 0xd6, 0x75, 0x05,
	0xa0, 0xf9, 0x88, 0xd7, 0xc1, 0xe8, 0xa5, 0x09,
	0xe4, 0x1a, 0x15, 0xdc, 0x87, 0x23, 0xaa, 0xb2,
	0x75, 0x8c, 0x63, 0x25, 0x87, 0xd8, 0xf8, 0x3d,
	0xa6, 0xc2, 0xcc, 0x66, 0xff, 0xa5, 0x66, 0x68,
	0x55, 0x02, 0x03, 0x01, 0x00, 0x01,
}

// CheckSignatureFrom verifies that the signature on c is a valid signature
// from parent.
func (c *Certificate) CheckSignatureFrom(parent *Certificate) error {
	// RFC 5280, 4.2.1.9:
	// "If the basic constraints extension is not present in a version 3
	// certificate, or the extension is present but the cA boolean is not
	// asserted, then the certified public key MUST NOT be used to verify
	// certificate signatures."
	// (except for Entrust, see comment above entrustBrokenSPKI)
	if (parent.Version == 3 && !parent.BasicConstraintsValid ||
		parent.BasicConstraintsValid && !parent.IsCA) &&
		!bytes.Equal(c.RawSubjectPublicKeyInfo, entrustBrokenSPKI) {
		return ConstraintViolationError{}
	}

	if parent.KeyUsage != 0 && parent.KeyUsage&KeyUsageCertSign == 0 {
		return ConstraintViolationError{}
	}

	if parent.PublicKeyAlgorithm == UnknownPublicKeyAlgorithm {
		return ErrUnsupportedAlgorithm
	}

	// TODO(agl): don't ignore the path length constraint.

	return parent.CheckSignature(c.SignatureAlgorithm, c.RawTBSCertificate, c.Signature)
}

// CheckSignature verifies that signature is a valid signature over signed from
// c's public key.
func (c *Certificate) CheckSignature(algo SignatureAlgorithm, signed, signature []byte) error {
	return checkSignature(algo, signed, signature, c.PublicKey)
}

func (c *Certificate) hasNameConstraints() bool {
	return oidInExtensions(OIDExtensionNameConstraints, c.Extensions)
}

func (c *Certificate) getSANExtension() []byte {
	for _, e := range c.Extensions {
		if e.Id.Equal(OIDExtensionSubjectAltName) {
			return e.Value
		}
	}

	return nil
}

func signaturePublicKeyAlgoMismatchError(expectedPubKeyAlgo PublicKeyAlgorithm, pubKey interface{}) error {
	return fmt.Errorf("x509: signature algorithm specifies an %s public key, but have public key of type %T", expectedPubKeyAlgo.String(), pubKey)
}

// CheckSignature verifies that signature is a valid signature over signed from
// a crypto.PublicKey.
func checkSignature(algo SignatureAlgorithm, signed, signature []byte, publicKey crypto.PublicKey) (err error) {
	var hashType crypto.Hash
	var pubKeyAlgo PublicKeyAlgorithm

	for _, details := range signatureAlgorithmDetails {
		if details.algo == algo {
			hashType = details.hash
			pubKeyAlgo = details.pubKeyAlgo
		}
	}

	switch hashType {
	case crypto.Hash(0):
		if pubKeyAlgo != Ed25519 {
			return ErrUnsupportedAlgorithm
		}
	case crypto.MD5:
		return InsecureAlgorithmError(algo)
	default:
		if !hashType.Available() {
			return ErrUnsupportedAlgorithm
		}
		h := hashType.New()
		h.Write(signed)
		signed = h.Sum(nil)
	}

	switch pub := publicKey.(type) {
	case *rsa.PublicKey:
		if pubKeyAlgo != RSA {
			return signaturePublicKeyAlgoMismatchError(pubKeyAlgo, pub)
		}
		if algo.isRSAPSS() {
			return rsa.VerifyPSS(pub, hashType, signed, signature, &rsa.PSSOptions{SaltLength: rsa.PSSSaltLengthEqualsHash})
		} else {
			return rsa.VerifyPKCS1v15(pub, hashType, signed, signature)
		}
	case *dsa.PublicKey:
		if pubKeyAlgo != DSA {
			return signaturePublicKeyAlgoMismatchError(pubKeyAlgo, pub)
		}
		dsaSig := new(dsaSignature)
		if rest, err := asn1.Unmarshal(signature, dsaSig); err != nil {
			return err
		} else if len(rest) != 0 {
			return errors.New("x509: trailing data after DSA signature")
		}
		if dsaSig.R.Sign() <= 0 || dsaSig.S.Sign() <= 0 {
			return errors.New("x509: DSA signature contained zero or negative values")
		}
		// According to FIPS 186-3, section 4.6, the hash must be truncated if it is longer
		// than the key length, but crypto/dsa doesn't do it automatically.
		if maxHashLen := pub.Q.BitLen() / 8; maxHashLen < len(signed) {
			signed = signed[:maxHashLen]
		}
		if !dsa.Verify(pub, signed, dsaSig.R, dsaSig.S) {
			return errors.New("x509: DSA verification failure")
		}
		return
	case *ecdsa.PublicKey:
		if pubKeyAlgo != ECDSA {
			return signaturePublicKeyAlgoMismatchError(pubKeyAlgo, pub)
		}
		ecdsaSig := new(ecdsaSignature)
		if rest, err := asn1.Unmarshal(signature, ecdsaSig); err != nil {
			return err
		} else if len(rest) != 0 {
			return errors.New("x509: trailing data after ECDSA signature")
		}
		if ecdsaSig.R.Sign() <= 0 || ecdsaSig.S.Sign() <= 0 {
			return errors.New("x509: ECDSA signature contained zero or negative values")
		}
		if !ecdsa.Verify(pub, signed, ecdsaSig.R, ecdsaSig.S) {
			return errors.New("x509: ECDSA verification failure")
		}
		return
	case ed25519.PublicKey:
		if pubKeyAlgo != Ed25519 {
			return signaturePublicKeyAlgoMismatchError(pubKeyAlgo, pub)
		}
		if !ed25519.Verify(pub, signed, signature) {
			return errors.New("x509: Ed25519 verification failure")
		}
		return
	}
	return ErrUnsupportedAlgorithm
}

// CheckCRLSignature checks that the signature in crl is from c.
func (c *Certificate) CheckCRLSignature(crl *pkix.CertificateList) error {
	algo := SignatureAlgorithmFromAI(crl.SignatureAlgorithm)
	return c.CheckSignature(algo, crl.TBSCertList.Raw, crl.SignatureValue.RightAlign())
}

// UnhandledCriticalExtension results when the certificate contains an extension
// that is marked as critical but which is not handled by this library.
type UnhandledCriticalExtension struct {
	ID asn1.ObjectIdentifier
}

func (h UnhandledCriticalExtension) Error() string {
	return fmt.Sprintf("x509: unhandled critical extension (%v)", h.ID)
}

// removeExtension takes a DER-encoded TBSCertificate, removes the extension
// specified by oid (preserving the order of other extensions), and returns the
// result still as a DER-encoded TBSCertificate.  This function will fail if
// there is not exactly 1 extension of the type specified by the oid present.
func removeExtension(tbsData []byte, oid asn1.ObjectIdentifier) ([]byte, error) {
	var tbs tbsCertificate
	rest, err := asn1.Unmarshal(tbsData, &tbs)
	if err != nil {
		return nil, fmt.Errorf("failed to parse TBSCertificate: %v", err)
	} else if rLen := len(rest); rLen > 0 {
		return nil, fmt.Errorf("trailing data (%d bytes) after TBSCertificate", rLen)
	}
	extAt := -1
	for i, ext := range tbs.Extensions {
		if ext.Id.Equal(oid) {
			if extAt != -1 {
				return nil, errors.New("multiple extensions of specified type present")
			}
			extAt = i
		}
	}
	if extAt == -1 {
		return nil, errors.New("no extension of specified type present")
	}
	tbs.Extensions = append(tbs.Extensions[:extAt], tbs.Extensions[extAt+1:]...)
	// Clear out the asn1.RawContent so the re-marshal operation sees the
	// updated structure (rather than just copying the out-of-date DER data).
	tbs.Raw = nil

	data, err := asn1.Marshal(tbs)
	if err != nil {
		return nil, fmt.Errorf("failed to re-marshal TBSCertificate: %v", err)
	}
	return data, nil
}

// RemoveSCTList takes a DER-encoded TBSCertificate and removes the CT SCT
// extension that contains the SCT list (preserving the order of other
// extensions), and returns the result still as a DER-encoded TBSCertificate.
// This function will fail if there is not exactly 1 CT SCT extension present.
func RemoveSCTList(tbsData []byte) ([]byte, error) {
	return removeExtension(tbsData, OIDExtensionCTSCT)
}

// RemoveCTPoison takes a DER-encoded TBSCertificate and removes the CT poison
// extension (preserving the order of other extensions), and returns the result
// still as a DER-encoded TBSCertificate.  This function will fail if there is
// not exactly 1 CT poison extension present.
func RemoveCTPoison(tbsData []byte) ([]byte, error) {
	return BuildPrecertTBS(tbsData, nil)
}

// BuildPrecertTBS builds a Certificate Transparency pre-certificate (RFC 6962
// s3.1) from the given DER-encoded TBSCertificate, returning a DER-encoded
// TBSCertificate.
//
// This function removes the CT poison extension (there must be exactly 1 of
// these), preserving the order of other extensions.
//
// If preIssuer is provided, this should be a special intermediate certificate
// that was used to sign the precert (indicated by having the special
// CertificateTransparency extended key usage).  In this case, the issuance
// information of the pre-cert is updated to reflect the next issuer in the
// chain, i.e. the issuer of this special intermediate:
//   - The precert's Issuer is changed to the Issuer of the intermediate
//   - The precert's AuthorityKeyId is changed to the AuthorityKeyId of the
//     intermediate.
func BuildPrecertTBS(tbsData []byte, preIssuer *Certificate) ([]byte, error) {
	data, err := removeExtension(tbsData, OIDExtensionCTPoison)
	if err != nil {
		return nil, err
	}

	var tbs tbsCertificate
	rest, err := asn1.Unmarshal(data, &tbs)
	if err != nil {
		return nil, fmt.Errorf("failed to parse TBSCertificate: %v", err)
	} else if rLen := len(rest); rLen > 0 {
		return nil, fmt.Errorf("trailing data (%d bytes) after TBSCertificate", rLen)
	}

	if preIssuer != nil {
		// Update the precert's Issuer field.  Use the RawIssuer rather than the
		// parsed Issuer to avoid any chance of ASN.1 differences (e.g. switching
		// from UTF8String to PrintableString).
		tbs.Issuer.FullBytes = preIssuer.RawIssuer

		// Also need to update the cert's AuthorityKeyID extension
		// to that of the preIssuer.
		var issuerKeyID []byte
		for _, ext := range preIssuer.Extensions {
			if ext.Id.Equal(OIDExtensionAuthorityKeyId) {
				issuerKeyID = ext.Value
				break
			}
		}

		// Check the preIssuer has the CT EKU.
		seenCTEKU := false
		for _, eku := range preIssuer.ExtKeyUsage {
			if eku == ExtKeyUsageCertificateTransparency {
				seenCTEKU = true
				break
			}
		}
		if !seenCTEKU {
			return nil, fmt.Errorf("issuer does not have CertificateTransparency extended key usage")
		}

		keyAt := -1
		for i, ext := range tbs.Extensions {
			if ext.Id.Equal(OIDExtensionAuthorityKeyId) {
				keyAt = i
				break
			}
		}
		if keyAt >= 0 {
			// PreCert has an auth-key-id; replace it with the value from the preIssuer
			if issuerKeyID != nil {
				tbs.Extensions[keyAt].Value = issuerKeyID
			} else {
				tbs.Extensions = append(tbs.Extensions[:keyAt], tbs.Extensions[keyAt+1:]...)
			}
		} else if issuerKeyID != nil {
			// PreCert did not have an auth-key-id, but the preIssuer does, so add it at the end.
			authKeyIDExt := pkix.Extension{
				Id:       OIDExtensionAuthorityKeyId,
				Critical: false,
				Value:    issuerKeyID,
			}
			tbs.Extensions = append(tbs.Extensions, authKeyIDExt)
		}

		// Clear out the asn1.RawContent so the re-marshal operation sees the
		// updated structure (rather than just copying the out-of-date DER data).
		tbs.Raw = nil
	}

	data, err = asn1.Marshal(tbs)
	if err != nil {
		return nil, fmt.Errorf("failed to re-marshal TBSCertificate: %v", err)
	}
	return data, nil
}

type basicConstraints struct {
	IsCA       bool `asn1:"optional"`
	MaxPathLen int  `asn1:"optional,default:-1"`
}

// RFC 5280, 4.2.1.4
type policyInformation struct {
	Policy asn1.ObjectIdentifier
	// policyQualifiers omitted
}

const (
	nameTypeEmail = 1
	nameTypeDNS   = 2
	nameTypeURI   = 6
	nameTypeIP    = 7
)

// RFC 5280, 4.2.2.1
type accessDescription struct {
	Method   asn1.ObjectIdentifier
	Location asn1.RawValue
}

// RFC 5280, 4.2.1.14
type distributionPoint struct {
	DistributionPoint distributionPointName `asn1:"optional,tag:0"`
	Reason            asn1.BitString        `asn1:"optional,tag:1"`
	CRLIssuer         asn1.RawValue         `asn1:"optional,tag:2"`
}

type distributionPointName struct {
	FullName     []asn1.RawValue  `asn1:"optional,tag:0"`
	RelativeName pkix.RDNSequence `asn1:"optional,tag:1"`
}

func parsePublicKey(algo PublicKeyAlgorithm, keyData *publicKeyInfo, nfe *NonFatalErrors) (interface{}, error) {
	asn1Data := keyData.PublicKey.RightAlign()
	switch algo {
	case RSA, RSAESOAEP:
		// RSA public keys must have a NULL in the parameters.
		// See RFC 3279, Section 2.3.1.
		if algo == RSA && !bytes.Equal(keyData.Algorithm.Parameters.FullBytes, asn1.NullBytes) {
			nfe.AddError(errors.New("x509: RSA key missing NULL parameters"))
		}
		if algo == RSAESOAEP {
			// We only parse the parameters to ensure it is a valid encoding, we throw out the actual values
			paramsData := keyData.Algorithm.Parameters.FullBytes
			params := new(rsaesoaepAlgorithmParameters)
			params.HashFunc = sha1Identifier
			params.MaskgenFunc = mgf1SHA1Identifier
			params.PSourceFunc = pSpecifiedEmptyIdentifier
			rest, err := asn1.Unmarshal(paramsData, params)
			if err != nil {
				return nil, err
			}
			if len(rest) != 0 {
				return nil, errors.New("x509: trailing data after RSAES-OAEP parameters")
			}
		}

		p := new(pkcs1PublicKey)
		rest, err := asn1.Unmarshal(asn1Data, p)
		if err != nil {
			var laxErr error
			rest, laxErr = asn1.UnmarshalWithParams(asn1Data, p, "lax")
			if laxErr != nil {
				return nil, laxErr
			}
			nfe.AddError(err)
		}
		if len(rest) != 0 {
			return nil, errors.New("x509: trailing data after RSA public key")
		}

		if p.N.Sign() <= 0 {
			nfe.AddError(errors.New("x509: RSA modulus is not a positive number"))
		}
		if p.E <= 0 {
			return nil, errors.New("x509: RSA public exponent is not a positive number")
		}

		// TODO(dkarch): Update to return the parameters once crypto/x509 has come up with permanent solution (https://github.com/golang/go/issues/30416)
		pub := &rsa.PublicKey{
			E: p.E,
			N: p.N,
		}
		return pub, nil
	case DSA:
		var p *big.Int
		rest, err := asn1.Unmarshal(asn1Data, &p)
		if err != nil {
			var laxErr error
			rest, laxErr = asn1.UnmarshalWithParams(asn1Data, &p, "lax")
			if laxErr != nil {
				return nil, laxErr
			}
			nfe.AddError(err)
		}
		if len(rest) != 0 {
			return nil, errors.New("x509: trailing data after DSA public key")
		}
		paramsData := keyData.Algorithm.Parameters.FullBytes
		params := new(dsaAlgorithmParameters)
		rest, err = asn1.Unmarshal(paramsData, params)
		if err != nil {
			return nil, err
		}
		if len(rest) != 0 {
			return nil, errors.New("x509: trailing data after DSA parameters")
		}
		if p.Sign() <= 0 || params.P.Sign() <= 0 || params.Q.Sign() <= 0 || params.G.Sign() <= 0 {
			return nil, errors.New("x509: zero or negative DSA parameter")
		}
		pub := &dsa.PublicKey{
			Parameters: dsa.Parameters{
				P: params.P,
				Q: params.Q,
				G: params.G,
			},
			Y: p,
		}
		return pub, nil
	case ECDSA:
		paramsData := keyData.Algorithm.Parameters.FullBytes
		namedCurveOID := new(asn1.ObjectIdentifier)
		rest, err := asn1.Unmarshal(paramsData, namedCurveOID)
		if err != nil {
			return nil, errors.New("x509: failed to parse ECDSA parameters as named curve")
		}
		if len(rest) != 0 {
			return nil, errors.New("x509: trailing data after ECDSA parameters")
		}
		namedCurve := namedCurveFromOID(*namedCurveOID, nfe)
		if namedCurve == nil {
			return nil, fmt.Errorf("x509: unsupported elliptic curve %v", namedCurveOID)
		}
		x, y := elliptic.Unmarshal(namedCurve, asn1Data)
		if x == nil {
			return nil, errors.New("x509: failed to unmarshal elliptic curve point")
		}
		pub := &ecdsa.PublicKey{
			Curve: namedCurve,
			X:     x,
			Y:     y,
		}
		return pub, nil
	case Ed25519:
		return ed25519.PublicKey(asn1Data), nil
	default:
		return nil, nil
	}
}

// NonFatalErrors is an error type which can hold a number of other errors.
// It's used to collect a range of non-fatal errors which occur while parsing
// a certificate, that way we can still match on certs which technically are
// invalid.
type NonFatalErrors struct {
	Errors []error
}

// AddError adds an error to the list of errors contained by NonFatalErrors.
func (e *NonFatalErrors) AddError(err error) {
	e.Errors = append(e.Errors, err)
}

// Returns a string consisting of the values of Error() from all of the errors
// contained in |e|
func (e NonFatalErrors) Error() string {
	r := "NonFatalErrors: "
	for _, err := range e.Errors {
		r += err.Error() + "; "
	}
	return r
}

// HasError returns true if |e| contains at least one error
func (e *NonFatalErrors) HasError() bool {
	if e == nil {
		return false
	}
	return len(e.Errors) > 0
}

// Append combines the contents of two NonFatalErrors instances.
func (e *NonFatalErrors) Append(more *NonFatalErrors) *NonFatalErrors {
	if e == nil {
		return more
	}
	if more == nil {
		return e
	}
	combined := NonFatalErrors{Errors: make([]error, 0, len(e.Errors)+len(more.Errors))}
	combined.Errors = append(combined.Errors, e.Errors...)
	combined.Errors = append(combined.Errors, more.Errors...)
	return &combined
}

// IsFatal indicates whether an error is fatal.
func IsFatal(err error) bool {
	if err == nil {
		return false
	}
	if _, ok := err.(NonFatalErrors); ok {
		return false
	}
	if errs, ok := err.(*Errors); ok {
		return errs.Fatal()
	}
	return true
}

func parseDistributionPoints(data []byte, crldp *[]string) error {
	// CRLDistributionPoints ::= SEQUENCE SIZE (1..MAX) OF DistributionPoint
	//
	// DistributionPoint ::= SEQUENCE {
	//     distributionPoint       [0]     DistributionPointName OPTIONAL,
	//     reasons                 [1]     ReasonFlags OPTIONAL,
	//     cRLIssuer               [2]     GeneralNames OPTIONAL }
	//
	// DistributionPointName ::= CHOICE {
	//     fullName                [0]     GeneralNames,
	//     nameRelativeToCRLIssuer [1]     RelativeDistinguishedName }

	var cdp []distributionPoint
	if rest, err := asn1.Unmarshal(data, &cdp); err != nil {
		return err
	} else if len(rest) != 0 {
		return errors.New("x509: trailing data after X.509 CRL distribution point")
	}

	for _, dp := range cdp {
		// Per RFC 5280, 4.2.1.13, one of distributionPoint or cRLIssuer may be empty.
		if len(dp.DistributionPoint.FullName) == 0 {
			continue
		}

		for _, fullName := range dp.DistributionPoint.FullName {
			if fullName.Tag == 6 {
				*crldp = append(*crldp, string(fullName.Bytes))
			}
		}
	}
	return nil
}

func forEachSAN(extension []byte, callback func(tag int, data []byte) error) error {
	// RFC 5280, 4.2.1.6

	// SubjectAltName ::= GeneralNames
	//
	// GeneralNames ::= SEQUENCE SIZE (1..MAX) OF GeneralName
	//
	// GeneralName ::= CHOICE {
	//      otherName                       [0]     OtherName,
	//      rfc822Name                      [1]     IA5String,
	//      dNSName                         [2]     IA5String,
	//      x400Address                     [3]     ORAddress,
	//      directoryName                   [4]     Name,
	//      ediPartyName                    [5]     EDIPartyName,
	//      uniformResourceIdentifier       [6]     IA5String,
	//      iPAddress                       [7]     OCTET STRING,
	//      registeredID                    [8]     OBJECT IDENTIFIER }
	var seq asn1.RawValue
	rest, err := asn1.Unmarshal(extension, &seq)
	if err != nil {
		return err
	} else if len(rest) != 0 {
		return errors.New("x509: trailing data after X.509 extension")
	}
	if !seq.IsCompound || seq.Tag != asn1.TagSequence || seq.Class != asn1.ClassUniversal {
		return asn1.StructuralError{Msg: "bad SAN sequence"}
	}

	rest = seq.Bytes
	for len(rest) > 0 {
		var v asn1.RawValue
		rest, err = asn1.Unmarshal(rest, &v)
		if err != nil {
			return err
		}

		if err := callback(v.Tag, v.Bytes); err != nil {
			return err
		}
	}

	return nil
}

func parseSANExtension(value []byte, nfe *NonFatalErrors) (dnsNames, emailAddresses []string, ipAddresses []net.IP, uris []*url.URL, err error) {
	err = forEachSAN(value, func(tag int, data []byte) error {
		switch tag {
		case nameTypeEmail:
			emailAddresses = append(emailAddresses, string(data))
		case nameTypeDNS:
			dnsNames = append(dnsNames, string(data))
		case nameTypeURI:
			uri, err := url.Parse(string(data))
			if err != nil {
				return fmt.Errorf("x509: cannot parse URI %q: %s", string(data), err)
			}
			if len(uri.Host) > 0 {
				if _, ok := domainToReverseLabels(uri.Host); !ok {
					return fmt.Errorf("x509: cannot parse URI %q: invalid domain", string(data))
				}
			}
			uris = append(uris, uri)
		case nameTypeIP:
			switch len(data) {
			case net.IPv4len, net.IPv6len:
				ipAddresses = append(ipAddresses, data)
			default:
				nfe.AddError(errors.New("x509: cannot parse IP address of length " + strconv.Itoa(len(data))))
			}
		}

		return nil
	})

	return
}

// isValidIPMask reports whether mask consists of zero or more 1 bits, followed by zero bits.
func isValidIPMask(mask []byte) bool {
	seenZero := false

	for _, b := range mask {
		if seenZero {
			if b != 0 {
				return false
			}

			continue
		}

		switch b {
		case 0x00, 0x80, 0xc0, 0xe0, 0xf0, 0xf8, 0xfc, 0xfe:
			seenZero = true
		case 0xff:
		default:
			return false
		}
	}

	return true
}

func parseNameConstraintsExtension(out *Certificate, e pkix.Extension, nfe *NonFatalErrors) (unhandled bool, err error) {
	// RFC 5280, 4.2.1.10

	// NameConstraints ::= SEQUENCE {
	//      permittedSubtrees       [0]     GeneralSubtrees OPTIONAL,
	//      excludedSubtrees        [1]     GeneralSubtrees OPTIONAL }
	//
	// GeneralSubtrees ::= SEQUENCE SIZE (1..MAX) OF GeneralSubtree
	//
	// GeneralSubtree ::= SEQUENCE {
	//      base                    GeneralName,
	//      minimum         [0]     BaseDistance DEFAULT 0,
	//      maximum         [1]     BaseDistance OPTIONAL }
	//
	// BaseDistance ::= INTEGER (0..MAX)

	outer := cryptobyte.String(e.Value)
	var toplevel, permitted, excluded cryptobyte.String
	var havePermitted, haveExcluded bool
	if !outer.ReadASN1(&toplevel, cryptobyte_asn1.SEQUENCE) ||
		!outer.Empty() ||
		!toplevel.ReadOptionalASN1(&permitted, &havePermitted, cryptobyte_asn1.Tag(0).ContextSpecific().Constructed()) ||
		!toplevel.ReadOptionalASN1(&excluded, &haveExcluded, cryptobyte_asn1.Tag(1).ContextSpecific().Constructed()) ||
		!toplevel.Empty() {
		return false, errors.New("x509: invalid NameConstraints extension")
	}

	if !havePermitted && !haveExcluded || len(permitted) == 0 && len(excluded) == 0 {
		// From RFC 5280, Section 4.2.1.10:
		//   “either the permittedSubtrees field
		//   or the excludedSubtrees MUST be
		//   present”
		return false, errors.New("x509: empty name constraints extension")
	}

	getValues := func(subtrees cryptobyte.String) (dnsNames []string, ips []*net.IPNet, emails, uriDomains []string, err error) {
		for !subtrees.Empty() {
			var seq, value cryptobyte.String
			var tag cryptobyte_asn1.Tag
			if !subtrees.ReadASN1(&seq, cryptobyte_asn1.SEQUENCE) ||
				!seq.ReadAnyASN1(&value, &tag) {
				return nil, nil, nil, nil, fmt.Errorf("x509: invalid NameConstraints extension")
			}

			var (
				dnsTag   = cryptobyte_asn1.Tag(2).ContextSpecific()
				emailTag = cryptobyte_asn1.Tag(1).ContextSpecific()
				ipTag    = cryptobyte_asn1.Tag(7).ContextSpecific()
				uriTag   = cryptobyte_asn1.Tag(6).ContextSpecific()
			)

			switch tag {
			case dnsTag:
				domain := string(value)
				if err := isIA5String(domain); err != nil {
					return nil, nil, nil, nil, errors.New("x509: invalid constraint value: " + err.Error())
				}

				trimmedDomain := domain
				if len(trimmedDomain) > 0 && trimmedDomain[0] == '.' {
					// constraints can have a leading
					// period to exclude the domain
					// itself, but that's not valid in a
					// normal domain name.
					trimmedDomain = trimmedDomain[1:]
				}
				if _, ok := domainToReverseLabels(trimmedDomain); !ok {
					nfe.AddError(fmt.Errorf("x509: failed to parse dnsName constraint %q", domain))
				}
				dnsNames = append(dnsNames, domain)

			case ipTag:
				l := len(value)
				var ip, mask []byte

				switch l {
				case 8:
					ip = value[:4]
					mask = value[4:]

				case 32:
					ip = value[:16]
					mask = value[16:]

				default:
					return nil, nil, nil, nil, fmt.Errorf("x509: IP constraint contained value of length %d", l)
				}

				if !isValidIPMask(mask) {
					return nil, nil, nil, nil, fmt.Errorf("x509: IP constraint contained invalid mask %x", mask)
				}

				ips = append(ips, &net.IPNet{IP: net.IP(ip), Mask: net.IPMask(mask)})

			case emailTag:
				constraint := string(value)
				if err := isIA5String(constraint); err != nil {
					return nil, nil, nil, nil, errors.New("x509: invalid constraint value: " + err.Error())
				}

				// If the constraint contains an @ then
				// it specifies an exact mailbox name.
				if strings.Contains(constraint, "@") {
					if _, ok := parseRFC2821Mailbox(constraint); !ok {
						nfe.AddError(fmt.Errorf("x509: failed to parse rfc822Name constraint %q", constraint))
					}
				} else {
					// Otherwise it's a domain name.
					domain := constraint
					if len(domain) > 0 && domain[0] == '.' {
						domain = domain[1:]
					}
					if _, ok := domainToReverseLabels(domain); !ok {
						nfe.AddError(fmt.Errorf("x509: failed to parse rfc822Name constraint %q", constraint))
					}
				}
				emails = append(emails, constraint)

			case uriTag:
				domain := string(value)
				if err := isIA5String(domain); err != nil {
					return nil, nil, nil, nil, errors.New("x509: invalid constraint value: " + err.Error())
				}

				if net.ParseIP(domain) != nil {
					return nil, nil, nil, nil, fmt.Errorf("x509: failed to parse URI constraint %q: cannot be IP address", domain)
				}

				trimmedDomain := domain
				if len(trimmedDomain) > 0 && trimmedDomain[0] == '.' {
					// constraints can have a leading
					// period to exclude the domain itself,
					// but that's not valid in a normal
					// domain name.
					trimmedDomain = trimmedDomain[1:]
				}
				if _, ok := domainToReverseLabels(trimmedDomain); !ok {
					nfe.AddError(fmt.Errorf("x509: failed to parse URI constraint %q", domain))
				}
				uriDomains = append(uriDomains, domain)

			default:
				unhandled = true
			}
		}

		return dnsNames, ips, emails, uriDomains, nil
	}

	if out.PermittedDNSDomains, out.PermittedIPRanges, out.PermittedEmailAddresses, out.PermittedURIDomains, err = getValues(permitted); err != nil {
		return false, err
	}
	if out.ExcludedDNSDomains, out.ExcludedIPRanges, out.ExcludedEmailAddresses, out.ExcludedURIDomains, err = getValues(excluded); err != nil {
		return false, err
	}
	out.PermittedDNSDomainsCritical = e.Critical

	return unhandled, nil
}

func parseCertificate(in *certificate) (*Certificate, error) {
	var nfe NonFatalErrors

	out := new(Certificate)
	out.Raw = in.Raw
	out.RawTBSCertificate = in.TBSCertificate.Raw
	out.RawSubjectPublicKeyInfo = in.TBSCertificate.PublicKey.Raw
	out.RawSubject = in.TBSCertificate.Subject.FullBytes
	out.RawIssuer = in.TBSCertificate.Issuer.FullBytes

	out.Signature = in.SignatureValue.RightAlign()
	out.SignatureAlgorithm = SignatureAlgorithmFromAI(in.TBSCertificate.SignatureAlgorithm)

	out.PublicKeyAlgorithm =
		getPublicKeyAlgorithmFromOID(in.TBSCertificate.PublicKey.Algorithm.Algorithm)
	var err error
	out.PublicKey, err = parsePublicKey(out.PublicKeyAlgorithm, &in.TBSCertificate.PublicKey, &nfe)
	if err != nil {
		return nil, err
	}

	out.Version = in.TBSCertificate.Version + 1
	out.SerialNumber = in.TBSCertificate.SerialNumber

	var issuer, subject pkix.RDNSequence
	if rest, err := asn1.Unmarshal(in.TBSCertificate.Subject.FullBytes, &subject); err != nil {
		var laxErr error
		rest, laxErr = asn1.UnmarshalWithParams(in.TBSCertificate.Subject.FullBytes, &subject, "lax")
		if laxErr != nil {
			return nil, laxErr
		}
		nfe.AddError(err)
	} else if len(rest) != 0 {
		return nil, errors.New("x509: trailing data after X.509 subject")
	}
	if rest, err := asn1.Unmarshal(in.TBSCertificate.Issuer.FullBytes, &issuer); err != nil {
		var laxErr error
		rest, laxErr = asn1.UnmarshalWithParams(in.TBSCertificate.Issuer.FullBytes, &issuer, "lax")
		if laxErr != nil {
			return nil, laxErr
		}
		nfe.AddError(err)
	} else if len(rest) != 0 {
		return nil, errors.New("x509: trailing data after X.509 subject")
	}

	out.Issuer.FillFromRDNSequence(&issuer)
	out.Subject.FillFromRDNSequence(&subject)

	out.NotBefore = in.TBSCertificate.Validity.NotBefore
	out.NotAfter = in.TBSCertificate.Validity.NotAfter

	for _, e := range in.TBSCertificate.Extensions {
		out.Extensions = append(out.Extensions, e)
		unhandled := false

		if len(e.Id) == 4 && e.Id[0] == OIDExtensionArc[0] && e.Id[1] == OIDExtensionArc[1] && e.Id[2] == OIDExtensionArc[2] {
			switch e.Id[3] {
			case OIDExtensionKeyUsage[3]:
				// RFC 5280, 4.2.1.3
				var usageBits asn1.BitString
				if rest, err := asn1.Unmarshal(e.Value, &usageBits); err != nil {
					return nil, err
				} else if len(rest) != 0 {
					return nil, errors.New("x509: trailing data after X.509 KeyUsage")
				}

				var usage int
				for i := 0; i < 9; i++ {
					if usageBits.At(i) != 0 {
						usage |= 1 << uint(i)
					}
				}
				out.KeyUsage = KeyUsage(usage)

			case OIDExtensionBasicConstraints[3]:
				// RFC 5280, 4.2.1.9
				var constraints basicConstraints
				if rest, err := asn1.Unmarshal(e.Value, &constraints); err != nil {
					return nil, err
				} else if len(rest) != 0 {
					return nil, errors.New("x509: trailing data after X.509 BasicConstraints")
				}

				out.BasicConstraintsValid = true
				out.IsCA = constraints.IsCA
				out.MaxPathLen = constraints.MaxPathLen
				out.MaxPathLenZero = out.MaxPathLen == 0
				// TODO: map out.MaxPathLen to 0 if it has the -1 default value? (Issue 19285)

			case OIDExtensionSubjectAltName[3]:
				out.DNSNames, out.EmailAddresses, out.IPAddresses, out.URIs, err = parseSANExtension(e.Value, &nfe)
				if err != nil {
					return nil, err
				}

				if len(out.DNSNames) == 0 && len(out.EmailAddresses) == 0 && len(out.IPAddresses) == 0 && len(out.URIs) == 0 {
					// If we didn't parse anything then we do the critical check, below.
					unhandled = true
				}

			case OIDExtensionNameConstraints[3]:
				unhandled, err = parseNameConstraintsExtension(out, e, &nfe)
				if err != nil {
					return nil, err
				}

			case OIDExtensionCRLDistributionPoints[3]:
				// RFC 5280, 4.2.1.13
				if err := parseDistributionPoints(e.Value, &out.CRLDistributionPoints); err != nil {
					return nil, err
				}

			case OIDExtensionAuthorityKeyId[3]:
				// RFC 5280, 4.2.1.1
				var a authKeyId
				if rest, err := asn1.Unmarshal(e.Value, &a); err != nil {
					return nil, err
				} else if len(rest) != 0 {
					return nil, errors.New("x509: trailing data after X.509 authority key-id")
				}
				out.AuthorityKeyId = a.Id

			case OIDExtensionExtendedKeyUsage[3]:
				// RFC 5280, 4.2.1.12.  Extended Key Usage

				// id-ce-extKeyUsage OBJECT IDENTIFIER ::= { id-ce 37 }
				//
				// ExtKeyUsageSyntax ::= SEQUENCE SIZE (1..MAX) OF KeyPurposeId
				//
				// KeyPurposeId ::= OBJECT IDENTIFIER

				var keyUsage []asn1.ObjectIdentifier
				if len(e.Value) == 0 {
					nfe.AddError(errors.New("x509: empty ExtendedKeyUsage"))
				} else {
					rest, err := asn1.Unmarshal(e.Value, &keyUsage)
					if err != nil {
						var laxErr error
						rest, laxErr = asn1.UnmarshalWithParams(e.Value, &keyUsage, "lax")
						if laxErr != nil {
							return nil, laxErr
						}
						nfe.AddError(err)
					}
					if len(rest) != 0 {
						return nil, errors.New("x509: trailing data after X.509 ExtendedKeyUsage")
					}
				}

				for _, u := range keyUsage {
					if extKeyUsage, ok := extKeyUsageFromOID(u); ok {
						out.ExtKeyUsage = append(out.ExtKeyUsage, extKeyUsage)
					} else {
						out.UnknownExtKeyUsage = append(out.UnknownExtKeyUsage, u)
					}
				}

			case OIDExtensionSubjectKeyId[3]:
				// RFC 5280, 4.2.1.2
				var keyid []byte
				if rest, err := asn1.Unmarshal(e.Value, &keyid); err != nil {
					return nil, err
				} else if len(rest) != 0 {
					return nil, errors.New("x509: trailing data after X.509 key-id")
				}
				out.SubjectKeyId = keyid

			case OIDExtensionCertificatePolicies[3]:
				// RFC 5280 4.2.1.4: Certificate Policies
				var policies []policyInformation
				if rest, err := asn1.Unmarshal(e.Value, &policies); err != nil {
					return nil, err
				} else if len(rest) != 0 {
					return nil, errors.New("x509: trailing data after X.509 certificate policies")
				}
				out.PolicyIdentifiers = make([]asn1.ObjectIdentifier, len(policies))
				for i, policy := range policies {
					out.PolicyIdentifiers[i] = policy.Policy
				}

			default:
				// Unknown extensions are recorded if critical.
				unhandled = true
			}
		} else if e.Id.Equal(OIDExtensionAuthorityInfoAccess) {
			// RFC 5280 4.2.2.1: Authority Information Access
			var aia []accessDescription
			if rest, err := asn1.Unmarshal(e.Value, &aia); err != nil {
				return nil, err
			} else if len(rest) != 0 {
				return nil, errors.New("x509: trailing data after X.509 authority information")
			}
			if len(aia) == 0 {
				nfe.AddError(errors.New("x509: empty AuthorityInfoAccess extension"))
			}

			for _, v := range aia {
				// GeneralName: uniformResourceIdentifier [6] IA5String
				if v.Location.Tag != 6 {
					continue
				}
				if v.Method.Equal(OIDAuthorityInfoAccessOCSP) {
					out.OCSPServer = append(out.OCSPServer, string(v.Location.Bytes))
				} else if v.Method.Equal(OIDAuthorityInfoAccessIssuers) {
					out.IssuingCertificateURL = append(out.IssuingCertificateURL, string(v.Location.Bytes))
				}
			}
		} else if e.Id.Equal(OIDExtensionSubjectInfoAccess) {
			// RFC 5280 4.2.2.2: Subject Information Access
			var sia []accessDescription
			if rest, err := asn1.Unmarshal(e.Value, &sia); err != nil {
				return nil, err
			} else if len(rest) != 0 {
				return nil, errors.New("x509: trailing data after X.509 subject information")
			}
			if len(sia) == 0 {
				nfe.AddError(errors.New("x509: empty SubjectInfoAccess extension"))
			}

			for _, v := range sia {
				// TODO(drysdale): cope with non-URI types of GeneralName
				// GeneralName: uniformResourceIdentifier [6] IA5String
				if v.Location.Tag != 6 {
					continue
				}
				if v.Method.Equal(OIDSubjectInfoAccessTimestamp) {
					out.SubjectTimestamps = append(out.SubjectTimestamps, string(v.Location.Bytes))
				} else if v.Method.Equal(OIDSubjectInfoAccessCARepo) {
					out.SubjectCARepositories = append(out.SubjectCARepositories, string(v.Location.Bytes))
				}
			}
		} else if e.Id.Equal(OIDExtensionIPPrefixList) {
			out.RPKIAddressRanges = parseRPKIAddrBlocks(e.Value, &nfe)
		} else if e.Id.Equal(OIDExtensionASList) {
			out.RPKIASNumbers, out.RPKIRoutingDomainIDs = parseRPKIASIdentifiers(e.Value, &nfe)
		} else if e.Id.Equal(OIDExtensionCTSCT) {
			if rest, err := asn1.Unmarshal(e.Value, &out.RawSCT); err != nil {
				nfe.AddError(fmt.Errorf("failed to asn1.Unmarshal SCT list extension: %v", err))
			} else if len(rest) != 0 {
				nfe.AddError(errors.New("trailing data after ASN1-encoded SCT list"))
			} else {
				if rest, err := tls.Unmarshal(out.RawSCT, &out.SCTList); err != nil {
					nfe.AddError(fmt.Errorf("failed to tls.Unmarshal SCT list: %v", err))
				} else if len(rest) != 0 {
					nfe.AddError(errors.New("trailing data after TLS-encoded SCT list"))
				}
			}
		} else {
			// Unknown extensions are recorded if critical.
			unhandled = true
		}

		if e.Critical && unhandled {
			out.UnhandledCriticalExtensions = append(out.UnhandledCriticalExtensions, e.Id)
		}
	}
	if nfe.HasError() {
		return out, nfe
	}
	return out, nil
}

// ParseTBSCertificate parses a single TBSCertificate from the given ASN.1 DER data.
// The parsed data is returned in a Certificate struct for ease of access.
func ParseTBSCertificate(asn1Data []byte) (*Certificate, error) {
	var tbsCert tbsCertificate
	var nfe NonFatalErrors
	rest, err := asn1.Unmarshal(asn1Data, &tbsCert)
	if err != nil {
		var laxErr error
		rest, laxErr = asn1.UnmarshalWithParams(asn1Data, &tbsCert, "lax")
		if laxErr != nil {
			return nil, laxErr
		}
		nfe.AddError(err)
	}
	if len(rest) > 0 {
		return nil, asn1.SyntaxError{Msg: "trailing data"}
	}
	ret, err := parseCertificate(&certificate{
		Raw:            tbsCert.Raw,
		TBSCertificate: tbsCert})
	if err != nil {
		errs, ok := err.(NonFatalErrors)
		if !ok {
			return nil, err
		}
		nfe.Errors = append(nfe.Errors, errs.Errors...)
	}
	if nfe.HasError() {
		return ret, nfe
	}
	return ret, nil
}

// ParseCertificate parses a single certificate from the given ASN.1 DER data.
// This function can return both a Certificate and an error (in which case the
// error will be of type NonFatalErrors).
func ParseCertificate(asn1Data []byte) (*Certificate, error) {
	var cert certificate
	var nfe NonFatalErrors
	rest, err := asn1.Unmarshal(asn1Data, &cert)
	if err != nil {
		var laxErr error
		rest, laxErr = asn1.UnmarshalWithParams(asn1Data, &cert, "lax")
		if laxErr != nil {
			return nil, laxErr
		}
		nfe.AddError(err)
	}
	if len(rest) > 0 {
		return nil, asn1.SyntaxError{Msg: "trailing data"}
	}
	ret, err := parseCertificate(&cert)
	if err != nil {
		errs, ok := err.(NonFatalErrors)
		if !ok {
			return nil, err
		}
		nfe.Errors = append(nfe.Errors, errs.Errors...)
	}
	if nfe.HasError() {
		return ret, nfe
	}
	return ret, nil
}

// ParseCertificates parses one or more certificates from the given ASN.1 DER
// data. The certificates must be concatenated with no intermediate padding.
// This function can return both a slice of Certificate and an error (in which
// case the error will be of type NonFatalErrors).
func ParseCertificates(asn1Data []byte) ([]*Certificate, error) {
	var cert certificate
	var nfe, parseNFE NonFatalErrors
	var parseErr error

	ret := []*Certificate{}
	for len(asn1Data) > 0 {
		// asn1.Unmarshal leaves absent OPTIONAL fields (extensions, unique
		// IDs, algorithm parameters) untouched, so clear the scratch value.
		cert = certificate{}
		rest, err := asn1.Unmarshal(asn1Data, &cert)
		if err != nil {
			// Retry the same bytes leniently (as ParseCertificate does); the
			// strict parse returns no remainder on failure.
			var laxErr error
			rest, laxErr = asn1.UnmarshalWithParams(asn1Data, &cert, "lax")
			if laxErr != nil {
				return nil, laxErr
			}
			nfe.AddError(err)
		}
		asn1Data = rest

		if parseErr != nil {
			// Only split the remaining input: a certificate that cannot be
			// split takes precedence over one that cannot be converted.
			continue
		}
		parsed, err := parseCertificate(&cert)
		if err != nil {
			errs, ok := err.(NonFatalErrors)
			if !ok {
				parseErr = err
				continue
			}
			parseNFE.Errors = append(parseNFE.Errors, errs.Errors...)
		}
		ret = append(ret, parsed)
	}
	if parseErr != nil {
		return nil, parseErr
	}

	// Report the splitting errors of all certificates before the conversion errors.
	nfe.Errors = append(nfe.Errors, parseNFE.Errors...)
	if nfe.HasError() {
		return ret, nfe
	}
	return ret, nil
}

func reverseBitsInAByte(in byte) byte {
	b1 := in>>4 | in<<4
	b2 := b1>>2&0x33 | b1<<2&0xcc
	b3 := b2>>1&0x55 | b2<<1&0xaa
	return b3
}

// asn1BitLength returns the bit-length of bitString by considering the
// most-significant bit in a byte to be the "first" bit. This convention
// matches ASN.1, but differs from almost everything else.
func asn1BitLength(bitString []byte) int {
	bitLen := len(bitString) * 8

	for i := range bitString {
		b := bitString[len(bitString)-i-1]

		for bit := uint(0); bit < 8; bit++ {
			if (b>>bit)&1 == 1 {
				return bitLen
			}
			bitLen--
		}
	}

	return 0
}

// OID values for standard extensions from RFC 5280.
var (
	OIDExtensionArc                        = asn1.ObjectIdentifier{2, 5, 29} // id-ce RFC5280 s4.2.1
	OIDExtensionSubjectKeyId               = asn1.ObjectIdentifier{2, 5, 29, 14}
	OIDExtensionKeyUsage                   = asn1.ObjectIdentifier{2, 5, 29, 15}
	OIDExtensionExtendedKeyUsage           = asn1.ObjectIdentifier{2, 5, 29, 37}
	OIDExtensionAuthorityKeyId             = asn1.ObjectIdentifier{2, 5, 29, 35}
	OIDExtensionBasicConstraints           = asn1.ObjectIdentifier{2, 5, 29, 19}
	OIDExtensionSubjectAltName             = asn1.ObjectIdentifier{2, 5, 29, 17}
	OIDExtensionCertificatePolicies        = asn1.ObjectIdentifier{2, 5, 29, 32}
	OIDExtensionNameConstraints            = asn1.ObjectIdentifier{2, 5, 29, 30}
	OIDExtensionCRLDistributionPoints      = asn1.ObjectIdentifier{2, 5, 29, 31}
	OIDExtensionIssuerAltName              = asn1.ObjectIdentifier{2, 5, 29, 18}
	OIDExtensionSubjectDirectoryAttributes = asn1.ObjectIdentifier{2, 5, 29, 9}
	OIDExtensionInhibitAnyPolicy           = asn1.ObjectIdentifier{2, 5, 29, 54}
	OIDExtensionPolicyConstraints          = asn1.ObjectIdentifier{2, 5, 29, 36}
	OIDExtensionPolicyMappings             = asn1.ObjectIdentifier{2, 5, 29, 33}
	OIDExtensionFreshestCRL                = asn1.ObjectIdentifier{2, 5, 29, 46}

	OIDExtensionAuthorityInfoAccess = asn1.ObjectIdentifier{1, 3, 6, 1, 5, 5, 7, 1, 1}
	OIDExtensionSubjectInfoAccess   = asn1.ObjectIdentifier{1, 3, 6, 1, 5, 5, 7, 1, 11}

	// OIDExtensionCTPoison is defined in RFC 6962 s3.1.
	OIDExtensionCTPoison = asn1.ObjectIdentifier{1, 3, 6, 1, 4, 1, 11129, 2, 4, 3}
	// OIDExtensionCTSCT is defined in RFC 6962 s3.3.
	OIDExtensionCTSCT = asn1.ObjectIdentifier{1, 3, 6, 1, 4, 1, 11129, 2, 4, 2}
	// OIDExtensionIPPrefixList is defined in RFC 3779 s2.
	OIDExtensionIPPrefixList = asn1.ObjectIdentifier{1, 3, 6, 1, 5, 5, 7, 1, 7}
	// OIDExtensionASList is defined in RFC 3779 s3.
	OIDExtensionASList = asn1.ObjectIdentifier{1, 3, 6, 1, 5, 5, 7, 1, 8}
)

var (
	OIDAuthorityInfoAccessOCSP    = asn1.ObjectIdentifier{1, 3, 6, 1, 5, 5, 7, 48, 1}
	OIDAuthorityInfoAccessIssuers = asn1.ObjectIdentifier{1, 3, 6, 1, 5, 5, 7, 48, 2}
	OIDSubjectInfoAccessTimestamp = asn1.ObjectIdentifier{1, 3, 6, 1, 5, 5, 7, 48, 3}
	OIDSubjectInfoAccessCARepo    = asn1.ObjectIdentifier{1, 3, 6, 1, 5, 5, 7, 48, 5}
	OIDAnyPolicy                  = asn1.ObjectIdentifier{2, 5, 29, 32, 0}
)

// oidInExtensions reports whether an extension with the given oid exists in
// extensions.
func oidInExtensions(oid asn1.ObjectIdentifier, extensions []pkix.Extension) bool {
	for _, e := range extensions {
		if e.Id.Equal(oid) {
			return true
		}
	}
	return false
}

// marshalSANs marshals a list of addresses into a the contents of an X.509
// SubjectAlternativeName extension.
func marshalSANs(dnsNames, emailAddresses []string, ipAddresses []net.IP, uris []*url.URL) (derBytes []byte, err error) {
	var rawValues []asn1.RawValue
	for _, name := range dnsNames {
		rawValues = append(rawValues, asn1.RawValue{Tag: nameTypeDNS, Class: asn1.ClassContextSpecific, Bytes: []byte(name)})
	}
	for _, email := range emailAddresses {
		rawValues = append(rawValues, asn1.RawValue{Tag: nameTypeEmail, Class: asn1.ClassContextSpecific, Bytes: []byte(email)})
	}
	for _, rawIP := range ipAddresses {
		// If possible, we always want to encode IPv4 addresses in 4 bytes.
		ip := rawIP.To4()
		if ip == nil {
			ip = rawIP
		}
		rawValues = append(rawValues, asn1.RawValue{Tag: nameTypeIP, Class: asn1.ClassContextSpecific, Bytes: ip})
	}
	for _, uri := range uris {
		rawValues = append(rawValues, asn1.RawValue{Tag: nameTypeURI, Class: asn1.ClassContextSpecific, Bytes: []byte(uri.String())})
	}
	return asn1.Marshal(rawValues)
}

func isIA5String(s string) error {
	for _, r := range s {
		if r >= utf8.RuneSelf {
			return fmt.Errorf("x509: %q cannot be encoded as an IA5String", s)
		}
	}

	return nil
}

func buildExtensions(template *Certificate, subjectIsEmpty bool, authorityKeyId []byte) (ret []pkix.Extension, err error) {
	ret = make([]pkix.Extension, 12 /* maximum number of elements. */)
	n := 0

	if template.KeyUsage != 0 &&
		!oidInExtensions(OIDExtensionKeyUsage, template.ExtraExtensions) {
		ret[n].Id = OIDExtensionKeyUsage
		ret[n].Critical = true

		var a [2]byte
		a[0] = reverseBitsInAByte(byte(template.KeyUsage))
		a[1] = reverseBitsInAByte(byte(template.KeyUsage >> 8))

		l := 1
		if a[1] != 0 {
			l = 2
		}

		bitString := a[:l]
		ret[n].Value, err = asn1.Marshal(asn1.BitString{Bytes: bitString, BitLength: asn1BitLength(bitString)})
		if err != nil {
			return
		}
		n++
	}

	if (len(template.ExtKeyUsage) > 0 || len(template.UnknownExtKeyUsage) > 0) &&
		!oidInExtensions(OIDExtensionExtendedKeyUsage, template.ExtraExtensions) {
		ret[n].Id = OIDExtensionExtendedKeyUsage

		var oids []asn1.ObjectIdentifier
		for _, u := range template.ExtKeyUsage {
			if oid, ok := oidFromExtKeyUsage(u); ok {
				oids = append(oids, oid)
			} else {
				panic("internal error")
			}
		}

		oids = append(oids, template.UnknownExtKeyUsage...)

		ret[n].Value, err = asn1.Marshal(oids)
		if err != nil {
			return
		}
		n++
	}

	if template.BasicConstraintsValid && !oidInExtensions(OIDExtensionBasicConstraints, template.ExtraExtensions) {
		// Leaving MaxPathLen as zero indicates that no maximum path
		// length is desired, unless MaxPathLenZero is set. A value of
		// -1 causes encoding/asn1 to omit the value as desired.
		maxPathLen := template.MaxPathLen
		if maxPathLen == 0 && !template.MaxPathLenZero {
			maxPathLen = -1
		}
		ret[n].Id = OIDExtensionBasicConstraints
		ret[n].Value, err = asn1.Marshal(basicConstraints{template.IsCA, maxPathLen})
		ret[n].Critical = true
		if err != nil {
			return
		}
		n++
	}

	if len(template.SubjectKeyId) > 0 && !oidInExtensions(OIDExtensionSubjectKeyId, template.ExtraExtensions) {
		ret[n].Id = OIDExtensionSubjectKeyId
		ret[n].Value, err = asn1.Marshal(template.SubjectKeyId)
		if err != nil {
			return
		}
		n++
	}

	if len(authorityKeyId) > 0 && !oidInExtensions(OIDExtensionAuthorityKeyId, template.ExtraExtensions) {
		ret[n].Id = OIDExtensionAuthorityKeyId
		ret[n].Value, err = asn1.Marshal(authKeyId{authorityKeyId})
		if err != nil {
			return
		}
		n++
	}

	if (len(template.OCSPServer) > 0 || len(template.IssuingCertificateURL) > 0) &&
		!oidInExtensions(OIDExtensionAuthorityInfoAccess, template.ExtraExtensions) {
		ret[n].Id = OIDExtensionAuthorityInfoAccess
		var aiaValues []accessDescription
		for _, name := range template.OCSPServer {
			aiaValues = append(aiaValues, accessDescription{
				Method:   OIDAuthorityInfoAccessOCSP,
				Location: asn1.RawValue{Tag: 6, Class: asn1.ClassContextSpecific, Bytes: []byte(name)},
			})
		}
		for _, name := range template.IssuingCertificateURL {
			aiaValues = append(aiaValues, accessDescription{
				Method:   OIDAuthorityInfoAccessIssuers,
				Location: asn1.RawValue{Tag: 6, Class: asn1.ClassContextSpecific, Bytes: []byte(name)},
			})
		}
		ret[n].Value, err = asn1.Marshal(aiaValues)
		if err != nil {
			return
		}
		n++
	}

	if len(template.SubjectTimestamps) > 0 || len(template.SubjectCARepositories) > 0 &&
		!oidInExtensions(OIDExtensionSubjectInfoAccess, template.ExtraExtensions) {
		ret[n].Id = OIDExtensionSubjectInfoAccess
		var siaValues []accessDescription
		for _, ts := range template.SubjectTimestamps {
			siaValues = append(siaValues, accessDescription{
				Method:   OIDSubjectInfoAccessTimestamp,
				Location: asn1.RawValue{Tag: 6, Class: asn1.ClassContextSpecific, Bytes: []byte(ts)},
			})
		}
		for _, repo := range template.SubjectCARepositories {
			siaValues = append(siaValues, accessDescription{
				Method:   OIDSubjectInfoAccessCARepo,
				Location: asn1.RawValue{Tag: 6, Class: asn1.ClassContextSpecific, Bytes: []byte(repo)},
			})
		}
		ret[n].Value, err = asn1.Marshal(siaValues)
		if err != nil {
			return
		}
		n++
	}

	if (len(template.DNSNames) > 0 || len(template.EmailAddresses) > 0 || len(template.IPAddresses) > 0 || len(template.URIs) > 0) &&
		!oidInExtensions(OIDExtensionSubjectAltName, template.ExtraExtensions) {
		ret[n].Id = OIDExtensionSubjectAltName
		// From RFC 5280, Section 4.2.1.6:
		// “If the subject field contains an empty sequence ... then
		// subjectAltName extension ... is marked as critical”
		ret[n].Critical = subjectIsEmpty
		ret[n].Value, err = marshalSANs(template.DNSNames, template.EmailAddresses, template.IPAddresses, template.URIs)
		if err != nil {
			return
		}
		n++
	}

	if len(template.PolicyIdentifiers) > 0 &&
		!oidInExtensions(OIDExtensionCertificatePolicies, template.ExtraExtensions) {
		ret[n].Id = OIDExtensionCertificatePolicies
		policies := make([]policyInformation, len(template.PolicyIdentifiers))
		for i, policy := range template.PolicyIdentifiers {
			policies[i].Policy = policy
		}
		ret[n].Value, err = asn1.Marshal(policies)
		if err != nil {
			return
		}
		n++
	}

	if (len(template.PermittedDNSDomains) > 0 || len(template.ExcludedDNSDomains) > 0 ||
		len(template.PermittedIPRanges) > 0 || len(template.ExcludedIPRanges) > 0 ||
		len(template.PermittedEmailAddresses) > 0 || len(template.ExcludedEmailAddresses) > 0 ||
		len(template.PermittedURIDomains) > 0 || len(template.ExcludedURIDomains) > 0) &&
		!oidInExtensions(OIDExtensionNameConstraints, template.ExtraExtensions) {
		ret[n].Id = OIDExtensionNameConstraints
		ret[n].Critical = template.PermittedDNSDomainsCritical

		ipAndMask := func(ipNet *net.IPNet) []byte {
			maskedIP := ipNet.IP.Mask(ipNet.Mask)
			ipAndMask := make([]byte, 0, len(maskedIP)+len(ipNet.Mask))
			ipAndMask = append(ipAndMask, maskedIP...)
			ipAndMask = append(ipAndMask, ipNet.Mask...)
			return ipAndMask
		}

		serialiseConstraints := func(dns []string, ips []*net.IPNet, emails []string, uriDomains []string) (der []byte, err error) {
			var b cryptobyte.Builder

			for _, name := range dns {
				if err = isIA5String(name); err != nil {
					return nil, err
				}

				b.AddASN1(cryptobyte_asn1.SEQUENCE, func(b *cryptobyte.Builder) {
					b.AddASN1(cryptobyte_asn1.Tag(2).ContextSpecific(), func(b *cryptobyte.Builder) {
						b.AddBytes([]byte(name))
					})
				})
			}

			for _, ipNet := range ips {
				b.AddASN1(cryptobyte_asn1.SEQUENCE, func(b *cryptobyte.Builder) {
					b.AddASN1(cryptobyte_asn1.Tag(7).ContextSpecific(), func(b *cryptobyte.Builder) {
						b.AddBytes(ipAndMask(ipNet))
					})
				})
			}

			for _, email := range emails {
				if err = isIA5String(email); err != nil {
					return nil, err
				}

				b.AddASN1(cryptobyte_asn1.SEQUENCE, func(b *cryptobyte.Builder) {
					b.AddASN1(cryptobyte_asn1.Tag(1).ContextSpecific(), func(b *cryptobyte.Builder) {
						b.AddBytes([]byte(email))
					})
				})
			}

			for _, uriDomain := range uriDomains {
				if err = isIA5String(uriDomain); err != nil {
					return nil, err
				}

				b.AddASN1(cryptobyte_asn1.SEQUENCE, func(b *cryptobyte.Builder) {
					b.AddASN1(cryptobyte_asn1.Tag(6).ContextSpecific(), func(b *cryptobyte.Builder) {
						b.AddBytes([]byte(uriDomain))
					})
				})
			}

			return b.Bytes()
		}

		permitted, err := serialiseConstraints(template.PermittedDNSDomains, template.PermittedIPRanges, template.PermittedEmailAddresses, template.PermittedURIDomains)
		if err != nil {
			return nil, err
		}

		excluded, err := serialiseConstraints(template.ExcludedDNSDomains, template.ExcludedIPRanges, template.ExcludedEmailAddresses, template.ExcludedURIDomains)
		if err != nil {
			return nil, err
		}

		var b cryptobyte.Builder
		b.AddASN1(cryptobyte_asn1.SEQUENCE, func(b *cryptobyte.Builder) {
			if len(permitted) > 0 {
				b.AddASN1(cryptobyte_asn1.Tag(0).ContextSpecific().Constructed(), func(b *cryptobyte.Builder) {
					b.AddBytes(permitted)
				})
			}

			if len(excluded) > 0 {
				b.AddASN1(cryptobyte_asn1.Tag(1).ContextSpecific().Constructed(), func(b *cryptobyte.Builder) {
					b.AddBytes(excluded)
				})
			}
		})

		ret[n].Value, err = b.Bytes()
		if err != nil {
			return nil, err
		}
		n++
	}

	if len(template.CRLDistributionPoints) > 0 &&
		!oidInExtensions(OIDExtensionCRLDistributionPoints, template.ExtraExtensions) {
		ret[n].Id = OIDExtensionCRLDistributionPoints

		var crlDp []distributionPoint
		for _, name := range template.CRLDistributionPoints {
			dp := distributionPoint{
				DistributionPoint: distributionPointName{
					FullName: []asn1.RawValue{
						{Tag: 6, Class: asn1.ClassContextSpecific, Bytes: []byte(name)},
					},
				},
			}
			crlDp = append(crlDp, dp)
		}

		ret[n].Value, err = asn1.Marshal(crlDp)
		if err != nil {
			return
		}
		n++
	}

	if (len(template.RawSCT) > 0 || len(template.SCTList.SCTList) > 0) && !oidInExtensions(OIDExtensionCTSCT, template.ExtraExtensions) {
		rawSCT := template.RawSCT
		if len(template.SCTList.SCTList) > 0 {
			rawSCT, err = tls.Marshal(template.SCTList)
			if err != nil {
				return
			}
		}
		ret[n].Id = OIDExtensionCTSCT
		ret[n].Value, err = asn1.Marshal(rawSCT)
		if err != nil {
			return
		}
		n++
	}

	// Adding another extension here? Remember to update the maximum number
	// of elements in the make() at the top of the function and the list of
	// template fields used in CreateCertificate documentation.

	return append(ret[:n], template.ExtraExtensions...), nil
}

func subjectBytes(cert *Certificate) ([]byte, error) {
	if len(cert.RawSubject) > 0 {
		return cert.RawSubject, nil
	}

	return asn1.Marshal(cert.Subject.ToRDNSequence())
}

// signingParamsForPublicKey returns the parameters to use for signing with
// priv. If requestedSigAlgo is not zero then it overrides the default
// signature algorithm.
func signingParamsForPublicKey(pub interface{}, requestedSigAlgo SignatureAlgorithm) (hashFunc crypto.Hash, sigAlgo pkix.AlgorithmIdentifier, err error) {
	var pubType PublicKeyAlgorithm

	switch pub := pub.(type) {
	case *rsa.PublicKey:
		pubType = RSA
		hashFunc = crypto.SHA256
		sigAlgo.Algorithm = oidSignatureSHA256WithRSA
		sigAlgo.Parameters = asn1.NullRawValue

	case *ecdsa.PublicKey:
		pubType = ECDSA

		switch pub.Curve {
		case elliptic.P224(), elliptic.P256():
			hashFunc = crypto.SHA256
			sigAlgo.Algorithm = oidSignatureECDSAWithSHA256
		case elliptic.P384():
			hashFunc = crypto.SHA384
			sigAlgo.Algorithm = oidSignatureECDSAWithSHA384
		case elliptic.P521():
			hashFunc = crypto.SHA512
			sigAlgo.Algorithm = oidSignatureECDSAWithSHA512
		default:
			err = errors.New("x509: unknown elliptic curve")
		}

	case ed25519.PublicKey:
		pubType = Ed25519
		sigAlgo.Algorithm = oidSignatureEd25519

	default:
		err = errors.New("x509: only RSA, ECDSA and Ed25519 keys supported")
	}

	if err != nil {
		return
	}

	if requestedSigAlgo == 0 {
		return
	}

	found := false
	for _, details := range signatureAlgorithmDetails {
		if details.algo == requestedSigAlgo {
			if details.pubKeyAlgo != pubType {
				err = errors.New("x509: requested SignatureAlgorithm does not match private key type")
				return
			}
			sigAlgo.Algorithm, hashFunc = details.oid, details.hash
			if hashFunc == 0 && pubType != Ed25519 {
				err = errors.New("x509: cannot sign with hash function requested")
				return
			}
			if requestedSigAlgo.isRSAPSS() {
				sigAlgo.Parameters = rsaPSSParameters(hashFunc)
			}
			found = true
			break
		}
	}

	if !found {
		err = errors.New("x509: unknown SignatureAlgorithm")
	}

	return
}

// emptyASN1Subject is the ASN.1 DER encoding of an empty Subject, which is
// just an empty SEQUENCE.
var emptyASN1Subject = []byte{0x30, 0}

// CreateCertificate creates a new X.509v3 certificate based on a template.
// The following members of template are used:
//   - SerialNumber
//   - Subject
//   - NotBefore, NotAfter
//   - SignatureAlgorithm
//   - For extensions:
//   - KeyUsage
//   - ExtKeyUsage, UnknownExtKeyUsage
//   - BasicConstraintsValid, IsCA, MaxPathLen, MaxPathLenZero
//   - SubjectKeyId
//   - AuthorityKeyId
//   - OCSPServer, IssuingCertificateURL
//   - SubjectTimestamps, SubjectCARepositories
//   - DNSNames, EmailAddresses, IPAddresses, URIs
//   - PolicyIdentifiers
//   - ExcludedDNSDomains, ExcludedIPRanges, ExcludedEmailAddresses, ExcludedURIDomains, PermittedDNSDomainsCritical,
//     PermittedDNSDomains, PermittedIPRanges, PermittedEmailAddresses, PermittedURIDomains
//   - CRLDistributionPoints
//   - RawSCT, SCTList
//   - ExtraExtensions
//
// The certificate is signed by parent. If parent is equal to template then the
// certificate is self-signed. The parameter pub is the public key of the
// signee and priv is the private key of the signer.
//
// The returned slice is the certificate in DER encoding.
//
// The currently supported key types are *rsa.PublicKey, *ecdsa.PublicKey and
// ed25519.PublicKey. pub must be a supported key type, and priv must be a
// crypto.Signer with a supported public key.
//
// The AuthorityKeyId will be taken from the SubjectKeyId of parent, if any,
// unless the resulting certificate is self-signed. Otherwise the value from
// template will be used.
func CreateCertificate(rand io.Reader, template, parent *Certificate, pub, priv interface{}) (cert []byte, err error) {
	key, ok := priv.(crypto.Signer)
	if !ok {
		return nil, errors.New("x509: certificate private key does not implement crypto.Signer")
	}

	if template.SerialNumber == nil {
		return nil, errors.New("x509: no SerialNumber given")
	}

	hashFunc, signatureAlgorithm, err := signingParamsForPublicKey(key.Public(), template.SignatureAlgorithm)
	if err != nil {
		return nil, err
	}

	publicKeyBytes, publicKeyAlgorithm, err := marshalPublicKey(pub)
	if err != nil {
		return nil, err
	}

	asn1Issuer, err := subjectBytes(parent)
	if err != nil {
		return
	}

	asn1Subject, err := subjectBytes(template)
	if err != nil {
		return
	}

	authorityKeyId := template.AuthorityKeyId
	if !bytes.Equal(asn1Issuer, asn1Subject) && len(parent.SubjectKeyId) > 0 {
		authorityKeyId = parent.SubjectKeyId
	}

	extensions, err := buildExtensions(template, bytes.Equal(asn1Subject, emptyASN1Subject), authorityKeyId)
	if err != nil {
		return
	}

	encodedPublicKey := asn1.BitString{BitLength: len(publicKeyBytes) * 8, Bytes: publicKeyBytes}
	c := tbsCertificate{
		Version:            2,
		SerialNumber:       template.SerialNumber,
		SignatureAlgorithm: signatureAlgorithm,
		Issuer:             asn1.RawValue{FullBytes: asn1Issuer},
		Validity:           validity{template.NotBefore.UTC(), template.NotAfter.UTC()},
		Subject:            asn1.RawValue{FullBytes: asn1Subject},
		PublicKey:          publicKeyInfo{nil, publicKeyAlgorithm, encodedPublicKey},
		Extensions:         extensions,
	}

	tbsCertContents, err := asn1.Marshal(c)
	if err != nil {
		return
	}
	c.Raw = tbsCertContents

	signed := tbsCertContents
	if hashFunc != 0 {
		h := hashFunc.New()
		h.Write(signed)
		signed = h.Sum(nil)
	}

	var signerOpts crypto.SignerOpts = hashFunc
	if template.SignatureAlgorithm != 0 && template.SignatureAlgorithm.isRSAPSS() {
		signerOpts = &rsa.PSSOptions{
			SaltLength: rsa.PSSSaltLengthEqualsHash,
			Hash:       hashFunc,
		}
	}

	var signature []byte
	signature, err = key.Sign(rand, signed, signerOpts)
	if err != nil {
		return
	}

	return asn1.Marshal(certificate{
		nil,
		c,
		signatureAlgorithm,
		asn1.BitString{Bytes: signature, BitLength: len(signature) * 8},
	})
}

// pemCRLPrefix is the magic string that indicates that we have a PEM encoded
// CRL.
var pemCRLPrefix = []byte("-----BEGIN X509 CRL")

// pemType is the type of a PEM encoded CRL.
var pemType = "X509 CRL"

// ParseCRL parses a CRL from the given bytes. It's often the case that PEM
// encoded CRLs will appear where they should be DER encoded, so this function
// will transparently handle PEM encoding as long as there isn't any leading
// garbage.
func ParseCRL(crlBytes []byte) (*pkix.CertificateList, error) {
	if bytes.HasPrefix(crlBytes, pemCRLPrefix) {
		block, _ := pem.Decode(crlBytes)
		if block != nil && block.Type == pemType {
			crlBytes = block.Bytes
		}
	}
	return ParseDERCRL(crlBytes)
}

// ParseDERCRL parses a DER encoded CRL from the given bytes.
func ParseDERCRL(derBytes []byte) (*pkix.CertificateList, error) {
	certList := new(pkix.CertificateList)
	if rest, err := asn1.Unmarshal(derBytes, certList); err != nil {
		return nil, err
	} else if len(rest) != 0 {
		return nil, errors.New("x509: trailing data after CRL")
	}
	return certList, nil
}

// CreateCRL returns a DER encoded CRL, signed by this Certificate, that
// contains the given list of revoked certificates.
func (c *Certificate) CreateCRL(rand io.Reader, priv interface{}, revokedCerts []pkix.RevokedCertificate, now, expiry time.Time) (crlBytes []byte, err error) {
	key, ok := priv.(crypto.Signer)
	if !ok {
		return nil, errors.New("x509: certificate private key does not implement crypto.Signer")
	}

	hashFunc, signatureAlgorithm, err := signingParamsForPublicKey(key.Public(), 0)
	if err != nil {
		return nil, err
	}

	// Force revocation times to UTC per RFC 5280.
	revokedCertsUTC := make([]pkix.RevokedCertificate, len(revokedCerts))
	for i, rc := range revokedCerts {
		rc.RevocationTime = rc.RevocationTime.UTC()
		revokedCertsUTC[i] = rc
	}

	tbsCertList := pkix.TBSCertificateList{
		Version:             1,
		Signature:           signatureAlgorithm,
		Issuer:              c.Subject.ToRDNSequence(),
		ThisUpdate:          now.UTC(),
		NextUpdate:          expiry.UTC(),
		RevokedCertificates: revokedCertsUTC,
	}

	// Authority Key Id
	if len(c.SubjectKeyId) > 0 {
		var aki pkix.Extension
		aki.Id = OIDExtensionAuthorityKeyId
		aki.Value, err = asn1.Marshal(authKeyId{Id: c.SubjectKeyId})
		if err != nil {
			return
		}
		tbsCertList.Extensions = append(tbsCertList.Extensions, aki)
	}

	tbsCertListContents, err := asn1.Marshal(tbsCertList)
	if err != nil {
		return
	}

	signed := tbsCertListContents
	if hashFunc != 0 {
		h := hashFunc.New()
		h.Write(signed)
		signed = h.Sum(nil)
	}

	var signature []byte
	signature, err = key.Sign(rand, signed, hashFunc)
	if err != nil {
		return
	}

	return asn1.Marshal(pkix.CertificateList{
		TBSCertList:        tbsCertList,
		SignatureAlgorithm: signatureAlgorithm,
		SignatureValue:     asn1.BitString{Bytes: signature, BitLength: len(signature) * 8},
	})
}

// CertificateRequest represents a PKCS #10, certificate signature request.
type CertificateRequest struct {
	Raw                      []byte // Complete ASN.1 DER content (CSR, signature algorithm and signature).
	RawTBSCertificateRequest []byte // Certificate request info part of raw ASN.1 DER content.
	RawSubjectPublicKeyInfo  []byte // DER encoded SubjectPublicKeyInfo.
	RawSubject               []byte // DER encoded Subject.

	Version            int
	Signature          []byte
	SignatureAlgorithm SignatureAlgorithm

	PublicKeyAlgorithm PublicKeyAlgorithm
	PublicKey          interface{}

	Subject pkix.Name

	// Attributes contains the CSR attributes that can parse as
	// pkix.AttributeTypeAndValueSET.
	//
	// Deprecated: Use Extensions and ExtraExtensions instead for parsing and
	// generating the requestedExtensions attribute.
	Attributes []pkix.AttributeTypeAndValueSET

	// Extensions contains all requested extensions, in raw form. When parsing
	// CSRs, this can be used to extract extensions that are not parsed by this
	// package.
	Extensions []pkix.Extension

	// ExtraExtensions contains extensions to be copied, raw, into any CSR
	// marshaled by CreateCertificateRequest. Values override any extensions
	// that would otherwise be produced based on the other fields but are
	// overridden by any extensions specified in Attributes.
	//
	// The ExtraExtensions field is not populated by ParseCertificateRequest,
	// see Extensions instead.
	ExtraExtensions []pkix.Extension

	// Subject Alternate Name values.
	DNSNames       []string
	EmailAddresses []string
	IPAddresses    []net.IP
	URIs           []*url.URL
}

// These structures reflect the ASN.1 structure of X.509 certificate
// signature requests (see RFC 2986):

type tbsCertificateRequest struct {
	Raw           asn1.RawContent
	Version       int
	Subject       asn1.RawValue
	PublicKey     publicKeyInfo
	RawAttributes []asn1.RawValue `asn1:"tag:0"`
}

type certificateRequest struct {
	Raw                asn1.RawContent
	TBSCSR             tbsCertificateRequest
	SignatureAlgorithm pkix.AlgorithmIdentifier
	SignatureValue     asn1.BitString
}

// oidExtensionRequest is a PKCS#9 OBJECT IDENTIFIER that indicates requested
// extensions in a CSR.
var oidExtensionRequest = asn1.ObjectIdentifier{1, 2, 840, 113549, 1, 9, 14}

// newRawAttributes converts AttributeTypeAndValueSETs from a template
// CertificateRequest's Attributes into tbsCertificateRequest RawAttributes.
func newRawAttributes(attributes []pkix.AttributeTypeAndValueSET) ([]asn1.RawValue, error) {
	var rawAttributes []asn1.RawValue
	b, err := asn1.Marshal(attributes)
	if err != nil {
		return nil, err
	}
	rest, err := asn1.Unmarshal(b, &rawAttributes)
	if err != nil {
		return nil, err
	}
	if len(rest) != 0 {
		return nil, errors.New("x509: failed to unmarshal raw CSR Attributes")
	}
	return rawAttributes, nil
}

// parseRawAttributes Unmarshals RawAttributes into AttributeTypeAndValueSETs.
func parseRawAttributes(rawAttributes []asn1.RawValue) []pkix.AttributeTypeAndValueSET {
	var attributes []pkix.AttributeTypeAndValueSET
	for _, rawAttr := range rawAttributes {
		var attr pkix.AttributeTypeAndValueSET
		rest, err := asn1.Unmarshal(rawAttr.FullBytes, &attr)
		// Ignore attributes that don't parse into pkix.AttributeTypeAndValueSET
		// (i.e.: challengePassword or unstructuredName).
		if err == nil && len(rest) == 0 {
			attributes = append(attributes, attr)
		}
	}
	return attributes
}

// parseCSRExtensions parses the attributes from a CSR and extracts any
// requested extensions.
func parseCSRExtensions(rawAttributes []asn1.RawValue) ([]pkix.Extension, error) {
	// pkcs10Attribute reflects the Attribute structure from RFC 2986, Section 4.1.
	type pkcs10Attribute struct {
		Id     asn1.ObjectIdentifier
		Values []asn1.RawValue `asn1:"set"`
	}

	var ret []pkix.Extension
	for _, rawAttr := range rawAttributes {
		var attr pkcs10Attribute
		if rest, err := asn1.Unmarshal(rawAttr.FullBytes, &attr); err != nil || len(rest) != 0 || len(attr.Values) == 0 {
			// Ignore attributes that don't parse.
			continue
		}

		if !attr.Id.Equal(oidExtensionRequest) {
			continue
		}

		var extensions []pkix.Extension
		if _, err := asn1.Unmarshal(attr.Values[0].FullBytes, &extensions); err != nil {
			return nil, err
		}
		ret = append(ret, extensions...)
	}

	return ret, nil
}

// CreateCertificateRequest creates a new certificate request based on a
// template. The following members of template are used:
//
//   - SignatureAlgorithm
//   - Subject
//   - DNSNames
//   - EmailAddresses
//   - IPAddresses
//   - URIs
//   - ExtraExtensions
//   - Attributes (deprecated)
//
// priv is the private key to sign the CSR with, and the corresponding public
// key will be included in the CSR. It must implement crypto.Signer and its
// Public() method must return a *rsa.PublicKey or a *ecdsa.PublicKey or a
// ed25519.PublicKey. (A *rsa.PrivateKey, *ecdsa.PrivateKey or
// ed25519.PrivateKey satisfies this.)
//
// The returned slice is the certificate request in DER encoding.
func CreateCertificateRequest(rand io.Reader, template *CertificateRequest, priv interface{}) (csr []byte, err error) {
	key, ok := priv.(crypto.Signer)
	if !ok {
		return nil, errors.New("x509: certificate private key does not implement crypto.Signer")
	}

	var hashFunc crypto.Hash
	var sigAlgo pkix.AlgorithmIdentifier
	hashFunc, sigAlgo, err = signingParamsForPublicKey(key.Public(), template.SignatureAlgorithm)
	if err != nil {
		return nil, err
	}

	var publicKeyBytes []byte
	var publicKeyAlgorithm pkix.AlgorithmIdentifier
	publicKeyBytes, publicKeyAlgorithm, err = marshalPublicKey(key.Public())
	if err != nil {
		return nil, err
	}

	var extensions []pkix.Extension

	if (len(template.DNSNames) > 0 || len(template.EmailAddresses) > 0 || len(template.IPAddresses) > 0 || len(template.URIs) > 0) &&
		!oidInExtensions(OIDExtensionSubjectAltName, template.ExtraExtensions) {
		sanBytes, err := marshalSANs(template.DNSNames, template.EmailAddresses, template.IPAddresses, template.URIs)
		if err != nil {
			return nil, err
		}

		extensions = append(extensions, pkix.Extension{
			Id:    OIDExtensionSubjectAltName,
			Value: sanBytes,
		})
	}

	extensions = append(extensions, template.ExtraExtensions...)

	// Make a copy of template.Attributes because we may alter it below.
	attributes := make([]pkix.AttributeTypeAndValueSET, 0, len(template.Attributes))
	for _, attr := range template.Attributes {
		values := make([][]pkix.AttributeTypeAndValue, len(attr.Value))
		copy(values, attr.Value)
		attributes = append(attributes, pkix.AttributeTypeAndValueSET{
			Type:  attr.Type,
			Value: values,
		})
	}

	extensionsAppended := false
	if len(extensions) > 0 {
		// Append the extensions to an existing attribute if possible.
		for _, atvSet := range attributes {
			if !atvSet.Type.Equal(oidExtensionRequest) || len(atvSet.Value) == 0 {
				continue
			}

			// specifiedExtensions contains all the extensions that we
			// found specified via template.Attributes.
			specifiedExtensions := make(map[string]bool)

			for _, atvs := range atvSet.Value {
				for _, atv := range atvs {
					specifiedExtensions[atv.Type.String()] = true
				}
			}

			newValue := make([]pkix.AttributeTypeAndValue, 0, len(atvSet.Value[0])+len(extensions))
			newValue = append(newValue, atvSet.Value[0]...)

			for _, e := range extensions {
				if specifiedExtensions[e.Id.String()] {
					// Attributes already contained a value for
					// this extension and it takes priority.
					continue
				}

				newValue = append(newValue, pkix.AttributeTypeAndValue{
					// There is no place for the critical
					// flag in an AttributeTypeAndValue.
					Type:  e.Id,
					Value: e.Value,
				})
			}

			atvSet.Value[0] = newValue
			extensionsAppended = true
			break
		}
	}

	rawAttributes, err := newRawAttributes(attributes)
	if err != nil {
		return
	}

	// If not included in attributes, add a new attribute for the
	// extensions.
	if len(extensions) > 0 && !extensionsAppended {
		attr := struct {
			Type  asn1.ObjectIdentifier
			Value [][]pkix.Extension `asn1:"set"`
		}{
			Type:  oidExtensionRequest,
			Value: [][]pkix.Extension{extensions},
		}

		b, err := asn1.Marshal(attr)
		if err != nil {
			return nil, errors.New("x509: failed to serialise extensions attribute: " + err.Error())
		}

		var rawValue asn1.RawValue
		if _, err := asn1.Unmarshal(b, &rawValue); err != nil {
			return nil, err
		}

		rawAttributes = append(rawAttributes, rawValue)
	}

	asn1Subject := template.RawSubject
	if len(asn1Subject) == 0 {
		asn1Subject, err = asn1.Marshal(template.Subject.ToRDNSequence())
		if err != nil {
			return nil, err
		}
	}

	tbsCSR := tbsCertificateRequest{
		Version: 0, // PKCS #10, RFC 2986
		Subject: asn1.RawValue{FullBytes: asn1Subject},
		PublicKey: publicKeyInfo{
			Algorithm: publicKeyAlgorithm,
			PublicKey: asn1.BitString{
				Bytes:     publicKeyBytes,
				BitLength: len(publicKeyBytes) * 8,
			},
		},
		RawAttributes: rawAttributes,
	}

	tbsCSRContents, err := asn1.Marshal(tbsCSR)
	if err != nil {
		return
	}
	tbsCSR.Raw = tbsCSRContents

	signed := tbsCSRContents
	if hashFunc != 0 {
		h := hashFunc.New()
		h.Write(signed)
		signed = h.Sum(nil)
	}

	var signature []byte
	signature, err = key.Sign(rand, signed, hashFunc)
	if err != nil {
		return
	}

	return asn1.Marshal(certificateRequest{
		TBSCSR:             tbsCSR,
		SignatureAlgorithm: sigAlgo,
		SignatureValue: asn1.BitString{
			Bytes:     signature,
			BitLength: len(signature) * 8,
		},
	})
}

// ParseCertificateRequest parses a single certificate request from the
// given ASN.1 DER data.
func ParseCertificateRequest(asn1Data []byte) (*CertificateRequest, error) {
	var csr certificateRequest

	rest, err := asn1.Unmarshal(asn1Data, &csr)
	if err != nil {
		return nil, err
	} else if len(rest) != 0 {
		return nil, asn1.SyntaxError{Msg: "trailing data"}
	}

	return parseCertificateRequest(&csr)
}

func parseCertificateRequest(in *certificateRequest) (*CertificateRequest, error) {
	out := &CertificateRequest{
		Raw:                      in.Raw,
		RawTBSCertificateRequest: in.TBSCSR.Raw,
		RawSubjectPublicKeyInfo:  in.TBSCSR.PublicKey.Raw,
		RawSubject:               in.TBSCSR.Subject.FullBytes,

		Signature:          in.SignatureValue.RightAlign(),
		SignatureAlgorithm: SignatureAlgorithmFromAI(in.SignatureAlgorithm),

		PublicKeyAlgorithm: getPublicKeyAlgorithmFromOID(in.TBSCSR.PublicKey.Algorithm.Algorithm),

		Version:    in.TBSCSR.Version,
		Attributes: parseRawAttributes(in.TBSCSR.RawAttributes),
	}

	var err error
	var nfe NonFatalErrors
	out.PublicKey, err = parsePublicKey(out.PublicKeyAlgorithm, &in.TBSCSR.PublicKey, &nfe)
	if err != nil {
		return nil, err
	}
	// Treat non-fatal errors as fatal here.
	if len(nfe.Errors) > 0 {
		return nil, nfe.Errors[0]
	}

	var subject pkix.RDNSequence
	if rest, err := asn1.Unmarshal(in.TBSCSR.Subject.FullBytes, &subject); err != nil {
		return nil, err
	} else if len(rest) != 0 {
		return nil, errors.New("x509: trailing data after X.509 Subject")
	}

	out.Subject.FillFromRDNSequence(&subject)

	if out.Extensions, err = parseCSRExtensions(in.TBSCSR.RawAttributes); err != nil {
		return nil, err
	}

	for _, extension := range out.Extensions {
		if extension.Id.Equal(OIDExtensionSubjectAltName) {
			out.DNSNames, out.EmailAddresses, out.IPAddresses, out.URIs, err = parseSANExtension(extension.Value, &nfe)
			if err != nil {
				return nil, err
			}
		}
	}

	return out, nil
}

// CheckSignature reports whether the signature on c is valid.
func (c *CertificateRequest) CheckSignature() error {
	return checkSignature(c.SignatureAlgorithm, c.RawTBSCertificateRequest, c.Signature, c.PublicKey)
}
