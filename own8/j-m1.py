import sys; sys.path.insert(0,"/tmp/dev8/c10/own8"); from sub import sub
sub("asn1/common.go","structFieldsCache.Load(t)","structFieldsCache.Load(t.Kind())"); sub("asn1/common.go","structFieldsCache.LoadOrStore(t, fields)","structFieldsCache.LoadOrStore(t.Kind(), fields)")
