#!/bin/bash
# (re)builds bin/ctverif from /verif/checker when a source is newer than the binary
set -u
cd "$(dirname "$0")"
export GOFLAGS=-mod=mod GOPROXY=off GOSUMDB=off GOTOOLCHAIN=local GOWORK=off
need=0
[ -x bin/ctverif ] || need=1
if [ $need = 0 ]; then
  for f in checker/*.go checker/go.mod; do [ "$f" -nt bin/ctverif ] && need=1; done
fi
if [ $need = 1 ]; then
  mkdir -p bin
  # serialise concurrent builds
  exec 9>bin/.lock; flock 9
  (cd checker && go build -o ../bin/ctverif.tmp . && mv ../bin/ctverif.tmp ../bin/ctverif) || exit 1
fi
exit 0
