# converters: validate with the helpers, then build the struct and fill it member by member
s = s.replace('''	return &SignedCertificateTimestamp{
		SCTVersion: r.SCTVersion,
		LogID:      LogID{KeyID: keyID},
		Timestamp:  r.Timestamp,
		Extensions: CTExtensions(exts),
		Signature:  ds,
	}, nil''', '''	sct := &SignedCertificateTimestamp{SCTVersion: r.SCTVersion, Timestamp: r.Timestamp}
	sct.LogID.KeyID = keyID
	sct.Extensions = CTExtensions(exts)
	sct.Signature = ds
	return sct, nil''')
s = s.replace('''	return &SignedTreeHead{
		TreeSize:          r.TreeSize,
		Timestamp:         r.Timestamp,
		SHA256RootHash:    rootHash,
		TreeHeadSignature: ds,
	}, nil''', '''	var sth SignedTreeHead
	sth.TreeHeadSignature = ds
	sth.SHA256RootHash = SHA256Hash(rootHash)
	sth.TreeSize, sth.Timestamp = r.TreeSize, r.Timestamp
	return &sth, nil''')
