# trailing data check off by one in the shared helper
s = s.replace('''	if len(rest) > 0 {
		return DigitallySigned{}, fmt.Errorf("trailing data''', '''	if len(rest) > 1 {
		return DigitallySigned{}, fmt.Errorf("trailing data''')
