# sha256FromBytes copies from the wrong offset
s = s.replace('copy(h[:], b)', 'copy(h[1:], b)')
