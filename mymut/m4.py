# helper swallows the parse error
s = s.replace('''		return DigitallySigned{}, fmt.Errorf("%s: %v", what, err)''', '''		return DigitallySigned{}, nil''')
