# helper: value reset after decoding
s = s.replace('	return DigitallySigned(ds), nil', '	ds.Signature = nil\n	return DigitallySigned(ds), nil')
