# ToSCT: early return that skips the extensions (forgotten member in literal)
s = s.replace('		Extensions: CTExtensions(exts),\n', '')
s = s.replace('exts, err := base64.StdEncoding.DecodeString(r.Extensions)', '_, err = base64.StdEncoding.DecodeString(r.Extensions)')
