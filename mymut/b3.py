# sha256FromBytes returns the named hash type; helper returns a pointer-free value via named results
s = s.replace('func sha256FromBytes(name string, b []byte) ([sha256.Size]byte, error) {\n\tvar h [sha256.Size]byte', 'func sha256FromBytes(name string, b []byte) (h SHA256Hash, err error) {')
s = s.replace('LogID:      LogID{KeyID: keyID},', 'LogID:      LogID{KeyID: [sha256.Size]byte(keyID)},')
