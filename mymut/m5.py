# helper decodes into a look-alike type with laxer tls tags (conversion ignores tags)
s = s.replace('''	var ds tls.DigitallySigned
	rest, err := tls.Unmarshal(data, &ds)''', '''	var ds struct {
		Algorithm tls.SignatureAndHashAlgorithm
		Signature []byte `tls:"minlen:0,maxlen:255"`
	}
	rest, err := tls.Unmarshal(data, &ds)''')
