# length check of sha256FromBytes only rejects short input
s = s.replace('if len(b) != sha256.Size {\n\t\treturn h, fmt.Errorf("%s is invalid', 'if len(b) < sha256.Size {\n\t\treturn h, fmt.Errorf("%s is invalid')
