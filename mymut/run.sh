#!/bin/bash
# usage: run.sh <name> <python-edit-file> [props...]   — /repo + twin + edit (python: s = s.replace(...)) on types.go
export GOFLAGS=-mod=mod GOPROXY=off GOSUMDB=off GOTOOLCHAIN=local; unset GOWORK
W=/tmp/dev6/c04; name=$1; edit=$2; shift 2; props=${*:-C04}
M=$W/mymut/$name; mkdir -p $M/home; rsync -a --delete --exclude .git /repo/ $M/repo/
(cd $M/repo && patch -p1 -s < $W/benign6/C04/twin/patch.diff) || exit 3
python3 - "$M/repo/types.go" "$edit" <<'PY' || exit 5
import sys
p, e = sys.argv[1], sys.argv[2]
s = open(p).read(); s0 = s
g = {'s': s}
exec(open(e).read(), g)
s = g['s']
assert s != s0, "edit changed nothing"
open(p, 'w').write(s)
PY
(cd $M/repo && go build ./... && go vet . >/dev/null 2>&1 || true; go build ./... ) || { echo "$name: DOES NOT COMPILE"; exit 4; }
cp -f $W/known_findings.json $M/home/
for p in $props; do
  if [ $p = ALL ]; then
    out=$(CTVERIF_REPO=$M/repo CTVERIF_HOME=$M/home /verif/tools/throttle $W/bin/ctverif checkall 2>&1); echo "$out" | grep -e quick -e rule= | grep -v " 0 violations" | cut -c1-420; echo "$name: $(echo "$out" | grep -c " quick: .* 0 violations") of 20 checks clean"
    echo "$name: checkall done"
  else
    CTVERIF_REPO=$M/repo CTVERIF_HOME=$M/home /verif/tools/throttle $W/bin/ctverif check $p 2>&1 | grep -e quick -e rule= | cut -c1-420
  fi
done
rm -rf $M/repo
