# helper re-shaped: switch instead of if-chain, intermediate local for the converted value
s = s.replace('''	var ds tls.DigitallySigned
	rest, err := tls.Unmarshal(data, &ds)
	if err != nil {
		return DigitallySigned{}, fmt.Errorf("%s: %v", what, err)
	}
	if len(rest) > 0 {
		return DigitallySigned{}, fmt.Errorf("trailing data (%d bytes) after DigitallySigned", len(rest))
	}
	return DigitallySigned(ds), nil''', '''	var parsed tls.DigitallySigned
	rest, err := tls.Unmarshal(data, &parsed)
	switch {
	case err != nil:
		return DigitallySigned{}, fmt.Errorf("%s: %v", what, err)
	case len(rest) != 0:
		return DigitallySigned{}, fmt.Errorf("trailing data (%d bytes) after DigitallySigned", len(rest))
	}
	result := DigitallySigned(parsed)
	return result, nil''')
