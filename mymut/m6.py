# helper returns the zero value on success (wrong one of two similar operands: DigitallySigned{} vs DigitallySigned(ds))
s = s.replace('	return DigitallySigned(ds), nil', '	_ = ds\n	return DigitallySigned{}, nil')
