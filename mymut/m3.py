# the struct literal of ToSignedTreeHead loses the root hash
s = s.replace('		SHA256RootHash:    rootHash,\n', '')
s = s.replace('rootHash, err := sha256FromBytes("sha256_root_hash"', '_, err := sha256FromBytes("sha256_root_hash"')
