# ToSTH: wrong one of two similar operands
s = s.replace('		Timestamp:         r.Timestamp,\n', '		Timestamp:         r.TreeSize,\n')
