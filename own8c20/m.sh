#!/bin/bash
# usage: m.sh <name> <twin patch> <perl -0 expr> <file>   : /repo + twin + edit → C20 check; saves the combined diff under own8c20/<name>.diff
export GOFLAGS=-mod=mod GOPROXY=off GOSUMDB=off GOTOOLCHAIN=local CTVERIF_BIN=/tmp/dev8/c20/bin/ctverif VERIF=/tmp/dev8/c20; unset GOWORK
W=/tmp/dev8/c20; n=$1; M=$W/mm-$n; S=$M/repo
mkdir -p $M/home; rsync -a --delete --exclude .git /repo/ $S/
(cd $S && patch -p1 -s < $2) || exit 3
cp $S/$4 $M/before.go
perl -0pi -e "$3" $S/$4
if cmp -s $S/$4 $M/before.go; then echo "$n: EDIT DID NOT APPLY"; exit 5; fi
(cd $S && gofmt -l $4; go build ./... ) || { echo "$n: MUTANT DOES NOT COMPILE"; exit 4; }
(cd $M && diff -ru /repo/scanner $S/scanner; diff -ru /repo/trillian/migrillian/core $S/trillian/migrillian/core) > $W/own8c20/$n.diff
cp -f /verif/known_findings.json $M/home/
echo "== $n"
for p in ${PROPS:-C20}; do CTVERIF_REPO=$S CTVERIF_HOME=$M/home /verif/tools/throttle $CTVERIF_BIN check $p 2>&1 | grep -v KNOWN-FINDING | grep -v "^VIOLATION" | head -${L:-6} | cut -c1-${C:-420}; done
rm -rf $M
