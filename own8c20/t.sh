#!/bin/bash
# usage: t.sh <dir-suffix> <patch.diff>  : runs C20 and C16 on /repo + patch
export GOFLAGS=-mod=mod GOPROXY=off GOSUMDB=off GOTOOLCHAIN=local CTVERIF_BIN=/tmp/dev8/c20/bin/ctverif VERIF=/tmp/dev8/c20; unset GOWORK
W=/tmp/dev8/c20
MUT_DIR=$W/mut$1 MUT_LINES=${L:-40} $W/tools/mut.sh C20 "${@:2}" 2>&1 | grep -v "^KNOWN-FINDING" | cut -c1-${C:-700}
CTVERIF_REPO=$W/mut$1/repo CTVERIF_HOME=$W/mut$1/home /verif/tools/throttle $CTVERIF_BIN check C16 2>&1 | grep -v "^KNOWN-FINDING" | head -${L:-40} | cut -c1-${C:-700}
