#!/bin/bash
# Confirms one seeded defect delivered by a sub-agent and files it under /verif/seeded/<id>-<variant>/.
# usage: confirm_seed.sh C07 a
set -u
export GOFLAGS=-mod=mod GOPROXY=off GOSUMDB=off GOTOOLCHAIN=local; unset GOWORK
id=$1; v=$2
src=${SEED_SRC:-/tmp/seeded}/$id/$v
wt=/tmp/confirm/$id$v
out=/verif/seeded/$id-$v
log=/tmp/confirm/$id$v.log
mkdir -p /tmp/confirm
[ -f $src/patch.diff ] || { echo "$id/$v: no patch"; exit 2; }
git -C /repo worktree remove --force $wt >/dev/null 2>&1
git -C /repo worktree add -q --detach $wt HEAD || exit 2
cleanup() { git -C /repo worktree remove --force $wt >/dev/null 2>&1; }
trap cleanup EXIT
cd $wt
if ! git apply $src/patch.diff 2>/dev/null; then
  git apply --3way $src/patch.diff >>$log 2>&1 || { echo "$id/$v: PATCH DOES NOT APPLY to current /repo HEAD"; exit 3; }
  git reset -q
fi
git diff > /tmp/confirm/$id$v.patch
go build ./... >>$log 2>&1 || { echo "$id/$v: does not compile"; exit 4; }
meta=$src/meta.json
demo_dir=$(jq -r .demo_dir $meta); demo_cmd=$(jq -r .demo_cmd $meta); tests_run=$(jq -r .tests_run $meta)
demo_file=$(ls $src | grep -v -e patch.diff -e meta.json | grep "\.go$" | head -1)
# existing tests with the change
pk=$(git diff --name-only | xargs -n1 dirname | sort -u | sed 's|^|./|' | tr '\n' ' ')
echo "== existing tests of touched packages: $pk" >>$log
go test -count=1 $pk >>$log 2>&1 || { echo "$id/$v: EXISTING TESTS FAIL with the change (see $log)"; exit 5; }
mkdir -p $demo_dir; cp $src/$demo_file $demo_dir/
echo "== demo with change: $demo_cmd" >>$log
if ( eval "$demo_cmd" ) >>$log 2>&1; then echo "$id/$v: DEMO PASSES WITH THE CHANGE (not a demonstration)"; exit 6; fi
git checkout -q -- . 
echo "== demo without change" >>$log
( eval "$demo_cmd" ) >>$log 2>&1 || { echo "$id/$v: DEMO FAILS WITHOUT THE CHANGE"; exit 7; }
rm -f $demo_dir/$demo_file
mkdir -p $out
cp /tmp/confirm/$id$v.patch $out/patch.diff
cp $src/$demo_file $out/
jq --arg pk "$pk" --arg head "$(git -C /repo rev-parse --short HEAD)" '. + {confirmed: {by: "tools/confirm_seed.sh in a scratch worktree of /repo", repo_head: $head, compiled: true, existing_tests_passed: ("go test -count=1 " + $pk), demo_failed_with_change: true, demo_passed_without_change: true}}' $meta > $out/meta.json
echo "$id/$v: CONFIRMED -> $out"
