#!/usr/bin/env python3
# Generates /verif/MANIFEST.json from the properties registered in bin/ctverif and the tables below.
import json, subprocess
props = [json.loads(l) for l in open('/verif/properties.jsonl')]
reg = json.loads(subprocess.check_output(['/verif/bin/ctverif', 'list']))
NA = json.load(open('/verif/tools/not_applicable.json'))
TECH = json.load(open('/verif/tools/technique.json'))
checks, na = [], []
for p in props:
    i = p['id']
    if i in reg:
        checks.append({
            "property_id": i,
            "quick_cmd": "./check %s quick" % i,
            "thorough_cmd": "./check %s thorough" % i,
            "evidence_file": "/verif/evidence/%s.json" % i,
            "replay_cmd_template": "cat {path}",
            "engine": "ctverif",
            "level_claimed": {"category": "other", "text": reg[i], "design_ref": "DESIGN.md §4 " + i},
            "level_note": "Trusted base: go/packages + go/types + go/ssa (x/tools v0.29.0) faithfully represent /repo's source; the rule tables in /verif/checker/rules_%s.go transcribe the property statement and RFC 6962; assumptions listed in the evidence file. Decides the named structural clauses only, not the runtime behaviour as a whole." % i.lower(),
            "technique": TECH.get(i, "static analysis over type-checked SSA: predicate-sensitive reachability tables, origin-term field mapping, who-may-call"),
        })
    else:
        na.append({"property_id": i, "reason": NA.get(i, "not yet decided by a static rule; see DESIGN.md")})
m = {
    "version": 1,
    "setup_cmd": "./setup.sh",
    "hooks": {"guard": "verif", "enable": "none needed: the checks read source only (no hooks, no instrumentation)", "baseline_off_cmd": json.load(open('/root/.vp/BASELINE.json'))['cmd'], "source_commits": [], "add_only": True},
    "engines": [{"name": "ctverif", "path": "/verif/checker", "serves_properties": sorted(reg.keys()), "kind_free_text": "custom static analyser over go/packages + go/ssa: finite-domain predicate-sensitive reachability (PSR), origin-term provenance tables, lock discipline, TLS tag layout vs RFC table, constant decision tables, who-may-call, optional-part nil analysis, error-state typestate, asn1 fork diff, linear identities"}],
    "checks": checks,
    "not_applicable": na,
    "notes": "Static analysis only. Every check re-loads and type-checks /repo's working tree on every run; no repository code is executed. All claims are level 'other': structural necessary conditions of the behavioural property (see DESIGN.md §1 and each check's text for the clauses NOT covered)."
}
json.dump(m, open('/verif/MANIFEST.json', 'w'), indent=1)
print(len(checks), "checks;", len(na), "not applicable")
