#!/bin/bash
# dev: acceptance run for a change of the checker, restricted to some properties.
#   dev_accept.sh <jobs> <Cxx> [<Cxx> ...]      (or ALL)
# env: CTVERIF_BIN (binary under test, default /verif/bin/ctverif), VERIF (tree holding seeded/ benign*/, default /verif),
#      SCRATCH (unique scratch root, default /tmp/ctv-acc.$$; removed afterwards)
# 1. unchanged /repo: all 20 checks, 0 violations
# 2. every seeded/<Cxx>-* change is reported by the check of <Cxx>
# 3. every benign*/<Cxx>/* refactor is silent under all 20 checks
# prints one line per item and a summary; exit 0 iff everything is as expected
export GOFLAGS=-mod=mod GOPROXY=off GOSUMDB=off GOTOOLCHAIN=local; unset GOWORK
J=${1:?jobs}; shift
BIN=${CTVERIF_BIN:-/verif/bin/ctverif}; V=${VERIF:-/verif}; S=${SCRATCH:-/tmp/ctv-acc.$$}
mkdir -p $S
props="$*"; [ "$props" = ALL ] && props=$(seq -f 'C%02g' 1 20 | tr '\n' ' ')
export BIN V S
unchanged() {
  mkdir -p $S/u/home; cp $V/known_findings.json $S/u/home/
  out=$(CTVERIF_HOME=$S/u/home /verif/tools/throttle $BIN checkall 2>&1)
  n=$(echo "$out" | grep -c ' quick: .* 0 violations')
  if [ "$n" = 20 ]; then echo "unchanged: ok (20 checks, 0 violations)"; else echo "unchanged: BROKEN ($n of 20 clean)"; echo "$out" | grep -A1 '^VIOLATION' | grep rule= | cut -c1-260 | head -20; fi
}
seed() {
  d=$1; s=$(basename $d); p=${s%-*}; w=$S/s-$s; mkdir -p $w/home $w/repo; cp $V/known_findings.json $w/home/
  rsync -a --exclude .git /repo/ $w/repo/
  if ! (cd $w/repo && patch -p1 -s < $d/patch.diff >/dev/null 2>&1); then echo "seed $s: PATCH DOES NOT APPLY"; rm -rf $w; return; fi
  out=$(CTVERIF_REPO=$w/repo CTVERIF_HOME=$w/home /verif/tools/throttle $BIN check $p 2>&1)
  if echo "$out" | grep -q '^VIOLATION'; then echo "seed $s: caught  $(echo "$out" | grep -m1 'rule=' | sed 's/.*key=\([^ ]*\) at.*/\1/' | cut -c1-140)"
  elif echo "$out" | grep -q 'obligations'; then echo "seed $s: MISSED"
  else echo "seed $s: CHECKER PROBLEM $(echo "$out" | head -1 | cut -c1-120)"; fi
  rm -rf $w
}
ben() {
  pd=$1; id=$(basename $(dirname $(dirname $pd)))/$(basename $(dirname $pd))/$(basename $pd); w=$S/b-$(echo $id | tr / _); mkdir -p $w/home $w/repo; cp $V/known_findings.json $w/home/
  rsync -a --exclude .git /repo/ $w/repo/
  if ! (cd $w/repo && git init -q . 2>/dev/null; git -C $w/repo apply $pd/patch.diff 2>/dev/null); then echo "benign $id: PATCH DOES NOT APPLY"; rm -rf $w; return; fi
  out=$(CTVERIF_REPO=$w/repo CTVERIF_HOME=$w/home /verif/tools/throttle $BIN checkall 2>&1)
  if echo "$out" | grep -q '^VIOLATION'; then echo "benign $id: ALARM ($(echo "$out" | grep -c '^VIOLATION'))  $(echo "$out" | grep -A1 '^VIOLATION' | grep -m1 'rule=' | cut -c1-220)"
  elif [ "$(echo "$out" | grep -c ' quick: ')" != 20 ]; then echo "benign $id: CHECKER DID NOT COMPLETE"
  else echo "benign $id: silent"; fi
  rm -rf $w
}
export -f seed ben
unchanged > $S/out.u &
{ for p in $props; do ls -d $V/seeded/$p-*/ 2>/dev/null | sed 's|/$||; s|^|seed |'; ls -d $V/benign*/$p/*/ 2>/dev/null | sed 's|/$||; s|^|ben |'; done; } > $S/items
xargs -P $J -L1 bash -c '$0 $1' < $S/items > $S/out.i
wait
cat $S/out.u; sort $S/out.i
bad=$(cat $S/out.u $S/out.i | grep -c -v -e ': ok' -e ': caught' -e ': silent')
echo "summary: $(grep -c ': caught' $S/out.i) seeds caught, $(grep -c ': silent' $S/out.i) refactors silent, $bad problem line(s)"
rm -rf $S
[ "$bad" = 0 ]
