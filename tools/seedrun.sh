#!/bin/bash
# runs the property's check against each confirmed seeded mutant (scratch copy), prints caught/MISSED
# usage: seedrun.sh C02-a [Cxx ...extra properties to try]
export MUT_LINES=3
for s in "$@"; do
  p=${s%-*}
  out=$(/verif/tools/mut.sh $p /verif/seeded/$s/patch.diff 2>&1)
  if echo "$out" | grep -q "^VIOLATION"; then
    echo "$s: caught by $p: $(echo "$out" | grep -m1 "rule=" | cut -c1-220)"
  else
    echo "$s: MISSED by $p ($(echo "$out" | head -1 | cut -c1-120))"
  fi
done
