#!/bin/bash
# For a "fix:" commit of /repo and a property: re-introduce the defect (reverse-apply the commit on a scratch copy)
# and list the obligation keys that then fail.  Used once to fill the fixed entries of known_findings.json.
export GOFLAGS=-mod=mod GOPROXY=off GOSUMDB=off GOTOOLCHAIN=local; unset GOWORK
c=$1; p=$2
S=/tmp/ctv-rev/repo; mkdir -p /tmp/ctv-rev/home
rsync -a --delete --exclude .git /repo/ $S/
git -C /repo show $c > /tmp/ctv-rev/c.diff
(cd $S && patch -R -p1 -s < /tmp/ctv-rev/c.diff) || { echo "REVERSE PATCH FAILED $c"; exit 3; }
(cd $S && go build ./... ) || { echo "does not compile"; exit 4; }
echo '{"findings":[]}' > /tmp/ctv-rev/home/known_findings.json
CTVERIF_REPO=$S CTVERIF_HOME=/tmp/ctv-rev/home /verif/bin/ctverif check $p 2>&1 | grep "rule=" | sed 's/.*key=\(.*\) at [^ ]*: .*/\1/' | sed "s/^/$c $p /"
