#!/bin/bash
# Runs every confirmed seeded mutant against its property's check (on a scratch copy of /repo)
# and writes /verif/seeded/RESULTS.md.  Development aid, not a manifest check.
cd /verif
out=seeded/RESULTS.md
echo "# Seeded mutants vs. checks ($(date -u +%F), /repo $(git -C /repo rev-parse --short HEAD), /verif $(git rev-parse --short HEAD))" > $out
echo >> $out
echo "| mutant | result | first violated obligation |" >> $out
echo "|---|---|---|" >> $out
for d in seeded/C*-*/; do
  s=$(basename $d); p=${s%-*}
  res=$(MUT_LINES=4 tools/mut.sh $p /verif/$d/patch.diff 2>&1)
  if echo "$res" | grep -q "^VIOLATION"; then
    key=$(echo "$res" | grep -m1 "rule=" | sed 's/.*key=\([^ ]*\) at.*/\1/' | cut -c1-150)
    echo "| $s | caught by $p | \`$key\` |" >> $out
  elif echo "$res" | grep -q "obligations"; then
    echo "| $s | **MISSED** by $p | |" >> $out
  else
    echo "| $s | patch/compile problem: $(echo "$res" | head -1 | cut -c1-80) | |" >> $out
  fi
done
cat $out
