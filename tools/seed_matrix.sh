#!/bin/bash
# Runs every confirmed seeded mutant against its property's check (on scratch copies of /repo, JOBS in parallel)
# and writes /verif/seeded/RESULTS.md.  Development aid, not a manifest check.
# usage: seed_matrix.sh [jobs]      env: CTVERIF_BIN (default /verif/bin/ctverif)
cd /verif
J=${1:-4}
BIN=${CTVERIF_BIN:-/verif/bin/ctverif}
out=seeded/RESULTS.md
tmp=$(mktemp -d /tmp/ctv-sm.XXXXXX)
one() {
  d=$1; s=$(basename $d); p=${s%-*}; slot=$2
  res=$(MUT_DIR=/tmp/ctv-mut-$slot CTVERIF_BIN=$BIN MUT_LINES=4 tools/mut.sh $p /verif/$d/patch.diff 2>&1)
  if echo "$res" | grep -q "^VIOLATION"; then
    key=$(echo "$res" | grep -m1 "rule=" | sed 's/.*key=\([^ ]*\) at.*/\1/' | cut -c1-150)
    echo "| $s | caught by $p | \`$key\` |"
  elif echo "$res" | grep -q "obligations"; then
    echo "| $s | **MISSED** by $p | |"
  else
    echo "| $s | patch/compile problem: $(echo "$res" | head -1 | cut -c1-80) | |"
  fi
}
export -f one; export BIN
ls -d seeded/C*-*/ | sed 's|/$||' > $tmp/all
split -n l/$J -d $tmp/all $tmp/chunk.
for c in $tmp/chunk.*; do
  slot=${c##*.}
  ( while read d; do one $d $slot; done < $c > $c.out ) &
done
wait
{
  echo "# Seeded mutants vs. checks ($(date -u +%F), /repo $(git -C /repo rev-parse --short HEAD), /verif $(git rev-parse --short HEAD))"
  echo
  echo "| mutant | result | first violated obligation |"
  echo "|---|---|---|"
  cat $tmp/chunk.*.out | sort
} > $out
rm -rf $tmp /tmp/ctv-mut-[0-9]*
grep -c "caught" $out
