#!/usr/bin/env python3-vt
# validates MANIFEST.json and evidence/*.json against the schemas in /root/.vp
import json, sys, glob, jsonschema
ms = json.load(open('/root/.vp/MANIFEST.schema.json'))
es = json.load(open('/root/.vp/EVIDENCE.schema.json'))
m = json.load(open('/verif/MANIFEST.json'))
jsonschema.validate(m, ms)
ids = [c['property_id'] for c in m['checks']]
na = [n['property_id'] for n in m.get('not_applicable', [])]
allp = [json.loads(l)['id'] for l in open('/verif/properties.jsonl')]
assert sorted(ids + na) == sorted(allp), (sorted(ids+na), allp)
for f in glob.glob('/verif/evidence/*.json'):
    jsonschema.validate(json.load(open(f)), es)
print('manifest ok: %d checks, %d not_applicable; %d evidence files valid' % (len(ids), len(na), len(glob.glob('/verif/evidence/*.json'))))
