#!/bin/bash
# applies each benign (behaviour-preserving) edit to a scratch copy and runs the listed checks: all must stay silent
export GOFLAGS=-mod=mod GOPROXY=off GOSUMDB=off GOTOOLCHAIN=local; unset GOWORK
S=/tmp/ctv-ben/repo; mkdir -p /tmp/ctv-ben/home; cp /verif/known_findings.json /tmp/ctv-ben/home/
for f in /verif/tools/benign/b*.py; do
  props=$(head -1 $f | sed 's/^# //; s/:.*//')
  rsync -a --delete --exclude .git /repo/ $S/
  python3 $f $S || { echo "$(basename $f): EDIT DOES NOT APPLY"; continue; }
  (cd $S && go build ./... ) || { echo "$(basename $f): does not compile"; continue; }
  for p in $props; do
    out=$(CTVERIF_REPO=$S CTVERIF_HOME=/tmp/ctv-ben/home /verif/bin/ctverif check $p 2>&1)
    if echo "$out" | grep -q "^VIOLATION"; then echo "$(basename $f) $p: FALSE ALARM: $(echo "$out" | grep -m1 'rule=' | cut -c1-260)"; else echo "$(basename $f) $p: silent"; fi
  done
done
