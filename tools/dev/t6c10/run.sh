#!/bin/bash
# dev: own mutants (M*, expected: reported by C10.R3) and benign re-shapings (B*, expected: silent) of the
# refactored shape of benign6/C10/twin (tag families through a helper).  Patches are against /repo.
#   CTVERIF_BIN=… MUT_DIR=<scratch> tools/dev/t6c10/run.sh
D=$(dirname $0); T=$(dirname $(dirname $D))
for p in $D/M*.diff $D/B*.diff; do
  echo "== $(basename $p .diff)"
  MUT_LINES=40 $T/mut.sh C10 $p 2>&1 | grep -v '^VIOLATION' | cut -c1-120,420-900
done
