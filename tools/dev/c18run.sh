#!/bin/bash
# dev aid (C18, round 8): apply a patch (and optional sed edits) to a scratch copy of /repo, run the given checks.
# usage: c18run.sh <patch.diff|-> "<props>" [file sedexpr]...
export GOFLAGS=-mod=mod GOPROXY=off GOSUMDB=off GOTOOLCHAIN=local; unset GOWORK
W=/tmp/dev8/c18; M=$W/mut; S=$M/repo; BIN=$W/bin/ctverif
mkdir -p $M/home; rsync -a --delete --exclude .git /repo/ $S/
p=$1; props=$2; shift 2
if [ "$p" != "-" ]; then (cd $S && patch -p1 -s < $p) || exit 3; fi
while [ $# -ge 2 ]; do perl -0pi -e "$2" $S/$1 || exit 3; shift 2; done
(cd $S && go build ./... ) || { echo "MUTANT DOES NOT COMPILE"; exit 4; }
cp -f $W/known_findings.json $M/home/
if [ "$props" = ALL ]; then
  CTVERIF_REPO=$S CTVERIF_HOME=$M/home /verif/tools/throttle $BIN checkall 2>&1 | grep -e 'quick:' -e 'rule=' | grep -v ' 0 violations' | cut -c1-420
  echo "(end)"
else
  for q in $props; do CTVERIF_REPO=$S CTVERIF_HOME=$M/home /verif/tools/throttle $BIN check $q 2>&1 | grep -e 'quick:' -e 'rule=' | cut -c1-420; done
fi
