MUTS={
 # seeds from DESIGN §6
 'seed-F1': [('uint64(rest[0])<<16 | uint64(rest[1])<<8 | uint64(rest[2])','uint64(data[0])<<16 | uint64(data[1])<<8 | uint64(data[2])')],
 'seed-uint24-offset2': [('offset += 3','offset += 2')],
 'seed-skip-check-enum-enc': [('''		if err := info.check(i, prefix); err != nil {
			return err
		}
		scratch := make([]byte, 8)
		binary.BigEndian.PutUint64(scratch, uint64(i))''','''		scratch := make([]byte, 8)
		binary.BigEndian.PutUint64(scratch, uint64(i))''')],
 'skip-check-slice-enc': [('''		if err := info.check(size, prefix); err != nil {
			return err
		}
''','')],
 'drop-guard-uint16': [('''		if len(rest) < 2 {
			return offset, syntaxError{info.fieldName(), "truncated uint16"}
		}
''','')],
 'guard-uint32-lt5': [('if len(rest) < 4 {','if len(rest) < 5 {')],
 'guard-uint64-lt7': [('if len(rest) < 8 {','if len(rest) < 7 {')],
 'array-guard-len-data': [('''		if datalen > len(rest) {
			return offset, syntaxError{info.fieldName(), "truncated array"}''','''		if datalen > len(data) {
			return offset, syntaxError{info.fieldName(), "truncated array"}''')],
 'slice-rest-not-advanced': [('		rest = rest[info.count:]\n','')],
 'readvaruint-le': [('for i := uint(0); i < info.count; i++ {','for i := uint(0); i <= info.count; i++ {')],
 'readvaruint-shl4': [('result = (result << 8) | uint64(data[i])','result = (result << 4) | uint64(data[i])')],
 'readvaruint-start1': [('for i := uint(0); i < info.count; i++ {','for i := uint(1); i < info.count; i++ {')],
 'readvaruint-no-len-check': [('''	if len(data) < int(info.count) {
		return 0, syntaxError{info.fieldName(), "truncated variable-length integer"}
	}
''','')],
 'uint24-byteswap': [('uint64(rest[0])<<16 | uint64(rest[1])<<8 | uint64(rest[2])','uint64(rest[2])<<16 | uint64(rest[1])<<8 | uint64(rest[0])')],
 'enc-uint24-2bytes': [('out.Write(scratch[1:])','out.Write(scratch[2:])')],
 'enc-enum-7minus': [('''		out.Write(scratch[(8 - info.count):])
		return nil
	case reflect.Struct:''','''		out.Write(scratch[(7 - info.count):])
		return nil
	case reflect.Struct:''')],
 'enc-uint16-as32': [('''		scratch := make([]byte, 2)
		binary.BigEndian.PutUint16(scratch, uint16(v.Uint()))''','''		scratch := make([]byte, 4)
		binary.BigEndian.PutUint32(scratch, uint32(v.Uint()))''')],
 'enc-slice-prefix-elemcount': [('size := uint64(innerBuf.Len())','size := uint64(v.Len())')],
 'enc-slice-prefix-after-data': [('''		out.Write(scratch[(8 - info.count):])

		// Then copy the data.
		_, err := out.Write(innerBuf.Bytes())
		return err''','''		out.Write(innerBuf.Bytes())
		_, err := out.Write(scratch[(8 - info.count):])
		return err''')],
 'dec-variant-no-nil': [('''					v.Field(i).Set(reflect.Zero(structType.Field(i).Type))
					continue''','''					continue''')],
 'enc-variant-drop-chosen-nil': [('''				if v.Field(i).Pointer() == uintptr(0) {
					return structuralError{fieldInfo.name, "chosen field is nil"}
				}
''','')],
 'enc-variant-drop-unchosen-nonnil': [('''					if v.Field(i).Pointer() != uintptr(0) {
						return structuralError{fieldInfo.name, "unchosen field is non-nil"}
					}
''','')],
 'dec-drop-unserved-selector': [('''		for selector, seen := range selectorSeen {
			if !seen {
				return offset, syntaxError{info.fieldName(), selector + ": unhandled value for selector"}
			}
		}
		return offset, nil''','''		return offset, nil''')],
 'dec-variant-parse-unchosen': [('''				if choice != fieldInfo.val {
					// This destination field was not the chosen one, so make it nil (we checked
					// it was a pointer above).
					v.Field(i).Set(reflect.Zero(structType.Field(i).Type))
					continue
				}''','''				if choice != fieldInfo.val && choice != 0 {
					v.Field(i).Set(reflect.Zero(structType.Field(i).Type))
					continue
				}''')],
 'check-ge-maxlen': [('if val > i.maxlen {','if val >= i.maxlen {')],
 'check-drop-minlen': [('''		if val < i.minlen {
			return structuralError{fldName, fmt.Sprintf("value %d too small for minimum %d", val, i.minlen)}
		}
''','')],
 'check-size-gt': [('if val >= (1 << (8 * i.count)) {','if val > (1 << (8 * i.count)) {')],
 'tag-maxlen-cut6': [('''			v, err := strconv.ParseUint(part[7:], 10, 64)
			if err != nil {
				continue
			}
			if info == nil {
				info = &fieldInfo{}
			}
			info.count = byteCount(v)''','''			v, err := strconv.ParseUint(part[6:], 10, 64)
			if err != nil {
				continue
			}
			if info == nil {
				info = &fieldInfo{}
			}
			info.count = byteCount(v)''')],
 'tag-maxlen-no-count': [('			info.count = byteCount(v)\n			info.countSet = true\n			info.maxlen = v','			info.countSet = true\n			info.maxlen = v')],
 'bytecount-le': [('case x < 0x10000:','case x <= 0x10000:')],
 'dec-drop-uint32-case': [('''	case uint32Type:
		if len(rest) < 4 {
			return offset, syntaxError{info.fieldName(), "truncated uint32"}
		}
		v.SetUint(uint64(binary.BigEndian.Uint32(rest)))
		offset += 4
		return offset, nil
''','')],
 'uint24type-is-uint32': [('uint24Type = reflect.TypeOf(Uint24(0))','uint24Type = reflect.TypeOf(uint32(0))')],
 'unmarshal-rest-whole': [('	return b[offset:], nil','	_ = offset\n	return b, nil')],
 'alloc-before-guard': [('''		if datalen > len(rest) {
			return offset, syntaxError{info.fieldName(), "truncated slice"}
		}
		inner := rest[:datalen]''','''		prealloc := reflect.MakeSlice(sliceType, 0, datalen)
		_ = prealloc
		if datalen > len(rest) {
			return offset, syntaxError{info.fieldName(), "truncated slice"}
		}
		inner := rest[:datalen]''')],
 'selseen-reset-always': [('''				seen, ok := selectorSeen[fieldInfo.selector]
				if !ok {
					selectorSeen[fieldInfo.selector] = false
				}
				if choice != fieldInfo.val {
					// This destination''','''				seen, ok := selectorSeen[fieldInfo.selector]
				_ = ok
				selectorSeen[fieldInfo.selector] = false
				if choice != fieldInfo.val {
					// This destination''')],
 'struct-fields-from-initoffset': [('offset, err = parseField(destination, data, offset, fieldInfo)','offset, err = parseField(destination, data, initOffset, fieldInfo)')],
 'slice-elems-from-zero': [('innerOffset, err = parseField(single.Elem(), inner, innerOffset, nil)','innerOffset, err = parseField(single.Elem(), inner, 0, nil)')],
 'slice-inner-loop-le': [('for innerOffset := 0; innerOffset < len(inner); {','for innerOffset := 0; innerOffset <= len(inner); {')],
 'dec-enum-offset-plus1': [('''		v.SetUint(val)
		offset += int(info.count)''','''		v.SetUint(val)
		offset += int(info.count) + 1''')],
 'enc-uint24-drop-overflow': [('''		if i > 0xffffff {
			return structuralError{info.fieldName(), fmt.Sprintf("uint24 overflow %d", i)}
		}
''','')],
 'tag-size-limit-9': [('} else if info.count > 8 {','} else if info.count > 9 {')],
 'enc-swallow-elem-error': [('''			if err := marshalField(&innerBuf, v.Index(i), nil); err != nil {
				return err
			}''','''			marshalField(&innerBuf, v.Index(i), nil)''')],
 'dec-wrong-tag-key': [('''			tag := structType.Field(i).Tag.Get("tls")
			fieldInfo, err := fieldTagToFieldInfo(tag, structType.Field(i).Name)
			if err != nil {
				return offset, err
			}

			destination''','''			tag := structType.Field(i).Tag.Get("tlsx")
			fieldInfo, err := fieldTagToFieldInfo(tag, structType.Field(i).Name)
			if err != nil {
				return offset, err
			}

			destination''')],
 'enc-enum-record-wrong-field': [('''				enums[structType.Field(i).Name] = v.Field(i).Uint()
			}
		}
		// Now we have seen all fields in the structure, check that all select(Enum) {..} selector
		// fields found a source''','''				enums[structType.Field(i).Name] = v.Field(0).Uint()
			}
		}
		// Now we have seen all fields in the structure, check that all select(Enum) {..} selector
		// fields found a source''')],
}
BENIGN={
}
MUTS.update({
 'benign-temporary-uint16': [('v.SetUint(uint64(binary.BigEndian.Uint16(rest)))','n16 := binary.BigEndian.Uint16(rest)\n\t\twide := uint64(n16)\n\t\tv.SetUint(wide)')],
 'benign-reorder-uint32': [('''		v.SetUint(uint64(binary.BigEndian.Uint32(rest)))
		offset += 4''','''		offset += 4
		v.SetUint(uint64(binary.BigEndian.Uint32(rest)))''')],
 'benign-reslice-from-data': [('		rest = rest[info.count:]\n','		rest = data[offset:]\n')],
 'benign-if-form-uint8': [('''	switch fieldType {
	case uint8Type:
		if len(rest) < 1 {
			return offset, syntaxError{info.fieldName(), "truncated uint8"}
		}
		v.SetUint(uint64(rest[0]))
		offset++
		return offset, nil
	case uint16Type:
		if len(rest) < 2 {''','''	if fieldType == uint8Type {
		if len(rest) < 1 {
			return offset, syntaxError{info.fieldName(), "truncated uint8"}
		}
		v.SetUint(uint64(rest[0]))
		return offset + 1, nil
	}
	switch fieldType {
	case uint16Type:
		if len(rest) < 2 {''')],
 'benign-enc-array-scratch': [('''		scratch := make([]byte, 2)
		binary.BigEndian.PutUint16(scratch, uint16(v.Uint()))
		out.Write(scratch)''','''		var scratch [2]byte
		binary.BigEndian.PutUint16(scratch[:], uint16(v.Uint()))
		out.Write(scratch[:])''')],
 'benign-uint24-via-uint16': [('uint64(rest[0])<<16 | uint64(rest[1])<<8 | uint64(rest[2])','uint64(rest[0])<<16 | uint64(binary.BigEndian.Uint16(rest[1:]))')],
 'benign-guard-flag': [('''		if len(rest) < 4 {
			return offset, syntaxError{info.fieldName(), "truncated uint32"}''','''		short := len(rest) < 4
		if short {
			return offset, syntaxError{info.fieldName(), "truncated uint32"}''')],
 'benign-guard-flipped': [('if len(rest) < 2 {','if 2 > len(rest) {')],
 'benign-readvaruint-int-counter': [('''	for i := uint(0); i < info.count; i++ {
		result = (result << 8) | uint64(data[i])
	}''','''	n := int(info.count)
	for i := 0; i < n; i++ {
		result = result<<8 + uint64(data[i])
	}''')],
 'benign-check-reordered': [('''	if val >= (1 << (8 * i.count)) {
		return structuralError{fldName, fmt.Sprintf("value %d too large for size", val)}
	}
	if i.maxlen != 0 {
		if val < i.minlen {
			return structuralError{fldName, fmt.Sprintf("value %d too small for minimum %d", val, i.minlen)}
		}
		if val > i.maxlen {
			return structuralError{fldName, fmt.Sprintf("value %d too large for maximum %d", val, i.maxlen)}
		}
	}
	return nil''','''	if i.maxlen != 0 && (val < i.minlen || val > i.maxlen) {
		return structuralError{fldName, fmt.Sprintf("value %d outside %d..%d", val, i.minlen, i.maxlen)}
	}
	if val >= (1 << (8 * i.count)) {
		return structuralError{fldName, fmt.Sprintf("value %d too large for size", val)}
	}
	return nil''')],
 'benign-enum-offset-temp': [('''		v.SetUint(val)
		offset += int(info.count)''','''		width := int(info.count)
		v.SetUint(val)
		offset = offset + width''')],
 'benign-array-end-temp': [('''		inner := rest[:datalen]
		offset += datalen
		if fieldType.Elem().Kind() != reflect.Uint8 {
			// Only byte/uint8 arrays are supported''','''		end := offset + datalen
		inner := data[offset:end]
		offset = end
		if fieldType.Elem().Kind() != reflect.Uint8 {
			// Only byte/uint8 arrays are supported''')],
 'benign-rename-rest': 'RENAME',
})
MUTS.update({
 'enc-struct-drop-write': [('			out.Write(fieldData.Bytes())\n','			_ = fieldData.Bytes()\n')],
 'enc-struct-buffer-outside-loop': [('''		selectorSeen := make(map[string]bool)
		for i := 0; i < structType.NumField(); i++ {
			// Find information about this field.
			tag := structType.Field(i).Tag.Get("tls")
			fieldInfo, err := fieldTagToFieldInfo(tag, structType.Field(i).Name)
			if err != nil {
				return err
			}
''','''		selectorSeen := make(map[string]bool)
		var fieldData bytes.Buffer
		for i := 0; i < structType.NumField(); i++ {
			// Find information about this field.
			tag := structType.Field(i).Tag.Get("tls")
			fieldInfo, err := fieldTagToFieldInfo(tag, structType.Field(i).Name)
			if err != nil {
				return err
			}
'''),('			var fieldData bytes.Buffer\n','')],
 'dec-struct-skip-first-field': [('''		selectorSeen := make(map[string]bool)
		for i := 0; i < structType.NumField(); i++ {
			// Find information about this field.
			tag := structType.Field(i).Tag.Get("tls")
			fieldInfo, err := fieldTagToFieldInfo(tag, structType.Field(i).Name)
			if err != nil {
				return offset, err''','''		selectorSeen := make(map[string]bool)
		for i := 1; i < structType.NumField(); i++ {
			// Find information about this field.
			tag := structType.Field(i).Tag.Get("tls")
			fieldInfo, err := fieldTagToFieldInfo(tag, structType.Field(i).Name)
			if err != nil {
				return offset, err''')],
 'enc-enum-check-plus1': [('if err := info.check(i, prefix); err != nil {','if err := info.check(i+1, prefix); err != nil {')],
 'dec-array-no-offset': [('''		inner := rest[:datalen]
		offset += datalen
		if fieldType.Elem().Kind() != reflect.Uint8 {
			// Only byte/uint8 arrays''','''		inner := rest[:datalen]
		if fieldType.Elem().Kind() != reflect.Uint8 {
			// Only byte/uint8 arrays''')],
 'enc-array-elem-shift': [('''		bytes := make([]byte, datalen)
		for i := 0; i < datalen; i++ {
			bytes[i] = uint8(v.Index(i).Uint())
		}
		_, err := out.Write(bytes)
		return err

	case reflect.Slice:''','''		bytes := make([]byte, datalen)
		for i := 1; i < datalen; i++ {
			bytes[i-1] = uint8(v.Index(i).Uint())
		}
		_, err := out.Write(bytes)
		return err

	case reflect.Slice:''')],
 'enc-enum-swap-struct-kind': [('	case reflect.Array:\n		datalen := v.Len()\n		arrayType := fieldType','	case reflect.Map:\n		datalen := v.Len()\n		arrayType := fieldType')],
})
MUTS.update({'anchor-rename-readVarUint':'RENAME2'})
