#!/usr/bin/env python3
# usage: run.py <name> — applies mutant <name> from MUTS on top of the F1-fixed tls.go, builds, checks, restores
import subprocess, sys, os, re
REPO='/tmp/dev/c09/repo'; F=REPO+'/tls/tls.go'; BASE=open('/tmp/dev/c09/tls.fixed.go').read()
env=dict(os.environ, GOFLAGS='-mod=mod', GOPROXY='off', GOSUMDB='off', GOTOOLCHAIN='local', CTVERIF_REPO=REPO, CTVERIF_HOME='/tmp/dev/c09/home')
env.pop('GOWORK',None)
exec(open('/tmp/dev/c09/mut/muts.py').read())
def run(name):
    edits=MUTS[name]
    s=BASE
    if edits=='RENAME':
        s=re.sub(r'\brest\b','remaining',s); edits=[]
    if edits=='RENAME2':
        s=re.sub(r'\breadVarUint\b','readSizedUint',s); edits=[]
    for old,new in edits:
        assert s.count(old)>=1, (name, 'pattern not found', old)
        s=s.replace(old,new,1)
    open(F,'w').write(s)
    b=subprocess.run(['go','build','./tls/'],cwd=REPO,env=env,capture_output=True,text=True)
    if b.returncode!=0:
        print(name,'DOES NOT COMPILE',b.stderr[:400]); open(F,'w').write(BASE); return
    v=subprocess.run(['go','vet','./tls/'],cwd=REPO,env=env,capture_output=True,text=True)
    c=subprocess.run(['/tmp/dev/c09/ctverif','check','C09'],cwd='/tmp',env=env,capture_output=True,text=True)
    keys=re.findall(r'key=(\S+)',c.stdout)
    print('%-28s exit=%d %s'%(name,c.returncode,'CAUGHT' if c.returncode==1 else ('silent' if c.returncode==0 else 'BROKEN')), '' if v.returncode==0 else '[vet complains]')
    for k in keys: print('      ',k)
    if c.returncode not in (0,1): print(c.stdout[-600:], c.stderr[-600:])
    open(F,'w').write(BASE)
names=sys.argv[1:] or list(MUTS)
for n in names: run(n)
