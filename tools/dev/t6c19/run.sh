#!/bin/bash
# run.sh <name>...: C19 check (mutants) or checkall (benign b*) on /repo + own patch
export GOFLAGS=-mod=mod GOPROXY=off GOSUMDB=off GOTOOLCHAIN=local; unset GOWORK
W=${VERIF:?VERIF = checker tree}; export CTVERIF_BIN=${CTVERIF_BIN:-$W/bin/ctverif}; D=$(cd $(dirname $0) && pwd)
for n in "$@"; do
  echo "=== $n"
  MUT_DIR=$W/mut MUT_LINES=40 $W/tools/mut.sh C19 $D/patches/$n.diff 2>&1 | grep -v "^VIOLATION" | cut -c1-420
  case $n in b*) CTVERIF_REPO=$W/mut/repo CTVERIF_HOME=$W/mut/home /verif/tools/throttle $CTVERIF_BIN checkall 2>&1 | grep -v " 0 violations\|KNOWN-FINDING" | cut -c1-300;; esac
done
