import sys, os, subprocess
W=os.path.dirname(os.path.abspath(__file__))  # own mutants / re-shapings of benign6/C19/twin (twin applied: witness.twin.go.txt)
REL='internal/witness/cmd/witness/internal/witness/witness.go'
twin=open(W+'/witness.twin.go.txt').read()
VER='''	if err := sv.VerifySTHSignature(*next); err != nil {
		return nil, fmt.Errorf("couldn't parse input STH: failed to verify STH signature: %v", err)
	}
'''
assert VER in twin
M={}
# --- mutants (behaviour-breaking, twin shape)
M['m1-verify-only-with-proof']=[(VER,'''	if len(pf) > 0 {
		if err := sv.VerifySTHSignature(*next); err != nil {
			return nil, fmt.Errorf("couldn't parse input STH: failed to verify STH signature: %v", err)
		}
	}
''')]
M['m2-verify-error-swallowed']=[(VER,'''	if err := sv.VerifySTHSignature(*next); err != nil {
		klog.Warningf("couldn't parse input STH: failed to verify STH signature: %v", err)
	}
''')]
M['m3-verify-weakened-unsigned-ok']=[(VER,'''	if err := sv.VerifySTHSignature(*next); err != nil && len(next.TreeHeadSignature.Signature) > 0 {
		return nil, fmt.Errorf("couldn't parse input STH: failed to verify STH signature: %v", err)
	}
''')]
M['m4-stale-off-by-one']=[('	if next.TreeSize < prev.TreeSize {\n		// Complain if prev is bigger than next.\n		return status.Errorf','	if next.TreeSize <= prev.TreeSize {\n		// Complain if prev is bigger than next.\n		return status.Errorf')]
M['m5-consistency-roots-swapped']=[('pf, prev.SHA256RootHash[:], next.SHA256RootHash[:]); err != nil {\n		// Complain if the STHs','pf, next.SHA256RootHash[:], prev.SHA256RootHash[:]); err != nil {\n		// Complain if the STHs')]
M['m6-other-log-accepted']=[('''	} else if !bytes.Equal(sth.LogID[:], idHash[:]) {
		return nil, status.Errorf(codes.FailedPrecondition, "STH logID = %q, input logID = %q", sth.LogID.Base64String(), logID)
	}
	return &sth, nil''','''	}
	return &sth, nil''')]
M['m7-proof-skipped-when-empty']=[('''	if err := verifyUpdate(prev, next, pf); err != nil {''','''	if len(pf) == 0 && next.TreeSize > prev.TreeSize {
		klog.V(1).Infof("no proof supplied for %q", logID)
	} else if err := verifyUpdate(prev, next, pf); err != nil {''')]
M['m8-verify-after-tofu-store']=[(VER,''),('''	prev, err := w.parse(prevRaw, logID)''','''	if err := sv.VerifySTHSignature(*next); err != nil {
		return nil, fmt.Errorf("couldn't parse input STH: failed to verify STH signature: %v", err)
	}
	prev, err := w.parse(prevRaw, logID)''')]
M['m9-verify-dropped']=[(VER,'	_ = sv\n')]
M['m10-candidate-touched-after-verify']=[(VER,VER+'	next.TreeSize = next.TreeSize &^ 1\n')]
M['m11-sign-held-instead-of-candidate']=[('''	signed, err := w.signSTH(next)
	if err != nil {
		return nil, fmt.Errorf("failed to sign new STH: %v", err)''','''	signed, err := w.signSTH(prev)
	if err != nil {
		return nil, fmt.Errorf("failed to sign new STH: %v", err)''')]
M['m12-json-error-ignored']=[('''	if err := json.Unmarshal(sthRaw, &sth); err != nil {
		return nil, fmt.Errorf("failed to unmarshal json: %v", err)
	}
	var idHash''','''	if err := json.Unmarshal(sthRaw, &sth); err != nil {
		klog.V(1).Infof("failed to unmarshal json: %v", err)
	}
	var idHash''')]
# --- benign re-shapings
M['b1-verify-inside-tx-before-read']=[(VER,''),('''	// Check the stored STH''','''	// Check the stored STH'''),('''	prevRaw, err := w.getLatestSTH(tx.QueryRow, logID)''','''	if err := sv.VerifySTHSignature(*next); err != nil {
		return nil, fmt.Errorf("couldn't parse input STH: failed to verify STH signature: %v", err)
	}
	prevRaw, err := w.getLatestSTH(tx.QueryRow, logID)''')]
M['b2-verify-on-each-branch']=[(VER,''),('''		if status.Code(err) == codes.NotFound {
''','''		if status.Code(err) == codes.NotFound {
			if err := sv.VerifySTHSignature(*next); err != nil {
				return nil, fmt.Errorf("couldn't parse input STH: failed to verify STH signature: %v", err)
			}
'''),('''	prev, err := w.parse(prevRaw, logID)''','''	if err := sv.VerifySTHSignature(*next); err != nil {
		return nil, fmt.Errorf("couldn't parse input STH: failed to verify STH signature: %v", err)
	}
	prev, err := w.parse(prevRaw, logID)''')]
M['b3-held-written-out-too']=[('''	prev, err := w.parse(prevRaw, logID)
	if err != nil {
		return nil, fmt.Errorf("couldn't parse stored STH: %v", err)
	}''','''	prev, err := decodeSTH(prevRaw, logID)
	if err != nil {
		return nil, fmt.Errorf("couldn't parse stored STH: %v", err)
	}
	if err := sv.VerifySTHSignature(*prev); err != nil {
		return nil, fmt.Errorf("couldn't parse stored STH: failed to verify STH signature: %v", err)
	}''')]
M['b4-candidate-via-parse-helper-kept']=[('next, err := decodeSTH(nextRaw, logID)','next, err := w.parse(nextRaw, logID)'),(VER,'	_ = sv\n')]

B3=M['b3-held-written-out-too']
M['m13-held-written-out-verify-wrong-sth']=[(B3[0][0],B3[0][1].replace('sv.VerifySTHSignature(*prev)','sv.VerifySTHSignature(*next)'))]
M['m14-held-written-out-verify-dropped']=[(B3[0][0],B3[0][1].replace("""	if err := sv.VerifySTHSignature(*prev); err != nil {
		return nil, fmt.Errorf("couldn't parse stored STH: failed to verify STH signature: %v", err)
	}""",""))]
M['b5-getsth-written-out']=[("""	sth, err := w.parse(sthRaw, logID)
	if err != nil {
		return nil, fmt.Errorf("couldn't parse raw STH: %v", err)
	}""","""	sv, ok := w.Logs[logID]
	if !ok {
		return nil, fmt.Errorf("couldn't parse raw STH: log %q not found", logID)
	}
	sth, err := decodeSTH(sthRaw, logID)
	if err != nil {
		return nil, fmt.Errorf("couldn't parse raw STH: %v", err)
	}
	if err := sv.VerifySTHSignature(*sth); err != nil {
		return nil, fmt.Errorf("couldn't parse raw STH: failed to verify STH signature: %v", err)
	}""")]
M['m15-getsth-written-out-unverified']=[("""	sth, err := w.parse(sthRaw, logID)
	if err != nil {
		return nil, fmt.Errorf("couldn't parse raw STH: %v", err)
	}""","""	sth, err := decodeSTH(sthRaw, logID)
	if err != nil {
		return nil, fmt.Errorf("couldn't parse raw STH: %v", err)
	}""")]
names=sys.argv[1:] or sorted(M)
os.makedirs(W+'/patches',exist_ok=True)
for n in names:
    s=twin
    for old,new in M[n]:
        if old==new: continue
        assert s.count(old)==1,(n,old[:50],s.count(old))
        s=s.replace(old,new)
    d=W+'/tmp/'+n+'/'+os.path.dirname(REL)
    os.makedirs(d,exist_ok=True)
    open(W+'/tmp/'+n+'/'+REL,'w').write(s)
    out=subprocess.run(['diff','-u','--label','a/'+REL,'--label','b/'+REL,'/repo/'+REL,W+'/tmp/'+n+'/'+REL],capture_output=True,text=True).stdout
    open(W+'/patches/'+n+'.diff','w').write(out)
    print(n,len(out.splitlines()))
