#!/bin/bash
# Development aid: run one property check against a scratch copy of /repo with a patch applied.
# usage: mut.sh <Cxx> <patch.diff | -e 'sed-expr' file>
set -u
export GOFLAGS=-mod=mod GOPROXY=off GOSUMDB=off GOTOOLCHAIN=local; unset GOWORK
M=${MUT_DIR:-/tmp/ctv-mut}; BIN=${CTVERIF_BIN:-/verif/bin/ctverif}
S=$M/repo
mkdir -p $M/home
rsync -a --delete --exclude .git /repo/ $S/
prop=$1; shift
if [ "$1" = "-e" ]; then
  sed -i -E "$2" "$S/$3" || exit 3
  (cd $M && diff -u /repo/$3 $S/$3 | head -30)
else
  (cd $S && patch -p1 -s < "$1") || exit 3
fi
(cd $S && go build ./... ) || { echo "MUTANT DOES NOT COMPILE"; exit 4; }
cp -f /verif/known_findings.json $M/home/ 2>/dev/null
CTVERIF_REPO=$S CTVERIF_HOME=$M/home /verif/tools/throttle $BIN check $prop 2>&1 | head -${MUT_LINES:-12}
