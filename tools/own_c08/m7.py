import sys; p=sys.argv[1]; s=open(p).read()
old='''		proof, httpStatus, err := consistencyProofFromResponse(rsp, second)
		if err != nil {
			return httpStatus, err
		}'''
new='''		proof, httpStatus, err := consistencyProofFromResponse(rsp, second)
		if err != nil && httpStatus != http.StatusInternalServerError {
			return httpStatus, err
		}'''
assert old in s; open(p,'w').write(s.replace(old,new))
