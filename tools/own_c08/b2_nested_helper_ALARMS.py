import sys; p=sys.argv[1]; s=open(p).read()
old='''	if rsp.GetProof() == nil {
		return nil, http.StatusInternalServerError, fmt.Errorf("backend did not return a proof: %v", rsp)
	}
	hashes := rsp.GetProof().GetHashes()
	if !checkAuditPath(hashes) {
		return nil, http.StatusInternalServerError, fmt.Errorf("backend returned invalid proof: %v", rsp.GetProof())
	}
	if hashes == nil {
		hashes = emptyProof
	}
	return hashes, http.StatusOK, nil
}
'''
new='''	if p := rsp.Proof; p != nil {
		return auditPathOf(p)
	}
	return nil, http.StatusInternalServerError, fmt.Errorf("backend did not return a proof: %v", rsp)
}

// auditPathOf returns the hashes of a proof the backend sent, never nil.
func auditPathOf(p *trillian.Proof) ([][]byte, int, error) {
	if hashes := p.GetHashes(); !checkAuditPath(hashes) {
		return nil, http.StatusInternalServerError, fmt.Errorf("backend returned invalid proof: %v", p)
	} else if hashes != nil {
		return hashes, http.StatusOK, nil
	}
	return emptyProof, http.StatusOK, nil
}
'''
assert old in s; open(p,'w').write(s.replace(old,new))
