import sys; p=sys.argv[1]; s=open(p).read()
old='''	if rsp.GetProof() == nil {
		return nil, http.StatusInternalServerError, fmt.Errorf("backend did not return a proof: %v", rsp)
	}
	hashes := rsp.GetProof().GetHashes()
	if !checkAuditPath(hashes) {
		return nil, http.StatusInternalServerError, fmt.Errorf("backend returned invalid proof: %v", rsp.GetProof())
	}
	if hashes == nil {
		hashes = emptyProof
	}
	return hashes, http.StatusOK, nil
}
'''
new='''	p := rsp.GetProof()
	switch {
	case p == nil:
		return nil, http.StatusInternalServerError, fmt.Errorf("backend did not return a proof: %v", rsp)
	case !checkAuditPath(p.Hashes):
		return nil, http.StatusInternalServerError, fmt.Errorf("backend returned invalid proof: %v", p)
	case p.Hashes == nil:
		return emptyProof, http.StatusOK, nil
	}
	return p.Hashes, http.StatusOK, nil
}
'''
assert old in s; open(p,'w').write(s.replace(old,new))
