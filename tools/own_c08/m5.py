import sys; p=sys.argv[1]; s=open(p).read()
old='''	if rsp.GetProof() == nil {
		return nil, http.StatusInternalServerError, fmt.Errorf("backend did not return a proof: %v", rsp)
	}
	hashes := rsp.GetProof().GetHashes()'''
new='''	hashes := rsp.GetProof().Hashes'''
assert old in s; open(p,'w').write(s.replace(old,new))
