import sys; p=sys.argv[1]; s=open(p).read()
old='''	if hashes == nil {
		hashes = emptyProof
	}
	return hashes, http.StatusOK, nil'''
new='''	if len(hashes) <= 1 {
		hashes = emptyProof
	}
	return hashes, http.StatusOK, nil'''
assert old in s; open(p,'w').write(s.replace(old,new))
