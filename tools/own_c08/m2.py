import sys; p=sys.argv[1]; s=open(p).read()
old='''	if rsp.GetProof() == nil {
		return nil, http.StatusInternalServerError,'''
new='''	if rsp.GetSignedLogRoot() == nil {
		return nil, http.StatusInternalServerError,'''
assert old in s; open(p,'w').write(s.replace(old,new))
