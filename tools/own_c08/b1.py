import sys; p=sys.argv[1]; s=open(p).read()
old='''	if rsp.GetProof() == nil {
		return nil, http.StatusInternalServerError, fmt.Errorf("backend did not return a proof: %v", rsp)
	}
	hashes := rsp.GetProof().GetHashes()
	if !checkAuditPath(hashes) {
		return nil, http.StatusInternalServerError, fmt.Errorf("backend returned invalid proof: %v", rsp.GetProof())
	}'''
new='''	proof := rsp.GetProof()
	if proof == nil {
		return nil, http.StatusInternalServerError, fmt.Errorf("backend did not return a proof: %v", rsp)
	}
	hashes := proof.Hashes
	if !checkAuditPath(hashes) {
		return nil, http.StatusInternalServerError, fmt.Errorf("backend returned invalid proof: %v", proof)
	}'''
assert old in s; open(p,'w').write(s.replace(old,new))
