#!/bin/bash
# usage: run.sh <name> <python-edit-file> <checks...>   (applies the twin, then the edit to trillian/ctfe/handlers.go)
export W=/tmp/dev6/c08 GOFLAGS=-mod=mod GOPROXY=off GOSUMDB=off GOTOOLCHAIN=local; unset GOWORK
name=$1; edit=$2; shift 2
M=$W/mut/own-$name; S=$M/repo; mkdir -p $M/home; rsync -a --delete --exclude .git /repo/ $S/
(cd $S && patch -p1 -s < $W/benign6/C08/twin/patch.diff) || exit 3
python3 $edit $S/trillian/ctfe/handlers.go || { echo "EDIT FAILED"; exit 3; }
(cd $S && gofmt -l trillian/ctfe/ ; go build ./trillian/... && go vet ./trillian/ctfe/ 2>&1 | head -5) || { echo "DOES NOT COMPILE"; exit 4; }
cp -f $W/known_findings.json $M/home/
echo "== $name"
if [ "$1" = all ]; then
  CTVERIF_REPO=$S CTVERIF_HOME=$M/home /verif/tools/throttle $W/bin/ctverif checkall 2>&1 | grep -v " 0 violations" | cut -c1-700
else
for p in "$@"; do CTVERIF_REPO=$S CTVERIF_HOME=$M/home /verif/tools/throttle $W/bin/ctverif check $p 2>&1 | head -8 | cut -c1-700; done
fi
[ -n "$KEEP" ] || rm -rf $M
