#!/bin/bash
# dev: applies each behaviour-preserving refactor <dir>/<Cxx>/<rN>/patch.diff to a scratch copy of /repo and runs
# ALL 20 property checks (one load, `ctverif checkall`): every check must stay silent.
# usage: benign_batch.sh <dir-with-Cxx/rN/patch.diff> [jobs]   (scratch: /tmp/ctv-bb.*, removed afterwards)
export GOFLAGS=-mod=mod GOPROXY=off GOSUMDB=off GOTOOLCHAIN=local; unset GOWORK
D=${1:?dir}; J=${2:-4}; BIN=${CTVERIF_BIN:-/verif/bin/ctverif}
one() {
  pd=$1; id=$(basename $(dirname $pd))-$(basename $pd)
  S=$(mktemp -d /tmp/ctv-bb.XXXXXX); mkdir -p $S/home $S/repo; cp /verif/known_findings.json $S/home/
  rsync -a --exclude .git /repo/ $S/repo/
  if ! (cd $S/repo && git init -q . 2>/dev/null; git -C $S/repo apply $pd/patch.diff 2>$S/err); then echo "$id: PATCH DOES NOT APPLY: $(head -1 $S/err)"; rm -rf $S; return; fi
  out=$(CTVERIF_REPO=$S/repo CTVERIF_HOME=$S/home /verif/tools/throttle $BIN checkall 2>&1)
  if echo "$out" | grep -q "^VIOLATION"; then
    echo "$out" | grep -A1 "^VIOLATION" | grep "rule=" | cut -c1-300 | sed "s/^/$id: FALSE ALARM? /"
  elif [ "$(echo "$out" | grep -c ' quick: ')" != 20 ]; then echo "$id: CHECKER DID NOT COMPLETE ($(echo "$out" | grep -c ' quick: ') of 20 checks): $(echo "$out" | grep -m1 -i 'fatal\|panic\|error' | cut -c1-200)"
  else echo "$id: silent (20 checks)"; fi
  rm -rf $S
}
export -f one; export BIN
ls -d $D/C*/[rstm]* 2>/dev/null | sort | xargs -P $J -I{} bash -c 'one {}'
