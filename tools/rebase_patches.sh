#!/bin/bash
# dev: after a fix: commit in /repo, re-base stored seed / refactor patches that no longer apply.
# usage: rebase_patches.sh <old-commit>   — every patch.diff that does not apply to /repo HEAD is applied to <old-commit>
# in a scratch worktree and cherry-picked onto HEAD; a clean result replaces patch.diff (old kept as patch.diff.pre-<old>), conflicts are listed.
old=${1:?old commit}; W=/tmp/ctv-rebase.$$; git -C /repo worktree add -q --detach $W HEAD || exit 1
trap 'git -C /repo worktree remove --force $W' EXIT
n=0; bad=0
for pd in /verif/seeded/C*-*/ /verif/benign*/C*/*/; do
  p=$pd/patch.diff; [ -f $p ] || continue
  git -C $W checkout -q --detach HEAD 2>/dev/null; git -C $W reset -q --hard; git -C $W clean -fdq
  if git -C $W apply --check $p 2>/dev/null; then continue; fi
  n=$((n+1))
  git -C $W checkout -q --detach $old; git -C $W apply $p 2>/dev/null || { echo "DOES NOT APPLY TO OLD: $pd"; bad=$((bad+1)); continue; }
  git -C $W add -A; git -C $W -c user.name=x -c user.email=x commit -qm tmp
  c=$(git -C $W rev-parse HEAD); git -C $W checkout -q --detach $(git -C /repo rev-parse HEAD)
  if git -C $W -c user.name=x -c user.email=x cherry-pick $c >/dev/null 2>&1; then
    cp $p $p.pre-$old; git -C $W diff HEAD~1 HEAD > $p; echo "rebased: $pd"
  else git -C $W cherry-pick --abort 2>/dev/null; echo "CONFLICT: $pd"; bad=$((bad+1)); fi
done
echo "needed re-basing: $n, unresolved: $bad"
