package main

import (
	"fmt"
	"go/token"
	"strings"

	"golang.org/x/tools/go/ssa"
)

// ---- variables carried round the range generator's loop ----------------------------------------
//
// The generator's cursor (start) and bound (end) are "variables carried round the loop".  The
// compiler shows such a variable in one of two forms:
//
//   register form — the variable is local to the goroutine: a φ at the loop header whose entry
//     edge is the initial value and whose back edges are the values assigned for the next round;
//   memory form   — the variable lives in a cell the goroutine captured from the function that
//     started it (a parameter or local of genRanges): every use is a load of that cell and every
//     assignment a store to it.
//
// The rule wants the same facts of both: where the first value comes from (followed through the
// one cell initialisation and, for a parameter, through every call site), what is assigned for
// the next round, and that all uses within one round see one value.  The memory form is only
// decided when nobody but this one goroutine can touch the cell once it runs (the cell's address
// does not travel, the starting function does not write it after the closure is made, the
// closure is invoked exactly once).

type c16Init struct {
	fn   *ssa.Function       // the function the value belongs to
	v    ssa.Value           // the value
	site ssa.CallInstruction // the call that hands it to the generator's starter (nil: read in the starter / goroutine itself)
}

type c16Var struct {
	fn     *ssa.Function
	phi    *ssa.Phi           // register form
	cell   ssa.Value          // memory form: the captured cell
	loads  map[ssa.Value]bool // memory form: reads of the cell in fn
	stores []*ssa.Store       // memory form: assignments in fn
	inits  []c16Init          // memory form: what the cell holds when fn starts
	why    string             // non-empty: not decidable, and why
}

func (x *c16Var) is(v ssa.Value) bool {
	if x.phi != nil {
		return v == ssa.Value(x.phi)
	}
	return x.loads[v]
}

func c16Strip(s string) string { return strings.ReplaceAll(s, "^", "") }

// c16Precedes: a executes before b whenever b executes (same block earlier, or a's block dominates b's).
func c16Precedes(a, b ssa.Instruction) bool {
	if a.Block() == b.Block() {
		for _, in := range a.Block().Instrs {
			if in == a {
				return true
			}
			if in == b {
				return false
			}
		}
		return false
	}
	return a.Block().Dominates(b.Block())
}

// c16StaticCallers lists the call sites of fn; ok=false when fn is also used as a value (its
// callers cannot be enumerated).
func c16StaticCallers(r *Run, fn *ssa.Function) (sites []ssa.CallInstruction, ok bool) {
	ok = true
	for _, g := range r.P.ModFuncs {
		eachInstr(g, func(in ssa.Instruction) {
			ci, isCall := in.(ssa.CallInstruction)
			if isCall && !ci.Common().IsInvoke() && ci.Common().StaticCallee() == fn {
				sites = append(sites, ci)
			}
			for _, op := range in.Operands(nil) {
				if op == nil || *op == nil || *op != ssa.Value(fn) {
					continue
				}
				if isCall && ci.Common().Value == ssa.Value(fn) {
					continue
				}
				ok = false
			}
		})
	}
	return sites, ok
}

func c16VarOf(r *Run, fn *ssa.Function, v ssa.Value) *c16Var {
	if p, ok := v.(*ssa.Phi); ok {
		return &c16Var{fn: fn, phi: p}
	}
	x := &c16Var{fn: fn, loads: map[ssa.Value]bool{}}
	u, ok := v.(*ssa.UnOp)
	if !ok || u.Op != token.MUL {
		x.why = r.D.D(v) + " is neither a loop-carried register nor a read of a variable"
		return x
	}
	fv, ok := u.X.(*ssa.FreeVar)
	if !ok || fv.Referrers() == nil {
		x.why = r.D.D(v) + " is not a read of a variable this goroutine has to itself"
		return x
	}
	x.cell = fv
	for _, ref := range *fv.Referrers() {
		switch y := ref.(type) {
		case *ssa.UnOp:
			if y.Op != token.MUL {
				x.why = "unexpected use of the variable " + r.D.D(fv)
				return x
			}
			x.loads[y] = true
		case *ssa.Store:
			if y.Addr != ssa.Value(fv) || y.Val == ssa.Value(fv) {
				x.why = "the address of " + r.D.D(fv) + " is stored away"
				return x
			}
			x.stores = append(x.stores, y)
		case *ssa.DebugRef:
		default:
			x.why = "the address of " + r.D.D(fv) + " is passed on (" + r.Where(ref) + ")"
			return x
		}
	}
	par := fn.Parent()
	k := -1
	for i, f := range fn.FreeVars {
		if f == fv {
			k = i
		}
	}
	if par == nil || k < 0 {
		x.why = "captured variable without a parent function"
		return x
	}
	var mcs []*ssa.MakeClosure
	eachInstr(par, func(in ssa.Instruction) {
		if mc, ok := in.(*ssa.MakeClosure); ok && mc.Fn == ssa.Value(fn) {
			mcs = append(mcs, mc)
		}
	})
	if len(mcs) != 1 || k >= len(mcs[0].Bindings) {
		x.why = fmt.Sprintf("%d closures of %s are made", len(mcs), FuncName(fn))
		return x
	}
	mc := mcs[0]
	a, ok := mc.Bindings[k].(*ssa.Alloc)
	if !ok || a.Referrers() == nil {
		x.why = "the captured variable is not a local of " + FuncName(par)
		return x
	}
	// the closure is invoked exactly once (go / call / defer of the closure value itself)
	uses := 0
	if mc.Referrers() != nil {
		for _, ref := range *mc.Referrers() {
			if _, ok := ref.(*ssa.DebugRef); ok {
				continue
			}
			if ci, ok := ref.(ssa.CallInstruction); ok && ci.Common().Value == ssa.Value(mc) {
				uses++
				continue
			}
			x.why = "the generator closure is used as a value (" + r.Where(ref) + ")"
			return x
		}
	}
	if uses != 1 {
		x.why = fmt.Sprintf("the generator closure is invoked %d times", uses)
		return x
	}
	// the starting function initialises the cell before it makes the closure and leaves it alone afterwards
	var initStores []*ssa.Store
	for _, ref := range *a.Referrers() {
		switch y := ref.(type) {
		case *ssa.Store:
			if y.Addr != ssa.Value(a) || y.Val == ssa.Value(a) {
				x.why = "the address of the captured variable is stored away in " + FuncName(par)
				return x
			}
			if !c16Precedes(y, mc) {
				x.why = FuncName(par) + " assigns the variable while the goroutine may run (" + r.Where(y) + ")"
				return x
			}
			initStores = append(initStores, y)
		case *ssa.MakeClosure:
			if y != mc {
				x.why = "the variable is shared with " + r.D.D(y)
				return x
			}
		case *ssa.UnOp:
			if y.Op != token.MUL {
				x.why = "unexpected use of the captured variable in " + FuncName(par)
				return x
			}
		case *ssa.DebugRef:
		default:
			x.why = "the address of the captured variable is passed on in " + FuncName(par) + " (" + r.Where(ref) + ")"
			return x
		}
	}
	if len(initStores) != 1 {
		x.why = fmt.Sprintf("%d initialisations of the captured variable in %s", len(initStores), FuncName(par))
		return x
	}
	iv := initStores[0].Val
	prm, isParam := iv.(*ssa.Parameter)
	if !isParam {
		x.inits = []c16Init{{fn: par, v: iv}}
		return x
	}
	j := -1
	for i, q := range par.Params {
		if q == prm {
			j = i
		}
	}
	sites, enumerable := c16StaticCallers(r, par)
	if j < 0 || !enumerable || len(sites) == 0 {
		x.why = fmt.Sprintf("the callers of %s cannot be enumerated (%d static call sites)", FuncName(par), len(sites))
		return x
	}
	for _, s := range sites {
		args := s.Common().Args
		if j >= len(args) || s.Parent() == nil {
			x.why = "call site of " + FuncName(par) + " with too few arguments"
			return x
		}
		x.inits = append(x.inits, c16Init{fn: s.Parent(), v: args[j], site: s})
	}
	return x
}

// c16Resolve: the places a value ultimately comes from — a read of a captured variable that the
// goroutine never assigns stands for what the variable was initialised with.
func c16Resolve(r *Run, fn *ssa.Function, v ssa.Value) []c16Init {
	if u, ok := v.(*ssa.UnOp); ok && u.Op == token.MUL {
		if _, ok := u.X.(*ssa.FreeVar); ok {
			if x := c16VarOf(r, fn, v); x.why == "" && len(x.stores) == 0 && len(x.inits) > 0 {
				return x.inits
			}
		}
	}
	return []c16Init{{fn: fn, v: v}}
}

// c16FetcherD: how the fetcher the code works for renders in in.fn.
func c16FetcherD(r *Run, in c16Init) string {
	if in.site != nil {
		if args := in.site.Common().Args; len(args) > 0 {
			return c16Strip(r.D.D(args[0]))
		}
		return "?"
	}
	if in.fn.Parent() != nil {
		return "*&(p0)"
	}
	return "p0"
}

func (in c16Init) by(r *Run) string {
	if in.site != nil {
		return " (handed to the generator by " + FuncName(in.fn) + ")"
	}
	return ""
}

// c16OptsField: the value is the fetcher's opts.<field>, read from the very fetcher the generator runs for.
func c16OptsField(r *Run, in c16Init, field string) bool {
	d := c16Strip(r.D.D(in.v))
	if in.site == nil {
		// read by the generator (goroutine or starter) itself
		return glob("*.opts."+field, d)
	}
	// handed in by a caller: a read, made there, of the field of the very fetcher it calls
	return c16FieldRead(in.v) && d == c16FetcherD(r, in)+".opts."+field
}

// c16EndIndexWriters: the functions that assign opts.EndIndex of a fetcher.
func c16EndIndexWriters(r *Run) map[*ssa.Function]bool {
	out := map[*ssa.Function]bool{}
	for _, g := range r.P.ModFuncs {
		if !strings.Contains(FuncName(g), "scanner.") {
			continue
		}
		eachInstr(g, func(in ssa.Instruction) {
			if st, ok := in.(*ssa.Store); ok && glob("&(*.opts.EndIndex)", r.D.D(st.Addr)) {
				out[g] = true
			}
		})
	}
	return out
}

// c16WritePoints: the instructions of g at which opts.EndIndex may be assigned: stores, calls of
// writers, and calls that are handed a closure of g that writes.
func c16WritePoints(r *Run, g *ssa.Function, writers map[*ssa.Function]bool) []ssa.Instruction {
	var out []ssa.Instruction
	eachInstr(g, func(in ssa.Instruction) {
		switch y := in.(type) {
		case *ssa.Store:
			if glob("&(*.opts.EndIndex)", r.D.D(y.Addr)) {
				out = append(out, in)
			}
		case ssa.CallInstruction:
			if cal := y.Common().StaticCallee(); cal != nil && writers[cal] {
				out = append(out, in)
				return
			}
			for _, a := range y.Common().Args {
				if mc, ok := a.(*ssa.MakeClosure); ok {
					if f, ok := mc.Fn.(*ssa.Function); ok && writers[f] {
						out = append(out, in)
						return
					}
				}
			}
		}
	})
	return out
}

// c16EndSource decides whether a value that becomes the generator's end is the configured end
// index of its fetcher: a read of opts.EndIndex, or the result of a method of the same fetcher
// that returns opts.EndIndex as it is after everything that method does to it.
// direct reports that the value is a read made in in.fn itself.
func c16EndSource(r *Run, in c16Init) (ok, direct bool, detail string) {
	d := c16Strip(r.D.D(in.v))
	fd := c16FetcherD(r, in)
	if c16OptsField(r, in, "EndIndex") {
		return true, true, d
	}
	ex, isEx := in.v.(*ssa.Extract)
	var call *ssa.Call
	idx := 0
	if isEx {
		call, _ = ex.Tuple.(*ssa.Call)
		idx = ex.Index
	} else {
		call, _ = in.v.(*ssa.Call)
	}
	if call == nil {
		return false, false, d + " is not " + fd + ".opts.EndIndex"
	}
	g := call.Call.StaticCallee()
	if g == nil || len(g.Blocks) == 0 || call.Call.IsInvoke() || len(call.Call.Args) == 0 || c16Strip(r.D.D(call.Call.Args[0])) != fd || g.Signature.Recv() == nil {
		return false, false, d + " is not the result of a method of the same fetcher"
	}
	writers := c16EndIndexWriters(r)
	points := c16WritePoints(r, g, writers)
	rets := Returns(g)
	if len(rets) == 0 {
		return false, false, FuncName(g) + " never returns"
	}
	for _, ret := range rets {
		if idx >= len(ret.Results) {
			return false, false, FuncName(g) + " has no result " + fmt.Sprint(idx)
		}
		for _, l := range PhiLeaves(ret.Results[idx], nil) {
			ld, _ := l.(*ssa.UnOp)
			if !c16FieldRead(l) || r.D.D(l) != "p0.opts.EndIndex" {
				return false, false, FuncName(g) + " returns " + r.D.D(l) + ", not its opts.EndIndex"
			}
			for _, w := range points {
				if !c16Precedes(w, ld) {
					return false, false, FuncName(g) + " returns opts.EndIndex as read before it may be updated at " + r.Where(w)
				}
			}
		}
	}
	return true, false, d + " = opts.EndIndex as " + FuncName(g) + " leaves it"
}

// c16CurrentRead: a direct read of opts.EndIndex yields the end in force only after Prepare has
// fitted it to the tree, or after an STH update: in the reading function a call of Prepare or of
// an EndIndex-writing method on the same fetcher precedes the read; or the read belongs to the
// generator (goroutine or its starter) and every call site of the starter is preceded by Prepare.
func c16CurrentRead(r *Run, in c16Init, gen *ssa.Function) (bool, string) {
	ld, ok := in.v.(ssa.Instruction)
	if !ok {
		return false, "not a read"
	}
	writers := c16EndIndexWriters(r)
	prepared := func(f *ssa.Function, before ssa.Instruction, fd string) bool {
		found := false
		eachInstr(f, func(x ssa.Instruction) {
			ci, ok := x.(ssa.CallInstruction)
			if !ok || found {
				return
			}
			cal := ci.Common().StaticCallee()
			if cal == nil || len(ci.Common().Args) == 0 || c16Strip(r.D.D(ci.Common().Args[0])) != fd {
				return
			}
			if (FuncName(cal) == "(*scanner.Fetcher).Prepare" || len(c16WritePoints(r, cal, writers)) > 0) && c16Precedes(x, before) {
				found = true
			}
		})
		return found
	}
	if prepared(in.fn, ld, c16FetcherD(r, in)) {
		return true, "read after " + c16FetcherD(r, in) + " was prepared / refreshed"
	}
	if in.site != nil {
		return false, FuncName(in.fn) + " reads opts.EndIndex before Prepare has fitted it to the tree"
	}
	// read in the goroutine / its starter: look at who starts the generator
	starter := gen
	if starter.Parent() != nil {
		starter = starter.Parent()
	}
	if in.fn != gen && in.fn != starter {
		return false, "read in " + FuncName(in.fn)
	}
	sites, enumerable := c16StaticCallers(r, starter)
	if !enumerable || len(sites) == 0 {
		return false, fmt.Sprintf("the callers of %s cannot be enumerated (%d static call sites)", FuncName(starter), len(sites))
	}
	for _, s := range sites {
		si := c16Init{fn: s.Parent(), site: s}
		if !prepared(s.Parent(), s, c16FetcherD(r, si)) {
			return false, FuncName(s.Parent()) + " starts the generator without a preceding Prepare"
		}
	}
	return true, "the generator is started after Prepare"
}

// c16LoopOf: the innermost natural loop that contains block b (header and member set).
func c16LoopOf(fn *ssa.Function, b *ssa.BasicBlock) (*ssa.BasicBlock, map[*ssa.BasicBlock]bool) {
	var best *ssa.BasicBlock
	var bestSet map[*ssa.BasicBlock]bool
	for _, h := range fn.Blocks {
		var stack []*ssa.BasicBlock
		for _, p := range h.Preds {
			if h.Dominates(p) {
				stack = append(stack, p)
			}
		}
		if len(stack) == 0 {
			continue
		}
		set := map[*ssa.BasicBlock]bool{h: true}
		for len(stack) > 0 {
			x := stack[len(stack)-1]
			stack = stack[:len(stack)-1]
			if set[x] {
				continue
			}
			set[x] = true
			stack = append(stack, x.Preds...)
		}
		if set[b] && (best == nil || len(set) < len(bestSet)) {
			best, bestSet = h, set
		}
	}
	return best, bestSet
}

// c16CursorDiscipline (memory form): the cursor is assigned exactly once per round, as the last
// act of the round — so that every read of it within one round sees one value — and only after
// the range was sent.  Returns the loop header and "" when that holds.
func c16CursorDiscipline(r *Run, fn *ssa.Function, S *c16Var, emit *ssa.BasicBlock, sends []ssa.Instruction) (*ssa.BasicBlock, string) {
	header, loop := c16LoopOf(fn, emit)
	if header == nil {
		return nil, "the range is not built inside a loop"
	}
	if len(S.stores) != 1 {
		return header, fmt.Sprintf("the cursor variable is assigned at %d places", len(S.stores))
	}
	st := S.stores[0]
	if !loop[st.Block()] || len(st.Block().Succs) != 1 || st.Block().Succs[0] != header {
		return header, "the cursor is not assigned as the last act of a round (" + r.Where(st) + ")"
	}
	after := false
	for _, in := range st.Block().Instrs {
		if in == ssa.Instruction(st) {
			after = true
			continue
		}
		if v, ok := in.(ssa.Value); ok && after && S.loads[v] {
			return header, "the cursor is read again after it was advanced (" + r.Where(in) + ")"
		}
	}
	for _, p := range header.Preds {
		if header.Dominates(p) && !(st.Block() == p || st.Block().Dominates(p)) {
			return header, "a round can end without assigning the cursor"
		}
	}
	for _, s := range sends {
		if !c16Precedes(s, st) {
			return header, "the cursor is advanced before the range was sent"
		}
	}
	return header, ""
}

// c16EndStable (memory form): once the test start < end that admits an emission was made, the
// end is not assigned before the range is built — every assignment of end leads back to a test
// of start against end (or out of the function) before it can reach the emission.
func c16EndStable(r *Run, fn *ssa.Function, E *c16Var, ordKey string, emit *ssa.BasicBlock) string {
	tests := map[*ssa.BasicBlock]bool{}
	for _, b := range r.blocksTesting(fn, func(ci *CondInfo) bool { return ci.Key == ordKey }) {
		tests[b] = true
	}
	for _, st := range E.stores {
		if tests[st.Block()] {
			return "the end is assigned in the block that tests it (" + r.Where(st) + ")"
		}
		seen := map[*ssa.BasicBlock]bool{}
		stack := append([]*ssa.BasicBlock{}, st.Block().Succs...)
		for len(stack) > 0 {
			b := stack[len(stack)-1]
			stack = stack[:len(stack)-1]
			if seen[b] || tests[b] {
				continue
			}
			seen[b] = true
			if b == emit {
				return "the end assigned at " + r.Where(st) + " reaches the emission without a new test of start against end"
			}
			stack = append(stack, b.Succs...)
		}
	}
	return ""
}

func c16Detail(d string) string {
	d = strings.TrimPrefix(d, "; ")
	if d == "" {
		return ""
	}
	return ": " + d
}

// c16FieldRead: v is a read of a struct field made at this very instruction (not a copy of an
// earlier read held in a local).
func c16FieldRead(v ssa.Value) bool {
	u, ok := v.(*ssa.UnOp)
	if !ok || u.Op != token.MUL {
		return false
	}
	_, ok = u.X.(*ssa.FieldAddr)
	return ok
}
