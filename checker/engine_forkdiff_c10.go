package main

import (
	"fmt"
	"go/ast"
	"go/constant"
	"go/token"
	"go/types"
	"os"
	"regexp"
	"sort"
	"strings"

	"golang.org/x/tools/go/packages"
)

// E9 FORKDIFF — rejection-site correspondence between the forked asn1 package
// and the encoding/asn1 of the toolchain that type-checked /repo.
//
// Both packages are taken from the same go/packages load (syntax + types), so
// the comparison is always against the toolchain actually in use.  Per
// same-named function the engine extracts the multiset of *sites*:
//
//   err   construction of an error value   SyntaxError{msg} / StructuralError{msg} /
//         errors.New(msg) / fmt.Errorf(msg) / &T{..} of an in-package error type
//   call  a call whose last result is an error (the places where a rejection
//         of a callee is propagated), with its arguments
//   use   a call of a function that exists on one side only
//
// each together with its *condition chain*: the conditions of the enclosing
// if / for / switch statements plus the negated conditions of preceding
// sibling guards that leave the function or loop (`if c { …; return }`).
//
// Everything is rendered in a normal form that is independent of local names
// and of the fork's additions:
//   * parameters are P<i> numbered by the *upstream* position (the fork's
//     extra parameters are found by aligning the two signatures by type and
//     are dropped from every in-package call), named results R<i>, locals
//     L<n> numbered by first occurrence within the site (so statement order
//     and names do not matter), constants by value;
//   * the fork is partially evaluated for strict mode: every lax-derived
//     operand (the objects found by C10.R1's propagation analysis) is the
//     constant false, `if false` branches are dropped;
//   * of an error literal only the message is kept (the fork adds the field name);
//   * decisions are walked in one shape (see "decision normal form" below): a
//     tagless switch is the if / else-if chain of its clauses, `if a { if b {…} }`
//     is `if a && b {…}`, `if a || b {leave}` is `if a {leave}; if b {leave}`, and
//     the chain of a site is flattened to its conjuncts (`a && b` is a ; b,
//     `!(a || b)` is !(a) ; !(b), `!!a` is a);
//   * struct literals are rendered `field: value` in field order from the type
//     information, positional or keyed alike, zero-valued fields omitted;
//   * a value that cannot be negative (len, cap, reflect's Len / Num…, unsigned)
//     compared with 0 / 1 is `!= 0` or `== 0` (`n > 0`, `n >= 1`, `0 < n` …);
//   * single-definition locals are replaced by their defining expression, so a
//     temporary, an if-initialiser or a hoisted literal do not show.
//   * `for i := range n` over an integer is walked as `for i := 0; i < n; i++` when
//     the body does not write i and n is invariant (see "range over an integer");
//     fmt.Errorf of a constant format without verbs is errors.New of it;
//   * helper calls that the source normaliser expanded in place are read as the
//     statements of the helper standing in the function (see "expanded helper
//     calls": run-once blocks, result temporaries, aliases, decided nil tests);
//   * an unexported package-level variable without a namesake on the other side
//     takes the name of the variable with the same definition there;
//   * an error temporary that is only assigned, compared with nil and then copied to
//     its target (`x, err1 := f(); …; err = err1`) is the target's storage, and a call
//     whose error value reaches nothing carries a note (rules_t5c10.go).
//
// Besides the sites, two whole-function multisets are extracted in the same
// normal form (with comparison orientation canonicalised: a >= b is b <= a,
// operands of == / != sorted, `x op= e` is `x = (x op e)`):
//
//   cond  every branch condition of the function (if, for, range, switch and
//         type-switch clauses), whether or not it encloses a site
//   asgn  every assignment to a non-error named result, or to a parameter /
//         local that flows (transitively) into a returned value
//
// so that a slip in a value computation that leaves all rejection sites intact
// (`ret.Year() >= 2050` → `> 2050` in front of `ret = ret.AddDate(-100,0,0)`)
// is seen.
//
// What remains different must be listed in the frozen drift table of the rule.

type fdSite struct {
	Fn    string
	Text  string // kind + head + chain, normal form
	Pos   token.Pos
	Fork  bool
	match bool
	// a decision table standing for the items of its statements (rules_t6c10.go)
	tab *fdTable
}

type fdSide struct {
	fork     bool
	pkg      *packages.Package
	funcs    map[string]*ast.FuncDecl
	laxObjs  map[types.Object]bool
	dropArgs map[types.Object]map[int]bool // fork: callee -> fork-only argument positions
	onlyHere map[types.Object]bool         // functions without a counterpart on the other side
	// fields of same-named struct types that the other side does not have
	// (fork: lax, name, Field); assignments to them are not part of the strict residual
	extraFields map[types.Object]bool
	// fork: package-level variables that exist under another name upstream (matched
	// by their definition, see fdMatchPkgVars) -> upstream's name
	rename map[types.Object]string
	// identifiers made by the walker (the counter of a range-over-int loop written
	// as a three-clause loop) -> their variable
	synth map[*ast.Ident]types.Object
	// unexported one-expression functions without a counterpart on the other side, read
	// as their expression at each call (rules_rob3c.go)
	// range loops over slices: not read as counting loops / some loop has been read so (rules_rob3c.go)
	noRangeSlice, usedRangeSlice bool
	transparent                  map[types.Object]*fdTransparentFn
	// fork: callee -> argument positions passed as E.M() that upstream takes as E (method name)
	liftArgs map[types.Object]map[int]string
	// fork: statements whose only effect is a store into a write-only package-level
	// variable (rules_r4c10.go): not part of the strict residual
	sinkStmts map[ast.Stmt]bool
	// runs of equality tests and copies over integer variables are read as one decision
	// table each (rules_t6c10.go); off for the first walk of a function
	tables bool
	// functions without a counterpart that are pure helpers (rules_t6c10.go)
	pureFns map[types.Object]bool
	// positions where a run is not read as a table: the other side has none to compare it with
	noTableAt map[token.Pos]bool
	// findings of the walk that are reported in their own words (rules_t8c10.go)
	notes []fdNote
	// fork: package-level tables decided to be memo tables of pure functions (rules_t8c10_memo.go);
	// the `ok` results of their lookups (read as false) and the results of LoadOrStore (read as the
	// value offered) — see fdMemoReads
	memo      map[types.Object]bool
	falseObjs map[types.Object]bool
	memoVals  map[types.Object]ast.Expr
	// fork: functions of the package decided to be pure on the SSA (rules_t8c10_memo.go)
	pureFuncs map[types.Object]bool
	// fork: the parameter structure of the slice decoder, evaluated field by field (rules_t8c10_elem.go)
	elem *c10Elem
}

// fdSingleDefs finds the locals of fd that are defined exactly once by a 1:1
// `x := e` / `var x = e` and never reassigned, incremented, address-taken or
// updated through a field/index/pointer (updates of extra fields excepted).
func fdSingleDefs(fd *ast.FuncDecl, info *types.Info, extra map[types.Object]bool) map[types.Object]ast.Expr {
	defs := map[types.Object]ast.Expr{}
	bad := map[types.Object]bool{}
	obj := func(e ast.Expr) types.Object {
		if id, ok := e.(*ast.Ident); ok {
			if o := info.Defs[id]; o != nil {
				return o
			}
			return info.Uses[id]
		}
		return nil
	}
	var base func(e ast.Expr) (types.Object, bool)
	base = func(e ast.Expr) (types.Object, bool) { // base local of an lvalue, and whether only extra fields are selected
		switch e := e.(type) {
		case *ast.Ident:
			return obj(e), true
		case *ast.ParenExpr:
			return base(e.X)
		case *ast.SelectorExpr:
			o, ok := base(e.X)
			return o, ok && extra[info.Uses[e.Sel]]
		case *ast.IndexExpr:
			o, _ := base(e.X)
			return o, false
		case *ast.StarExpr:
			o, _ := base(e.X)
			return o, false
		}
		return nil, false
	}
	ast.Inspect(fd.Body, func(n ast.Node) bool {
		switch n := n.(type) {
		case *ast.AssignStmt:
			for i, l := range n.Lhs {
				if id, ok := l.(*ast.Ident); ok {
					o := obj(id)
					if o == nil {
						continue
					}
					if n.Tok == token.DEFINE && len(n.Lhs) == len(n.Rhs) && info.Defs[id] != nil {
						if _, dup := defs[o]; dup {
							bad[o] = true
						}
						defs[o] = n.Rhs[i]
					} else {
						bad[o] = true
					}
				} else if o, onlyExtra := base(l); o != nil && !onlyExtra {
					bad[o] = true
				}
			}
		case *ast.ValueSpec:
			for i, id := range n.Names {
				if o := info.Defs[id]; o != nil {
					switch {
					case len(n.Values) == len(n.Names):
						defs[o] = n.Values[i]
					case len(n.Values) == 0 && n.Type != nil && fdIsStructType(o.Type()):
						defs[o] = &ast.CompositeLit{Type: n.Type} // `var x T` is `x := T{}`
					default:
						bad[o] = true
					}
				}
			}
		case *ast.IncDecStmt:
			if o, _ := base(n.X); o != nil {
				bad[o] = true
			}
		case *ast.UnaryExpr:
			if n.Op == token.AND {
				if o, _ := base(n.X); o != nil {
					bad[o] = true
				}
			}
		case *ast.RangeStmt:
			for _, e := range []ast.Expr{n.Key, n.Value} {
				if e != nil {
					if o := obj(e); o != nil {
						bad[o] = true
					}
				}
			}
		}
		return true
	})
	for o := range bad {
		delete(defs, o)
	}
	for o := range defs {
		if _, isConst := o.(*types.Const); isConst {
			delete(defs, o)
		}
	}
	return defs
}

func fdFuncKey(d *ast.FuncDecl) string {
	if d.Recv != nil && len(d.Recv.List) == 1 {
		t := d.Recv.List[0].Type
		if s, ok := t.(*ast.StarExpr); ok {
			t = s.X
		}
		return "(" + types.ExprString(t) + ")." + d.Name.Name
	}
	return d.Name.Name
}

// fdCollectFuncs collects the function declarations of the package, whatever file a
// declaration lives in: all files of a package share one scope, so the file is not
// part of what a function is (files == nil: every non-test file of the package; a
// non-nil set restricts to those base names).  Several init functions of one package
// are told apart by their order of appearance.
func fdCollectFuncs(pk *packages.Package, files map[string]bool) map[string]*ast.FuncDecl {
	out := map[string]*ast.FuncDecl{}
	type nf struct {
		name string
		f    *ast.File
	}
	var list []nf
	for _, f := range pk.Syntax {
		list = append(list, nf{pk.Fset.Position(f.Pos()).Filename, f})
	}
	sort.SliceStable(list, func(i, j int) bool { return list[i].name < list[j].name })
	inits := 0
	for _, e := range list {
		name := e.name
		if i := strings.LastIndex(name, "/"); i >= 0 {
			name = name[i+1:]
		}
		if strings.HasSuffix(name, "_test.go") || (files != nil && !files[name]) {
			continue
		}
		for _, d := range e.f.Decls {
			if fd, ok := d.(*ast.FuncDecl); ok && fd.Body != nil {
				k := fdFuncKey(fd)
				if fd.Recv == nil && fd.Name.Name == "init" {
					if inits++; inits > 1 {
						k = fmt.Sprintf("init#%d", inits)
					}
				}
				out[k] = fd
			}
		}
	}
	return out
}

func fdTypeStr(t types.Type) string {
	s := types.TypeString(t, func(*types.Package) string { return "" })
	return strings.ReplaceAll(s, "interface{}", "any")
}

// fdAlign aligns the fork's parameter list with upstream's: upstream's types
// must be a subsequence of the fork's.  Returns fork index -> upstream index (-1 = fork-only).
func fdAlign(fork, up *types.Signature) ([]int, bool) { return fdAlignSkip(fork, up, nil) }

// fdAlignSkip aligns against upstream's parameter list without the positions in skip.
func fdAlignSkip(fork, up *types.Signature, skip map[int]bool) ([]int, bool) {
	m := make([]int, fork.Params().Len())
	j := 0
	next := func() {
		for j < up.Params().Len() && skip[j] {
			j++
		}
	}
	next()
	for i := 0; i < fork.Params().Len(); i++ {
		m[i] = -1
		if j < up.Params().Len() && fdTypeStr(fork.Params().At(i).Type()) == fdTypeStr(up.Params().At(j).Type()) {
			m[i] = j
			j++
			next()
		}
	}
	return m, j == up.Params().Len()
}

// ---- parameters every caller derives from another parameter ---------------------------
//
// When upstream's unexported function g is only ever called directly, and every call
// passes for parameter k the value X.M() where X is the identifier it passes for
// parameter j and M is a niladic method of reflect.Type (immutable descriptors, pure
// methods), and g writes neither parameter, then inside g parameter k always equals
// Pj.M(): g is the function without parameter k that computes Pj.M() itself.  Used
// when the fork's parameter list is not upstream's plus additions but is upstream's
// without such parameters plus additions (the fork derives the value in the callee).

type fdDerived struct {
	from   int    // j
	method string // M
}

func fdDerivedParams(us *fdSide, uo *types.Func, ud *ast.FuncDecl) map[int]fdDerived {
	info := us.pkg.TypesInfo
	sig := uo.Type().(*types.Signature)
	if uo.Exported() || sig.Recv() != nil || sig.Variadic() {
		return nil
	}
	// every reference is the function position of a call
	calls := map[*ast.Ident]*ast.CallExpr{}
	for _, f := range us.pkg.Syntax {
		ast.Inspect(f, func(n ast.Node) bool {
			if c, ok := n.(*ast.CallExpr); ok {
				if id, ok := fdUnparen(c.Fun).(*ast.Ident); ok && info.Uses[id] == uo {
					calls[id] = c
				}
			}
			return true
		})
	}
	n := 0
	for id, o := range info.Uses {
		if o == uo {
			n++
			if calls[id] == nil {
				return nil
			}
		}
	}
	if n == 0 {
		return nil
	}
	written := fdWrittenIn(ud.Body, info)
	out := map[int]fdDerived{}
	for k := 0; k < sig.Params().Len(); k++ {
		if written.any(sig.Params().At(k)) {
			continue
		}
		var d *fdDerived
		ok := true
		for _, c := range calls {
			if len(c.Args) != sig.Params().Len() || c.Ellipsis.IsValid() {
				ok = false
				break
			}
			call, isCall := fdUnparen(c.Args[k]).(*ast.CallExpr)
			if !isCall || len(call.Args) != 0 {
				ok = false
				break
			}
			sel, isSel := fdUnparen(call.Fun).(*ast.SelectorExpr)
			if !isSel {
				ok = false
				break
			}
			x, isId := fdUnparen(sel.X).(*ast.Ident)
			xv, isVar := info.Uses[x].(*types.Var)
			if !isId || !isVar || xv.IsField() {
				ok = false
				break
			}
			if nt, isNamed := xv.Type().(*types.Named); !isNamed || nt.Obj().Pkg() == nil || nt.Obj().Pkg().Path() != "reflect" || nt.Obj().Name() != "Type" {
				ok = false
				break
			}
			if _, isFn := info.Uses[sel.Sel].(*types.Func); !isFn {
				ok = false
				break
			}
			j := -1
			for i, a := range c.Args {
				if id, isId := fdUnparen(a).(*ast.Ident); isId && i != k && info.Uses[id] == xv {
					j = i
					break
				}
			}
			if j < 0 || written.any(sig.Params().At(j)) {
				ok = false
				break
			}
			cur := fdDerived{j, sel.Sel.Name}
			if d != nil && *d != cur {
				ok = false
				break
			}
			d = &cur
		}
		if ok && d != nil {
			out[k] = *d
		}
	}
	return out
}

// ---- normal-form printer -------------------------------------------------------

type fdCtx struct {
	s      *fdSide
	params map[types.Object]string
	locals map[types.Object]string
	inline map[types.Object]ast.Expr // single-definition locals, rendered as their defining expression
	busy   map[types.Object]bool
	// canon: comparison orientation is canonicalised (a >= b is b <= a, operands
	// of == / != sorted) and locals are numbered after that, by first occurrence
	// in the final text (used for the condition / assignment items)
	canon bool
	// bind: parameters of a transparent function being rendered -> the argument expressions
	bind map[types.Object]ast.Expr
	// w: the walker of the function being rendered (nil outside functions); its
	// merged variables and storage aliases (see "expanded helper calls") apply
	w *fdWalker
}

func (c *fdCtx) obj(id *ast.Ident) types.Object {
	if o := c.s.synth[id]; o != nil {
		return o
	}
	o := c.s.pkg.TypesInfo.Uses[id]
	if o == nil {
		o = c.s.pkg.TypesInfo.Defs[id]
	}
	if c.w != nil {
		if m, ok := c.w.merge[o]; ok {
			return m
		}
	}
	return o
}

// aliasOf: the storage the variable has been identified with, if any.
func (c *fdCtx) aliasOf(o types.Object) ast.Expr {
	if c.w == nil || o == nil || c.busy[o] {
		return nil
	}
	return c.w.alias[o]
}

func (c *fdCtx) ident(id *ast.Ident) string {
	o := c.obj(id)
	if o == nil {
		return id.Name
	}
	if c.s.laxObjs[o] || c.s.falseObjs[o] {
		return "false"
	}
	if v, ok := c.s.memoVals[o]; ok && !c.busy[o] {
		c.busy[o] = true
		s := c.expr(v)
		delete(c.busy, o)
		return s
	}
	if a, ok := c.bind[o]; ok {
		saved := c.bind
		c.bind = nil // the argument is an expression of the caller
		s := c.expr(a)
		c.bind = saved
		return s
	}
	if p, ok := c.params[o]; ok {
		if p == "⊘" {
			if t, ok := c.paramStruct(o); ok {
				return t
			}
		}
		return p
	}
	if a := c.aliasOf(o); a != nil {
		c.busy[o] = true
		s := c.expr(a)
		delete(c.busy, o)
		return s
	}
	if v, ok := o.(*types.Var); ok && !v.IsField() && o.Pkg() != nil && o.Parent() != o.Pkg().Scope() {
		if def, ok := c.inline[o]; ok && !c.busy[o] && len(c.busy) < 12 {
			c.busy[o] = true
			s := c.expr(def)
			delete(c.busy, o)
			return s
		}
		if n, ok := c.locals[o]; ok {
			return n
		}
		n := fmt.Sprintf("L%d", len(c.locals)+1)
		if c.canon {
			n = fmt.Sprintf("\x00%d\x00", len(c.locals)+1)
		}
		c.locals[o] = n
		return n
	}
	if n, ok := c.s.rename[o]; ok {
		return n
	}
	return id.Name
}

// lhs renders an assignment target: the target variable itself is never inlined.
func (c *fdCtx) lhs(e ast.Expr) string {
	switch e := e.(type) {
	case *ast.Ident:
		if o := c.obj(e); o != nil {
			if a := c.aliasOf(o); a != nil {
				c.busy[o] = true
				defer delete(c.busy, o)
				return c.lhs(a)
			}
			if _, inl := c.inline[o]; inl {
				saved := c.inline
				c.inline = nil
				defer func() { c.inline = saved }()
			}
		}
		return c.ident(e)
	case *ast.ParenExpr:
		return c.lhs(e.X)
	case *ast.SelectorExpr:
		return c.lhs(e.X) + "." + e.Sel.Name
	case *ast.IndexExpr:
		return c.lhs(e.X) + "[" + c.expr(e.Index) + "]"
	case *ast.StarExpr:
		return "*" + c.lhs(e.X)
	}
	return c.expr(e)
}

func (c *fdCtx) exprs(es []ast.Expr) string {
	var out []string
	for _, e := range es {
		out = append(out, c.expr(e))
	}
	return strings.Join(out, ", ")
}

func (c *fdCtx) calleeObj(call *ast.CallExpr) types.Object {
	switch f := call.Fun.(type) {
	case *ast.Ident:
		return c.obj(f)
	case *ast.SelectorExpr:
		return c.obj(f.Sel)
	}
	return nil
}

func (c *fdCtx) expr(e ast.Expr) string {
	if e == nil {
		return ""
	}
	if tv, ok := c.s.pkg.TypesInfo.Types[e]; ok && tv.Value != nil {
		return tv.Value.ExactString()
	}
	switch e := e.(type) {
	case *ast.Ident:
		return c.ident(e)
	case *ast.ParenExpr:
		return c.expr(e.X)
	case *ast.BasicLit:
		return e.Value
	case *ast.SelectorExpr:
		if o := c.obj(e.Sel); o != nil && c.s.laxObjs[o] {
			return "false"
		}
		if id, ok := e.X.(*ast.Ident); ok {
			if _, isPkg := c.obj(id).(*types.PkgName); isPkg {
				return id.Name + "." + e.Sel.Name
			}
		}
		return c.expr(e.X) + "." + e.Sel.Name
	case *ast.StarExpr:
		return "*" + c.expr(e.X)
	case *ast.UnaryExpr:
		x := c.expr(e.X)
		if e.Op == token.NOT {
			switch x {
			case "true":
				return "false"
			case "false":
				return "true"
			}
		}
		return e.Op.String() + "(" + x + ")"
	case *ast.BinaryExpr:
		x, y := c.expr(e.X), c.expr(e.Y)
		switch e.Op {
		case token.LAND:
			if x == "false" || y == "false" {
				return "false"
			}
			if x == "true" {
				return y
			}
			if y == "true" {
				return x
			}
		case token.LOR:
			if x == "true" || y == "true" {
				return "true"
			}
			if x == "false" {
				return y
			}
			if y == "false" {
				return x
			}
		}
		op := e.Op
		// a value that cannot be negative compared with 0 / 1: `n > 0`, `n >= 1`,
		// `n != 0` are one condition, so are `n == 0`, `n <= 0`, `n < 1`
		if nop, swap, ok := c.lenCompare(e); ok {
			op = nop
			if swap {
				x, y = y, x
			}
			y = "0"
		}
		if c.canon {
			switch op {
			case token.GTR:
				x, y, op = y, x, token.LSS
			case token.GEQ:
				x, y, op = y, x, token.LEQ
			case token.EQL, token.NEQ:
				if fdMask(y) < fdMask(x) {
					x, y = y, x
				}
			}
		}
		return "(" + x + " " + op.String() + " " + y + ")"
	case *ast.CallExpr:
		args := e.Args
		if drop := c.s.dropArgs[c.calleeObj(e)]; drop != nil {
			args = nil
			for i, a := range e.Args {
				if !drop[i] {
					args = append(args, a)
				}
			}
		}
		if c.plainErrorf(e) {
			return "errors.New(" + c.exprs(args) + ")"
		}
		if s, ok := c.tabLen(e); ok {
			return s // the length of a slice filled by tabulation (rules_t8c10.go)
		}
		if s, ok := c.textForm(e); ok {
			return s // decimal formatting / string building in one form (rules_r4c10.go)
		}
		if t := c.s.transparent[c.calleeObj(e)]; t != nil && len(e.Args) == len(t.params) && !e.Ellipsis.IsValid() && c.bind == nil {
			c.bind = map[types.Object]ast.Expr{}
			for i, p := range t.params {
				c.bind[p] = e.Args[i]
			}
			s := c.expr(t.body)
			c.bind = nil
			return s
		}
		if lift := c.s.liftArgs[c.calleeObj(e)]; lift != nil && len(args) == len(e.Args) {
			var out []string
			for i, a := range args {
				if m, ok := lift[i]; ok {
					if x := fdMethodCallOn(a, m); x != nil {
						out = append(out, c.expr(x))
						continue
					}
				}
				out = append(out, c.expr(a))
			}
			return c.expr(e.Fun) + "(" + strings.Join(out, ", ") + ")"
		}
		return c.expr(e.Fun) + "(" + c.exprs(args) + ")"
	case *ast.IndexExpr:
		if s, ok := c.tabElem(e); ok {
			return s // an element of a slice filled by tabulation: the function tabulated (rules_t8c10.go)
		}
		return c.expr(e.X) + "[" + c.expr(e.Index) + "]"
	case *ast.SliceExpr:
		low := c.expr(e.Low)
		if e.Low != nil && c.isZeroConst(e.Low) {
			low = "" // x[0:n] is x[:n]
		}
		s := c.expr(e.X) + "[" + low + ":" + c.expr(e.High)
		if e.Max != nil {
			s += ":" + c.expr(e.Max)
		}
		return s + "]"
	case *ast.TypeAssertExpr:
		if e.Type == nil {
			return c.expr(e.X) + ".(type)"
		}
		if v := c.memoValOf(e); v != nil {
			return c.expr(v) // the value offered to the table, asserted to its own type
		}
		return c.expr(e.X) + ".(" + c.typeExpr(e.Type) + ")"
	case *ast.CompositeLit:
		fields, isStruct := c.structLit(e)
		if e.Type != nil && c.s.inPkgErrorType(e) { // of an error literal only the message is kept
			msg := ""
			if isStruct {
				if len(fields) > 0 && fields[0].index == 0 {
					msg = c.expr(fields[0].value)
				}
			} else if len(e.Elts) > 0 {
				m := e.Elts[0]
				if kv, ok := m.(*ast.KeyValueExpr); ok {
					m = kv.Value
				}
				msg = c.expr(m)
			}
			return c.typeExpr(e.Type) + "{" + msg + "}"
		}
		if isStruct {
			// positional and keyed struct literals alike: `name: value` in field
			// order, without the fields left at (or set to) their zero value and
			// without the fields the other side does not have
			var out []string
			for _, f := range fields {
				if c.s.extraFields[f.field] || c.isZeroConst(f.value) {
					continue
				}
				out = append(out, f.field.Name()+": "+c.expr(f.value))
			}
			return c.typeExpr(e.Type) + "{" + strings.Join(out, ", ") + "}"
		}
		return c.typeExpr(e.Type) + "{" + c.exprs(e.Elts) + "}"
	case *ast.KeyValueExpr:
		k := c.expr(e.Key)
		if id, ok := e.Key.(*ast.Ident); ok {
			k = id.Name
		}
		return k + ": " + c.expr(e.Value)
	case *ast.FuncLit:
		return "func{…}"
	}
	return c.typeExpr(e)
}

// plainErrorf: fmt.Errorf with a constant format that has no verb and no further
// argument.  fmt.Errorf then returns errors.New(format) (no %w, so no wrapping
// type; Sprintf of a verb-less format is the format): the call reads errors.New(…).
func (c *fdCtx) plainErrorf(call *ast.CallExpr) bool {
	if len(call.Args) != 1 || call.Ellipsis.IsValid() {
		return false
	}
	fn, ok := c.calleeObj(call).(*types.Func)
	if !ok || fn.Pkg() == nil || fn.Pkg().Path() != "fmt" || fn.Name() != "Errorf" {
		return false
	}
	tv, ok := c.s.pkg.TypesInfo.Types[call.Args[0]]
	if !ok || tv.Value == nil || tv.Value.Kind() != constant.String {
		return false
	}
	return !strings.Contains(constant.StringVal(tv.Value), "%")
}

type fdLitField struct {
	index int
	field *types.Var
	value ast.Expr
}

// structLit resolves the elements of a struct literal to its fields (by type
// information), in field order.
func (c *fdCtx) structLit(e *ast.CompositeLit) ([]fdLitField, bool) {
	tv, ok := c.s.pkg.TypesInfo.Types[e]
	if !ok || tv.Type == nil {
		return nil, false
	}
	t := tv.Type
	if p, ok := t.Underlying().(*types.Pointer); ok { // elided &T in a slice / map literal
		t = p.Elem()
	}
	st, ok := t.Underlying().(*types.Struct)
	if !ok {
		return nil, false
	}
	var out []fdLitField
	for i, el := range e.Elts {
		if kv, ok := el.(*ast.KeyValueExpr); ok {
			id, ok := kv.Key.(*ast.Ident)
			if !ok {
				return nil, false
			}
			found := false
			for j := 0; j < st.NumFields(); j++ {
				if st.Field(j).Name() == id.Name {
					out = append(out, fdLitField{j, st.Field(j), kv.Value})
					found = true
				}
			}
			if !found {
				return nil, false
			}
			continue
		}
		if i >= st.NumFields() {
			return nil, false
		}
		out = append(out, fdLitField{i, st.Field(i), el})
	}
	sort.SliceStable(out, func(i, j int) bool { return out[i].index < out[j].index })
	return out, true
}

// isZeroConst: a constant zero value (0, "", false) or nil.
func (c *fdCtx) isZeroConst(e ast.Expr) bool {
	tv, ok := c.s.pkg.TypesInfo.Types[e]
	if !ok {
		return false
	}
	if tv.IsNil() {
		return true
	}
	if tv.Value == nil {
		return false
	}
	switch tv.Value.Kind() {
	case constant.Bool:
		return !constant.BoolVal(tv.Value)
	case constant.String:
		return constant.StringVal(tv.Value) == ""
	case constant.Int, constant.Float, constant.Complex:
		return constant.Sign(tv.Value) == 0
	}
	return false
}

// nonNeg: the expression is a length or another value that cannot be negative:
// len / cap, a niladic Len / Cap / Num… method of the standard library
// (reflect.Value.Len, Type.NumField, bytes.Buffer.Len …), a value of an
// unsigned type, or a single-definition local defined as one of these.
func (c *fdCtx) nonNeg(e ast.Expr, depth int) bool {
	info := c.s.pkg.TypesInfo
	e = fdUnparen(e)
	if tv, ok := info.Types[e]; ok && tv.Type != nil {
		if tv.Value != nil {
			return false
		}
		if b, ok := tv.Type.Underlying().(*types.Basic); ok && b.Info()&types.IsUnsigned != 0 {
			return true
		}
	}
	switch x := e.(type) {
	case *ast.Ident:
		if o := c.obj(x); o != nil && depth < 6 {
			if def, ok := c.inline[o]; ok {
				return c.nonNeg(def, depth+1)
			}
		}
	case *ast.CallExpr:
		switch f := fdUnparen(x.Fun).(type) {
		case *ast.Ident:
			if b, ok := c.obj(f).(*types.Builtin); ok && (b.Name() == "len" || b.Name() == "cap") {
				return true
			}
		case *ast.SelectorExpr:
			fn, ok := c.obj(f.Sel).(*types.Func)
			if !ok || len(x.Args) != 0 || fn.Pkg() == nil || strings.Contains(fn.Pkg().Path(), ".") {
				return false // only methods of the standard library are known to keep the convention
			}
			sig := fn.Type().(*types.Signature)
			if sig.Recv() == nil || sig.Results().Len() != 1 {
				return false
			}
			if b, ok := sig.Results().At(0).Type().Underlying().(*types.Basic); !ok || b.Info()&types.IsInteger == 0 {
				return false
			}
			n := fn.Name()
			return n == "Len" || n == "Cap" || strings.HasPrefix(n, "Num")
		}
	}
	return false
}

// lenCompare recognises the comparison of a non-negative value with the constant
// 0 or 1 and returns the canonical operator (!= or ==, against 0) and whether the
// operands must be swapped so that the value comes first.
func (c *fdCtx) lenCompare(e *ast.BinaryExpr) (op token.Token, swap, ok bool) {
	constOf := func(x ast.Expr) (int64, bool) {
		if tv, ok := c.s.pkg.TypesInfo.Types[x]; ok && tv.Value != nil && tv.Value.Kind() == constant.Int {
			return constant.Int64Val(tv.Value)
		}
		return 0, false
	}
	op = e.Op
	var k int64
	if v, isC := constOf(e.Y); isC && c.nonNeg(e.X, 0) {
		k = v
	} else if v, isC := constOf(e.X); isC && c.nonNeg(e.Y, 0) {
		k, swap = v, true
		switch op { // k op n  ->  n op' k
		case token.LSS:
			op = token.GTR
		case token.LEQ:
			op = token.GEQ
		case token.GTR:
			op = token.LSS
		case token.GEQ:
			op = token.LEQ
		}
	} else {
		return 0, false, false
	}
	switch {
	case k == 0 && (op == token.GTR || op == token.NEQ), k == 1 && op == token.GEQ:
		return token.NEQ, swap, true
	case k == 0 && (op == token.EQL || op == token.LEQ), k == 1 && op == token.LSS:
		return token.EQL, swap, true
	}
	return 0, false, false
}

func (c *fdCtx) typeExpr(e ast.Expr) string {
	if e == nil {
		return ""
	}
	return strings.ReplaceAll(types.ExprString(e), "interface{}", "any")
}

// ---- condition chains -----------------------------------------------------------

type fdCond struct {
	pre   string // e.g. "!(", "for(", "sw("
	exprs []ast.Expr
	sep   []string // separators after each expr
	// enc: the condition of an enclosing `if` whose body is being walked, still in
	// force (nothing walked since has written what it reads): part of the condition
	// items of the ifs nested in that body (rules_rob3c.go, "nested conditions")
	enc bool
}

func (c *fdCtx) cond(k fdCond) string {
	s := k.pre
	for i, e := range k.exprs {
		s += c.expr(e) + k.sep[i]
	}
	return s
}

func fdCondOf(pre string, e ast.Expr, post string) fdCond {
	return fdCond{pre: pre, exprs: []ast.Expr{e}, sep: []string{post}}
}

type fdWalker struct {
	s          *fdSide
	fd         *ast.FuncDecl
	fn         string
	ctx        func() *fdCtx // fresh context (parameter names of the current function, no locals)
	hasResults bool
	sites      []fdSite
	items      []fdSite              // branch conditions and tracked assignments of the whole function
	tracked    map[types.Object]bool // named results and the locals that flow into returned values
	// expanded helper calls (see below)
	merge    map[types.Object]types.Object // variables of disjoint blocks read as one variable
	alias    map[types.Object]ast.Expr     // variables identified with the storage they are copied to
	once     map[*ast.LabeledStmt]*fdOnce
	regionAt map[ast.Stmt]*fdRegion        // by region statement
	cbOf     map[*ast.AssignStmt]*fdRegion // by copy-back statement
	exitOf   map[*ast.AssignStmt]*fdRegion // by exit statement
	frames   []*fdFrame
	loops    []*fdLoop // enclosing loops and switches, innermost last
	label    string    // label of the statement about to be walked
	dry      int       // > 0: walking for the facts only (loop fixpoint), nothing is emitted
	facts    *fdState
	noFacts  map[types.Object]bool // address-taken or captured by a function literal
	errTemps map[types.Object]bool // error temporaries currently read as their target (rules_rob3c.go)
	// positions of the writes of each variable and the spans of the loops (lazily, rules_rob3c.go)
	writePos  map[types.Object][]token.Pos
	loopSpans [][2]token.Pos
	// calls whose error result is assigned to a plain identifier -> that identifier (lazily, rules_t5c10.go)
	errDest map[*ast.CallExpr]*ast.Ident
	// error locals that are only ever assigned and compared with nil (lazily, rules_t5c10.go)
	errUnread map[types.Object]bool
	// runs with gotos / labels that prepare found to be decision tables: first statement -> length (rules_t6c10.go)
	gotoRuns map[token.Pos]int
	// slices filled by tabulation (rules_t8c10.go)
	tabs *fdTabs
}

var fdTmpLocal = regexp.MustCompile("\x00[0-9]+\x00")

// fdMask hides the temporary local names for ordering purposes.
func fdMask(s string) string { return fdTmpLocal.ReplaceAllString(s, "L") }

// fdRenumber names the locals of a canonical text by first occurrence.
func fdRenumber(s string) string {
	names := map[string]string{}
	return fdTmpLocal.ReplaceAllStringFunc(s, func(t string) string {
		if n, ok := names[t]; ok {
			return n
		}
		n := fmt.Sprintf("L%d", len(names)+1)
		names[t] = n
		return n
	})
}

func (w *fdWalker) emitItem(kind string, render func(c *fdCtx) string, pos token.Pos) {
	if w.dry > 0 {
		return
	}
	c := w.ctx()
	c.canon = true
	w.items = append(w.items, fdSite{Fn: w.fn, Text: kind + " " + fdRenumber(render(c)), Pos: pos, Fork: w.s.fork})
}

func (w *fdWalker) emitCond(k fdCond, pos token.Pos) {
	w.emitItem("cond", func(c *fdCtx) string { return c.cond(k) }, pos)
}

// lvalue base object of an assignment target and whether the target only selects extra fields
func (w *fdWalker) lvalueBase(e ast.Expr) (types.Object, bool) {
	info := w.s.pkg.TypesInfo
	switch e := e.(type) {
	case *ast.Ident:
		o := info.Defs[e]
		if o == nil {
			o = info.Uses[e]
		}
		if o == nil {
			o = w.s.synth[e]
		}
		if m, ok := w.merge[o]; ok {
			o = m
		}
		if a, ok := w.alias[o]; ok {
			return w.lvalueBase(a)
		}
		return o, false
	case *ast.ParenExpr:
		return w.lvalueBase(e.X)
	case *ast.SelectorExpr:
		o, _ := w.lvalueBase(e.X)
		return o, w.s.extraFields[info.Uses[e.Sel]]
	case *ast.IndexExpr:
		return w.lvalueBase(e.X)
	case *ast.StarExpr:
		return w.lvalueBase(e.X)
	}
	return nil, false
}

// assignItem emits an assignment / inc-dec statement when it writes a tracked value.
func (w *fdWalker) assignItem(st ast.Stmt) {
	switch s := st.(type) {
	case *ast.AssignStmt:
		hit := false
		for _, l := range s.Lhs {
			if o, extra := w.lvalueBase(l); o != nil && !extra && w.tracked[o] {
				hit = true
			}
		}
		if hit {
			w.emitItem("asgn", func(c *fdCtx) string {
				var lhs []string
				for _, l := range s.Lhs {
					if id, ok := l.(*ast.Ident); ok && id.Name == "_" {
						lhs = append(lhs, "_")
						continue
					}
					lhs = append(lhs, c.lhs(l))
				}
				// `x := e` is `x = e`; `x op= e` is `x = (x op e)`
				if s.Tok != token.DEFINE && s.Tok != token.ASSIGN && len(lhs) == 1 && len(s.Rhs) == 1 {
					return lhs[0] + " = (" + lhs[0] + " " + strings.TrimSuffix(s.Tok.String(), "=") + " " + c.expr(s.Rhs[0]) + ")"
				}
				return strings.Join(lhs, ", ") + " = " + c.exprs(s.Rhs)
			}, s.Pos())
		}
	case *ast.IncDecStmt:
		if o, _ := w.lvalueBase(s.X); o != nil && w.tracked[o] {
			w.emitItem("asgn", func(c *fdCtx) string {
				x := c.lhs(s.X)
				return x + " = (" + x + " " + s.Tok.String()[:1] + " 1)"
			}, s.Pos())
		}
	}
}

func (w *fdWalker) emit(kind string, head func(c *fdCtx) string, chain []fdCond, pos token.Pos) {
	if w.dry > 0 {
		return
	}
	c := w.ctx()
	var parts []string
	var flat []fdCond
	for _, k := range chain {
		flat = append(flat, fdFlatten(k)...)
	}
	for _, f := range w.dropImplied(flat) {
		switch p := c.cond(f); p {
		case "true", "!(false)":
		default:
			parts = append(parts, p)
		}
	}
	h := head(c)
	// the chain is a conjunction: its order (the order of independent guards) is immaterial
	sort.Strings(parts)
	w.sites = append(w.sites, fdSite{Fn: w.fn, Text: kind + " " + h + fdWhen + strings.Join(parts, fdSep), Pos: pos, Fork: w.s.fork})
}

const (
	fdWhen = "  WHEN  "
	fdSep  = " ; "
)

// fdResort re-establishes the sorted order of the chain after a textual rewrite
// and drops the listed parts.
func fdResort(text string, drop map[string]bool) string {
	i := strings.Index(text, fdWhen)
	if i < 0 {
		return text
	}
	var parts []string
	for _, p := range strings.Split(text[i+len(fdWhen):], fdSep) {
		if p != "" && !drop[p] {
			parts = append(parts, p)
		}
	}
	sort.Strings(parts)
	return text[:i] + fdWhen + strings.Join(parts, fdSep)
}

var fdErrCtors = map[string]bool{"errors.New": true, "fmt.Errorf": true}

func fdIsErrorType(t types.Type) bool {
	return t != nil && types.Identical(t, types.Universe.Lookup("error").Type())
}

func (w *fdWalker) lastIsError(e ast.Expr) bool {
	tv, ok := w.s.pkg.TypesInfo.Types[e]
	if !ok || tv.Type == nil {
		return false
	}
	if tup, ok := tv.Type.(*types.Tuple); ok {
		return tup.Len() > 0 && fdIsErrorType(tup.At(tup.Len()-1).Type())
	}
	return fdIsErrorType(tv.Type)
}

// implementsError: named in-package type with an Error() string method.
func (w *fdWalker) inPkgErrorType(e ast.Expr) bool { return w.s.inPkgErrorType(e) }

func (s *fdSide) inPkgErrorType(e ast.Expr) bool {
	w := struct{ s *fdSide }{s}
	tv, ok := w.s.pkg.TypesInfo.Types[e]
	if !ok || tv.Type == nil {
		return false
	}
	t := tv.Type
	if p, ok := t.(*types.Pointer); ok {
		t = p.Elem()
	}
	n, ok := t.(*types.Named)
	if !ok || n.Obj().Pkg() != w.s.pkg.Types {
		return false
	}
	errI := types.Universe.Lookup("error").Type().Underlying().(*types.Interface)
	return types.Implements(n, errI) || types.Implements(types.NewPointer(n), errI)
}

// sitesIn collects the sites of one expression tree.
func (w *fdWalker) sitesIn(n ast.Node, chain []fdCond) {
	if n == nil {
		return
	}
	ast.Inspect(n, func(x ast.Node) bool {
		switch x := x.(type) {
		case *ast.FuncLit:
			// (its breaks / continues / labels are its own; what it writes of the
			// enclosing function is not tracked: captured variables have no facts)
			frames, loops, facts := w.frames, w.loops, w.facts
			w.frames, w.loops, w.facts = nil, nil, facts.clone()
			w.stmts(x.Body.List, append(append([]fdCond{}, chain...), fdCond{pre: "func{}"}))
			w.frames, w.loops, w.facts = frames, loops, facts
			return false
		case *ast.CompositeLit:
			if x.Type != nil && w.inPkgErrorType(x) {
				w.emit("err", func(c *fdCtx) string { return c.expr(x) }, chain, x.Pos())
			}
		case *ast.CallExpr:
			c0 := w.ctx()
			name := c0.typeExpr(x.Fun)
			switch {
			case fdErrCtors[name]:
				if c0.plainErrorf(x) {
					name = "errors.New"
				}
				w.emit("err", func(c *fdCtx) string {
					if len(x.Args) == 0 {
						return name + "()"
					}
					return name + "(" + c.expr(x.Args[0]) + ")"
				}, chain, x.Pos())
			case w.s.onlyHere[c0.calleeObj(x)]:
				w.emit("use", func(c *fdCtx) string { return c.expr(x) }, chain, x.Pos())
			case w.lastIsError(x):
				// (with a note when the error it returns goes nowhere, see rules_t5c10.go)
				note := w.errorUnused(x)
				w.emit("call", func(c *fdCtx) string { return c.expr(x) + note }, chain, x.Pos())
			}
		}
		return true
	})
}

func fdTerminates(list []ast.Stmt) bool {
	if len(list) == 0 {
		return false
	}
	switch s := fdNormStmt(list[len(list)-1]).(type) {
	case *ast.ReturnStmt:
		return true
	case *ast.BranchStmt:
		return s.Tok != token.FALLTHROUGH
	case *ast.ExprStmt:
		if c, ok := s.X.(*ast.CallExpr); ok {
			if id, ok := c.Fun.(*ast.Ident); ok && id.Name == "panic" {
				return true
			}
		}
	case *ast.BlockStmt:
		return fdTerminates(s.List)
	case *ast.IfStmt:
		if s.Else == nil {
			return false
		}
		return fdTerminates(s.Body.List) && fdTerminates([]ast.Stmt{s.Else})
	}
	return false
}

// ---- decision normal form of statements ---------------------------------------------
//
// The same decision can be written in several shapes; the walker sees one:
//   * a tagless switch (no fallthrough, no break that leaves it) is the if / else-if
//     chain of its clauses in order, `case a, b:` being `a || b`, the default
//     clause the final else;
//   * `if a { if b {Y} }` (nothing else in the outer body, no else on either) is
//     `if a && b {Y}`;
//   * `if a || b {X}` where X leaves (return / break / continue / panic) and there
//     is no else is `if a {X}; if b {X}` (done in stmtN, it yields two statements).

func fdUnparen(e ast.Expr) ast.Expr {
	for {
		p, ok := e.(*ast.ParenExpr)
		if !ok {
			return e
		}
		e = p.X
	}
}

// fdLeavesSwitch: the clause body contains a fallthrough or an unlabelled break
// that would leave the enclosing switch.
func fdLeavesSwitch(list []ast.Stmt) bool {
	found := false
	for _, st := range list {
		ast.Inspect(st, func(n ast.Node) bool {
			switch n := n.(type) {
			case *ast.ForStmt, *ast.RangeStmt, *ast.SwitchStmt, *ast.TypeSwitchStmt, *ast.SelectStmt, *ast.FuncLit:
				return false
			case *ast.BranchStmt:
				if n.Tok == token.FALLTHROUGH || (n.Tok == token.BREAK && n.Label == nil) {
					found = true
				}
			}
			return !found
		})
	}
	return found
}

func fdSwitchToIf(s *ast.SwitchStmt) ast.Stmt {
	if s.Tag != nil {
		return nil // (a switch over constants: see fdWalker.constSwitchToIf)
	}
	return fdSwitchToIfTag(s, nil)
}

// fdSwitchToIfTag: the clauses as an if / else-if chain; with tag != nil a case value v reads tag == v.
func fdSwitchToIfTag(s *ast.SwitchStmt, tag ast.Expr) ast.Stmt {
	var clauses []*ast.CaseClause
	var def *ast.CaseClause
	for _, cl := range s.Body.List {
		cc := cl.(*ast.CaseClause)
		if fdLeavesSwitch(cc.Body) {
			return nil
		}
		if cc.List == nil {
			def = cc
		} else {
			clauses = append(clauses, cc)
		}
	}
	if len(clauses) == 0 {
		return nil
	}
	var tail ast.Stmt
	if def != nil {
		tail = &ast.BlockStmt{Lbrace: def.Colon, List: def.Body, Rbrace: def.End()}
	}
	for i := len(clauses) - 1; i >= 0; i-- {
		cc := clauses[i]
		test := func(e ast.Expr) ast.Expr {
			if tag == nil {
				return e
			}
			return &ast.BinaryExpr{X: tag, OpPos: e.Pos(), Op: token.EQL, Y: e}
		}
		cond := test(cc.List[0])
		for _, e := range cc.List[1:] {
			cond = &ast.BinaryExpr{X: cond, OpPos: e.Pos(), Op: token.LOR, Y: test(e)}
		}
		tail = &ast.IfStmt{If: cc.Case, Cond: cond, Body: &ast.BlockStmt{Lbrace: cc.Colon, List: cc.Body, Rbrace: cc.End()}, Else: tail}
	}
	first := tail.(*ast.IfStmt)
	first.Init = s.Init
	return first
}

// fdOrSplits: the if statement is split into one statement per disjunct by stmtN.
func fdOrSplits(s *ast.IfStmt) bool {
	or, ok := fdUnparen(s.Cond).(*ast.BinaryExpr)
	return ok && or.Op == token.LOR && s.Else == nil && fdTerminates(s.Body.List)
}

func fdNormStmt(st ast.Stmt) ast.Stmt {
	switch s := st.(type) {
	case *ast.SwitchStmt:
		if n := fdSwitchToIf(s); n != nil {
			return fdNormStmt(n)
		}
	case *ast.IfStmt:
		for s.Else == nil && len(s.Body.List) == 1 {
			inner, ok := fdNormStmt(s.Body.List[0]).(*ast.IfStmt)
			if !ok || inner.Init != nil || inner.Else != nil || fdOrSplits(inner) {
				break
			}
			s = &ast.IfStmt{If: s.If, Init: s.Init, Body: inner.Body,
				Cond: &ast.BinaryExpr{X: s.Cond, OpPos: inner.Cond.Pos(), Op: token.LAND, Y: inner.Cond}}
		}
		return s
	}
	return st
}

// fdFlatten splits a chain part into its conjuncts: `a && b` is a ; b,
// `!(a || b)` is !(a) ; !(b), `!(!a)` is a.
func fdFlatten(k fdCond) []fdCond {
	if len(k.exprs) != 1 {
		return []fdCond{k}
	}
	e := fdUnparen(k.exprs[0])
	switch {
	case k.pre == "" && k.sep[0] == "":
		switch x := e.(type) {
		case *ast.BinaryExpr:
			if x.Op == token.LAND {
				return append(fdFlatten(fdCondOf("", x.X, "")), fdFlatten(fdCondOf("", x.Y, ""))...)
			}
		case *ast.UnaryExpr:
			if x.Op == token.NOT {
				return fdFlatten(fdCondOf("!(", x.X, ")"))
			}
		}
	case k.pre == "!(" && k.sep[0] == ")":
		switch x := e.(type) {
		case *ast.BinaryExpr:
			if x.Op == token.LOR {
				return append(fdFlatten(fdCondOf("!(", x.X, ")")), fdFlatten(fdCondOf("!(", x.Y, ")"))...)
			}
		case *ast.UnaryExpr:
			if x.Op == token.NOT {
				return fdFlatten(fdCondOf("", x.X, ""))
			}
		}
	}
	return []fdCond{k}
}

func fdWith(chain []fdCond, k ...fdCond) []fdCond {
	return append(append([]fdCond{}, chain...), k...)
}

// stmts walks a statement list.  It reports whether control cannot reach the end
// of the list (a statement left it on every path).
func (w *fdWalker) stmts(list []ast.Stmt, chain []fdCond) bool {
	skip := 0
	for i, st := range list {
		if skip > 0 {
			skip--
			continue
		}
		// a decision table: one item for the run of statements (rules_t6c10.go)
		if n := w.decisionTable(list, i, chain); n > 0 {
			for _, x := range list[i : i+n] {
				chain = w.staleAfter(chain, x)
			}
			skip = n - 1
			continue
		}
		if n := w.freshCell(list, i, chain); n > 0 {
			for _, x := range list[i : i+n] {
				chain = w.staleAfter(chain, x)
			}
			skip = n - 1
			continue
		}
		// the expansion of a helper call whose body runs once: `L: for { …; break L }`.
		// Every `break L` continues with the statements that follow the block, so the
		// block reads as its body with those statements in place of each `break L`.
		if ls, ok := st.(*ast.LabeledStmt); ok {
			if ob := w.once[ls]; ob != nil && (!ob.inLoop || fdTerminates(list[i+1:])) {
				if i+1 < len(list) {
					if cb, ok := list[i+1].(*ast.AssignStmt); ok {
						if rg := w.cbOf[cb]; rg != nil && rg.stmt == st {
							w.enterRegion(rg)
						}
					}
				}
				fr := &fdFrame{label: ob.label, cont: list[i+1:]}
				w.frames = append(w.frames, fr)
				w.stmts(ob.body, chain)
				w.frames = w.frames[:len(w.frames)-1]
				// the body always ends in `break L` or leaves the function: what follows
				// the block has been walked at each break
				if len(fr.outs) == 0 {
					return true
				}
				w.facts = fdJoinAll(fr.outs)
				return false
			}
		}
		if i+1 < len(list) {
			if cb, ok := list[i+1].(*ast.AssignStmt); ok {
				if rg := w.cbOf[cb]; rg != nil && rg.stmt == st && rg.label == "" {
					w.enterRegion(rg)
				}
			}
		}
		// a guard that leaves the function and changes nothing (rules_t8c10.go)
		if w.neutralExit(list, i) {
			continue
		}
		// the fill of a slice that is read as the function it tabulates (rules_t8c10.go)
		if w.findTabs().skip[st] {
			continue
		}
		w.errTemp(list, i)
		dead, guards := w.stmt(st, chain)
		if dead {
			return true
		}
		chain = w.staleAfter(chain, st)
		if len(guards) > 0 {
			chain = fdWith(chain, guards...)
		}
	}
	return fdTerminates(list)
}

// stmt walks one statement.  It returns dead=true when the statements that
// follow cannot execute (an `if true {…return}` left by partial evaluation)
// and the guard conditions that hold for the following siblings, if any.
func (w *fdWalker) stmt(st ast.Stmt, chain []fdCond) (dead bool, guards []fdCond) {
	if w.s.sinkStmts[st] {
		// its only effect is a store into a variable no decoder code reads
		return false, nil
	}
	if sw, ok := st.(*ast.SwitchStmt); ok {
		if n := w.constSwitchToIf(sw); n != nil {
			st = n
		}
	}
	return w.stmtN(fdNormStmt(st), chain)
}

// stmtN walks a statement that is already in decision normal form.
func (w *fdWalker) stmtN(st ast.Stmt, chain []fdCond) (dead bool, guards []fdCond) {
	switch s := st.(type) {
	case nil:
	case *ast.BlockStmt:
		if w.stmts(s.List, chain) {
			return true, nil
		}
	case *ast.LabeledStmt:
		w.label = s.Label.Name
		defer func() { w.label = "" }()
		if _, isSwitch := s.Stmt.(*ast.SwitchStmt); isSwitch {
			return w.stmtN(s.Stmt, chain) // a `break L` may leave it: kept as a switch
		}
		return w.stmt(s.Stmt, chain)
	case *ast.BranchStmt:
		if s.Tok == token.BREAK && s.Label != nil {
			for k := len(w.frames) - 1; k >= 0; k-- {
				if fr := w.frames[k]; fr.label == s.Label.Name {
					saved := w.frames
					w.frames = w.frames[:k]
					if !w.stmts(fr.cont, chain) {
						fr.outs = append(fr.outs, w.facts.clone())
					}
					w.frames = saved
					return true, nil
				}
			}
		}
		// the state flows to the head of / out of the loop it refers to
		if s.Tok == token.BREAK || s.Tok == token.CONTINUE {
			for k := len(w.loops) - 1; k >= 0; k-- {
				lp := w.loops[k]
				if s.Label != nil && lp.label != s.Label.Name {
					continue
				}
				if s.Label == nil && s.Tok == token.CONTINUE && !lp.isLoop {
					continue // a switch is transparent to continue
				}
				if lp.isLoop {
					if s.Tok == token.BREAK {
						lp.brks = append(lp.brks, w.facts.clone())
					} else {
						lp.conts = append(lp.conts, w.facts.clone())
					}
				} else if s.Tok == token.BREAK {
					lp.brks = append(lp.brks, w.facts.clone()) // leaves the switch
				}
				break
			}
		}
	case *ast.IfStmt:
		// `if a || b {X}` with X leaving is `if a {X}; if b {X}`
		if fdOrSplits(s) {
			or := fdUnparen(s.Cond).(*ast.BinaryExpr)
			first := &ast.IfStmt{If: s.If, Init: s.Init, Cond: or.X, Body: s.Body}
			second := &ast.IfStmt{If: s.If, Cond: or.Y, Body: s.Body}
			dead, g1 := w.stmt(first, chain)
			if dead {
				return true, nil
			}
			dead, g2 := w.stmt(second, fdWith(chain, g1...))
			if dead {
				return true, nil
			}
			return false, append(append([]fdCond{}, g1...), g2...)
		}
		if s.Init != nil {
			w.stmt(s.Init, chain)
			chain = w.staleAfter(chain, s.Init)
		}
		w.sitesIn(s.Cond, chain)
		cv := w.ctx().expr(s.Cond)
		if cv != "true" && cv != "false" {
			// a nil test whose outcome the assignments and tests before it decide
			if v, known := w.evalCond(s.Cond); known {
				cv = "false"
				if v {
					cv = "true"
				}
			}
		}
		var elseList []ast.Stmt
		switch e := s.Else.(type) {
		case *ast.BlockStmt:
			elseList = e.List
		case *ast.IfStmt:
			elseList = []ast.Stmt{e}
		}
		switch cv {
		case "false":
			return w.stmts(elseList, chain), nil
		case "true":
			return w.stmts(s.Body.List, chain), nil
		}
		// (rendered without the conjuncts that what encloses / precedes them implies, see rules_rob3c.go)
		rc := w.simplifyCond(s.Cond)
		pos, neg := fdCondOf("", rc, ""), fdCondOf("!(", rc, ")")
		w.emitIfCond(chain, pos, s.Cond.Pos())
		f0 := w.facts
		w.facts = f0.clone()
		w.facts.assume(w, s.Cond, true)
		posE := pos
		posE.enc = true
		tb := w.stmts(s.Body.List, fdWith(chain, posE))
		fb := w.facts
		w.facts = f0.clone()
		w.facts.assume(w, s.Cond, false)
		te := w.stmts(elseList, fdWith(chain, neg))
		fe := w.facts
		switch {
		case tb && te:
			return true, nil
		case tb:
			w.facts = fe
			return false, []fdCond{neg}
		case te:
			w.facts = fb
			return false, []fdCond{pos}
		}
		w.facts = fdJoin(fb, fe)
	case *ast.ForStmt:
		label := w.label
		w.label = ""
		if s.Init != nil {
			w.stmt(s.Init, chain)
		}
		in := fdWith(w.staleAfter(chain, s), fdCondOf("for(", s.Cond, ")"))
		pass := func() (end *fdState) {
			w.facts.assume(w, s.Cond, true)
			w.sitesIn(s.Cond, in)
			if !w.stmts(s.Body.List, in) {
				end = w.facts
			}
			return end
		}
		post := func(st *fdState) *fdState {
			if st == nil || s.Post == nil {
				return st
			}
			w.facts = st
			w.dry++
			w.stmt(s.Post, in)
			w.dry--
			return w.facts
		}
		head := w.loopHead(label, &ast.ForStmt{Cond: s.Cond, Post: s.Post, Body: s.Body}, pass, post)
		if s.Cond != nil {
			w.emitCond(fdCondOf("for(", s.Cond, ")"), s.Cond.Pos())
		}
		lp := &fdLoop{label: label, isLoop: true, loop: s}
		w.loops = append(w.loops, lp)
		w.facts = head.clone()
		end := pass()
		if s.Post != nil {
			if end != nil {
				w.facts = end
			}
			w.stmt(s.Post, in)
		}
		w.loops = w.loops[:len(w.loops)-1]
		// the loop is left when the condition fails at its head, or by a break
		outs := lp.brks
		if s.Cond != nil {
			out := head.clone()
			out.assume(w, s.Cond, false)
			outs = append(outs, out)
		}
		if len(outs) == 0 {
			outs = []*fdState{head}
		}
		w.facts = fdJoinAll(outs)
	case *ast.RangeStmt:
		if f := w.rangeIntAsFor(s); f != nil {
			return w.stmtN(f, chain)
		}
		if f := w.rangeTabAsFor(s); f != nil {
			return w.stmtN(f, chain)
		}
		if f := w.rangeSliceAsFor(s); f != nil {
			return w.stmtN(f, chain)
		}
		label := w.label
		w.label = ""
		w.sitesIn(s.X, chain)
		w.emitCond(fdCondOf("range(", s.X, ")"), s.X.Pos())
		in := fdWith(w.staleAfter(chain, s), fdCondOf("range(", s.X, ")"))
		pass := func() (end *fdState) {
			for _, e := range []ast.Expr{s.Key, s.Value} {
				if e != nil {
					w.facts.assign(w, e, 0)
				}
			}
			if !w.stmts(s.Body.List, in) {
				end = w.facts
			}
			return end
		}
		head := w.loopHead(label, s, pass, func(st *fdState) *fdState { return st })
		lp := &fdLoop{label: label, isLoop: true}
		w.loops = append(w.loops, lp)
		w.facts = head.clone()
		pass()
		w.loops = w.loops[:len(w.loops)-1]
		w.facts = fdJoinAll(append(lp.brks, head))
	case *ast.SwitchStmt:
		if s.Init != nil {
			w.stmt(s.Init, chain)
		}
		w.sitesIn(s.Tag, chain)
		var all []ast.Expr
		for _, cl := range s.Body.List {
			all = append(all, cl.(*ast.CaseClause).List...)
		}
		f0 := w.facts
		sw := &fdLoop{label: w.label}
		var outs []*fdState
		hasDefault := false
		w.loops = append(w.loops, sw)
		w.label = ""
		defer func(n int) { w.loops = w.loops[:n] }(len(w.loops) - 1)
		for _, cl := range s.Body.List {
			cc := cl.(*ast.CaseClause)
			k := fdCond{pre: "sw("}
			if s.Tag != nil {
				k.exprs, k.sep = append(k.exprs, s.Tag), append(k.sep, ")")
			} else {
				k.pre = "sw()"
			}
			list, rel := cc.List, "∈{"
			if cc.List == nil {
				list, rel = all, "∉{"
			}
			if len(list) == 0 {
				k.pre += rel + "}"
			} else if len(k.sep) > 0 {
				k.sep[len(k.sep)-1] += rel
			} else {
				k.pre += rel
			}
			for i, e := range list {
				k.exprs = append(k.exprs, e)
				if i == len(list)-1 {
					k.sep = append(k.sep, "}")
				} else {
					k.sep = append(k.sep, ",")
				}
				w.sitesIn(e, chain)
			}
			w.emitCond(k, cc.Pos())
			w.facts = f0.clone()
			hasDefault = hasDefault || cc.List == nil
			if !w.stmts(cc.Body, fdWith(chain, k)) {
				outs = append(outs, w.facts)
			}
		}
		w.facts = w.afterSwitch(f0, sw, outs, hasDefault, s.Body)
	case *ast.TypeSwitchStmt:
		if s.Init != nil {
			w.stmt(s.Init, chain)
		}
		var x ast.Expr
		switch a := s.Assign.(type) {
		case *ast.AssignStmt:
			x = a.Rhs[0]
		case *ast.ExprStmt:
			x = a.X
		}
		f0 := w.facts
		sw := &fdLoop{label: w.label}
		var outs []*fdState
		hasDefault := false
		w.loops = append(w.loops, sw)
		w.label = ""
		defer func(n int) { w.loops = w.loops[:n] }(len(w.loops) - 1)
		for _, cl := range s.Body.List {
			cc := cl.(*ast.CaseClause)
			k := fdCond{pre: "tsw(", exprs: []ast.Expr{x}, sep: []string{")∈{"}}
			if cc.List == nil {
				k.sep[0] = ")∈{default}"
			}
			for i, e := range cc.List {
				k.exprs = append(k.exprs, e)
				if i == len(cc.List)-1 {
					k.sep = append(k.sep, "}")
				} else {
					k.sep = append(k.sep, ",")
				}
			}
			w.emitCond(k, cc.Pos())
			w.facts = f0.clone()
			hasDefault = hasDefault || cc.List == nil
			if !w.stmts(cc.Body, fdWith(chain, k)) {
				outs = append(outs, w.facts)
			}
		}
		w.facts = w.afterSwitch(f0, sw, outs, hasDefault, s.Body)
	case *ast.ReturnStmt:
		w.sitesIn(st, chain)
		if len(s.Results) > 0 {
			w.emit("ret", func(c *fdCtx) string {
				if c.namedResults(s.Results) {
					return "·" // exactly the named results, in order: the bare return
				}
				return c.exprs(s.Results)
			}, chain, s.Pos())
		} else if w.hasResults {
			// a bare return of the named results: its presence under its conditions is
			// what makes `if err != nil { return }` a propagation site
			w.emit("ret", func(c *fdCtx) string { return "·" }, chain, s.Pos())
		}
	case *ast.AssignStmt:
		// the copy-out / copy-back pair of an expanded helper call
		if rg := w.cbOf[s]; rg != nil && rg.entered {
			return false, nil // the targets were assigned where the body left
		}
		if rg := w.exitOf[s]; rg != nil && rg.entered {
			if x := rg.exitAssign(s); x != nil {
				if red, changed := w.dropSelfPairs(x); changed {
					if red == nil {
						return false, nil
					}
					x = red
				}
				w.sitesIn(x, chain)
				w.assignItem(x)
				w.facts.effects(w, x)
			}
			return false, nil
		}
		if red, changed := w.dropSelfPairs(s); changed {
			if red == nil {
				return false, nil
			}
			st = red
		}
		w.sitesIn(st, chain)
		w.assignItem(st)
		w.facts.effects(w, st)
	default:
		w.sitesIn(st, chain)
		w.assignItem(st)
		w.facts.effects(w, st)
	}
	return false, nil
}

// ---- range over an integer ------------------------------------------------------------
//
// `for i := range n` runs its body for i = 0 … n-1 with n evaluated once; it is the
// counting loop `for i := 0; i < n; i++` when the body does not write i (a write
// would move the three-clause loop but not the range loop) and n has the same
// value every time it is evaluated (no operand of n is written in the loop, n calls
// nothing but len / cap / conversions and niladic methods of reflect.Type, whose
// values are immutable).  Such a loop is walked in its three-clause form.

func (w *fdWalker) rangeIntAsFor(s *ast.RangeStmt) *ast.ForStmt {
	info := w.s.pkg.TypesInfo
	tv, ok := info.Types[s.X]
	if !ok || tv.Type == nil || s.Value != nil {
		return nil
	}
	if b, ok := tv.Type.Underlying().(*types.Basic); !ok || b.Info()&types.IsInteger == 0 {
		return nil
	}
	var key *ast.Ident
	if s.Key != nil {
		id, ok := s.Key.(*ast.Ident)
		if !ok || s.Tok != token.DEFINE {
			return nil
		}
		if id.Name != "_" {
			key = id
		}
	}
	written := fdWrittenIn(s.Body, info)
	taken := fdWrittenIn(w.fd.Body, info).addr
	if key != nil {
		if o := info.Defs[key]; o == nil || written.any(o) {
			return nil
		}
	}
	if !w.invariant(s.X, written, taken, 0) {
		return nil
	}
	if key == nil {
		key = ast.NewIdent("·i")
		key.NamePos = s.For
		if w.s.synth == nil {
			w.s.synth = map[*ast.Ident]types.Object{}
		}
		w.s.synth[key] = types.NewVar(s.For, w.s.pkg.Types, "·i", tv.Type)
	}
	return &ast.ForStmt{
		For:  s.For,
		Init: &ast.AssignStmt{Lhs: []ast.Expr{key}, TokPos: s.For, Tok: token.DEFINE, Rhs: []ast.Expr{&ast.BasicLit{ValuePos: s.For, Kind: token.INT, Value: "0"}}},
		Cond: &ast.BinaryExpr{X: key, OpPos: s.X.Pos(), Op: token.LSS, Y: s.X},
		Post: &ast.IncDecStmt{X: key, TokPos: s.For, Tok: token.INC},
		Body: s.Body,
	}
}

// fdWrites: the variables a piece of code may write: assigned / incremented /
// declared (asg) and those whose address is taken (addr), at any depth.
type fdWrites struct{ asg, addr map[types.Object]bool }

func (f fdWrites) any(o types.Object) bool { return f.asg[o] || f.addr[o] }

func fdWrittenIn(n ast.Node, info *types.Info) fdWrites {
	out := fdWrites{map[types.Object]bool{}, map[types.Object]bool{}}
	var base func(e ast.Expr) types.Object
	base = func(e ast.Expr) types.Object {
		switch e := e.(type) {
		case *ast.Ident:
			if o := info.Defs[e]; o != nil {
				return o
			}
			return info.Uses[e]
		case *ast.ParenExpr:
			return base(e.X)
		case *ast.SelectorExpr:
			if _, isField := info.Uses[e.Sel].(*types.Var); isField {
				return base(e.X)
			}
		case *ast.IndexExpr:
			return base(e.X)
		case *ast.StarExpr:
			return base(e.X)
		case *ast.SliceExpr:
			return base(e.X)
		}
		return nil
	}
	if n == nil {
		return out
	}
	ast.Inspect(n, func(x ast.Node) bool {
		switch x := x.(type) {
		case *ast.AssignStmt:
			for _, l := range x.Lhs {
				if o := base(l); o != nil {
					out.asg[o] = true
				}
			}
		case *ast.IncDecStmt:
			if o := base(x.X); o != nil {
				out.asg[o] = true
			}
		case *ast.RangeStmt:
			for _, e := range []ast.Expr{x.Key, x.Value} {
				if e != nil {
					if o := base(e); o != nil {
						out.asg[o] = true
					}
				}
			}
		case *ast.ValueSpec:
			for _, id := range x.Names {
				if o := info.Defs[id]; o != nil {
					out.asg[o] = true
				}
			}
		case *ast.UnaryExpr:
			if x.Op == token.AND {
				if o := base(x.X); o != nil {
					out.addr[o] = true
				}
			}
		case *ast.SliceExpr:
			// slicing an array takes its address
			if tv, ok := info.Types[x.X]; ok && tv.Type != nil {
				if _, isArr := tv.Type.Underlying().(*types.Array); isArr {
					if o := base(x.X); o != nil {
						out.addr[o] = true
					}
				}
			}
		case *ast.CallExpr:
			// a method with a pointer receiver called on an addressable variable takes its address
			if sel, ok := fdUnparen(x.Fun).(*ast.SelectorExpr); ok {
				if sl := info.Selections[sel]; sl != nil && sl.Kind() == types.MethodVal {
					if sig, ok := sl.Obj().Type().(*types.Signature); ok && sig.Recv() != nil {
						_, wantPtr := sig.Recv().Type().(*types.Pointer)
						_, havePtr := sl.Recv().Underlying().(*types.Pointer)
						if wantPtr && !havePtr {
							if o := base(sel.X); o != nil {
								out.addr[o] = true
							}
						}
					}
				}
			}
		}
		return true
	})
	return out
}

// invariant: evaluating e again gives the same value as long as none of the
// variables in `written` is written: e is built from constants, local variables and
// parameters that are neither written there nor address-taken anywhere in the
// function, arithmetic, conversions, len / cap of slices and strings, and niladic
// methods of reflect.Type.
func (w *fdWalker) invariant(e ast.Expr, written fdWrites, taken map[types.Object]bool, depth int) bool {
	info := w.s.pkg.TypesInfo
	if depth > 10 {
		return false
	}
	if tv, ok := info.Types[e]; ok && tv.Value != nil {
		return true
	}
	switch e := e.(type) {
	case *ast.ParenExpr:
		return w.invariant(e.X, written, taken, depth+1)
	case *ast.BasicLit:
		return true
	case *ast.Ident:
		v, ok := info.Uses[e].(*types.Var)
		if !ok || v.IsField() || v.Pkg() == nil || v.Parent() == v.Pkg().Scope() {
			return false
		}
		return !written.any(v) && !taken[v]
	case *ast.BinaryExpr:
		switch e.Op {
		case token.ADD, token.SUB, token.MUL, token.AND, token.OR, token.XOR, token.AND_NOT:
			return w.invariant(e.X, written, taken, depth+1) && w.invariant(e.Y, written, taken, depth+1)
		}
	case *ast.UnaryExpr:
		if e.Op == token.SUB || e.Op == token.ADD || e.Op == token.XOR {
			return w.invariant(e.X, written, taken, depth+1)
		}
	case *ast.CallExpr:
		if e.Ellipsis.IsValid() {
			return false
		}
		fun := fdUnparen(e.Fun)
		if tv, ok := info.Types[fun]; ok && tv.IsType() && len(e.Args) == 1 {
			// conversion between integer types
			if b, ok := tv.Type.Underlying().(*types.Basic); ok && b.Info()&types.IsInteger != 0 {
				if at, ok := info.Types[e.Args[0]]; ok && at.Type != nil {
					if ab, ok := at.Type.Underlying().(*types.Basic); ok && ab.Info()&types.IsInteger != 0 {
						return w.invariant(e.Args[0], written, taken, depth+1)
					}
				}
			}
			return false
		}
		switch f := fun.(type) {
		case *ast.Ident:
			if b, ok := info.Uses[f].(*types.Builtin); ok && (b.Name() == "len" || b.Name() == "cap") && len(e.Args) == 1 {
				if at, ok := info.Types[e.Args[0]]; ok && at.Type != nil {
					switch u := at.Type.Underlying().(type) {
					case *types.Slice:
						return w.invariant(e.Args[0], written, taken, depth+1)
					case *types.Basic:
						return u.Info()&types.IsString != 0 && w.invariant(e.Args[0], written, taken, depth+1)
					}
				}
			}
		case *ast.SelectorExpr:
			if len(e.Args) != 0 {
				return false
			}
			fn, ok := info.Uses[f.Sel].(*types.Func)
			if !ok {
				return false
			}
			rt, ok := info.Types[f.X]
			if !ok || rt.Type == nil {
				return false
			}
			if n, ok := rt.Type.(*types.Named); !ok || n.Obj().Pkg() == nil || n.Obj().Pkg().Path() != "reflect" || n.Obj().Name() != "Type" {
				return false
			}
			_ = fn
			return w.invariant(f.X, written, taken, depth+1)
		}
	}
	return false
}

// ---- driver ---------------------------------------------------------------------

type fdResult struct {
	OnlyFork, OnlyUp   []fdSite // unmatched sites
	FuncsOnlyFork      []string
	FuncsUnreferenced  []string // fork-only, unexported and not referenced anywhere in the package
	FuncsOnlyUp        []string
	SigMismatch        []string
	Matched, Functions int
	Compared           []string // keys of the functions present on both sides
	// whole-function items ("cond …" branch conditions, "asgn …" assignments to
	// named results and to locals that flow into returned values), unmatched ones
	ItemsOnlyFork, ItemsOnlyUp []fdSite
	ItemsMatched               int
	UpstreamDir                string
	// functions compared against upstream's function without the parameters that
	// every upstream caller derives from another parameter
	Derived []string
	// functions whose fork parameter is a pure method of upstream's parameter, applied by every caller
	Lifted []string
	// one-expression functions on one side only that are read as their expression ("side:name")
	Transparent []string
	// package-level variables of the fork that upstream has under another name
	// (fork name -> upstream name), matched by definition
	Renamed map[string]string
	// fork-only functions that lie outside the decoder (rules_r4c10.go), why the other
	// fork-only functions do not, the verdicts on the package-level variables of the
	// fork and the number of sink statements passed over
	FuncsOutside []string
	NotOutside   map[string]string
	PkgVars      []fdVarVerdict
	SinkStmts    int
	// functions read with decision tables (rules_t6c10.go): tables equal to upstream's as
	// functions, fork tables without an equal partner
	Tables map[string][2]int
	// functions on one side only that are pure helpers over integers / booleans ("side:name")
	FuncsPure []string
	// findings reported in their own words (rules_t8c10.go)
	Notes []fdNote
	// fork-only functions that give back their struct argument with some fields set to constants
	Updaters []string
}

// ForkDiff compares the fork package with the upstream package.
func ForkDiff(fork, up *packages.Package, files map[string]bool, laxObjs map[types.Object]bool, memo, pure map[types.Object]bool, elem *c10Elem) *fdResult {
	fs := &fdSide{fork: true, pkg: fork, funcs: fdCollectFuncs(fork, files), laxObjs: laxObjs, memo: memo, pureFuncs: pure, elem: elem, dropArgs: map[types.Object]map[int]bool{}, onlyHere: map[types.Object]bool{}}
	us := &fdSide{pkg: up, funcs: fdCollectFuncs(up, files), dropArgs: map[types.Object]map[int]bool{}, onlyHere: map[types.Object]bool{}}
	fs.extraFields, us.extraFields = fdExtraFields(fork, up), fdExtraFields(up, fork)
	for o := range laxObjs { // the lax field itself is an extra field by construction; assert it
		if v, ok := o.(*types.Var); ok && v.IsField() && !fs.extraFields[o] {
			fs.extraFields[o] = true
		}
	}
	res := &fdResult{}
	fdMemoReads(fs)
	fs.rename = fdMatchPkgVars(fs, us)
	res.Renamed = map[string]string{}
	for o, n := range fs.rename {
		res.Renamed[o.Name()] = n
	}
	if len(up.GoFiles) > 0 {
		res.UpstreamDir = up.GoFiles[0][:strings.LastIndex(up.GoFiles[0], "/")]
	}
	align := map[string][]int{}
	derived := map[string]map[int]fdDerived{} // upstream parameters read as Pj.M()
	lifts := map[string]map[int]string{}      // fork parameters read as Pj.M()
	fs.liftArgs = map[types.Object]map[int]string{}
	fs.transparent, us.transparent = map[types.Object]*fdTransparentFn{}, map[types.Object]*fdTransparentFn{}
	for _, k := range keysOf(fs.funcs) {
		fd := fs.funcs[k]
		fo, _ := fork.TypesInfo.Defs[fd.Name].(*types.Func)
		ud, ok := us.funcs[k]
		if !ok {
			if fo != nil && !fdReferenced(fork, fo, fd) {
				// dead code: an unexported function nobody refers to cannot change what the package does
				res.FuncsUnreferenced = append(res.FuncsUnreferenced, k)
				continue
			}
			if t := fdTransparent(fs, fo, fd); t != nil {
				fs.transparent[fo] = t
				res.Transparent = append(res.Transparent, "fork:"+k)
				continue
			}
			// a function that gives back its struct argument with some fields set to constants (rules_t8c10.go)
			if fdUpdater(fs, fo, fd) {
				res.Updaters = append(res.Updaters, k)
				continue
			}
			res.FuncsOnlyFork = append(res.FuncsOnlyFork, k)
			if fo != nil {
				fs.onlyHere[fo] = true
			}
			continue
		}
		uo, _ := up.TypesInfo.Defs[ud.Name].(*types.Func)
		if fo == nil || uo == nil {
			continue
		}
		m, ok := fdAlign(fo.Type().(*types.Signature), uo.Type().(*types.Signature))
		if !ok {
			// upstream's list without the parameters every caller derives from another one
			if der := fdDerivedParams(us, uo, ud); len(der) > 0 {
				skip := map[int]bool{}
				for i := range der {
					skip[i] = true
				}
				if m2, ok2 := fdAlignSkip(fo.Type().(*types.Signature), uo.Type().(*types.Signature), skip); ok2 {
					m, ok = m2, true
					derived[k] = der
					us.dropArgs[uo] = skip
					res.Derived = append(res.Derived, k)
				}
			}
		}
		if !ok {
			// the fork's parameter is M() of upstream's parameter, applied by every fork caller
			if m2, lifted := fdLiftedParams(fs, fo, fd, uo.Type().(*types.Signature)); lifted != nil {
				m, ok = m2, true
				lifts[k] = lifted
				fs.liftArgs[fo] = lifted
				res.Lifted = append(res.Lifted, k)
			}
		}
		if !ok {
			res.SigMismatch = append(res.SigMismatch, k)
		}
		align[k] = m
		drop := map[int]bool{}
		for i, j := range m {
			if j < 0 {
				drop[i] = true
			}
		}
		fs.dropArgs[fo] = drop
	}
	// fork-only functions that are reachable from nothing compared and touch nothing
	// but write-only variables are outside the decoder: no drift (rules_r4c10.go)
	{
		cands := map[string]*ast.FuncDecl{}
		for _, k := range res.FuncsOnlyFork {
			cands[k] = fs.funcs[k]
		}
		oi := fdOutside(fs, us, cands)
		res.NotOutside = map[string]string{}
		var rest []string
		for _, k := range res.FuncsOnlyFork {
			fo := fork.TypesInfo.Defs[fs.funcs[k].Name]
			if fo != nil && oi.island[fo] {
				res.FuncsOutside = append(res.FuncsOutside, k)
				delete(fs.onlyHere, fo)
				continue
			}
			rest = append(rest, k)
			if fo != nil {
				res.NotOutside[k] = oi.whyNot[fo]
			}
		}
		// … and those that are pure helpers over integers / booleans have no behaviour of their
		// own: each call is part of the decision table it stands in, or a `use` site (rules_t6c10.go)
		fs.pureFns = map[types.Object]bool{}
		var rest2 []string
		for _, k := range rest {
			if fo, ok := fork.TypesInfo.Defs[fs.funcs[k].Name].(*types.Func); ok && fdPureHelper(fs, fo, map[int64]bool{}, 1) != nil {
				fs.pureFns[fo] = true
				res.FuncsPure = append(res.FuncsPure, "fork:"+k)
				continue
			}
			rest2 = append(rest2, k)
		}
		rest = rest2
		res.FuncsOnlyFork = rest
		res.PkgVars = oi.vars
		fs.sinkStmts = oi.sinkStmts
		res.SinkStmts = len(oi.sinkStmts)
	}
	for _, k := range keysOf(us.funcs) {
		if _, ok := fs.funcs[k]; !ok {
			uo, _ := up.TypesInfo.Defs[us.funcs[k].Name].(*types.Func)
			if t := fdTransparent(us, uo, us.funcs[k]); t != nil {
				us.transparent[uo] = t
				res.Transparent = append(res.Transparent, "upstream:"+k)
				continue
			}
			if uo != nil {
				us.onlyHere[uo] = true
				if fdPureHelper(us, uo, map[int64]bool{}, 1) != nil {
					if us.pureFns == nil {
						us.pureFns = map[types.Object]bool{}
					}
					us.pureFns[uo] = true
					res.FuncsPure = append(res.FuncsPure, "upstream:"+k)
					continue
				}
			}
			res.FuncsOnlyUp = append(res.FuncsOnlyUp, k)
		}
	}
	sitesOf := func(s *fdSide, k string, m []int) ([]fdSite, []fdSite) {
		fd := s.funcs[k]
		fo := s.pkg.TypesInfo.Defs[fd.Name].(*types.Func)
		sig := fo.Type().(*types.Signature)
		params := map[types.Object]string{}
		for i := 0; i < sig.Params().Len(); i++ {
			j := i
			if m != nil {
				j = m[i]
			}
			if j < 0 {
				params[sig.Params().At(i)] = "⊘"
			} else {
				params[sig.Params().At(i)] = fmt.Sprintf("P%d", j)
			}
		}
		for i := 0; i < sig.Results().Len(); i++ {
			if sig.Results().At(i).Name() != "" {
				params[sig.Results().At(i)] = fmt.Sprintf("R%d", i)
			}
		}
		if sig.Recv() != nil {
			params[sig.Recv()] = "RCV"
		}
		if !s.fork {
			for i, d := range derived[k] {
				params[sig.Params().At(i)] = fmt.Sprintf("P%d.%s()", d.from, d.method)
			}
		} else {
			for i, meth := range lifts[k] {
				params[sig.Params().At(i)] = fmt.Sprintf("P%d.%s()", m[i], meth)
			}
		}
		w := &fdWalker{s: s, fd: fd, fn: k, hasResults: sig.Results().Len() > 0}
		inl := fdSingleDefs(fd, s.pkg.TypesInfo, s.extraFields)
		fdModelCutPrefix(fd, s.pkg.TypesInfo, inl)
		w.ctx = func() *fdCtx {
			return &fdCtx{s: s, params: params, locals: map[types.Object]string{}, inline: inl, busy: map[types.Object]bool{}, w: w}
		}
		w.prepare(fd, inl)
		// a local that every return statement returns at position i is the named result i
		for v, i := range fdResultLocals(fd, s.pkg.TypesInfo, sig, inl, w.noFacts) {
			params[v] = fmt.Sprintf("R%d", i)
		}
		w.tracked = fdTracked(fd, s.pkg.TypesInfo, sig, inl)
		for o, m := range w.merge {
			if w.tracked[o] || w.tracked[m] {
				w.tracked[o], w.tracked[m] = true, true
			}
		}
		// named results start out zero
		for i := 0; i < sig.Results().Len(); i++ {
			if r := sig.Results().At(i); r.Name() != "" && r.Name() != "_" && !w.noFacts[r] {
				w.facts.set(fdPath{o: r}, 'z')
			}
		}
		w.stmts(fd.Body.List, nil)
		return w.sites, w.items
	}
	for _, k := range keysOf(fs.funcs) {
		if _, ok := us.funcs[k]; !ok {
			continue
		}
		res.Functions++
		res.Compared = append(res.Compared, k)
		f, fi := sitesOf(fs, k, align[k])
		u, ui := sitesOf(us, k, nil)
		// Reading a range loop over a slice as its counting loop is exact where its
		// conditions hold, and so is leaving it as it stands: when the two sides do not
		// agree, the other combinations of the two readings are tried (any combination
		// under which the sides agree shows the correspondence).
		if fs.usedRangeSlice || us.usedRangeSlice {
			best := fdUnmatched(f, u) + fdUnmatched(fi, ui)
			for _, combo := range [][2]bool{{true, true}, {true, false}, {false, true}} {
				if best == 0 {
					break
				}
				fs.noRangeSlice, us.noRangeSlice = combo[0], combo[1]
				f2, fi2 := sitesOf(fs, k, align[k])
				u2, ui2 := sitesOf(us, k, nil)
				if n := fdUnmatched(f2, u2) + fdUnmatched(fi2, ui2); n < best {
					best, f, fi, u, ui = n, f2, fi2, u2, ui2
				}
			}
			fs.noRangeSlice, us.noRangeSlice, fs.usedRangeSlice, us.usedRangeSlice = false, false, false, false
		}
		// Where the normal forms differ, the runs of statements that only test integer
		// variables for equality and copy them are compared as the functions they compute
		// (decision tables, rules_t6c10.go); that reading is exact, so it is the one kept when
		// it leaves fewer differences — or as many, one of them a table that is then
		// reported with an input on which the two sides go on differently.
		if n0 := fdUnmatched(f, u) + fdUnmatched(fi, ui); n0 > 0 {
			fs.tables, us.tables = true, true
			fs.noTableAt, us.noTableAt = map[token.Pos]bool{}, map[token.Pos]bool{}
			f2, fi2 := sitesOf(fs, k, align[k])
			u2, ui2 := sitesOf(us, k, nil)
			eq, neq, lone := fdPairTables(fi2, ui2)
			// a table the other side has nothing to compare with is walked as the statements it is
			for round := 0; len(lone) > 0 && round < 4; round++ {
				for _, p := range lone {
					fs.noTableAt[p], us.noTableAt[p] = true, true
				}
				f2, fi2 = sitesOf(fs, k, align[k])
				u2, ui2 = sitesOf(us, k, nil)
				eq, neq, lone = fdPairTables(fi2, ui2)
			}
			fs.tables, us.tables = false, false
			fs.usedRangeSlice, us.usedRangeSlice = false, false
			if fdHasTables(fi2) || fdHasTables(ui2) {
				if n1 := fdUnmatched(f2, u2) + fdUnmatched(fi2, ui2); n1 < n0 || (n1 == n0 && neq > 0) {
					f, fi, u, ui = f2, fi2, u2, ui2
					if res.Tables == nil {
						res.Tables = map[string][2]int{}
					}
					res.Tables[k] = [2]int{eq, neq}
				}
			}
		}
		if d := os.Getenv("CTVERIF_C10_DEBUG_FN"); d != "" && d == k {
			for _, l := range []struct {
				tag  string
				list []fdSite
			}{{"F-SITE", f}, {"U-SITE", u}, {"F-ITEM", fi}, {"U-ITEM", ui}} {
				for _, s := range l.list {
					fmt.Printf("%s %s: %s\n", l.tag, k, s.Text)
				}
			}
		}
		for i := range fi {
			for j := range ui {
				if !ui[j].match && ui[j].Text == fi[i].Text {
					ui[j].match, fi[i].match = true, true
					res.ItemsMatched++
					break
				}
			}
		}
		for _, s := range fi {
			if !s.match {
				res.ItemsOnlyFork = append(res.ItemsOnlyFork, s)
			}
		}
		for _, s := range ui {
			if !s.match {
				res.ItemsOnlyUp = append(res.ItemsOnlyUp, s)
			}
		}
		for i := range f {
			for j := range u {
				if !u[j].match && u[j].Text == f[i].Text {
					u[j].match, f[i].match = true, true
					res.Matched++
					break
				}
			}
		}
		for _, s := range f {
			if !s.match {
				res.OnlyFork = append(res.OnlyFork, s)
			}
		}
		for _, s := range u {
			if !s.match {
				res.OnlyUp = append(res.OnlyUp, s)
			}
		}
	}
	sort.Strings(res.FuncsOnlyFork)
	sort.Strings(res.FuncsOnlyUp)
	for _, n := range fs.notes {
		n.Fork = true
		res.Notes = append(res.Notes, n)
	}
	res.Notes = append(res.Notes, us.notes...)
	return res
}

// ---- package-level variables under another name ----------------------------------------
//
// Identifiers of package-level variables are compared by name.  An unexported
// variable of the fork that upstream does not have is read as upstream's variable U
// when both are defined once and for all (initialised at their declaration, never
// assigned and never address-taken anywhere in their package), have the same type
// and the same definition — the same initialiser in normal form, or both the
// reflect.Type of the same type (reflect.TypeOf(<value of static type T>) and
// reflect.TypeFor[T]() are both T's descriptor) — and the pairing is unique in
// both directions among the variables without a namesake.

type fdPkgVar struct {
	obj types.Object
	def string
}

func fdPkgVars(s *fdSide) []fdPkgVar {
	info := s.pkg.TypesInfo
	inits := map[types.Object]ast.Expr{}
	for _, f := range s.pkg.Syntax {
		for _, d := range f.Decls {
			gd, ok := d.(*ast.GenDecl)
			if !ok || gd.Tok != token.VAR {
				continue
			}
			for _, sp := range gd.Specs {
				vs := sp.(*ast.ValueSpec)
				if len(vs.Values) != len(vs.Names) {
					continue
				}
				for i, id := range vs.Names {
					if o := info.Defs[id]; o != nil && id.Name != "_" {
						inits[o] = vs.Values[i]
					}
				}
			}
		}
	}
	// assignments, inc/dec, range targets and address-taking (explicit, by slicing an
	// array, by calling a pointer-receiver method) anywhere in the package disqualify
	mutable := map[types.Object]bool{}
	for _, f := range s.pkg.Syntax {
		for o := range fdWrittenIn(f, info).addr {
			mutable[o] = true
		}
	}
	for _, f := range s.pkg.Syntax {
		for _, d := range f.Decls {
			fd, ok := d.(*ast.FuncDecl)
			if !ok || fd.Body == nil {
				continue
			}
			ast.Inspect(fd.Body, func(n ast.Node) bool {
				switch x := n.(type) {
				case *ast.AssignStmt:
					if x.Tok == token.DEFINE {
						return true
					}
					for _, l := range x.Lhs {
						if o := fdBaseObj(l, info); o != nil {
							mutable[o] = true
						}
					}
				case *ast.IncDecStmt:
					if o := fdBaseObj(x.X, info); o != nil {
						mutable[o] = true
					}
				case *ast.RangeStmt:
					if x.Tok == token.ASSIGN {
						for _, e := range []ast.Expr{x.Key, x.Value} {
							if e != nil {
								if o := fdBaseObj(e, info); o != nil {
									mutable[o] = true
								}
							}
						}
					}
				case *ast.UnaryExpr:
					if x.Op == token.AND {
						if o := fdBaseObj(x.X, info); o != nil {
							mutable[o] = true
						}
					}
				}
				return true
			})
		}
	}
	qual := func(p *types.Package) string {
		if p == s.pkg.Types {
			return ""
		}
		return p.Path()
	}
	var out []fdPkgVar
	for o, init := range inits {
		if o.Exported() || mutable[o] || o.Parent() != s.pkg.Types.Scope() {
			continue
		}
		def := ""
		if call, ok := fdUnparen(init).(*ast.CallExpr); ok {
			fun := fdUnparen(call.Fun)
			var targs []ast.Expr
			switch ix := fun.(type) {
			case *ast.IndexExpr:
				fun, targs = fdUnparen(ix.X), []ast.Expr{ix.Index}
			}
			if sel, ok := fun.(*ast.SelectorExpr); ok {
				if fn, ok := info.Uses[sel.Sel].(*types.Func); ok && fn.Pkg() != nil && fn.Pkg().Path() == "reflect" {
					switch {
					case fn.Name() == "TypeOf" && len(call.Args) == 1 && len(targs) == 0:
						if tv, ok := info.Types[call.Args[0]]; ok && tv.Type != nil && !tv.IsNil() {
							if _, isIface := tv.Type.Underlying().(*types.Interface); !isIface {
								def = "reflect.Type of " + types.TypeString(types.Default(tv.Type), qual)
							}
						}
					case fn.Name() == "TypeFor" && len(call.Args) == 0 && len(targs) == 1:
						if tv, ok := info.Types[targs[0]]; ok && tv.IsType() {
							def = "reflect.Type of " + types.TypeString(tv.Type, qual)
						}
					}
				}
			}
		}
		if def == "" {
			c := &fdCtx{s: s, params: map[types.Object]string{}, locals: map[types.Object]string{}, busy: map[types.Object]bool{}, canon: true}
			def = "= " + fdRenumber(c.expr(init))
		}
		out = append(out, fdPkgVar{o, types.TypeString(o.Type(), qual) + " " + def})
	}
	return out
}

func fdBaseObj(e ast.Expr, info *types.Info) types.Object {
	for {
		switch x := e.(type) {
		case *ast.Ident:
			return info.Uses[x]
		case *ast.ParenExpr:
			e = x.X
		case *ast.SelectorExpr:
			if _, isPkg := info.Uses[fdIdentOf(x.X)].(*types.PkgName); isPkg {
				return info.Uses[x.Sel]
			}
			e = x.X
		case *ast.IndexExpr:
			e = x.X
		case *ast.StarExpr:
			e = x.X
		case *ast.SliceExpr:
			e = x.X
		default:
			return nil
		}
	}
}

func fdIdentOf(e ast.Expr) *ast.Ident {
	id, _ := fdUnparen(e).(*ast.Ident)
	return id
}

// fdMatchPkgVars pairs the fork's package-level variables that have no namesake
// upstream with upstream's that have no namesake in the fork, by definition.
func fdMatchPkgVars(fs, us *fdSide) map[types.Object]string {
	byDef := func(s, other *fdSide) map[string][]types.Object {
		m := map[string][]types.Object{}
		for _, v := range fdPkgVars(s) {
			if other.pkg.Types.Scope().Lookup(v.obj.Name()) != nil {
				continue // the name means something on the other side: compared by name
			}
			m[v.def] = append(m[v.def], v.obj)
		}
		return m
	}
	f, u := byDef(fs, us), byDef(us, fs)
	out := map[types.Object]string{}
	for def, fo := range f {
		if uo := u[def]; len(fo) == 1 && len(uo) == 1 {
			out[fo[0]] = uo[0].Name()
		}
	}
	return out
}

// fdReferenced reports whether the function can be reached at all: it is
// exported, or init / main, or some identifier outside its own body refers to it,
// or (methods) an interface declared in the package has a method of its name, so
// that it may be called dynamically.
func fdReferenced(pk *packages.Package, fn *types.Func, decl *ast.FuncDecl) bool {
	if fn.Exported() || fn.Name() == "init" || fn.Name() == "main" {
		return true
	}
	for id, o := range pk.TypesInfo.Uses {
		if o == fn && !(decl.Body != nil && decl.Body.Pos() <= id.Pos() && id.Pos() < decl.Body.End()) {
			return true
		}
	}
	if sig, ok := fn.Type().(*types.Signature); ok && sig.Recv() != nil {
		for _, tv := range pk.TypesInfo.Types {
			if tv.Type == nil {
				continue
			}
			if it, ok := tv.Type.Underlying().(*types.Interface); ok {
				for i := 0; i < it.NumMethods(); i++ {
					if it.Method(i).Name() == fn.Name() {
						return true
					}
				}
			}
		}
		for _, name := range pk.Types.Scope().Names() {
			if tn, ok := pk.Types.Scope().Lookup(name).(*types.TypeName); ok {
				if it, ok := tn.Type().Underlying().(*types.Interface); ok {
					for i := 0; i < it.NumMethods(); i++ {
						if it.Method(i).Name() == fn.Name() {
							return true
						}
					}
				}
			}
		}
	}
	return false
}

// fdTracked: the non-error named results, plus (fixpoint) the non-inlined,
// non-error locals that occur in a return expression or on the right-hand
// side of an assignment to a tracked variable.
func fdTracked(fd *ast.FuncDecl, info *types.Info, sig *types.Signature, inline map[types.Object]ast.Expr) map[types.Object]bool {
	tr := map[types.Object]bool{}
	for i := 0; i < sig.Results().Len(); i++ {
		if r := sig.Results().At(i); r.Name() != "" && r.Name() != "_" && !fdIsErrorType(r.Type()) {
			tr[r] = true
		}
	}
	isLocal := func(o types.Object) bool {
		v, ok := o.(*types.Var)
		return ok && !v.IsField() && o.Pkg() != nil && o.Parent() != o.Pkg().Scope() && !fdIsErrorType(o.Type())
	}
	changed := false
	var add func(n ast.Node, depth int)
	add = func(n ast.Node, depth int) {
		if n == nil || depth > 8 {
			return
		}
		ast.Inspect(n, func(x ast.Node) bool {
			if _, ok := x.(*ast.FuncLit); ok {
				return false
			}
			id, ok := x.(*ast.Ident)
			if !ok {
				return true
			}
			o := info.Uses[id]
			if o == nil || !isLocal(o) {
				return true
			}
			if def, ok := inline[o]; ok {
				add(def, depth+1)
				return true
			}
			if !tr[o] {
				tr[o] = true
				changed = true
			}
			return true
		})
	}
	base := func(e ast.Expr) types.Object {
		for {
			switch x := e.(type) {
			case *ast.Ident:
				if o := info.Defs[x]; o != nil {
					return o
				}
				return info.Uses[x]
			case *ast.ParenExpr:
				e = x.X
			case *ast.SelectorExpr:
				e = x.X
			case *ast.IndexExpr:
				e = x.X
			case *ast.StarExpr:
				e = x.X
			default:
				return nil
			}
		}
	}
	for first := true; first || changed; first = false {
		changed = false
		ast.Inspect(fd.Body, func(n ast.Node) bool {
			switch n := n.(type) {
			case *ast.FuncLit:
				return false
			case *ast.ReturnStmt:
				for i, e := range n.Results {
					// the error result is covered by the sites; its operands (the
					// fork's field names) are not value computations
					if len(n.Results) == sig.Results().Len() && fdIsErrorType(sig.Results().At(i).Type()) {
						continue
					}
					add(e, 0)
				}
			case *ast.AssignStmt:
				for _, l := range n.Lhs {
					if o := base(l); o != nil && tr[o] {
						for _, e := range n.Rhs {
							add(e, 0)
						}
						for _, l2 := range n.Lhs { // index expressions of the targets
							if ix, ok := l2.(*ast.IndexExpr); ok {
								add(ix.Index, 0)
							}
						}
						break
					}
				}
			}
			return true
		})
	}
	return tr
}

// fdExtraFields lists the struct fields of a's named struct types that the
// same-named struct type of b lacks.
func fdExtraFields(a, b *packages.Package) map[types.Object]bool {
	out := map[types.Object]bool{}
	for _, name := range a.Types.Scope().Names() {
		ta, ok := a.Types.Scope().Lookup(name).(*types.TypeName)
		if !ok {
			continue
		}
		sa, ok := ta.Type().Underlying().(*types.Struct)
		if !ok {
			continue
		}
		have := map[string]bool{}
		if tb, ok := b.Types.Scope().Lookup(name).(*types.TypeName); ok {
			if sb, ok := tb.Type().Underlying().(*types.Struct); ok {
				for i := 0; i < sb.NumFields(); i++ {
					have[sb.Field(i).Name()] = true
				}
			} else {
				continue
			}
		} else {
			continue
		}
		for i := 0; i < sa.NumFields(); i++ {
			if !have[sa.Field(i).Name()] {
				out[sa.Field(i)] = true
			}
		}
	}
	return out
}

func fdIsStructType(t types.Type) bool {
	_, ok := t.Underlying().(*types.Struct)
	return ok
}

// ---- expanded helper calls ------------------------------------------------------------
//
// The source normaliser (inline.go) expands calls of helpers the rule tables do
// not know.  The expansion of `T1, …, Tn = f(args)` is
//
//	var r1 …; var rn …
//	L: for { <parameters>; var x1 …; var xn … (named results); <body, each
//	         `return e1, …, en` written `r1, …, rn = e1, …, en; break L`>; break L }
//	T1, …, Tn = r1, …, rn
//
// (a plain block without loop and label when the body has no early return).  Upstream
// has the statements of the body in the function itself.  The walker reads the
// expansion as exactly that, where it is exact:
//
//   - a labelled `for` without clauses whose body cannot reach its end or continue it
//     runs once: it is its body, and each `break L` is followed by what follows the
//     block (walked in place of the break, with the conditions of the break; done
//     when what follows leaves the function, or when no `break L` sits in a nested
//     loop / switch);
//   - result temporaries r that are written only by the copy-out assignments next to
//     the breaks and read only by the copy-back are gone: each copy-out assigns the
//     targets T directly, the copy-back is dropped;
//   - when every copy-out takes r_i from one and the same variable x_i of the block
//     (the helper's named result), the target T_i is a local variable or a field of a
//     local struct that nothing else in the block mentions, and T_i holds x_i's
//     initial value when the block is entered (T_i is still zero there — decided by
//     the nil / zero facts below — or the block starts with x_i = T_i), then x_i and
//     T_i are the same storage for the whole block: x_i reads as T_i;
//   - variables declared with a value by two such blocks under the same name and
//     type have disjoint lifetimes: they read as one variable (upstream's `b`, that
//     both halves of the function use);
//   - `if v != nil` / `if v == nil` is decided where the statements before it fix the
//     outcome (v was assigned nil, a composite literal, errors.New(…); a guard
//     `if v != nil { …return }` was passed; v is a named result nobody has assigned):
//     the test the caller applied to the helper's error after each of its returns.
//
// Everything here is a semantics-preserving reading; where a condition fails the
// statements are walked as they stand (and then differ from upstream: undecided).

type fdOnce struct {
	label  string
	body   []ast.Stmt
	inLoop bool // some `break L` sits inside a nested loop / switch / select
}

type fdRegion struct {
	stmt    ast.Stmt // the once-block, the plain block, or (spliced body) the copy-out itself
	label   string
	body    []ast.Stmt
	cb      *ast.AssignStmt
	temps   []types.Object
	exits   []*ast.AssignStmt
	same    []bool         // decided on entry: x_i is T_i
	xs      []types.Object // the aliased x_i of the current visit
	entered bool
}

type fdFrame struct {
	label string
	cont  []ast.Stmt
	outs  []*fdState // states in which a copy of cont reached its end
}

// fdLoop: an enclosing loop (or switch, isLoop false) during the walk, with the
// states in which its continue / break statements were reached.
type fdLoop struct {
	label       string
	isLoop      bool
	conts, brks []*fdState
	loop        *ast.ForStmt // the three-clause loop being walked (nil: range loop, switch, facts-only pass)
}

func fdSameState(a, b *fdState) bool {
	if a == nil || b == nil {
		return a == b
	}
	if len(a.m) != len(b.m) {
		return false
	}
	for k, v := range a.m {
		if b.m[k] != v {
			return false
		}
	}
	return true
}

// loopHead computes the facts that hold whenever the loop head is reached: the
// greatest state below the entry state that the body (pass, walked without
// emitting anything; post is applied to the states that reach the end of the body or
// a continue) maps into itself.  Falls back to forgetting everything the loop
// writes when the iteration does not settle.
func (w *fdWalker) loopHead(label string, loop ast.Node, pass func() *fdState, post func(*fdState) *fdState) *fdState {
	entry := w.facts.clone()
	if entry == nil {
		return nil
	}
	head := entry.clone()
	loops, frames := w.loops, w.frames
	defer func() { w.loops, w.frames = loops, frames }()
	for iter := 0; iter < 16; iter++ {
		lp := &fdLoop{label: label, isLoop: true}
		w.loops = append(loops[:len(loops):len(loops)], lp)
		w.facts = head.clone()
		w.dry++
		end := pass()
		w.dry--
		backs := lp.conts
		if end != nil {
			backs = append(backs, end)
		}
		next := entry.clone()
		if len(backs) > 0 {
			if b := post(fdJoinAll(backs)); b != nil {
				next = fdJoin(entry, b)
			}
		}
		next = fdJoin(next, head) // never grow: the iteration descends
		if fdSameState(next, head) {
			w.facts = entry
			return head
		}
		head = next
	}
	coarse := entry.clone()
	coarse.killWritten(w, loop)
	w.facts = entry
	return coarse
}

// fdEachList calls f for every statement list below n (blocks, case and comm clauses).
func fdEachList(n ast.Node, f func(list []ast.Stmt)) {
	ast.Inspect(n, func(x ast.Node) bool {
		switch x := x.(type) {
		case *ast.BlockStmt:
			f(x.List)
		case *ast.CaseClause:
			f(x.Body)
		case *ast.CommClause:
			f(x.Body)
		}
		return true
	})
}

// fdOnceBlock recognises `L: for { … }` whose body runs at most once.
func fdOnceBlock(ls *ast.LabeledStmt) *fdOnce {
	fs, ok := ls.Stmt.(*ast.ForStmt)
	if !ok || fs.Init != nil || fs.Cond != nil || fs.Post != nil || !fdTerminates(fs.Body.List) {
		return nil
	}
	ob := &fdOnce{label: ls.Label.Name, body: fs.Body.List}
	ok = true
	// loop: inside a nested loop (an unlabelled continue refers to that one);
	// brk: inside a nested loop / switch / select (an unlabelled break refers to that one)
	var visit func(n ast.Node, loop, brk bool)
	visit = func(n ast.Node, loop, brk bool) {
		ast.Inspect(n, func(x ast.Node) bool {
			if !ok || x == nil {
				return false
			}
			switch x := x.(type) {
			case *ast.FuncLit:
				return false
			case *ast.ForStmt, *ast.RangeStmt:
				if x != n {
					visit(x, true, true)
					return false
				}
			case *ast.SwitchStmt, *ast.TypeSwitchStmt, *ast.SelectStmt:
				if x != n {
					visit(x, loop, true)
					return false
				}
			case *ast.BranchStmt:
				switch {
				case x.Tok == token.GOTO:
					ok = false
				case x.Label != nil && x.Label.Name == ob.label:
					if x.Tok != token.BREAK {
						ok = false // continue L
					} else if brk {
						ob.inLoop = true
					}
				case x.Label == nil && x.Tok == token.BREAK && !brk, x.Label == nil && x.Tok == token.CONTINUE && !loop:
					ok = false // refers to the loop itself
				}
			}
			return true
		})
	}
	visit(fs.Body, false, false)
	if !ok {
		return nil
	}
	return ob
}

// prepare finds the once-blocks, the copy-out / copy-back regions and the
// variables to merge in fd, and takes the variables involved out of the
// single-definition table.
func (w *fdWalker) prepare(fd *ast.FuncDecl, inl map[types.Object]ast.Expr) {
	info := w.s.pkg.TypesInfo
	w.merge, w.alias = map[types.Object]types.Object{}, map[types.Object]ast.Expr{}
	w.once, w.regionAt = map[*ast.LabeledStmt]*fdOnce{}, map[ast.Stmt]*fdRegion{}
	w.cbOf, w.exitOf = map[*ast.AssignStmt]*fdRegion{}, map[*ast.AssignStmt]*fdRegion{}
	w.noFacts = map[types.Object]bool{}
	for o := range fdWrittenIn(fd.Body, info).addr {
		w.noFacts[o] = true
	}
	hasGoto := false
	var gotos []token.Pos
	ast.Inspect(fd.Body, func(n ast.Node) bool {
		switch x := n.(type) {
		case *ast.BranchStmt:
			if x.Tok == token.GOTO {
				gotos = append(gotos, x.Pos())
			}
		case *ast.FuncLit:
			ast.Inspect(x, func(m ast.Node) bool {
				if id, ok := m.(*ast.Ident); ok {
					if o := info.Uses[id]; o != nil {
						w.noFacts[o] = true
					}
				}
				return true
			})
		}
		return true
	})
	// (gotos inside a run that is read as a decision table are part of that table, rules_t6c10.go)
	hasGoto = w.gotosOutsideTables(fd, gotos)
	w.facts = &fdState{m: map[fdPath]byte{}}
	if hasGoto {
		w.facts = nil
		return
	}
	// variables declared without a value, all uses of local variables, blank reads
	noValue := map[types.Object]bool{}
	uses := map[types.Object][]*ast.Ident{}
	blank := map[*ast.Ident]bool{} // the x of `_ = x`
	ast.Inspect(fd.Body, func(n ast.Node) bool {
		switch x := n.(type) {
		case *ast.ValueSpec:
			if len(x.Values) == 0 {
				for _, id := range x.Names {
					if o := info.Defs[id]; o != nil {
						noValue[o] = true
					}
				}
			}
		case *ast.Ident:
			if o, ok := info.Uses[x].(*types.Var); ok && !o.IsField() {
				uses[o] = append(uses[o], x)
			}
		case *ast.AssignStmt:
			if len(x.Lhs) == 1 && len(x.Rhs) == 1 && x.Tok == token.ASSIGN {
				if l, ok := x.Lhs[0].(*ast.Ident); ok && l.Name == "_" {
					if r, ok := x.Rhs[0].(*ast.Ident); ok {
						blank[r] = true
					}
				}
			}
		}
		return true
	})
	var regions []*fdRegion
	fdEachList(fd.Body, func(list []ast.Stmt) {
		for i, st := range list {
			if ls, ok := st.(*ast.LabeledStmt); ok {
				if ob := fdOnceBlock(ls); ob != nil {
					w.once[ls] = ob
				}
			}
			if i+1 >= len(list) {
				continue
			}
			cb, ok := list[i+1].(*ast.AssignStmt)
			if !ok || len(cb.Lhs) != len(cb.Rhs) || (cb.Tok != token.ASSIGN && cb.Tok != token.DEFINE) {
				continue
			}
			rg := &fdRegion{stmt: st, cb: cb}
			seen := map[types.Object]bool{}
			for _, r := range cb.Rhs {
				id, ok := r.(*ast.Ident)
				if !ok {
					rg = nil
					break
				}
				o, ok := info.Uses[id].(*types.Var)
				if !ok || !noValue[o] || seen[o] || w.noFacts[o] {
					rg = nil
					break
				}
				seen[o] = true
				rg.temps = append(rg.temps, o)
			}
			if rg == nil || len(rg.temps) == 0 {
				continue
			}
			switch x := st.(type) {
			case *ast.LabeledStmt:
				ob := w.once[x]
				if ob == nil {
					continue
				}
				rg.label, rg.body = ob.label, ob.body
			case *ast.BlockStmt:
				rg.body = x.List
			case *ast.AssignStmt:
			default:
				continue
			}
			// the copy-outs: assignments r1, …, rn = e1, …, en inside the region
			isExit := func(a *ast.AssignStmt) bool {
				if a.Tok != token.ASSIGN || len(a.Lhs) != len(rg.temps) || len(a.Rhs) != len(a.Lhs) {
					return false
				}
				for j, l := range a.Lhs {
					id, ok := l.(*ast.Ident)
					if !ok || info.Uses[id] != rg.temps[j] {
						return false
					}
				}
				return true
			}
			okRegion := true
			if a, ok := st.(*ast.AssignStmt); ok {
				if isExit(a) {
					rg.exits = []*ast.AssignStmt{a}
				}
			} else {
				fdEachList(st, func(l2 []ast.Stmt) {
					for j, s2 := range l2 {
						a, ok := s2.(*ast.AssignStmt)
						if !ok || !isExit(a) {
							continue
						}
						rg.exits = append(rg.exits, a)
						if rg.label != "" {
							// followed by `break L`
							br, ok := (ast.Stmt)(nil), false
							if j+1 < len(l2) {
								br = l2[j+1]
							}
							b, ok := br.(*ast.BranchStmt)
							if !ok || b.Tok != token.BREAK || b.Label == nil || b.Label.Name != rg.label {
								okRegion = false
							}
						}
					}
				})
				if rg.label == "" {
					// a plain block: one copy-out, the last thing the block does
					last := st
					for {
						b, ok := last.(*ast.BlockStmt)
						if !ok || len(b.List) == 0 {
							break
						}
						last = b.List[len(b.List)-1]
					}
					if len(rg.exits) != 1 || last != ast.Stmt(rg.exits[0]) {
						okRegion = false
					}
				}
			}
			if !okRegion || len(rg.exits) == 0 {
				continue
			}
			// the temporaries are used by the copy-outs, the copy-back and `_ = r` only
			allowed := map[*ast.Ident]bool{}
			for _, r := range cb.Rhs {
				allowed[r.(*ast.Ident)] = true
			}
			for _, a := range rg.exits {
				for _, l := range a.Lhs {
					allowed[l.(*ast.Ident)] = true
				}
			}
			for _, o := range rg.temps {
				for _, id := range uses[o] {
					if !allowed[id] && !blank[id] {
						okRegion = false
					}
				}
			}
			// the targets are evaluated where the body leaves instead of after the block:
			// they must denote the same storage at both places
			for _, l := range cb.Lhs {
				if !w.stableTarget(l) {
					okRegion = false
				}
			}
			if !okRegion {
				continue
			}
			regions = append(regions, rg)
			w.regionAt[st], w.cbOf[cb] = rg, rg
			for _, a := range rg.exits {
				w.exitOf[a] = rg
			}
			// a variable the copy-back defines is assigned at every copy-out: not a single definition
			for _, l := range cb.Lhs {
				if id, ok := l.(*ast.Ident); ok {
					if o := info.Defs[id]; o != nil {
						delete(inl, o)
					}
				}
			}
		}
	})
	// variables declared with a value at the top level of two such blocks, same name and type
	type key struct{ name, typ string }
	first := map[key]types.Object{}
	var blocks [][]ast.Stmt
	for _, rg := range regions {
		if rg.body != nil {
			blocks = append(blocks, rg.body)
		}
	}
	for ls, ob := range w.once {
		if w.regionAt[ls] == nil {
			blocks = append(blocks, ob.body)
		}
	}
	sort.Slice(blocks, func(i, j int) bool {
		if len(blocks[i]) == 0 || len(blocks[j]) == 0 {
			return len(blocks[i]) < len(blocks[j])
		}
		return blocks[i][0].Pos() < blocks[j][0].Pos()
	})
	nested := func(a, b []ast.Stmt) bool { // b lies inside a
		if len(a) == 0 || len(b) == 0 {
			return true
		}
		return a[0].Pos() <= b[0].Pos() && b[len(b)-1].End() <= a[len(a)-1].End()
	}
	owner := map[types.Object][]ast.Stmt{}
	for _, body := range blocks {
		for _, st := range body {
			var ids []*ast.Ident
			switch x := st.(type) {
			case *ast.AssignStmt:
				if x.Tok == token.DEFINE && len(x.Lhs) == len(x.Rhs) {
					for _, l := range x.Lhs {
						if id, ok := l.(*ast.Ident); ok {
							ids = append(ids, id)
						}
					}
				}
			case *ast.DeclStmt:
				if gd, ok := x.Decl.(*ast.GenDecl); ok && gd.Tok == token.VAR {
					for _, sp := range gd.Specs {
						if vs := sp.(*ast.ValueSpec); len(vs.Values) == len(vs.Names) {
							ids = append(ids, vs.Names...)
						}
					}
				}
			}
			for _, id := range ids {
				o := info.Defs[id]
				if o == nil || id.Name == "_" || w.noFacts[o] {
					continue
				}
				k := key{id.Name, types.TypeString(o.Type(), nil)}
				f, ok := first[k]
				if !ok {
					first[k], owner[o] = o, body
					continue
				}
				if f != o && !nested(owner[f], body) && !nested(body, owner[f]) {
					w.merge[o] = f
					delete(inl, o)
					delete(inl, f)
				}
			}
		}
	}
}

// stableTarget: a local variable, or a field of a local struct variable — an
// lvalue that denotes the same storage wherever in the function it is evaluated.
func (w *fdWalker) stableTarget(e ast.Expr) bool {
	info := w.s.pkg.TypesInfo
	local := func(id *ast.Ident) bool {
		if id.Name == "_" {
			return true
		}
		o := info.Defs[id]
		if o == nil {
			o = info.Uses[id]
		}
		v, ok := o.(*types.Var)
		return ok && !v.IsField() && v.Pkg() != nil && v.Parent() != v.Pkg().Scope() && !w.noFacts[v]
	}
	switch x := fdUnparen(e).(type) {
	case *ast.Ident:
		return local(x)
	case *ast.SelectorExpr:
		id, ok := fdUnparen(x.X).(*ast.Ident)
		if !ok || !local(id) {
			return false
		}
		if f, ok := info.Uses[x.Sel].(*types.Var); !ok || !f.IsField() {
			return false
		}
		tv, ok := info.Types[x.X]
		return ok && tv.Type != nil && fdIsStructType(tv.Type)
	}
	return false
}

// exitAssign is the copy-out a read as an assignment to the targets of the
// copy-back (positions whose source is the target's own storage are dropped); nil
// when nothing is left.
func (rg *fdRegion) exitAssign(a *ast.AssignStmt) *ast.AssignStmt {
	x := &ast.AssignStmt{TokPos: a.TokPos, Tok: token.ASSIGN}
	for i := range a.Rhs {
		if rg.same != nil && rg.same[i] {
			continue
		}
		x.Lhs = append(x.Lhs, rg.cb.Lhs[i])
		x.Rhs = append(x.Rhs, a.Rhs[i])
	}
	if len(x.Lhs) == 0 {
		return nil
	}
	return x
}

// enterRegion decides, with the facts that hold on entry, which result variables
// of the block are the storage of their targets, and installs the aliases.
func (w *fdWalker) enterRegion(rg *fdRegion) {
	// decided anew at every visit (the statements may be walked more than once: in place
	// of several breaks, or for a loop's facts), with the facts of that visit
	for _, x := range rg.xs {
		delete(w.alias, x)
	}
	rg.xs = nil
	rg.same = make([]bool, len(rg.temps))
	rg.entered = w.dry == 0
	if rg.body == nil || !rg.entered {
		return // (walking for facts only: the statements are taken as they stand)
	}
	info := w.s.pkg.TypesInfo
	// x_i: every copy-out takes r_i from the same variable declared (without value) by the block itself
	declared := map[types.Object]bool{}
	for _, st := range rg.body {
		if ds, ok := st.(*ast.DeclStmt); ok {
			if gd, ok := ds.Decl.(*ast.GenDecl); ok && gd.Tok == token.VAR {
				for _, sp := range gd.Specs {
					if vs := sp.(*ast.ValueSpec); len(vs.Values) == 0 {
						for _, id := range vs.Names {
							if o := info.Defs[id]; o != nil {
								declared[o] = true
							}
						}
					}
				}
			}
		}
	}
	xs := make([]types.Object, len(rg.temps))
	taken := map[types.Object]bool{}
	for i := range rg.temps {
		var x types.Object
		for _, a := range rg.exits {
			id, ok := fdUnparen(a.Rhs[i]).(*ast.Ident)
			if !ok {
				x = nil
				break
			}
			o := info.Uses[id]
			if o == nil || (x != nil && o != x) {
				x = nil
				break
			}
			x = o
		}
		if x != nil && declared[x] && !taken[x] && !w.noFacts[x] {
			xs[i], taken[x] = x, true
		}
	}
	// T_i: pairwise disjoint storage
	paths := make([]fdPath, len(rg.temps))
	okPath := make([]bool, len(rg.temps))
	fresh := make([]bool, len(rg.temps))
	for i, l := range rg.cb.Lhs {
		if id, ok := fdUnparen(l).(*ast.Ident); ok && id.Name != "_" && info.Defs[id] != nil {
			fresh[i] = true
			paths[i], okPath[i] = fdPath{o: info.Defs[id]}, !w.noFacts[info.Defs[id]]
			continue
		}
		paths[i], okPath[i] = w.path(l)
	}
	for i := range paths {
		for j := range paths {
			if i != j && okPath[i] && okPath[j] && paths[i].o == paths[j].o && (paths[i].f == paths[j].f || paths[i].f == "" || paths[j].f == "") {
				okPath[i] = false
			}
		}
	}
	// mentions of the targets' variables inside the block: only `x_i = T_i` in the block's
	// opening run of declarations, blank reads and such copies
	base := map[types.Object]bool{}
	for i := range paths {
		if okPath[i] {
			base[paths[i].o] = true
		}
	}
	initFrom := make([]bool, len(rg.temps))
	allowedUse := map[*ast.Ident]bool{}
	opening := true
	for _, st := range rg.body {
		if !opening {
			break
		}
		switch x := st.(type) {
		case *ast.DeclStmt:
		case *ast.AssignStmt:
			if len(x.Lhs) != len(x.Rhs) || x.Tok != token.ASSIGN {
				opening = false
				break
			}
			if l, ok := x.Lhs[0].(*ast.Ident); ok && l.Name == "_" && len(x.Lhs) == 1 {
				break // `_ = x`
			}
			// x_i = T_i, singly or as a tuple
			var hits []int
			for k, le := range x.Lhs {
				l, ok := le.(*ast.Ident)
				hit := -1
				if ok {
					for i := range xs {
						if xs[i] != nil && info.Uses[l] == xs[i] && okPath[i] && !fresh[i] && !initFrom[i] {
							if p, ok := w.path(x.Rhs[k]); ok && p == paths[i] {
								hit = i
							}
						}
					}
				}
				if hit < 0 {
					hits = nil
					break
				}
				hits = append(hits, hit)
			}
			if len(hits) != len(x.Lhs) {
				opening = false
				break
			}
			for k, i := range hits {
				initFrom[i] = true
				ast.Inspect(x.Rhs[k], func(n ast.Node) bool {
					if id, ok := n.(*ast.Ident); ok {
						allowedUse[id] = true
					}
					return true
				})
			}
		default:
			opening = false
		}
	}
	mentioned := map[types.Object]bool{}
	for _, st := range rg.body {
		ast.Inspect(st, func(n ast.Node) bool {
			if id, ok := n.(*ast.Ident); ok && !allowedUse[id] {
				// (through merged variables and the aliases of enclosing expansions)
				if p, ok := w.path(id); ok && base[p.o] {
					mentioned[p.o] = true
				}
			}
			return true
		})
	}
	for i := range rg.temps {
		if xs[i] == nil || !okPath[i] || mentioned[paths[i].o] {
			continue
		}
		if !fresh[i] && !initFrom[i] && w.facts.get(paths[i]) != 'z' {
			continue
		}
		if !types.Identical(xs[i].Type(), info.TypeOf(rg.cb.Lhs[i])) {
			continue
		}
		rg.same[i] = true
		w.alias[xs[i]] = rg.cb.Lhs[i]
		rg.xs = append(rg.xs, xs[i])
	}
}

// dropSelfPairs removes from an assignment the pairs `x = T` where x has been
// identified with T (they copy a storage onto itself).  It returns the statement
// that is left (nil: nothing) and whether anything was removed.
func (w *fdWalker) dropSelfPairs(s *ast.AssignStmt) (*ast.AssignStmt, bool) {
	if s.Tok != token.ASSIGN || len(s.Lhs) != len(s.Rhs) {
		return s, false
	}
	var keep []int
	for i, le := range s.Lhs {
		self := false
		if id, ok := le.(*ast.Ident); ok {
			if _, aliased := w.alias[w.s.pkg.TypesInfo.Uses[id]]; aliased {
				l, ok1 := w.path(le)
				r, ok2 := w.path(s.Rhs[i])
				self = ok1 && ok2 && l == r
			}
		}
		if !self {
			// `T = x` where x has been identified with T (rules_t5c10.go)
			if rid, ok := fdUnparen(s.Rhs[i]).(*ast.Ident); ok {
				if _, aliased := w.alias[w.s.pkg.TypesInfo.Uses[rid]]; aliased {
					l, ok1 := w.path(le)
					r, ok2 := w.path(rid)
					self = ok1 && ok2 && l == r
				}
			}
		}
		if !self {
			keep = append(keep, i)
		}
	}
	switch {
	case len(keep) == len(s.Lhs):
		return s, false
	case len(keep) == 0:
		return nil, true
	}
	x := &ast.AssignStmt{TokPos: s.TokPos, Tok: s.Tok}
	for _, i := range keep {
		x.Lhs, x.Rhs = append(x.Lhs, s.Lhs[i]), append(x.Rhs, s.Rhs[i])
	}
	return x, true
}

// ---- nil / zero facts -----------------------------------------------------------------
//
// A small forward analysis over the statements in walking order: for local
// variables (and first-level fields of local structs) that are neither
// address-taken nor captured by a function literal, whether the value is known to
// be the zero value ('z') or known to be non-nil ('n').  Joins keep what both
// sides agree on; a loop or switch forgets what it writes.

type fdPath struct {
	o types.Object
	f string
}

type fdState struct{ m map[fdPath]byte }

func (f *fdState) clone() *fdState {
	if f == nil {
		return nil
	}
	n := &fdState{m: make(map[fdPath]byte, len(f.m))}
	for k, v := range f.m {
		n.m[k] = v
	}
	return n
}

func (f *fdState) get(p fdPath) byte {
	if f == nil || p.o == nil {
		return 0
	}
	if v, ok := f.m[p]; ok {
		return v
	}
	if p.f != "" && f.m[fdPath{o: p.o}] == 'z' {
		return 'z'
	}
	return 0
}

func (f *fdState) kill(o types.Object) {
	if f == nil {
		return
	}
	for k := range f.m {
		if k.o == o {
			delete(f.m, k)
		}
	}
}

func (f *fdState) set(p fdPath, v byte) {
	if f == nil || p.o == nil {
		return
	}
	if p.f == "" {
		f.kill(p.o)
		if v != 0 {
			f.m[p] = v
		}
		return
	}
	whole := fdPath{o: p.o}
	if f.m[whole] == 'z' {
		if st, ok := p.o.Type().Underlying().(*types.Struct); ok {
			for i := 0; i < st.NumFields(); i++ {
				f.m[fdPath{p.o, st.Field(i).Name()}] = 'z'
			}
		}
	}
	delete(f.m, whole)
	if v != 0 {
		f.m[p] = v
	} else {
		delete(f.m, p)
	}
}

func fdJoin(a, b *fdState) *fdState {
	if a == nil || b == nil {
		return nil
	}
	n := &fdState{m: map[fdPath]byte{}}
	for k, v := range a.m {
		if b.get(k) == v {
			n.m[k] = v
		}
	}
	for k, v := range b.m {
		if a.get(k) == v {
			n.m[k] = v
		}
	}
	return n
}

func fdJoinAll(l []*fdState) *fdState {
	if len(l) == 0 {
		return nil
	}
	out := l[0]
	for _, s := range l[1:] {
		out = fdJoin(out, s)
	}
	return out
}

// path resolves an expression to a tracked storage path (after merging and aliasing).
func (w *fdWalker) path(e ast.Expr) (fdPath, bool) {
	info := w.s.pkg.TypesInfo
	switch x := fdUnparen(e).(type) {
	case *ast.Ident:
		if x.Name == "_" {
			return fdPath{}, false
		}
		o := info.Uses[x]
		if o == nil {
			o = info.Defs[x]
		}
		if m, ok := w.merge[o]; ok {
			o = m
		}
		if a, ok := w.alias[o]; ok {
			return w.path(a)
		}
		v, ok := o.(*types.Var)
		if !ok || v.IsField() || v.Pkg() == nil || v.Parent() == v.Pkg().Scope() || w.noFacts[v] {
			return fdPath{}, false
		}
		return fdPath{o: v}, true
	case *ast.SelectorExpr:
		f, ok := info.Uses[x.Sel].(*types.Var)
		if !ok || !f.IsField() {
			return fdPath{}, false
		}
		p, ok := w.path(x.X)
		if !ok || p.f != "" || !fdIsStructType(p.o.Type()) {
			return fdPath{}, false
		}
		return fdPath{p.o, f.Name()}, true
	}
	return fdPath{}, false
}

// classify: what assigning e to a variable of type lt makes of the variable.
func (f *fdState) classify(w *fdWalker, e ast.Expr, lt types.Type) byte {
	info := w.s.pkg.TypesInfo
	tv, ok := info.Types[e]
	if !ok || tv.Type == nil || lt == nil {
		return 0
	}
	if tv.IsNil() {
		return 'z'
	}
	if tv.Value != nil {
		c := &fdCtx{s: w.s}
		if c.isZeroConst(e) {
			return 'z'
		}
		if _, isIface := lt.Underlying().(*types.Interface); isIface {
			return 'n' // a boxed constant
		}
		return 0
	}
	if p, ok := w.path(e); ok && types.Identical(tv.Type, lt) {
		return f.get(p)
	}
	nilable := func(t types.Type) bool {
		switch t.Underlying().(type) {
		case *types.Pointer, *types.Interface, *types.Map, *types.Chan, *types.Signature, *types.Slice:
			return true
		}
		return false
	}
	if !nilable(lt) {
		if cl, ok := fdUnparen(e).(*ast.CompositeLit); ok && len(cl.Elts) == 0 && fdIsStructType(lt) {
			return 'z'
		}
		return 0
	}
	switch x := fdUnparen(e).(type) {
	case *ast.UnaryExpr:
		if x.Op == token.AND {
			return 'n'
		}
	case *ast.CallExpr:
		switch fn := fdUnparen(x.Fun).(type) {
		case *ast.Ident:
			if b, ok := info.Uses[fn].(*types.Builtin); ok && (b.Name() == "new" || b.Name() == "make") {
				return 'n'
			}
		case *ast.SelectorExpr:
			if o, ok := info.Uses[fn.Sel].(*types.Func); ok && o.Pkg() != nil {
				if k := o.Pkg().Path() + "." + o.Name(); k == "errors.New" || k == "fmt.Errorf" {
					return 'n' // documented never to return nil
				}
			}
		}
	}
	if _, isIface := lt.Underlying().(*types.Interface); isIface && !nilable(tv.Type) {
		return 'n' // a value of a type without nil, boxed
	}
	return 0
}

// assign records lhs = (value class v); an lvalue that is not a tracked path makes
// its base variable unknown.
func (f *fdState) assign(w *fdWalker, l ast.Expr, v byte) {
	if f == nil {
		return
	}
	if id, ok := l.(*ast.Ident); ok && id.Name == "_" {
		return
	}
	if p, ok := w.path(l); ok {
		f.set(p, v)
		return
	}
	info := w.s.pkg.TypesInfo
	for e := l; ; {
		switch x := e.(type) {
		case *ast.ParenExpr:
			e = x.X
			continue
		case *ast.SelectorExpr:
			if p, ok := w.path(x); ok { // x.f.g…: the first-level field and the whole
				f.set(p, 0)
				return
			}
			e = x.X
			continue
		case *ast.IndexExpr:
			e = x.X
			continue
		case *ast.StarExpr:
			e = x.X
			continue
		case *ast.Ident:
			o := info.Uses[x]
			if m, ok := w.merge[o]; ok {
				o = m
			}
			if a, ok := w.alias[o]; ok {
				f.assign(w, a, 0)
				return
			}
			if o != nil {
				f.kill(o)
			}
		}
		return
	}
}

// effects applies a simple statement.
func (f *fdState) effects(w *fdWalker, st ast.Stmt) {
	if f == nil || st == nil {
		return
	}
	info := w.s.pkg.TypesInfo
	switch s := st.(type) {
	case *ast.AssignStmt:
		if (s.Tok == token.ASSIGN || s.Tok == token.DEFINE) && len(s.Lhs) == len(s.Rhs) {
			vals := make([]byte, len(s.Lhs))
			for i, l := range s.Lhs {
				var lt types.Type
				if id, ok := l.(*ast.Ident); ok && info.Defs[id] != nil {
					lt = info.Defs[id].Type()
				} else {
					lt = info.TypeOf(l)
				}
				vals[i] = f.classify(w, s.Rhs[i], lt)
			}
			for i, l := range s.Lhs {
				f.assign(w, l, vals[i])
			}
			return
		}
		for _, l := range s.Lhs {
			f.assign(w, l, 0)
		}
	case *ast.IncDecStmt:
		f.assign(w, s.X, 0)
	case *ast.DeclStmt:
		gd, ok := s.Decl.(*ast.GenDecl)
		if !ok || gd.Tok != token.VAR {
			return
		}
		for _, sp := range gd.Specs {
			vs := sp.(*ast.ValueSpec)
			for i, id := range vs.Names {
				o := info.Defs[id]
				if o == nil || id.Name == "_" {
					continue
				}
				if _, aliased := w.alias[o]; aliased {
					continue // the variable is its target's storage: declaring it does nothing
				}
				switch {
				case len(vs.Values) == 0:
					f.assign(w, id, 'z')
				case len(vs.Values) == len(vs.Names):
					f.assign(w, id, f.classify(w, vs.Values[i], o.Type()))
				default:
					f.assign(w, id, 0)
				}
			}
		}
	case *ast.ExprStmt, *ast.EmptyStmt, *ast.BranchStmt, *ast.SendStmt:
	default:
		f.killWritten(w, st)
	}
}

// killWritten forgets every variable n writes.
func (f *fdState) killWritten(w *fdWalker, n ast.Node) {
	if f == nil || n == nil {
		return
	}
	for o := range fdWrittenIn(n, w.s.pkg.TypesInfo).asg {
		if m, ok := w.merge[o]; ok {
			o = m
		}
		if a, ok := w.alias[o]; ok {
			f.assign(w, a, 0)
			continue
		}
		f.kill(o)
	}
}

// nilTest recognises X == nil / X != nil over a tracked path.
func (w *fdWalker) nilTest(e ast.Expr) (p fdPath, eq, ok bool) {
	b, isBin := fdUnparen(e).(*ast.BinaryExpr)
	if !isBin || (b.Op != token.EQL && b.Op != token.NEQ) {
		return fdPath{}, false, false
	}
	info := w.s.pkg.TypesInfo
	x, y := b.X, b.Y
	if tv, ok := info.Types[x]; ok && tv.IsNil() {
		x, y = y, x
	}
	if tv, ok := info.Types[y]; !ok || !tv.IsNil() {
		return fdPath{}, false, false
	}
	p, ok = w.path(x)
	return p, b.Op == token.EQL, ok
}

// assume adds what cond == truth tells about nil tests.
func (f *fdState) assume(w *fdWalker, cond ast.Expr, truth bool) {
	if f == nil {
		return
	}
	switch x := fdUnparen(cond).(type) {
	case *ast.UnaryExpr:
		if x.Op == token.NOT {
			f.assume(w, x.X, !truth)
		}
		return
	case *ast.BinaryExpr:
		switch {
		case x.Op == token.LAND && truth, x.Op == token.LOR && !truth:
			f.assume(w, x.X, truth)
			f.assume(w, x.Y, truth)
			return
		}
	}
	if p, eq, ok := w.nilTest(cond); ok {
		v := byte('n')
		if eq == truth {
			v = 'z'
		}
		// (a test tells about the value, it does not write: fields of a zero whole stay zero)
		if f.get(p) == 0 {
			if p.f == "" {
				f.m[p] = v
			} else {
				f.set(p, v)
			}
		}
	}
}

// evalCond decides a condition made of nil tests with known outcome.
func (w *fdWalker) evalCond(cond ast.Expr) (val, known bool) {
	if w.facts == nil {
		return false, false
	}
	switch x := fdUnparen(cond).(type) {
	case *ast.UnaryExpr:
		if x.Op == token.NOT {
			v, k := w.evalCond(x.X)
			return !v, k
		}
		return false, false
	case *ast.BinaryExpr:
		if x.Op == token.LAND || x.Op == token.LOR {
			a, ka := w.evalCond(x.X)
			b, kb := w.evalCond(x.Y)
			and := x.Op == token.LAND
			switch {
			case ka && a != and:
				return a, true // false && … / true || …
			case kb && b != and:
				return b, true
			case ka && kb:
				return and, true
			}
			return false, false
		}
	}
	if p, eq, ok := w.nilTest(cond); ok {
		switch w.facts.get(p) {
		case 'z':
			return eq, true
		case 'n':
			return !eq, true
		}
	}
	return false, false
}
