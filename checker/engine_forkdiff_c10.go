package main

import (
	"fmt"
	"go/ast"
	"go/constant"
	"go/token"
	"go/types"
	"regexp"
	"sort"
	"strings"

	"golang.org/x/tools/go/packages"
)

// E9 FORKDIFF — rejection-site correspondence between the forked asn1 package
// and the encoding/asn1 of the toolchain that type-checked /repo.
//
// Both packages are taken from the same go/packages load (syntax + types), so
// the comparison is always against the toolchain actually in use.  Per
// same-named function the engine extracts the multiset of *sites*:
//
//   err   construction of an error value   SyntaxError{msg} / StructuralError{msg} /
//         errors.New(msg) / fmt.Errorf(msg) / &T{..} of an in-package error type
//   call  a call whose last result is an error (the places where a rejection
//         of a callee is propagated), with its arguments
//   use   a call of a function that exists on one side only
//
// each together with its *condition chain*: the conditions of the enclosing
// if / for / switch statements plus the negated conditions of preceding
// sibling guards that leave the function or loop (`if c { …; return }`).
//
// Everything is rendered in a normal form that is independent of local names
// and of the fork's additions:
//   * parameters are P<i> numbered by the *upstream* position (the fork's
//     extra parameters are found by aligning the two signatures by type and
//     are dropped from every in-package call), named results R<i>, locals
//     L<n> numbered by first occurrence within the site (so statement order
//     and names do not matter), constants by value;
//   * the fork is partially evaluated for strict mode: every lax-derived
//     operand (the objects found by C10.R1's propagation analysis) is the
//     constant false, `if false` branches are dropped;
//   * of an error literal only the message is kept (the fork adds the field name);
//   * decisions are walked in one shape (see "decision normal form" below): a
//     tagless switch is the if / else-if chain of its clauses, `if a { if b {…} }`
//     is `if a && b {…}`, `if a || b {leave}` is `if a {leave}; if b {leave}`, and
//     the chain of a site is flattened to its conjuncts (`a && b` is a ; b,
//     `!(a || b)` is !(a) ; !(b), `!!a` is a);
//   * struct literals are rendered `field: value` in field order from the type
//     information, positional or keyed alike, zero-valued fields omitted;
//   * a value that cannot be negative (len, cap, reflect's Len / Num…, unsigned)
//     compared with 0 / 1 is `!= 0` or `== 0` (`n > 0`, `n >= 1`, `0 < n` …);
//   * single-definition locals are replaced by their defining expression, so a
//     temporary, an if-initialiser or a hoisted literal do not show.
//
// Besides the sites, two whole-function multisets are extracted in the same
// normal form (with comparison orientation canonicalised: a >= b is b <= a,
// operands of == / != sorted, `x op= e` is `x = (x op e)`):
//
//   cond  every branch condition of the function (if, for, range, switch and
//         type-switch clauses), whether or not it encloses a site
//   asgn  every assignment to a non-error named result, or to a parameter /
//         local that flows (transitively) into a returned value
//
// so that a slip in a value computation that leaves all rejection sites intact
// (`ret.Year() >= 2050` → `> 2050` in front of `ret = ret.AddDate(-100,0,0)`)
// is seen.
//
// What remains different must be listed in the frozen drift table of the rule.

type fdSite struct {
	Fn    string
	Text  string // kind + head + chain, normal form
	Pos   token.Pos
	Fork  bool
	match bool
}

type fdSide struct {
	fork     bool
	pkg      *packages.Package
	funcs    map[string]*ast.FuncDecl
	laxObjs  map[types.Object]bool
	dropArgs map[types.Object]map[int]bool // fork: callee -> fork-only argument positions
	onlyHere map[types.Object]bool         // functions without a counterpart on the other side
	// fields of same-named struct types that the other side does not have
	// (fork: lax, name, Field); assignments to them are not part of the strict residual
	extraFields map[types.Object]bool
}

// fdSingleDefs finds the locals of fd that are defined exactly once by a 1:1
// `x := e` / `var x = e` and never reassigned, incremented, address-taken or
// updated through a field/index/pointer (updates of extra fields excepted).
func fdSingleDefs(fd *ast.FuncDecl, info *types.Info, extra map[types.Object]bool) map[types.Object]ast.Expr {
	defs := map[types.Object]ast.Expr{}
	bad := map[types.Object]bool{}
	obj := func(e ast.Expr) types.Object {
		if id, ok := e.(*ast.Ident); ok {
			if o := info.Defs[id]; o != nil {
				return o
			}
			return info.Uses[id]
		}
		return nil
	}
	var base func(e ast.Expr) (types.Object, bool)
	base = func(e ast.Expr) (types.Object, bool) { // base local of an lvalue, and whether only extra fields are selected
		switch e := e.(type) {
		case *ast.Ident:
			return obj(e), true
		case *ast.ParenExpr:
			return base(e.X)
		case *ast.SelectorExpr:
			o, ok := base(e.X)
			return o, ok && extra[info.Uses[e.Sel]]
		case *ast.IndexExpr:
			o, _ := base(e.X)
			return o, false
		case *ast.StarExpr:
			o, _ := base(e.X)
			return o, false
		}
		return nil, false
	}
	ast.Inspect(fd.Body, func(n ast.Node) bool {
		switch n := n.(type) {
		case *ast.AssignStmt:
			for i, l := range n.Lhs {
				if id, ok := l.(*ast.Ident); ok {
					o := obj(id)
					if o == nil {
						continue
					}
					if n.Tok == token.DEFINE && len(n.Lhs) == len(n.Rhs) && info.Defs[id] != nil {
						if _, dup := defs[o]; dup {
							bad[o] = true
						}
						defs[o] = n.Rhs[i]
					} else {
						bad[o] = true
					}
				} else if o, onlyExtra := base(l); o != nil && !onlyExtra {
					bad[o] = true
				}
			}
		case *ast.ValueSpec:
			for i, id := range n.Names {
				if o := info.Defs[id]; o != nil {
					switch {
					case len(n.Values) == len(n.Names):
						defs[o] = n.Values[i]
					case len(n.Values) == 0 && n.Type != nil && fdIsStructType(o.Type()):
						defs[o] = &ast.CompositeLit{Type: n.Type} // `var x T` is `x := T{}`
					default:
						bad[o] = true
					}
				}
			}
		case *ast.IncDecStmt:
			if o, _ := base(n.X); o != nil {
				bad[o] = true
			}
		case *ast.UnaryExpr:
			if n.Op == token.AND {
				if o, _ := base(n.X); o != nil {
					bad[o] = true
				}
			}
		case *ast.RangeStmt:
			for _, e := range []ast.Expr{n.Key, n.Value} {
				if e != nil {
					if o := obj(e); o != nil {
						bad[o] = true
					}
				}
			}
		}
		return true
	})
	for o := range bad {
		delete(defs, o)
	}
	for o := range defs {
		if _, isConst := o.(*types.Const); isConst {
			delete(defs, o)
		}
	}
	return defs
}

func fdFuncKey(d *ast.FuncDecl) string {
	if d.Recv != nil && len(d.Recv.List) == 1 {
		t := d.Recv.List[0].Type
		if s, ok := t.(*ast.StarExpr); ok {
			t = s.X
		}
		return "(" + types.ExprString(t) + ")." + d.Name.Name
	}
	return d.Name.Name
}

func fdCollectFuncs(pk *packages.Package, files map[string]bool) map[string]*ast.FuncDecl {
	out := map[string]*ast.FuncDecl{}
	for _, f := range pk.Syntax {
		name := pk.Fset.Position(f.Pos()).Filename
		if i := strings.LastIndex(name, "/"); i >= 0 {
			name = name[i+1:]
		}
		if !files[name] {
			continue
		}
		for _, d := range f.Decls {
			if fd, ok := d.(*ast.FuncDecl); ok && fd.Body != nil {
				out[fdFuncKey(fd)] = fd
			}
		}
	}
	return out
}

func fdTypeStr(t types.Type) string {
	s := types.TypeString(t, func(*types.Package) string { return "" })
	return strings.ReplaceAll(s, "interface{}", "any")
}

// fdAlign aligns the fork's parameter list with upstream's: upstream's types
// must be a subsequence of the fork's.  Returns fork index -> upstream index (-1 = fork-only).
func fdAlign(fork, up *types.Signature) ([]int, bool) {
	m := make([]int, fork.Params().Len())
	j := 0
	for i := 0; i < fork.Params().Len(); i++ {
		m[i] = -1
		if j < up.Params().Len() && fdTypeStr(fork.Params().At(i).Type()) == fdTypeStr(up.Params().At(j).Type()) {
			m[i] = j
			j++
		}
	}
	return m, j == up.Params().Len()
}

// ---- normal-form printer -------------------------------------------------------

type fdCtx struct {
	s      *fdSide
	params map[types.Object]string
	locals map[types.Object]string
	inline map[types.Object]ast.Expr // single-definition locals, rendered as their defining expression
	busy   map[types.Object]bool
	// canon: comparison orientation is canonicalised (a >= b is b <= a, operands
	// of == / != sorted) and locals are numbered after that, by first occurrence
	// in the final text (used for the condition / assignment items)
	canon bool
}

func (c *fdCtx) obj(id *ast.Ident) types.Object {
	if o := c.s.pkg.TypesInfo.Uses[id]; o != nil {
		return o
	}
	return c.s.pkg.TypesInfo.Defs[id]
}

func (c *fdCtx) ident(id *ast.Ident) string {
	o := c.obj(id)
	if o == nil {
		return id.Name
	}
	if c.s.laxObjs[o] {
		return "false"
	}
	if p, ok := c.params[o]; ok {
		return p
	}
	if v, ok := o.(*types.Var); ok && !v.IsField() && o.Pkg() != nil && o.Parent() != o.Pkg().Scope() {
		if def, ok := c.inline[o]; ok && !c.busy[o] && len(c.busy) < 12 {
			c.busy[o] = true
			s := c.expr(def)
			delete(c.busy, o)
			return s
		}
		if n, ok := c.locals[o]; ok {
			return n
		}
		n := fmt.Sprintf("L%d", len(c.locals)+1)
		if c.canon {
			n = fmt.Sprintf("\x00%d\x00", len(c.locals)+1)
		}
		c.locals[o] = n
		return n
	}
	return id.Name
}

// lhs renders an assignment target: the target variable itself is never inlined.
func (c *fdCtx) lhs(e ast.Expr) string {
	switch e := e.(type) {
	case *ast.Ident:
		if o := c.obj(e); o != nil {
			if _, inl := c.inline[o]; inl {
				saved := c.inline
				c.inline = nil
				defer func() { c.inline = saved }()
			}
		}
		return c.ident(e)
	case *ast.ParenExpr:
		return c.lhs(e.X)
	case *ast.SelectorExpr:
		return c.lhs(e.X) + "." + e.Sel.Name
	case *ast.IndexExpr:
		return c.lhs(e.X) + "[" + c.expr(e.Index) + "]"
	case *ast.StarExpr:
		return "*" + c.lhs(e.X)
	}
	return c.expr(e)
}

func (c *fdCtx) exprs(es []ast.Expr) string {
	var out []string
	for _, e := range es {
		out = append(out, c.expr(e))
	}
	return strings.Join(out, ", ")
}

func (c *fdCtx) calleeObj(call *ast.CallExpr) types.Object {
	switch f := call.Fun.(type) {
	case *ast.Ident:
		return c.obj(f)
	case *ast.SelectorExpr:
		return c.obj(f.Sel)
	}
	return nil
}

func (c *fdCtx) expr(e ast.Expr) string {
	if e == nil {
		return ""
	}
	if tv, ok := c.s.pkg.TypesInfo.Types[e]; ok && tv.Value != nil {
		return tv.Value.ExactString()
	}
	switch e := e.(type) {
	case *ast.Ident:
		return c.ident(e)
	case *ast.ParenExpr:
		return c.expr(e.X)
	case *ast.BasicLit:
		return e.Value
	case *ast.SelectorExpr:
		if o := c.obj(e.Sel); o != nil && c.s.laxObjs[o] {
			return "false"
		}
		if id, ok := e.X.(*ast.Ident); ok {
			if _, isPkg := c.obj(id).(*types.PkgName); isPkg {
				return id.Name + "." + e.Sel.Name
			}
		}
		return c.expr(e.X) + "." + e.Sel.Name
	case *ast.StarExpr:
		return "*" + c.expr(e.X)
	case *ast.UnaryExpr:
		x := c.expr(e.X)
		if e.Op == token.NOT {
			switch x {
			case "true":
				return "false"
			case "false":
				return "true"
			}
		}
		return e.Op.String() + "(" + x + ")"
	case *ast.BinaryExpr:
		x, y := c.expr(e.X), c.expr(e.Y)
		switch e.Op {
		case token.LAND:
			if x == "false" || y == "false" {
				return "false"
			}
			if x == "true" {
				return y
			}
			if y == "true" {
				return x
			}
		case token.LOR:
			if x == "true" || y == "true" {
				return "true"
			}
			if x == "false" {
				return y
			}
			if y == "false" {
				return x
			}
		}
		op := e.Op
		// a value that cannot be negative compared with 0 / 1: `n > 0`, `n >= 1`,
		// `n != 0` are one condition, so are `n == 0`, `n <= 0`, `n < 1`
		if nop, swap, ok := c.lenCompare(e); ok {
			op = nop
			if swap {
				x, y = y, x
			}
			y = "0"
		}
		if c.canon {
			switch op {
			case token.GTR:
				x, y, op = y, x, token.LSS
			case token.GEQ:
				x, y, op = y, x, token.LEQ
			case token.EQL, token.NEQ:
				if fdMask(y) < fdMask(x) {
					x, y = y, x
				}
			}
		}
		return "(" + x + " " + op.String() + " " + y + ")"
	case *ast.CallExpr:
		args := e.Args
		if drop := c.s.dropArgs[c.calleeObj(e)]; drop != nil {
			args = nil
			for i, a := range e.Args {
				if !drop[i] {
					args = append(args, a)
				}
			}
		}
		return c.expr(e.Fun) + "(" + c.exprs(args) + ")"
	case *ast.IndexExpr:
		return c.expr(e.X) + "[" + c.expr(e.Index) + "]"
	case *ast.SliceExpr:
		s := c.expr(e.X) + "[" + c.expr(e.Low) + ":" + c.expr(e.High)
		if e.Max != nil {
			s += ":" + c.expr(e.Max)
		}
		return s + "]"
	case *ast.TypeAssertExpr:
		if e.Type == nil {
			return c.expr(e.X) + ".(type)"
		}
		return c.expr(e.X) + ".(" + c.typeExpr(e.Type) + ")"
	case *ast.CompositeLit:
		fields, isStruct := c.structLit(e)
		if e.Type != nil && c.s.inPkgErrorType(e) { // of an error literal only the message is kept
			msg := ""
			if isStruct {
				if len(fields) > 0 && fields[0].index == 0 {
					msg = c.expr(fields[0].value)
				}
			} else if len(e.Elts) > 0 {
				m := e.Elts[0]
				if kv, ok := m.(*ast.KeyValueExpr); ok {
					m = kv.Value
				}
				msg = c.expr(m)
			}
			return c.typeExpr(e.Type) + "{" + msg + "}"
		}
		if isStruct {
			// positional and keyed struct literals alike: `name: value` in field
			// order, without the fields left at (or set to) their zero value and
			// without the fields the other side does not have
			var out []string
			for _, f := range fields {
				if c.s.extraFields[f.field] || c.isZeroConst(f.value) {
					continue
				}
				out = append(out, f.field.Name()+": "+c.expr(f.value))
			}
			return c.typeExpr(e.Type) + "{" + strings.Join(out, ", ") + "}"
		}
		return c.typeExpr(e.Type) + "{" + c.exprs(e.Elts) + "}"
	case *ast.KeyValueExpr:
		k := c.expr(e.Key)
		if id, ok := e.Key.(*ast.Ident); ok {
			k = id.Name
		}
		return k + ": " + c.expr(e.Value)
	case *ast.FuncLit:
		return "func{…}"
	}
	return c.typeExpr(e)
}

type fdLitField struct {
	index int
	field *types.Var
	value ast.Expr
}

// structLit resolves the elements of a struct literal to its fields (by type
// information), in field order.
func (c *fdCtx) structLit(e *ast.CompositeLit) ([]fdLitField, bool) {
	tv, ok := c.s.pkg.TypesInfo.Types[e]
	if !ok || tv.Type == nil {
		return nil, false
	}
	t := tv.Type
	if p, ok := t.Underlying().(*types.Pointer); ok { // elided &T in a slice / map literal
		t = p.Elem()
	}
	st, ok := t.Underlying().(*types.Struct)
	if !ok {
		return nil, false
	}
	var out []fdLitField
	for i, el := range e.Elts {
		if kv, ok := el.(*ast.KeyValueExpr); ok {
			id, ok := kv.Key.(*ast.Ident)
			if !ok {
				return nil, false
			}
			found := false
			for j := 0; j < st.NumFields(); j++ {
				if st.Field(j).Name() == id.Name {
					out = append(out, fdLitField{j, st.Field(j), kv.Value})
					found = true
				}
			}
			if !found {
				return nil, false
			}
			continue
		}
		if i >= st.NumFields() {
			return nil, false
		}
		out = append(out, fdLitField{i, st.Field(i), el})
	}
	sort.SliceStable(out, func(i, j int) bool { return out[i].index < out[j].index })
	return out, true
}

// isZeroConst: a constant zero value (0, "", false) or nil.
func (c *fdCtx) isZeroConst(e ast.Expr) bool {
	tv, ok := c.s.pkg.TypesInfo.Types[e]
	if !ok {
		return false
	}
	if tv.IsNil() {
		return true
	}
	if tv.Value == nil {
		return false
	}
	switch tv.Value.Kind() {
	case constant.Bool:
		return !constant.BoolVal(tv.Value)
	case constant.String:
		return constant.StringVal(tv.Value) == ""
	case constant.Int, constant.Float, constant.Complex:
		return constant.Sign(tv.Value) == 0
	}
	return false
}

// nonNeg: the expression is a length or another value that cannot be negative:
// len / cap, a niladic Len / Cap / Num… method of the standard library
// (reflect.Value.Len, Type.NumField, bytes.Buffer.Len …), a value of an
// unsigned type, or a single-definition local defined as one of these.
func (c *fdCtx) nonNeg(e ast.Expr, depth int) bool {
	info := c.s.pkg.TypesInfo
	e = fdUnparen(e)
	if tv, ok := info.Types[e]; ok && tv.Type != nil {
		if tv.Value != nil {
			return false
		}
		if b, ok := tv.Type.Underlying().(*types.Basic); ok && b.Info()&types.IsUnsigned != 0 {
			return true
		}
	}
	switch x := e.(type) {
	case *ast.Ident:
		if o := c.obj(x); o != nil && depth < 6 {
			if def, ok := c.inline[o]; ok {
				return c.nonNeg(def, depth+1)
			}
		}
	case *ast.CallExpr:
		switch f := fdUnparen(x.Fun).(type) {
		case *ast.Ident:
			if b, ok := c.obj(f).(*types.Builtin); ok && (b.Name() == "len" || b.Name() == "cap") {
				return true
			}
		case *ast.SelectorExpr:
			fn, ok := c.obj(f.Sel).(*types.Func)
			if !ok || len(x.Args) != 0 || fn.Pkg() == nil || strings.Contains(fn.Pkg().Path(), ".") {
				return false // only methods of the standard library are known to keep the convention
			}
			sig := fn.Type().(*types.Signature)
			if sig.Recv() == nil || sig.Results().Len() != 1 {
				return false
			}
			if b, ok := sig.Results().At(0).Type().Underlying().(*types.Basic); !ok || b.Info()&types.IsInteger == 0 {
				return false
			}
			n := fn.Name()
			return n == "Len" || n == "Cap" || strings.HasPrefix(n, "Num")
		}
	}
	return false
}

// lenCompare recognises the comparison of a non-negative value with the constant
// 0 or 1 and returns the canonical operator (!= or ==, against 0) and whether the
// operands must be swapped so that the value comes first.
func (c *fdCtx) lenCompare(e *ast.BinaryExpr) (op token.Token, swap, ok bool) {
	constOf := func(x ast.Expr) (int64, bool) {
		if tv, ok := c.s.pkg.TypesInfo.Types[x]; ok && tv.Value != nil && tv.Value.Kind() == constant.Int {
			return constant.Int64Val(tv.Value)
		}
		return 0, false
	}
	op = e.Op
	var k int64
	if v, isC := constOf(e.Y); isC && c.nonNeg(e.X, 0) {
		k = v
	} else if v, isC := constOf(e.X); isC && c.nonNeg(e.Y, 0) {
		k, swap = v, true
		switch op { // k op n  ->  n op' k
		case token.LSS:
			op = token.GTR
		case token.LEQ:
			op = token.GEQ
		case token.GTR:
			op = token.LSS
		case token.GEQ:
			op = token.LEQ
		}
	} else {
		return 0, false, false
	}
	switch {
	case k == 0 && (op == token.GTR || op == token.NEQ), k == 1 && op == token.GEQ:
		return token.NEQ, swap, true
	case k == 0 && (op == token.EQL || op == token.LEQ), k == 1 && op == token.LSS:
		return token.EQL, swap, true
	}
	return 0, false, false
}

func (c *fdCtx) typeExpr(e ast.Expr) string {
	if e == nil {
		return ""
	}
	return strings.ReplaceAll(types.ExprString(e), "interface{}", "any")
}

// ---- condition chains -----------------------------------------------------------

type fdCond struct {
	pre   string // e.g. "!(", "for(", "sw("
	exprs []ast.Expr
	sep   []string // separators after each expr
}

func (c *fdCtx) cond(k fdCond) string {
	s := k.pre
	for i, e := range k.exprs {
		s += c.expr(e) + k.sep[i]
	}
	return s
}

func fdCondOf(pre string, e ast.Expr, post string) fdCond {
	return fdCond{pre: pre, exprs: []ast.Expr{e}, sep: []string{post}}
}

type fdWalker struct {
	s          *fdSide
	fn         string
	ctx        func() *fdCtx // fresh context (parameter names of the current function, no locals)
	hasResults bool
	sites      []fdSite
	items      []fdSite              // branch conditions and tracked assignments of the whole function
	tracked    map[types.Object]bool // named results and the locals that flow into returned values
}

var fdTmpLocal = regexp.MustCompile("\x00[0-9]+\x00")

// fdMask hides the temporary local names for ordering purposes.
func fdMask(s string) string { return fdTmpLocal.ReplaceAllString(s, "L") }

// fdRenumber names the locals of a canonical text by first occurrence.
func fdRenumber(s string) string {
	names := map[string]string{}
	return fdTmpLocal.ReplaceAllStringFunc(s, func(t string) string {
		if n, ok := names[t]; ok {
			return n
		}
		n := fmt.Sprintf("L%d", len(names)+1)
		names[t] = n
		return n
	})
}

func (w *fdWalker) emitItem(kind string, render func(c *fdCtx) string, pos token.Pos) {
	c := w.ctx()
	c.canon = true
	w.items = append(w.items, fdSite{Fn: w.fn, Text: kind + " " + fdRenumber(render(c)), Pos: pos, Fork: w.s.fork})
}

func (w *fdWalker) emitCond(k fdCond, pos token.Pos) {
	w.emitItem("cond", func(c *fdCtx) string { return c.cond(k) }, pos)
}

// lvalue base object of an assignment target and whether the target only selects extra fields
func (w *fdWalker) lvalueBase(e ast.Expr) (types.Object, bool) {
	info := w.s.pkg.TypesInfo
	switch e := e.(type) {
	case *ast.Ident:
		if o := info.Defs[e]; o != nil {
			return o, false
		}
		return info.Uses[e], false
	case *ast.ParenExpr:
		return w.lvalueBase(e.X)
	case *ast.SelectorExpr:
		o, _ := w.lvalueBase(e.X)
		return o, w.s.extraFields[info.Uses[e.Sel]]
	case *ast.IndexExpr:
		return w.lvalueBase(e.X)
	case *ast.StarExpr:
		return w.lvalueBase(e.X)
	}
	return nil, false
}

// assignItem emits an assignment / inc-dec statement when it writes a tracked value.
func (w *fdWalker) assignItem(st ast.Stmt) {
	switch s := st.(type) {
	case *ast.AssignStmt:
		hit := false
		for _, l := range s.Lhs {
			if o, extra := w.lvalueBase(l); o != nil && !extra && w.tracked[o] {
				hit = true
			}
		}
		if hit {
			w.emitItem("asgn", func(c *fdCtx) string {
				var lhs []string
				for _, l := range s.Lhs {
					if id, ok := l.(*ast.Ident); ok && id.Name == "_" {
						lhs = append(lhs, "_")
						continue
					}
					lhs = append(lhs, c.lhs(l))
				}
				// `x := e` is `x = e`; `x op= e` is `x = (x op e)`
				if s.Tok != token.DEFINE && s.Tok != token.ASSIGN && len(lhs) == 1 && len(s.Rhs) == 1 {
					return lhs[0] + " = (" + lhs[0] + " " + strings.TrimSuffix(s.Tok.String(), "=") + " " + c.expr(s.Rhs[0]) + ")"
				}
				return strings.Join(lhs, ", ") + " = " + c.exprs(s.Rhs)
			}, s.Pos())
		}
	case *ast.IncDecStmt:
		if o, _ := w.lvalueBase(s.X); o != nil && w.tracked[o] {
			w.emitItem("asgn", func(c *fdCtx) string {
				x := c.lhs(s.X)
				return x + " = (" + x + " " + s.Tok.String()[:1] + " 1)"
			}, s.Pos())
		}
	}
}

func (w *fdWalker) emit(kind string, head func(c *fdCtx) string, chain []fdCond, pos token.Pos) {
	c := w.ctx()
	var parts []string
	for _, k := range chain {
		for _, f := range fdFlatten(k) {
			switch p := c.cond(f); p {
			case "true", "!(false)":
			default:
				parts = append(parts, p)
			}
		}
	}
	h := head(c)
	// the chain is a conjunction: its order (the order of independent guards) is immaterial
	sort.Strings(parts)
	w.sites = append(w.sites, fdSite{Fn: w.fn, Text: kind + " " + h + fdWhen + strings.Join(parts, fdSep), Pos: pos, Fork: w.s.fork})
}

const (
	fdWhen = "  WHEN  "
	fdSep  = " ; "
)

// fdResort re-establishes the sorted order of the chain after a textual rewrite
// and drops the listed parts.
func fdResort(text string, drop map[string]bool) string {
	i := strings.Index(text, fdWhen)
	if i < 0 {
		return text
	}
	var parts []string
	for _, p := range strings.Split(text[i+len(fdWhen):], fdSep) {
		if p != "" && !drop[p] {
			parts = append(parts, p)
		}
	}
	sort.Strings(parts)
	return text[:i] + fdWhen + strings.Join(parts, fdSep)
}

var fdErrCtors = map[string]bool{"errors.New": true, "fmt.Errorf": true}

func fdIsErrorType(t types.Type) bool {
	return t != nil && types.Identical(t, types.Universe.Lookup("error").Type())
}

func (w *fdWalker) lastIsError(e ast.Expr) bool {
	tv, ok := w.s.pkg.TypesInfo.Types[e]
	if !ok || tv.Type == nil {
		return false
	}
	if tup, ok := tv.Type.(*types.Tuple); ok {
		return tup.Len() > 0 && fdIsErrorType(tup.At(tup.Len()-1).Type())
	}
	return fdIsErrorType(tv.Type)
}

// implementsError: named in-package type with an Error() string method.
func (w *fdWalker) inPkgErrorType(e ast.Expr) bool { return w.s.inPkgErrorType(e) }

func (s *fdSide) inPkgErrorType(e ast.Expr) bool {
	w := struct{ s *fdSide }{s}
	tv, ok := w.s.pkg.TypesInfo.Types[e]
	if !ok || tv.Type == nil {
		return false
	}
	t := tv.Type
	if p, ok := t.(*types.Pointer); ok {
		t = p.Elem()
	}
	n, ok := t.(*types.Named)
	if !ok || n.Obj().Pkg() != w.s.pkg.Types {
		return false
	}
	errI := types.Universe.Lookup("error").Type().Underlying().(*types.Interface)
	return types.Implements(n, errI) || types.Implements(types.NewPointer(n), errI)
}

// sitesIn collects the sites of one expression tree.
func (w *fdWalker) sitesIn(n ast.Node, chain []fdCond) {
	if n == nil {
		return
	}
	ast.Inspect(n, func(x ast.Node) bool {
		switch x := x.(type) {
		case *ast.FuncLit:
			w.stmts(x.Body.List, append(append([]fdCond{}, chain...), fdCond{pre: "func{}"}))
			return false
		case *ast.CompositeLit:
			if x.Type != nil && w.inPkgErrorType(x) {
				w.emit("err", func(c *fdCtx) string { return c.expr(x) }, chain, x.Pos())
			}
		case *ast.CallExpr:
			c0 := w.ctx()
			name := c0.typeExpr(x.Fun)
			switch {
			case fdErrCtors[name]:
				w.emit("err", func(c *fdCtx) string {
					if len(x.Args) == 0 {
						return name + "()"
					}
					return name + "(" + c.expr(x.Args[0]) + ")"
				}, chain, x.Pos())
			case w.s.onlyHere[c0.calleeObj(x)]:
				w.emit("use", func(c *fdCtx) string { return c.expr(x) }, chain, x.Pos())
			case w.lastIsError(x):
				w.emit("call", func(c *fdCtx) string { return c.expr(x) }, chain, x.Pos())
			}
		}
		return true
	})
}

func fdTerminates(list []ast.Stmt) bool {
	if len(list) == 0 {
		return false
	}
	switch s := fdNormStmt(list[len(list)-1]).(type) {
	case *ast.ReturnStmt:
		return true
	case *ast.BranchStmt:
		return s.Tok != token.FALLTHROUGH
	case *ast.ExprStmt:
		if c, ok := s.X.(*ast.CallExpr); ok {
			if id, ok := c.Fun.(*ast.Ident); ok && id.Name == "panic" {
				return true
			}
		}
	case *ast.BlockStmt:
		return fdTerminates(s.List)
	case *ast.IfStmt:
		if s.Else == nil {
			return false
		}
		return fdTerminates(s.Body.List) && fdTerminates([]ast.Stmt{s.Else})
	}
	return false
}

// ---- decision normal form of statements ---------------------------------------------
//
// The same decision can be written in several shapes; the walker sees one:
//   * a tagless switch (no fallthrough, no break that leaves it) is the if / else-if
//     chain of its clauses in order, `case a, b:` being `a || b`, the default
//     clause the final else;
//   * `if a { if b {Y} }` (nothing else in the outer body, no else on either) is
//     `if a && b {Y}`;
//   * `if a || b {X}` where X leaves (return / break / continue / panic) and there
//     is no else is `if a {X}; if b {X}` (done in stmtN, it yields two statements).

func fdUnparen(e ast.Expr) ast.Expr {
	for {
		p, ok := e.(*ast.ParenExpr)
		if !ok {
			return e
		}
		e = p.X
	}
}

// fdLeavesSwitch: the clause body contains a fallthrough or an unlabelled break
// that would leave the enclosing switch.
func fdLeavesSwitch(list []ast.Stmt) bool {
	found := false
	for _, st := range list {
		ast.Inspect(st, func(n ast.Node) bool {
			switch n := n.(type) {
			case *ast.ForStmt, *ast.RangeStmt, *ast.SwitchStmt, *ast.TypeSwitchStmt, *ast.SelectStmt, *ast.FuncLit:
				return false
			case *ast.BranchStmt:
				if n.Tok == token.FALLTHROUGH || (n.Tok == token.BREAK && n.Label == nil) {
					found = true
				}
			}
			return !found
		})
	}
	return found
}

func fdSwitchToIf(s *ast.SwitchStmt) ast.Stmt {
	if s.Tag != nil {
		return nil
	}
	var clauses []*ast.CaseClause
	var def *ast.CaseClause
	for _, cl := range s.Body.List {
		cc := cl.(*ast.CaseClause)
		if fdLeavesSwitch(cc.Body) {
			return nil
		}
		if cc.List == nil {
			def = cc
		} else {
			clauses = append(clauses, cc)
		}
	}
	if len(clauses) == 0 {
		return nil
	}
	var tail ast.Stmt
	if def != nil {
		tail = &ast.BlockStmt{Lbrace: def.Colon, List: def.Body, Rbrace: def.End()}
	}
	for i := len(clauses) - 1; i >= 0; i-- {
		cc := clauses[i]
		cond := cc.List[0]
		for _, e := range cc.List[1:] {
			cond = &ast.BinaryExpr{X: cond, OpPos: e.Pos(), Op: token.LOR, Y: e}
		}
		tail = &ast.IfStmt{If: cc.Case, Cond: cond, Body: &ast.BlockStmt{Lbrace: cc.Colon, List: cc.Body, Rbrace: cc.End()}, Else: tail}
	}
	first := tail.(*ast.IfStmt)
	first.Init = s.Init
	return first
}

// fdOrSplits: the if statement is split into one statement per disjunct by stmtN.
func fdOrSplits(s *ast.IfStmt) bool {
	or, ok := fdUnparen(s.Cond).(*ast.BinaryExpr)
	return ok && or.Op == token.LOR && s.Else == nil && fdTerminates(s.Body.List)
}

func fdNormStmt(st ast.Stmt) ast.Stmt {
	switch s := st.(type) {
	case *ast.SwitchStmt:
		if n := fdSwitchToIf(s); n != nil {
			return fdNormStmt(n)
		}
	case *ast.IfStmt:
		for s.Else == nil && len(s.Body.List) == 1 {
			inner, ok := fdNormStmt(s.Body.List[0]).(*ast.IfStmt)
			if !ok || inner.Init != nil || inner.Else != nil || fdOrSplits(inner) {
				break
			}
			s = &ast.IfStmt{If: s.If, Init: s.Init, Body: inner.Body,
				Cond: &ast.BinaryExpr{X: s.Cond, OpPos: inner.Cond.Pos(), Op: token.LAND, Y: inner.Cond}}
		}
		return s
	}
	return st
}

// fdFlatten splits a chain part into its conjuncts: `a && b` is a ; b,
// `!(a || b)` is !(a) ; !(b), `!(!a)` is a.
func fdFlatten(k fdCond) []fdCond {
	if len(k.exprs) != 1 {
		return []fdCond{k}
	}
	e := fdUnparen(k.exprs[0])
	switch {
	case k.pre == "" && k.sep[0] == "":
		switch x := e.(type) {
		case *ast.BinaryExpr:
			if x.Op == token.LAND {
				return append(fdFlatten(fdCondOf("", x.X, "")), fdFlatten(fdCondOf("", x.Y, ""))...)
			}
		case *ast.UnaryExpr:
			if x.Op == token.NOT {
				return fdFlatten(fdCondOf("!(", x.X, ")"))
			}
		}
	case k.pre == "!(" && k.sep[0] == ")":
		switch x := e.(type) {
		case *ast.BinaryExpr:
			if x.Op == token.LOR {
				return append(fdFlatten(fdCondOf("!(", x.X, ")")), fdFlatten(fdCondOf("!(", x.Y, ")"))...)
			}
		case *ast.UnaryExpr:
			if x.Op == token.NOT {
				return fdFlatten(fdCondOf("", x.X, ""))
			}
		}
	}
	return []fdCond{k}
}

func fdWith(chain []fdCond, k ...fdCond) []fdCond {
	return append(append([]fdCond{}, chain...), k...)
}

func (w *fdWalker) stmts(list []ast.Stmt, chain []fdCond) {
	for _, st := range list {
		dead, guards := w.stmt(st, chain)
		if dead {
			return
		}
		if len(guards) > 0 {
			chain = fdWith(chain, guards...)
		}
	}
}

// stmt walks one statement.  It returns dead=true when the statements that
// follow cannot execute (an `if true {…return}` left by partial evaluation)
// and the guard conditions that hold for the following siblings, if any.
func (w *fdWalker) stmt(st ast.Stmt, chain []fdCond) (dead bool, guards []fdCond) {
	return w.stmtN(fdNormStmt(st), chain)
}

// stmtN walks a statement that is already in decision normal form.
func (w *fdWalker) stmtN(st ast.Stmt, chain []fdCond) (dead bool, guards []fdCond) {
	switch s := st.(type) {
	case nil:
	case *ast.BlockStmt:
		w.stmts(s.List, chain)
	case *ast.LabeledStmt:
		if _, isSwitch := s.Stmt.(*ast.SwitchStmt); isSwitch {
			return w.stmtN(s.Stmt, chain) // a `break L` may leave it: kept as a switch
		}
		return w.stmt(s.Stmt, chain)
	case *ast.IfStmt:
		// `if a || b {X}` with X leaving is `if a {X}; if b {X}`
		if fdOrSplits(s) {
			or := fdUnparen(s.Cond).(*ast.BinaryExpr)
			first := &ast.IfStmt{If: s.If, Init: s.Init, Cond: or.X, Body: s.Body}
			second := &ast.IfStmt{If: s.If, Cond: or.Y, Body: s.Body}
			dead, g1 := w.stmt(first, chain)
			if dead {
				return true, nil
			}
			dead, g2 := w.stmt(second, fdWith(chain, g1...))
			if dead {
				return true, nil
			}
			return false, append(append([]fdCond{}, g1...), g2...)
		}
		if s.Init != nil {
			w.stmt(s.Init, chain)
		}
		w.sitesIn(s.Cond, chain)
		cv := w.ctx().expr(s.Cond)
		var elseList []ast.Stmt
		switch e := s.Else.(type) {
		case *ast.BlockStmt:
			elseList = e.List
		case *ast.IfStmt:
			elseList = []ast.Stmt{e}
		}
		switch cv {
		case "false":
			w.stmts(elseList, chain)
			return fdTerminates(elseList), nil
		case "true":
			w.stmts(s.Body.List, chain)
			return fdTerminates(s.Body.List), nil
		}
		pos, neg := fdCondOf("", s.Cond, ""), fdCondOf("!(", s.Cond, ")")
		w.emitCond(pos, s.Cond.Pos())
		w.stmts(s.Body.List, fdWith(chain, pos))
		w.stmts(elseList, fdWith(chain, neg))
		tb, te := fdTerminates(s.Body.List), s.Else != nil && fdTerminates(elseList)
		switch {
		case tb && te:
			return true, nil
		case tb:
			return false, []fdCond{neg}
		case te:
			return false, []fdCond{pos}
		}
	case *ast.ForStmt:
		if s.Init != nil {
			w.stmt(s.Init, chain)
		}
		in := fdWith(chain, fdCondOf("for(", s.Cond, ")"))
		if s.Cond != nil {
			w.emitCond(fdCondOf("for(", s.Cond, ")"), s.Cond.Pos())
		}
		w.sitesIn(s.Cond, in)
		w.stmts(s.Body.List, in)
		if s.Post != nil {
			w.stmt(s.Post, in)
		}
	case *ast.RangeStmt:
		w.sitesIn(s.X, chain)
		w.emitCond(fdCondOf("range(", s.X, ")"), s.X.Pos())
		w.stmts(s.Body.List, fdWith(chain, fdCondOf("range(", s.X, ")")))
	case *ast.SwitchStmt:
		if s.Init != nil {
			w.stmt(s.Init, chain)
		}
		w.sitesIn(s.Tag, chain)
		var all []ast.Expr
		for _, cl := range s.Body.List {
			all = append(all, cl.(*ast.CaseClause).List...)
		}
		for _, cl := range s.Body.List {
			cc := cl.(*ast.CaseClause)
			k := fdCond{pre: "sw("}
			if s.Tag != nil {
				k.exprs, k.sep = append(k.exprs, s.Tag), append(k.sep, ")")
			} else {
				k.pre = "sw()"
			}
			list, rel := cc.List, "∈{"
			if cc.List == nil {
				list, rel = all, "∉{"
			}
			if len(list) == 0 {
				k.pre += rel + "}"
			} else if len(k.sep) > 0 {
				k.sep[len(k.sep)-1] += rel
			} else {
				k.pre += rel
			}
			for i, e := range list {
				k.exprs = append(k.exprs, e)
				if i == len(list)-1 {
					k.sep = append(k.sep, "}")
				} else {
					k.sep = append(k.sep, ",")
				}
				w.sitesIn(e, chain)
			}
			w.emitCond(k, cc.Pos())
			w.stmts(cc.Body, fdWith(chain, k))
		}
	case *ast.TypeSwitchStmt:
		if s.Init != nil {
			w.stmt(s.Init, chain)
		}
		var x ast.Expr
		switch a := s.Assign.(type) {
		case *ast.AssignStmt:
			x = a.Rhs[0]
		case *ast.ExprStmt:
			x = a.X
		}
		for _, cl := range s.Body.List {
			cc := cl.(*ast.CaseClause)
			k := fdCond{pre: "tsw(", exprs: []ast.Expr{x}, sep: []string{")∈{"}}
			if cc.List == nil {
				k.sep[0] = ")∈{default}"
			}
			for i, e := range cc.List {
				k.exprs = append(k.exprs, e)
				if i == len(cc.List)-1 {
					k.sep = append(k.sep, "}")
				} else {
					k.sep = append(k.sep, ",")
				}
			}
			w.emitCond(k, cc.Pos())
			w.stmts(cc.Body, fdWith(chain, k))
		}
	case *ast.ReturnStmt:
		w.sitesIn(st, chain)
		if len(s.Results) > 0 {
			w.emit("ret", func(c *fdCtx) string { return c.exprs(s.Results) }, chain, s.Pos())
		} else if w.hasResults {
			// a bare return of the named results: its presence under its conditions is
			// what makes `if err != nil { return }` a propagation site
			w.emit("ret", func(c *fdCtx) string { return "·" }, chain, s.Pos())
		}
	default:
		w.sitesIn(st, chain)
		w.assignItem(st)
	}
	return false, nil
}

// ---- driver ---------------------------------------------------------------------

type fdResult struct {
	OnlyFork, OnlyUp   []fdSite // unmatched sites
	FuncsOnlyFork      []string
	FuncsUnreferenced  []string // fork-only, unexported and not referenced anywhere in the package
	FuncsOnlyUp        []string
	SigMismatch        []string
	Matched, Functions int
	Compared           []string // keys of the functions present on both sides
	// whole-function items ("cond …" branch conditions, "asgn …" assignments to
	// named results and to locals that flow into returned values), unmatched ones
	ItemsOnlyFork, ItemsOnlyUp []fdSite
	ItemsMatched               int
	UpstreamDir                string
}

// ForkDiff compares the fork package with the upstream package.
func ForkDiff(fork, up *packages.Package, files map[string]bool, laxObjs map[types.Object]bool) *fdResult {
	fs := &fdSide{fork: true, pkg: fork, funcs: fdCollectFuncs(fork, files), laxObjs: laxObjs, dropArgs: map[types.Object]map[int]bool{}, onlyHere: map[types.Object]bool{}}
	us := &fdSide{pkg: up, funcs: fdCollectFuncs(up, files), dropArgs: map[types.Object]map[int]bool{}, onlyHere: map[types.Object]bool{}}
	fs.extraFields, us.extraFields = fdExtraFields(fork, up), fdExtraFields(up, fork)
	for o := range laxObjs { // the lax field itself is an extra field by construction; assert it
		if v, ok := o.(*types.Var); ok && v.IsField() && !fs.extraFields[o] {
			fs.extraFields[o] = true
		}
	}
	res := &fdResult{}
	if len(up.GoFiles) > 0 {
		res.UpstreamDir = up.GoFiles[0][:strings.LastIndex(up.GoFiles[0], "/")]
	}
	align := map[string][]int{}
	for _, k := range keysOf(fs.funcs) {
		fd := fs.funcs[k]
		fo, _ := fork.TypesInfo.Defs[fd.Name].(*types.Func)
		ud, ok := us.funcs[k]
		if !ok {
			if fo != nil && !fdReferenced(fork, fo, fd) {
				// dead code: an unexported function nobody refers to cannot change what the package does
				res.FuncsUnreferenced = append(res.FuncsUnreferenced, k)
				continue
			}
			res.FuncsOnlyFork = append(res.FuncsOnlyFork, k)
			if fo != nil {
				fs.onlyHere[fo] = true
			}
			continue
		}
		uo, _ := up.TypesInfo.Defs[ud.Name].(*types.Func)
		if fo == nil || uo == nil {
			continue
		}
		m, ok := fdAlign(fo.Type().(*types.Signature), uo.Type().(*types.Signature))
		if !ok {
			res.SigMismatch = append(res.SigMismatch, k)
		}
		align[k] = m
		drop := map[int]bool{}
		for i, j := range m {
			if j < 0 {
				drop[i] = true
			}
		}
		fs.dropArgs[fo] = drop
	}
	for _, k := range keysOf(us.funcs) {
		if _, ok := fs.funcs[k]; !ok {
			res.FuncsOnlyUp = append(res.FuncsOnlyUp, k)
			if uo, _ := up.TypesInfo.Defs[us.funcs[k].Name].(*types.Func); uo != nil {
				us.onlyHere[uo] = true
			}
		}
	}
	sitesOf := func(s *fdSide, k string, m []int) ([]fdSite, []fdSite) {
		fd := s.funcs[k]
		fo := s.pkg.TypesInfo.Defs[fd.Name].(*types.Func)
		sig := fo.Type().(*types.Signature)
		params := map[types.Object]string{}
		for i := 0; i < sig.Params().Len(); i++ {
			j := i
			if m != nil {
				j = m[i]
			}
			if j < 0 {
				params[sig.Params().At(i)] = "⊘"
			} else {
				params[sig.Params().At(i)] = fmt.Sprintf("P%d", j)
			}
		}
		for i := 0; i < sig.Results().Len(); i++ {
			if sig.Results().At(i).Name() != "" {
				params[sig.Results().At(i)] = fmt.Sprintf("R%d", i)
			}
		}
		if sig.Recv() != nil {
			params[sig.Recv()] = "RCV"
		}
		w := &fdWalker{s: s, fn: k, hasResults: sig.Results().Len() > 0}
		inl := fdSingleDefs(fd, s.pkg.TypesInfo, s.extraFields)
		w.ctx = func() *fdCtx {
			return &fdCtx{s: s, params: params, locals: map[types.Object]string{}, inline: inl, busy: map[types.Object]bool{}}
		}
		w.tracked = fdTracked(fd, s.pkg.TypesInfo, sig, inl)
		w.stmts(fd.Body.List, nil)
		return w.sites, w.items
	}
	for _, k := range keysOf(fs.funcs) {
		if _, ok := us.funcs[k]; !ok {
			continue
		}
		res.Functions++
		res.Compared = append(res.Compared, k)
		f, fi := sitesOf(fs, k, align[k])
		u, ui := sitesOf(us, k, nil)
		for i := range fi {
			for j := range ui {
				if !ui[j].match && ui[j].Text == fi[i].Text {
					ui[j].match, fi[i].match = true, true
					res.ItemsMatched++
					break
				}
			}
		}
		for _, s := range fi {
			if !s.match {
				res.ItemsOnlyFork = append(res.ItemsOnlyFork, s)
			}
		}
		for _, s := range ui {
			if !s.match {
				res.ItemsOnlyUp = append(res.ItemsOnlyUp, s)
			}
		}
		for i := range f {
			for j := range u {
				if !u[j].match && u[j].Text == f[i].Text {
					u[j].match, f[i].match = true, true
					res.Matched++
					break
				}
			}
		}
		for _, s := range f {
			if !s.match {
				res.OnlyFork = append(res.OnlyFork, s)
			}
		}
		for _, s := range u {
			if !s.match {
				res.OnlyUp = append(res.OnlyUp, s)
			}
		}
	}
	sort.Strings(res.FuncsOnlyFork)
	sort.Strings(res.FuncsOnlyUp)
	return res
}

// fdReferenced reports whether the function can be reached at all: it is
// exported, or init / main, or some identifier outside its own body refers to it,
// or (methods) an interface declared in the package has a method of its name, so
// that it may be called dynamically.
func fdReferenced(pk *packages.Package, fn *types.Func, decl *ast.FuncDecl) bool {
	if fn.Exported() || fn.Name() == "init" || fn.Name() == "main" {
		return true
	}
	for id, o := range pk.TypesInfo.Uses {
		if o == fn && !(decl.Body != nil && decl.Body.Pos() <= id.Pos() && id.Pos() < decl.Body.End()) {
			return true
		}
	}
	if sig, ok := fn.Type().(*types.Signature); ok && sig.Recv() != nil {
		for _, tv := range pk.TypesInfo.Types {
			if tv.Type == nil {
				continue
			}
			if it, ok := tv.Type.Underlying().(*types.Interface); ok {
				for i := 0; i < it.NumMethods(); i++ {
					if it.Method(i).Name() == fn.Name() {
						return true
					}
				}
			}
		}
		for _, name := range pk.Types.Scope().Names() {
			if tn, ok := pk.Types.Scope().Lookup(name).(*types.TypeName); ok {
				if it, ok := tn.Type().Underlying().(*types.Interface); ok {
					for i := 0; i < it.NumMethods(); i++ {
						if it.Method(i).Name() == fn.Name() {
							return true
						}
					}
				}
			}
		}
	}
	return false
}

// fdTracked: the non-error named results, plus (fixpoint) the non-inlined,
// non-error locals that occur in a return expression or on the right-hand
// side of an assignment to a tracked variable.
func fdTracked(fd *ast.FuncDecl, info *types.Info, sig *types.Signature, inline map[types.Object]ast.Expr) map[types.Object]bool {
	tr := map[types.Object]bool{}
	for i := 0; i < sig.Results().Len(); i++ {
		if r := sig.Results().At(i); r.Name() != "" && r.Name() != "_" && !fdIsErrorType(r.Type()) {
			tr[r] = true
		}
	}
	isLocal := func(o types.Object) bool {
		v, ok := o.(*types.Var)
		return ok && !v.IsField() && o.Pkg() != nil && o.Parent() != o.Pkg().Scope() && !fdIsErrorType(o.Type())
	}
	changed := false
	var add func(n ast.Node, depth int)
	add = func(n ast.Node, depth int) {
		if n == nil || depth > 8 {
			return
		}
		ast.Inspect(n, func(x ast.Node) bool {
			if _, ok := x.(*ast.FuncLit); ok {
				return false
			}
			id, ok := x.(*ast.Ident)
			if !ok {
				return true
			}
			o := info.Uses[id]
			if o == nil || !isLocal(o) {
				return true
			}
			if def, ok := inline[o]; ok {
				add(def, depth+1)
				return true
			}
			if !tr[o] {
				tr[o] = true
				changed = true
			}
			return true
		})
	}
	base := func(e ast.Expr) types.Object {
		for {
			switch x := e.(type) {
			case *ast.Ident:
				if o := info.Defs[x]; o != nil {
					return o
				}
				return info.Uses[x]
			case *ast.ParenExpr:
				e = x.X
			case *ast.SelectorExpr:
				e = x.X
			case *ast.IndexExpr:
				e = x.X
			case *ast.StarExpr:
				e = x.X
			default:
				return nil
			}
		}
	}
	for first := true; first || changed; first = false {
		changed = false
		ast.Inspect(fd.Body, func(n ast.Node) bool {
			switch n := n.(type) {
			case *ast.FuncLit:
				return false
			case *ast.ReturnStmt:
				for i, e := range n.Results {
					// the error result is covered by the sites; its operands (the
					// fork's field names) are not value computations
					if len(n.Results) == sig.Results().Len() && fdIsErrorType(sig.Results().At(i).Type()) {
						continue
					}
					add(e, 0)
				}
			case *ast.AssignStmt:
				for _, l := range n.Lhs {
					if o := base(l); o != nil && tr[o] {
						for _, e := range n.Rhs {
							add(e, 0)
						}
						for _, l2 := range n.Lhs { // index expressions of the targets
							if ix, ok := l2.(*ast.IndexExpr); ok {
								add(ix.Index, 0)
							}
						}
						break
					}
				}
			}
			return true
		})
	}
	return tr
}

// fdExtraFields lists the struct fields of a's named struct types that the
// same-named struct type of b lacks.
func fdExtraFields(a, b *packages.Package) map[types.Object]bool {
	out := map[types.Object]bool{}
	for _, name := range a.Types.Scope().Names() {
		ta, ok := a.Types.Scope().Lookup(name).(*types.TypeName)
		if !ok {
			continue
		}
		sa, ok := ta.Type().Underlying().(*types.Struct)
		if !ok {
			continue
		}
		have := map[string]bool{}
		if tb, ok := b.Types.Scope().Lookup(name).(*types.TypeName); ok {
			if sb, ok := tb.Type().Underlying().(*types.Struct); ok {
				for i := 0; i < sb.NumFields(); i++ {
					have[sb.Field(i).Name()] = true
				}
			} else {
				continue
			}
		} else {
			continue
		}
		for i := 0; i < sa.NumFields(); i++ {
			if !have[sa.Field(i).Name()] {
				out[sa.Field(i)] = true
			}
		}
	}
	return out
}

func fdIsStructType(t types.Type) bool {
	_, ok := t.Underlying().(*types.Struct)
	return ok
}
