package main

import (
	"strings"

	"golang.org/x/tools/go/ssa"
)

// Lock tables (E3), frozen from the code and its own comments; one entry per
// mutex-bearing struct that a property anchors.
var lockTable = map[string]LockSpec{
	"SignatureCache": {Struct: "trillian/ctfe.SignatureCache", Mutex: "mu", Fields: []string{"input", "sig"}},
	"LogInfo":        {Struct: "ctutil.LogInfo", Mutex: "mu", Fields: []string{"lastSTH"}},
	"backoff":        {Struct: "jsonclient.backoff", Mutex: "mu", Fields: []string{"multiplier", "notBefore"}},
	"Fetcher":        {Struct: "scanner.Fetcher", Mutex: "mu", Fields: []string{"cancel"}},
	"safeSubmissionState": {Struct: "submission.safeSubmissionState", Mutex: "mu", Fields: []string{"logToGroups", "groupNeeds", "results", "cancels"},
		Init: []string{"submission.newSafeSubmissionState"}},
	"Distributor":          {Struct: "submission.Distributor", Mutex: "mu", Fields: []string{"logRoots", "rootPool", "rootDataFull"}},
	"Proxy":                {Struct: "submission.Proxy", Mutex: "distMu", Fields: []string{"dist", "distCancel"}},
	"LogListManager":       {Struct: "submission.LogListManager", Mutex: "mu", Fields: []string{"latestLL", "previousLL"}},
	"LogGroupInfo":         {Struct: "ctpolicy.LogGroupInfo", Mutex: "wMu", Fields: []string{"LogWeights"}, Init: []string{"(*ctpolicy.LogGroupInfo).populate"}},
	"logListRefresherImpl": {Struct: "submission.logListRefresherImpl", Mutex: "updateMu", Fields: []string{"lastJSON"}},
}

func init() {
	register("LOCKS", "development: all lock tables", func(r *Run) {
		r.Rule("LOCK")
		for _, k := range keysOf(lockTable) {
			r.LockCheck(lockTable[k])
		}
	})
}

func init() {
	register("NILS", "development: optional parts in ctfe", func(r *Run) {
		r.Rule("NIL")
		inCtfe := func(fn *ssa.Function) bool {
			pk := fnPkg(fn)
			return pk != nil && ShortPkg(pk.Path()) == "trillian/ctfe"
		}
		n := r.NilOptional(inCtfe, "*")
		r.Floor("optional parts", n, 1)
		m := r.ConstIndexGuarded(inCtfe)
		r.Floor("const index", m, 1)
	})
}

// Fields of mutex-bearing structs that are written after construction without
// the struct's mutex, each with the reason why that is not a race.
var lockExempt = map[string]string{
	"ctpolicy.LogGroupInfo.MinInclusions":                   "set by setMinInclusions while the policy builds the group (LogsByGroup / BaseGroupFor), before the group is handed to any goroutine",
	"scanner.Fetcher.sth":                                   "written by Prepare before Run starts its goroutines and afterwards only by the single range-generator goroutine (updateSTH); read only by Prepare",
	"scanner.Fetcher.sthBackoff":                            "used only by the single range-generator goroutine (updateSTH)",
	"submission.Distributor.logClients":                     "filled by buildLogClients, which only NewDistributor calls before the Distributor is returned; read-only afterwards",
	"submission.Distributor.rootCompatibilityCheckDisabled": "set by a DistributorOption applied inside NewDistributor; read-only afterwards",
	"submission.LogListManager.llRefreshInterval":           "set at the top of Run before the refresh goroutine is started",
	"submission.Proxy.llRefreshInterval":                    "set at the top of Run before any goroutine is started",
	"submission.Proxy.rootsRefreshInterval":                 "set in NewProxy and at the top of Run before any goroutine is started; read by restartDistributor on the goroutine Run starts afterwards",
}

func init() {
	register("LOCKDISC", "development: lock discovery", func(r *Run) {
		r.Rule("LOCKDISC")
		r.LockDiscover([]string{"submission", "ctpolicy", "jsonclient", "scanner", "ctutil", "trillian/ctfe"}, lockTable, lockExempt)
	})
}

func init() {
	register("NILARGS", "development: nil constants passed to dereferencing parameters", func(r *Run) {
		r.Rule("NILARGS")
		n := r.NilArgs(func(fn *ssa.Function) bool {
			pk := fnPkg(fn)
			return pk != nil && strings.HasPrefix(pk.Path(), ModPath)
		})
		r.Floor("nil pointer arguments", n, 1)
	})
}
