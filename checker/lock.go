package main

import (
	"fmt"
	"go/types"
	"sort"
	"strings"

	"golang.org/x/tools/go/ssa"
)

// E3 LOCK — guarded-by discipline.
//
// For every function of the module a forward must-analysis computes, at each
// instruction, the set of mutexes that are certainly held (keyed by the origin
// term of the mutex address, e.g. "&(p0.mu)"), with mode R or W.  Lock/RLock
// add, non-deferred Unlock/RUnlock remove, deferred unlocks are ignored (held
// to the end), joins intersect.  An access to a guarded field X.f then needs
// "&(X.<mutex>)" in the held set (mode W for writes and map mutations).
// A function that touches a guarded field of its parameter without locking is
// accepted when every static call site holds the lock on the corresponding
// argument (lock-required summary, depth ≤ 3).

type LockSpec struct {
	Struct  string   // "submission.safeSubmissionState"
	Mutex   string   // field name of the mutex
	Fields  []string // guarded fields
	Init    []string // functions (globs) that run before the object is shared
	ReadOK  []string // fields that are immutable after construction (reads need no lock)
	Comment string
}

type held map[string]byte // mutex address term -> 'R' or 'W'

func (h held) clone() held {
	n := held{}
	for k, v := range h {
		n[k] = v
	}
	return n
}

func meet(a, b held) held {
	n := held{}
	for k, va := range a {
		if vb, ok := b[k]; ok {
			if va == 'W' && vb == 'W' {
				n[k] = 'W'
			} else {
				n[k] = 'R'
			}
		}
	}
	return n
}

func heldEq(a, b held) bool {
	if len(a) != len(b) {
		return false
	}
	for k, v := range a {
		if b[k] != v {
			return false
		}
	}
	return true
}

func lockOp(c *ssa.CallCommon) (op string) {
	f := c.StaticCallee()
	if f == nil {
		return ""
	}
	switch FuncName(f) {
	case "(*sync.Mutex).Lock", "(*sync.RWMutex).Lock":
		return "W+"
	case "(*sync.RWMutex).RLock":
		return "R+"
	case "(*sync.Mutex).Unlock", "(*sync.RWMutex).Unlock", "(*sync.RWMutex).RUnlock":
		return "-"
	}
	return ""
}

// heldAt computes the must-held lock set before every instruction of fn.
func (r *Run) heldAt(fn *ssa.Function) map[ssa.Instruction]held {
	in := map[*ssa.BasicBlock]held{}
	out := map[*ssa.BasicBlock]held{}
	res := map[ssa.Instruction]held{}
	if len(fn.Blocks) == 0 {
		return res
	}
	visited := map[*ssa.BasicBlock]bool{}
	work := []*ssa.BasicBlock{fn.Blocks[0]}
	in[fn.Blocks[0]] = held{}
	for len(work) > 0 {
		b := work[0]
		work = work[1:]
		cur := in[b].clone()
		for _, ins := range b.Instrs {
			res[ins] = cur.clone()
			if call, ok := ins.(*ssa.Call); ok {
				switch lockOp(&call.Call) {
				case "W+":
					cur[r.D.D(call.Call.Args[0])] = 'W'
				case "R+":
					cur[r.D.D(call.Call.Args[0])] = 'R'
				case "-":
					delete(cur, r.D.D(call.Call.Args[0]))
				}
			}
		}
		if old, ok := out[b]; ok && visited[b] && heldEq(old, cur) {
			continue
		}
		visited[b] = true
		out[b] = cur
		for _, s := range b.Succs {
			if prev, ok := in[s]; ok {
				m := meet(prev, cur)
				if !heldEq(m, prev) || !visited[s] {
					in[s] = m
					work = append(work, s)
				}
			} else {
				in[s] = cur.clone()
				work = append(work, s)
			}
		}
	}
	return res
}

type lockAccess struct {
	fn    *ssa.Function
	instr ssa.Instruction
	field string
	base  string // origin term of the struct pointer
	write bool
	ok    bool
	why   string
	mode  byte // how it is protected: 'h' holds the lock itself, 'c' every caller holds it, 'i' init phase / object under construction
}

// isWriteUse reports whether the address produced by fa is written through
// (store, or map mutation / append-assign of the loaded value).
func isWriteUse(fa *ssa.FieldAddr) bool {
	return isWriteUseAddr(fa, 0)
}

func isWriteUseAddr(fa ssa.Value, depth int) bool {
	for _, ref := range *fa.Referrers() {
		switch x := ref.(type) {
		case *ssa.Store:
			if x.Addr == fa {
				return true
			}
		case *ssa.FieldAddr: // a part of a struct kept by value in the guarded field is written
			if x.X == fa && depth < 4 && isWriteUseAddr(x, depth+1) {
				return true
			}
		case *ssa.IndexAddr: // an element of an array kept by value in the guarded field
			if x.X == fa && depth < 4 && isWriteUseAddr(x, depth+1) {
				return true
			}
		case *ssa.UnOp: // load: a map mutation on the loaded value counts as a write
			for _, r2 := range *x.Referrers() {
				if mu, ok := r2.(*ssa.MapUpdate); ok && mu.Map == x {
					return true
				}
				if c, ok := r2.(*ssa.Call); ok {
					if b, ok := c.Call.Value.(*ssa.Builtin); ok && b.Name() == "delete" && len(c.Call.Args) > 0 && c.Call.Args[0] == x {
						return true
					}
				}
			}
		}
	}
	return false
}

// LockCheck applies one lock table entry over the whole module.
func (r *Run) LockCheck(sp LockSpec) {
	named := r.P.LookupType(sp.Struct)
	if named == nil {
		r.Fail("lock:"+sp.Struct, "-", "undecided: struct "+sp.Struct+" not found")
		return
	}
	st, ok := named.Underlying().(*types.Struct)
	if !ok {
		r.Fail("lock:"+sp.Struct, "-", "undecided: not a struct")
		return
	}
	guarded := map[string]bool{}
	readOK := map[string]bool{}
	for _, f := range sp.Fields {
		guarded[f] = true
	}
	for _, f := range sp.ReadOK {
		readOK[f] = true
	}
	hasMutex := false
	present := map[string]bool{}
	for i := 0; i < st.NumFields(); i++ {
		present[st.Field(i).Name()] = true
		if st.Field(i).Name() == sp.Mutex {
			hasMutex = true
		}
	}
	if !hasMutex {
		r.Fail("lock:"+sp.Struct+"."+sp.Mutex, "-", "undecided: mutex field not found")
		return
	}
	for f := range guarded {
		if !present[f] {
			r.Fail("lock:"+sp.Struct+"."+f, "-", "undecided: guarded field not found in struct")
		}
	}
	cache := map[*ssa.Function]map[ssa.Instruction]held{}
	heldOf := func(fn *ssa.Function) map[ssa.Instruction]held {
		if h, ok := cache[fn]; ok {
			return h
		}
		h := r.heldAt(fn)
		cache[fn] = h
		return h
	}
	isInit := func(fn *ssa.Function) bool {
		n := FuncName(fn)
		for _, g := range sp.Init {
			if glob(g, n) {
				return true
			}
		}
		return false
	}
	// callers index (static calls only)
	type site struct {
		fn   *ssa.Function
		call ssa.CallInstruction
	}
	callers := map[*ssa.Function][]site{}
	for _, fn := range r.P.ModFuncs {
		eachInstr(fn, func(in ssa.Instruction) {
			if ci, ok := in.(ssa.CallInstruction); ok {
				if cal := ci.Common().StaticCallee(); cal != nil {
					callers[cal] = append(callers[cal], site{fn, ci})
				}
			}
		})
	}
	// does every caller of fn hold the lock on the argument bound to parameter pidx?
	var callersHold func(fn *ssa.Function, pidx int, write bool, depth int) (bool, string)
	callersHold = func(fn *ssa.Function, pidx int, write bool, depth int) (bool, string) {
		if depth > 3 {
			return false, "call chain too deep"
		}
		sites := callers[fn]
		if len(sites) == 0 {
			return false, "no static caller holds the lock (function is exported or called dynamically)"
		}
		for _, s := range sites {
			if _, isGo := s.call.(*ssa.Go); isGo {
				return false, "started with go from " + FuncName(s.fn)
			}
			if isInit(s.fn) {
				continue
			}
			args := s.call.Common().Args
			if pidx >= len(args) {
				return false, "argument not found at " + r.Where(s.call)
			}
			arg := args[pidx]
			if a := baseAlloc(arg); a != nil && paramSpill(a) == nil && a.Parent() == s.fn {
				continue // object under construction in the caller
			}
			base := selBase(r.D.D(arg))
			mu := "&(" + base + "." + sp.Mutex + ")"
			h := heldOf(s.fn)[s.call]
			if m, ok := h[mu]; ok && (!write || m == 'W') {
				continue
			}
			// the caller may itself be called with the lock held
			if p, ok := arg.(*ssa.Parameter); ok {
				if ok2, _ := callersHold(s.fn, paramIndex(p), write, depth+1); ok2 {
					continue
				}
			}
			return false, fmt.Sprintf("caller %s at %s does not hold %s", FuncName(s.fn), r.Where(s.call), mu)
		}
		return true, ""
	}

	var accs []lockAccess
	for _, fn := range r.P.ModFuncs {
		var h map[ssa.Instruction]held
		eachInstr(fn, func(in ssa.Instruction) {
			fa, ok := in.(*ssa.FieldAddr)
			if !ok {
				return
			}
			pt, ok := fa.X.Type().Underlying().(*types.Pointer)
			if !ok {
				return
			}
			nt, ok := pt.Elem().(*types.Named)
			if !ok || nt.Obj() != named.Obj() {
				return
			}
			fname := st.Field(fa.Field).Name()
			if !guarded[fname] {
				return
			}
			w := isWriteUse(fa)
			if !w && readOK[fname] {
				return
			}
			acc := lockAccess{fn: fn, instr: in, field: fname, write: w, base: selBase(r.D.D(fa.X))}
			switch {
			case isInit(fn):
				acc.ok, acc.why, acc.mode = true, "init-phase function", 'i'
			case func() bool { a := baseAlloc(fa.X); return a != nil && paramSpill(a) == nil }():
				acc.ok, acc.why, acc.mode = true, "object under construction (local allocation)", 'i'
			default:
				if h == nil {
					h = heldOf(fn)
				}
				mu := "&(" + acc.base + "." + sp.Mutex + ")"
				if m, ok := h[in][mu]; ok && (!w || m == 'W') {
					acc.ok, acc.why, acc.mode = true, "holds "+mu, 'h'
				} else if ok && w {
					acc.why = "write under read lock " + mu
				} else if p, isP := fa.X.(*ssa.Parameter); isP {
					if ok2, why := callersHold(fn, paramIndex(p), w, 0); ok2 {
						acc.ok, acc.why, acc.mode = true, "all callers hold the lock", 'c'
					} else {
						acc.why = "not holding " + mu + "; " + why
					}
				} else {
					acc.why = "not holding " + mu
				}
			}
			accs = append(accs, acc)
		})
	}
	sort.SliceStable(accs, func(i, j int) bool {
		if FuncName(accs[i].fn) != FuncName(accs[j].fn) {
			return FuncName(accs[i].fn) < FuncName(accs[j].fn)
		}
		return accs[i].field < accs[j].field
	})
	// one obligation per (function, field, kind)
	type k struct{ fn, field, kind string }
	agg := map[k]*lockAccess{}
	var order []k
	n := 0
	for i := range accs {
		a := &accs[i]
		kind := "read"
		if a.write {
			kind = "write"
		}
		kk := k{FuncName(a.fn), a.field, kind}
		if prev, ok := agg[kk]; ok {
			if prev.ok && !a.ok {
				agg[kk] = a
			}
			continue
		}
		agg[kk] = a
		order = append(order, kk)
	}
	short := sp.Struct[strings.LastIndex(sp.Struct, ".")+1:]
	for _, kk := range order {
		a := agg[kk]
		n++
		r.Funcs[kk.fn] = true
		r.Check(fmt.Sprintf("%s.%s@%s[%s]", short, kk.field, kk.fn, kk.kind), a.ok, r.Where(a.instr),
			fmt.Sprintf("%s of %s.%s guarded by %s: %s", kk.kind, sp.Struct, kk.field, sp.Mutex, a.why))
	}
	r.Check("lock-table:"+short, n > 0, "-", fmt.Sprintf("%d guarded accesses of %s found in the module", n, sp.Struct))
	// publication discipline (rules_t7c17pub.go): a guarded reference field protects the object behind it
	r.lockPublication(sp, named, st, accs, heldOf)
}

// LockDiscover (thorough tier): every mutex-bearing struct of the given
// packages must have a lock-table entry, and every field of such a struct that
// is written outside object construction must be listed as guarded or carry a
// named exemption with a reason.
func (r *Run) LockDiscover(pkgs []string, tables map[string]LockSpec, exempt map[string]string) {
	byStruct := map[string]LockSpec{}
	for _, sp := range tables {
		byStruct[sp.Struct] = sp
	}
	inPkgs := func(path string) bool {
		for _, p := range pkgs {
			if ShortPkg(path) == p {
				return true
			}
		}
		return false
	}
	// mutex-bearing structs
	type sinfo struct {
		named *types.Named
		st    *types.Struct
	}
	found := map[string]sinfo{}
	for _, pk := range r.P.Pkgs {
		if !inPkgs(pk.PkgPath) || pk.Types == nil {
			continue
		}
		sc := pk.Types.Scope()
		for _, n := range sc.Names() {
			tn, ok := sc.Lookup(n).(*types.TypeName)
			if !ok {
				continue
			}
			named, ok := tn.Type().(*types.Named)
			if !ok {
				continue
			}
			st, ok := named.Underlying().(*types.Struct)
			if !ok {
				continue
			}
			for i := 0; i < st.NumFields(); i++ {
				t := TypeName(st.Field(i).Type())
				if t == "sync.Mutex" || t == "sync.RWMutex" {
					found[ShortPkg(pk.PkgPath)+"."+n] = sinfo{named, st}
				}
			}
		}
	}
	for _, q := range keysOf(found) {
		sp, ok := byStruct[q]
		if !r.Check("lock-discovery:table-entry:"+q, ok, r.P.Pos(found[q].named.Obj().Pos()), "mutex-bearing struct "+q+" has a lock-table entry") {
			continue
		}
		guarded := map[string]bool{sp.Mutex: true}
		for _, f := range sp.Fields {
			guarded[f] = true
		}
		isInit := func(fn *ssa.Function) bool {
			for _, g := range sp.Init {
				if glob(g, FuncName(fn)) {
					return true
				}
			}
			return false
		}
		// fields written outside construction
		written := map[string]ssa.Instruction{}
		for _, fn := range r.P.ModFuncs {
			if isInit(fn) {
				continue
			}
			eachInstr(fn, func(in ssa.Instruction) {
				fa, ok := in.(*ssa.FieldAddr)
				if !ok {
					return
				}
				pt, ok := fa.X.Type().Underlying().(*types.Pointer)
				if !ok {
					return
				}
				nt, ok := pt.Elem().(*types.Named)
				if !ok || nt.Obj() != found[q].named.Obj() {
					return
				}
				if a := baseAlloc(fa.X); a != nil && paramSpill(a) == nil {
					return // object under construction
				}
				if isWriteUse(fa) {
					f := found[q].st.Field(fa.Field).Name()
					if _, seen := written[f]; !seen {
						written[f] = in
					}
				}
			})
		}
		for _, f := range keysOf(written) {
			if guarded[f] {
				continue
			}
			why, ex := exempt[q+"."+f]
			r.Check("lock-discovery:unlisted-field:"+q+"."+f, ex, r.Where(written[f]), fmt.Sprintf("field %s.%s is written after construction but is neither guarded by %s in the lock table nor exempted (%s)", q, f, sp.Mutex, why))
		}
	}
}
