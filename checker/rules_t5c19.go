package main

import (
	"fmt"
	"sort"
	"strings"

	"golang.org/x/tools/go/ssa"
)

// ---- C19.R2: "nothing is stored yet" -------------------------------------------------------
//
// Update trusts a candidate on first use when the read of the stored row says "nothing
// stored".  Two facts make that decision sound, and each is decided on whatever shape the
// code has:
//
//   (a) in Update, the outcome of the read is one of {read, nothing stored, read failed};
//       it is told apart by a nil test of the read error and/or by comparing its status
//       code with OK (0) and NotFound (5)  — c19ReadDecision;
//   (b) in getLatestSTH, an error with code NotFound is produced only when the scan of the
//       row reported sql.ErrNoRows; every other failure of the read keeps an error whose
//       code is not NotFound — c19ReadClasses.  Without (b) a transient read failure is
//       taken for first use and the candidate is stored without being compared with the
//       held STH.

// c19ReadDecision binds the atoms by which fn (Update) tells the three outcomes of reading
// the stored row apart and returns them with a function that maps a valuation to
// "read" | "nothing-stored" | "failed", or "" when no error value has that combination
// (err == nil with a code other than OK, code = OK and code = NotFound at once, …).
//
//	get : nil?E                  (E = the error result of getLatestSTH)     optional
//	ok  : ord(status.Code(E), 0) ("=" ⇔ E == nil, see the assumption)       optional
//	code: ord(status.Code(E), 5)                                            optional (third result)
//
// At least one of get / ok must exist; otherwise the old glob pattern is returned so that
// the table reports "undecided".
func c19ReadDecision(r *Run, fn *ssa.Function) ([]RuleAtom, func(v map[string]string) string, bool) {
	legacy := []RuleAtom{
		{Name: "get", Pat: "nil?" + c19Get + "#1"},
		{Name: "code", OrdA: "status.Code(" + c19Get + "#1)", OrdB: "5"},
	}
	legacyState := func(v map[string]string) string {
		switch {
		case v["get"] == "nil":
			return "read"
		case v["code"] == "=":
			return "nothing-stored"
		}
		return "failed"
	}
	gs := CallsTo(fn, c19Wit+".getLatestSTH")
	if len(gs) != 1 {
		return legacy, legacyState, true
	}
	ev := CallResult(gs[0], 1)
	if ev == nil {
		return legacy, legacyState, true
	}
	E := r.D.D(ev)
	code := "status.Code(" + E + ")"
	hasGet, hasOK, hasCode := false, false, false
	for k, ci := range r.D.AtomsOf(fn) {
		switch {
		case ci.Kind == "nil" && k == "nil?"+E:
			hasGet = true
		case ci.Kind == "ord" && (ci.A == code && ci.B == "0" || ci.A == "0" && ci.B == code):
			hasOK = true
		case ci.Kind == "ord" && (ci.A == code && ci.B == "5" || ci.A == "5" && ci.B == code):
			hasCode = true
		}
	}
	if !hasGet && !hasOK {
		return legacy, legacyState, true
	}
	var atoms []RuleAtom
	if hasGet {
		atoms = append(atoms, RuleAtom{Name: "get", Pat: "nil?" + E})
	}
	if hasOK {
		r.Assume("status.Code(err) is codes.OK exactly when err is nil (status.Errorf(codes.OK, …) is nil; errors without a gRPC status have code Unknown)")
		atoms = append(atoms, RuleAtom{Name: "ok", OrdA: code, OrdB: "0"})
	}
	if hasCode {
		atoms = append(atoms, RuleAtom{Name: "code", OrdA: code, OrdB: "5"})
	}
	// without a comparison of the code with NotFound, "nothing stored" and "read failed" are
	// one outcome for this code: every non-nil read error is judged as a failed read
	state := func(v map[string]string) string {
		isNil := false
		switch {
		case hasGet && hasOK:
			if (v["get"] == "nil") != (v["ok"] == "=") {
				return ""
			}
			isNil = v["get"] == "nil"
		case hasGet:
			isNil = v["get"] == "nil"
		default:
			isNil = v["ok"] == "="
		}
		if hasOK && v["ok"] == "<" {
			return "" // codes are unsigned
		}
		if isNil {
			if hasCode && v["code"] != "<" { // OK (0) < NotFound (5)
				return ""
			}
			return "read"
		}
		if hasCode && v["code"] == "=" {
			return "nothing-stored"
		}
		return "failed"
	}
	return atoms, state, hasCode
}

// c19ErrCode: what is known about the gRPC status code of an error value from the way it is
// built: "nil", a decimal code ("5"), "raw" (an error of database/sql, fmt.Errorf or
// errors.New: no gRPC status, code Unknown) or "?" (cannot tell).  A φ yields the set of its
// inputs.
func c19ErrCodes(r *Run, v ssa.Value, seen map[ssa.Value]bool, out map[string]bool) {
	if seen[v] {
		return
	}
	seen[v] = true
	elems := func(c *ssa.Call) []ssa.Value {
		// the values handed to a variadic formatting call (they may be wrapped with %w)
		var vs []ssa.Value
		if n := len(c.Call.Args); n > 0 {
			for _, el := range ElemStores(AllocBehind(c.Call.Args[n-1])) {
				vs = append(vs, el...)
			}
		}
		return vs
	}
	switch x := v.(type) {
	case *ssa.Const:
		if x.Value == nil {
			out["nil"] = true
			return
		}
	case *ssa.Phi:
		for _, e := range x.Edges {
			c19ErrCodes(r, e, seen, out)
		}
		return
	case *ssa.Extract:
		if c, ok := x.Tuple.(*ssa.Call); ok && strings.HasPrefix(CalleeOf(c), "(*sql.") {
			out["raw"] = true
			return
		}
	case *ssa.Call:
		name := CalleeOf(x)
		switch {
		case name == "status.Errorf" || name == "status.Error":
			if len(x.Call.Args) > 0 {
				if c, ok := x.Call.Args[0].(*ssa.Const); ok && c.Value != nil {
					out[c.Value.ExactString()] = true
					return
				}
			}
		case name == "fmt.Errorf":
			// %w keeps the status of a wrapped error visible to status.Code
			n := len(out)
			for _, el := range elems(x) {
				switch cv := el.(type) {
				case *ssa.MakeInterface:
					el = cv.X
				case *ssa.ChangeInterface:
					el = cv.X
				}
				if types_isError(el) {
					c19ErrCodes(r, el, seen, out)
				}
			}
			delete(out, "nil")
			if len(out) == n {
				out["raw"] = true
			}
			return
		case name == "errors.New":
			out["raw"] = true
			return
		case strings.HasPrefix(name, "(*sql."):
			out["raw"] = true
			return
		}
	}
	out["?"] = true
}

func types_isError(v ssa.Value) bool {
	return v.Type().String() == "error"
}

// c19ReadClasses decides fact (b) above on getLatestSTH: the classes of its behaviour over
// {every (*sql.Row) call succeeded; the scan reported sql.ErrNoRows; the read failed
// otherwise}.
func c19ReadClasses(r *Run, fg *ssa.Function) {
	r.Assume("errors returned by database/sql carry no gRPC status (status.Code = Unknown)")
	found := r.D.AtomsOf(fg)
	var atoms []RuleAtom
	var errNames []string
	scanName := ""
	var scanCall ssa.CallInstruction
	for _, c := range CallsTo(fg, "(*sql.Row).*") {
		call, ok := c.(*ssa.Call)
		if !ok || !types_isError(call) {
			continue
		}
		k := "nil?" + r.D.D(call)
		if found[k] == nil {
			continue // ErrorsGate reports an untested error
		}
		name := fmt.Sprintf("e%d", len(errNames))
		errNames = append(errNames, name)
		atoms = append(atoms, RuleAtom{Name: name, Pat: k})
		if CalleeOf(c) == "(*sql.Row).Scan" {
			scanName, scanCall = name, c
		}
	}
	if scanName == "" {
		r.Fail("getLatestSTH:read", r.FnPos(fg), "undecided: no tested error of (*sql.Row).Scan in "+FuncName(fg))
		return
	}
	// the bytes Scan fills
	var scanned *ssa.Alloc
	if args := CallArgs(scanCall); len(args) > 0 {
		if el := ElemStores(AllocBehind(args[len(args)-1])); len(el) == 1 && len(el[0]) == 1 {
			v := el[0][0]
			if mi, ok := v.(*ssa.MakeInterface); ok {
				v = mi.X
			}
			scanned, _ = v.(*ssa.Alloc)
		}
	}
	tests := c19EqTests(r, fg, "(*sql.Row).Scan(*)", "g:sql.ErrNoRows")
	sort.Slice(tests, func(i, j int) bool { return tests[i][0] < tests[j][0] })
	ne := map[string]string{}
	var testNames []string
	for i, t := range tests {
		name := fmt.Sprintf("t%d", i)
		testNames = append(testNames, name)
		ne[name] = t[1]
		atoms = append(atoms, RuleAtom{Name: name, Pat: t[0]})
	}
	want := []string{"row", "no-row", "read-failed"}
	if len(tests) == 0 {
		// "no row" and "another failure" cannot be told apart by this code: both are the class read-failed
		want = []string{"row", "read-failed"}
	}
	notFoundMsg := func(d string) string {
		why := "although the scan error is not sql.ErrNoRows"
		if len(tests) == 0 {
			why = "for every failure of the read (the scan error is never compared with sql.ErrNoRows)"
		}
		return "answers NotFound (" + d + ") " + why + ": Update takes NotFound for 'nothing stored', so a transient read failure is treated as first use and the candidate is stored and cosigned without the size comparison and consistency proof against the held STH"
	}
	r.ClassTable(fg, "getLatestSTH", nil, atoms, want,
		func(v map[string]string) string {
			allNe, allEq := true, true
			for _, t := range testNames {
				if v[t] == ne[t] {
					allEq = false
				} else {
					allNe = false
				}
			}
			anyNon, onlyScan := false, true
			for _, e := range errNames {
				if v[e] == "non" {
					anyNon = true
					if e != scanName {
						onlyScan = false
					}
				}
			}
			switch {
			case !anyNon && allNe:
				return "row"
			case !anyNon:
				return "" // a nil error is not sql.ErrNoRows
			case allNe:
				return "read-failed"
			case allEq && onlyScan && v[scanName] == "non":
				return "no-row"
			}
			return ""
		},
		func(class string, v map[string]string, reach *Reach) string {
			rets := reachableReturns(fg, reach)
			if len(rets) == 0 {
				return "no return reachable"
			}
			for _, ret := range rets {
				rv := RetVals(ret)
				if len(rv) != 2 {
					return "undecided: unexpected result list"
				}
				codes := map[string]bool{}
				c19ErrCodes(r, rv[1], map[ssa.Value]bool{}, codes)
				switch class {
				case "row":
					if len(codes) != 1 || !codes["nil"] {
						return "may return the error " + r.D.D(rv[1]) + " although the row was read"
					}
					if u, ok := rv[0].(*ssa.UnOp); !ok || scanned == nil || u.X != ssa.Value(scanned) {
						return "returns " + r.D.D(rv[0]) + ", not the bytes scanned from the row"
					}
				case "read-failed":
					if codes["5"] {
						return notFoundMsg(r.D.D(rv[1]))
					}
					if codes["?"] {
						return "undecided: cannot tell the status code of " + r.D.D(rv[1]) + " returned when the read failed (it must not be NotFound)"
					}
				}
			}
			return ""
		})
}
