package main

import (
	"fmt"
	"go/token"
	"go/types"
	"sort"
	"strings"

	"golang.org/x/tools/go/ssa"
)

func init() {
	register("C03", "Decides structural necessary conditions of 'the precertificate route and the embedded-SCT route yield the identical log entry': "+
		"(R1) the re-marshalled TBSCertificate type holds every variable-encoding part raw (RawValue / RawContent-led structs) and no string-bearing or dynamically typed field, so re-marshalling cannot re-encode names; "+
		"(R2) removeExtension fails on unparsable input, trailing bytes, an absent extension and a second occurrence, and removes exactly the matched element ext[:i] ++ ext[i+1:] of the extension list, where i is the index whose OID matched the requested OID; "+
		"(R3) whenever asn1.Marshal of the parsed TBS executes after a modification of it (extensions, issuer, an extension value), the cached raw encoding has been cleared since asn1.Unmarshal last filled it — a typestate of the cache (empty / filled / stale) on every path, so the clear may come before or after the edits, in every arm or once for all; a clear that the next parse undoes, a clear on some paths only, a non-empty value put into Raw are reported; "+
		"(R4) BuildPrecertTBS changes no content of the TBS unless a pre-issuer is given (emptying the cached encoding is not a change of content: the function may always re-encode what it parsed): issuer ← preIssuer.RawIssuer; the authority key identifier is replaced IN PLACE by the raw value of the pre-issuer's AKI extension, removed when the pre-issuer has none, appended (non-critical) only when the precertificate had none — decision table over (precert has AKI) × (pre-issuer has AKI); a pre-issuer without the CT EKU is an error; RemoveSCTList / RemoveCTPoison target the SCT-list / poison OIDs; "+
		"(R5) the two precert-entry constructors agree field by field modulo the remover: IssuerKeyHash = SHA-256(final issuer SPKI), TBSCertificate = remover(chain[0].RawTBSCertificate), EntryType = precert, Timestamp = argument; "+
		"(R6) ctutil.createLeaf: embedded ⇒ the SCT must be contained in the leaf, and the leaf handed back is the one MerkleTreeLeafForEmbeddedSCT(chain, sct.Timestamp) yields: the result of that call, or an object that holds field by field what that function puts there for the inputs at hand — the same expression over the current chain / timestamp, or a value remembered from an earlier successful call of it that is served only when every input it depends on (read off that function's code, e.g. chain[0].RawTBSCertificate for the TBSCertificate, chain[1].RawSubjectPublicKeyInfo for the issuer key hash) compared equal to a private copy stored together with the value, only when the memory is filled, never for inputs that function refuses (chain shorter than 2), all under one lock without a gap between test and use; otherwise MerkleTreeLeafFromChain with the precert type iff the leaf is a precertificate; ContainsSCT compares the TLS encoding of the SCT with each list element; "+
		"(R7) SCT-list writer and reader use the identical Go types for the list and for its ASN.1 OCTET STRING wrapping, with trailing-data checks on the reader side. "+
		"(R11) a SEQUENCE OF / SET OF that is present decodes to a non-nil slice also when it is empty (every list the fork's decoder hands back without an error is made by reflect.MakeSlice), so the empty [3] wrapper that removing the only extension leaves behind survives the re-parse and re-marshal of the precertificate route as it survives the single stage of the embedded route; "+
		"NOT covered: byte identity over all TBSCertificates (the commutation law itself), behaviour of the ASN.1 re-marshal on non-canonical DER input; that re-encoding an unmodified parsed TBS reproduces its bytes is assumed (R1, R11, C10.R3/R4 carry its decidable parts); a remembered embedded-route entry kept in anything but plain package-level cells under a sync mutex (a map, an LRU, atomics) is reported as undecided; determinism of x509.RemoveSCTList / sha256 is assumed.",
		runC03)
}

func runC03(r *Run) {
	r.Assume("asn1.Marshal of a struct whose fields are raw values or canonically encoded scalars reproduces the bytes it was parsed from (C10.R4 covers the raw-preservation mechanics)")

	r.Rule("C03.R1")
	c03Types(r)

	r.Rule("C03.R2")
	if fn := r.Fn("x509.removeExtension"); fn != nil {
		c03Remove(r, fn)
	}
	r.Rule("C03.R3")
	for _, n := range []string{"x509.removeExtension", "x509.BuildPrecertTBS"} {
		if fn := r.Fn(n); fn != nil {
			c03RawCleared(r, fn)
		}
	}
	r.Rule("C03.R4")
	if fn := r.Fn("x509.BuildPrecertTBS"); fn != nil {
		c03Build(r, fn)
	}
	if fn := r.Fn("x509.RemoveSCTList"); fn != nil {
		if c := r.OneCall(fn, "RemoveSCTList", "x509.removeExtension"); c != nil {
			r.ExpectArg(c, "RemoveSCTList:data", 0, "p0")
			r.ExpectArg(c, "RemoveSCTList:oid", 1, "g:x509.OIDExtensionCTSCT")
		}
	}
	if fn := r.Fn("x509.RemoveCTPoison"); fn != nil {
		if c := r.OneCall(fn, "RemoveCTPoison", "x509.BuildPrecertTBS"); c != nil {
			r.ExpectArg(c, "RemoveCTPoison:data", 0, "p0")
			r.ExpectArg(c, "RemoveCTPoison:no-preissuer", 1, "nil")
		}
	}
	c03OID(r, "x509.OIDExtensionCTPoison", "1.3.6.1.4.1.11129.2.4.3")
	c03OID(r, "x509.OIDExtensionCTSCT", "1.3.6.1.4.1.11129.2.4.2")
	c03OID(r, "x509.OIDExtensionAuthorityKeyId", "2.5.29.35")

	r.Rule("C03.R5")
	c03Siblings(r)

	r.Rule("C03.R6")
	c03CreateLeaf(r)

	r.Rule("C03.R7")
	c03SCTList(r)

	r.Rule("C03.R8")
	c03RawChain(r)
	r.Rule("C03.R9")
	c03SCTListReader(r)

	r.Rule("C03.R11")
	c03EmptyListPresent(r)

	// both routes re-marshal the TBSCertificate through the ASN.1 fork: every byte that is not the
	// removed extension survives only if the fork parses and encodes like the library it was forked
	// from (validity times, lengths, string types) — rule set C10.R3
	r.Shared("C03.R10", func() {
		if li := c10ComputeLax(r); li.field != nil {
			c10R3(r, li)
		}
	})
	c03Debug(r)
}

// c03OID checks the value of an OID variable from its initialiser.
func c03OID(r *Run, name, want string) {
	i := strings.LastIndex(name, ".")
	pk := r.P.Pkg(name[:i])
	got := ""
	if pk != nil {
		for _, f := range pk.Syntax {
			if o := pk.Types.Scope().Lookup(name[i+1:]); o != nil {
				_ = f
			}
		}
		if fn := r.P.SSA.Package(pk.Types).Func("init"); fn != nil {
			vals := map[int64]string{}
			eachInstr(fn, func(in ssa.Instruction) {
				if st, ok := in.(*ssa.Store); ok {
					if ia, ok := st.Addr.(*ssa.IndexAddr); ok {
						if c, ok := st.Val.(*ssa.Const); ok {
							_ = ia
							_ = c
						}
					}
				}
			})
			_ = vals
			// the initialiser stores a slice of a local array into the global
			eachInstr(fn, func(in ssa.Instruction) {
				st, ok := in.(*ssa.Store)
				if !ok {
					return
				}
				g, ok := st.Addr.(*ssa.Global)
				if !ok || g.Name() != name[i+1:] {
					return
				}
				sl, ok := st.Val.(*ssa.Slice)
				if !ok {
					return
				}
				al, ok := sl.X.(*ssa.Alloc)
				if !ok {
					return
				}
				n := al.Type().(*types.Pointer).Elem().(*types.Array).Len()
				parts := make([]string, n)
				for _, ref := range *al.Referrers() {
					if ia, ok := ref.(*ssa.IndexAddr); ok {
						idx, _ := ia.Index.(*ssa.Const)
						for _, r2 := range *ia.Referrers() {
							if s2, ok := r2.(*ssa.Store); ok {
								if c, ok := s2.Val.(*ssa.Const); ok && idx != nil {
									parts[idx.Int64()] = fmt.Sprint(c.Int64())
								}
							}
						}
					}
				}
				got = strings.Join(parts, ".")
			})
		}
	}
	r.Check("oid:"+name, got == want, "-", name+" = "+got+" (expected "+want+")")
}

func c03Types(r *Run) {
	tbs := r.P.LookupType("x509.tbsCertificate")
	if tbs == nil {
		r.Fail("tbsCertificate", "-", "undecided: type not found")
		return
	}
	// frozen classification of the top-level fields
	want := []string{
		"Raw asn1.RawContent", "Version int", "SerialNumber *big.Int", "SignatureAlgorithm x509/pkix.AlgorithmIdentifier",
		"Issuer asn1.RawValue", "Validity x509.validity", "Subject asn1.RawValue", "PublicKey x509.publicKeyInfo",
		"UniqueId asn1.BitString", "SubjectUniqueId asn1.BitString", "Extensions []x509/pkix.Extension",
	}
	st := tbs.Underlying().(*types.Struct)
	var got []string
	for i := 0; i < st.NumFields(); i++ {
		got = append(got, st.Field(i).Name()+" "+TypeName(st.Field(i).Type()))
	}
	r.Check("tbsCertificate:fields", strings.Join(got, "; ") == strings.Join(want, "; "), r.P.Pos(tbs.Obj().Pos()), "fields: "+strings.Join(got, "; "))
	// no string / interface anywhere in the type closure; raw-led structs allowed
	seen := map[types.Type]bool{}
	var bad []string
	var walk func(t types.Type, path string)
	walk = func(t types.Type, path string) {
		if seen[t] {
			return
		}
		seen[t] = true
		if n, ok := t.(*types.Named); ok {
			switch TypeName(n) {
			case "asn1.RawValue", "asn1.RawContent", "asn1.BitString", "asn1.ObjectIdentifier", "time.Time", "big.Int":
				return
			}
		}
		switch u := t.Underlying().(type) {
		case *types.Basic:
			if u.Info()&types.IsString != 0 {
				bad = append(bad, path+" is a string")
			}
		case *types.Interface:
			bad = append(bad, path+" is an interface")
		case *types.Pointer:
			walk(u.Elem(), path)
		case *types.Slice:
			walk(u.Elem(), path+"[]")
		case *types.Array:
			walk(u.Elem(), path+"[]")
		case *types.Struct:
			for i := 0; i < u.NumFields(); i++ {
				walk(u.Field(i).Type(), path+"."+u.Field(i).Name())
			}
		case *types.Map:
			bad = append(bad, path+" is a map")
		}
	}
	walk(tbs, "tbsCertificate")
	r.Check("tbsCertificate:no-reencodable-text", len(bad) == 0, r.P.Pos(tbs.Obj().Pos()), fmt.Sprintf("string-bearing / dynamically typed parts: %v", bad))
	// Issuer and Subject raw; raw-led nested structs
	for _, q := range []string{"x509.tbsCertificate", "x509.publicKeyInfo"} {
		n := r.P.LookupType(q)
		ok := false
		if n != nil {
			if s, isS := n.Underlying().(*types.Struct); isS && s.NumFields() > 0 {
				ok = s.Field(0).Name() == "Raw" && TypeName(s.Field(0).Type()) == "asn1.RawContent"
			}
		}
		r.Check("raw-led:"+q, ok, "-", q+" starts with Raw asn1.RawContent")
	}
}

func c03Remove(r *Run, fn *ssa.Function) {
	r.ErrorsGate(fn, "removeExtension:errors", "asn1.Unmarshal", 1)
	r.ErrorsGate(fn, "removeExtension:errors", "asn1.Marshal", 1)
	if c := r.OneCall(fn, "removeExtension:parse", "asn1.Unmarshal"); c != nil {
		r.ExpectArg(c, "removeExtension:parse.data", 0, "p0")
		if rest := CallResult(c, 0); rest != nil {
			// refusal = a non-nil error and no data (a further result that callers ignore may hold anything)
			refused := func(r *Run, ret *ssa.Return) (bool, string) {
				if n := len(ret.Results); n < 2 || errKind(ret.Results[n-1]) == "nil" {
					return false, "returns a nil error"
				}
				d := r.D.D(ret.Results[0])
				return d == "nil", "returns the data " + d
			}
			r.FailEdge(fn, "removeExtension", EdgeSpec{Name: "trailing-bytes", Atom: ordAtomR("len("+r.D.D(rest)+")", "0"), Bad: ">", Want: refused})
		} else {
			r.Fail("removeExtension:trailing-bytes", r.Where(c), "the remainder of the parse is discarded")
		}
	}
	// the removal
	sts := r.StoresTo(fn, "&(new:x509.tbsCertificate#0.Extensions)")
	if len(sts) != 1 {
		r.Fail("removeExtension:removal", r.FnPos(fn), fmt.Sprintf("%d stores to tbs.Extensions", len(sts)))
		return
	}
	ext := "new:x509.tbsCertificate#0.Extensions"
	idx, ok := c03IsRemoval(r, sts[0].Val, ext)
	how := ""
	if !ok {
		idx, how = c03FilterRemoval(r, fn, sts[0], ext)
		ok = idx != nil
	}
	r.Check("removeExtension:removal-shape", ok, r.Where(sts[0]), "Extensions ← "+r.D.D(sts[0].Val)+" (must be ext[:i] ++ ext[i+1:], slices.Delete(ext, i, i+1), or every ext[j] with j ≠ i appended in order to an empty slice) "+how)
	if !ok {
		return
	}
	// i is set only from the loop index at which the OID matched.  Two representations of
	// "the positions that matched": one integer (−1 = none yet, a second match is refused
	// inside the loop), or the list of all of them (its length is tested afterwards and i is
	// its only element).
	var ph *ssa.Phi       // the integer
	var matches *sliceAcc // the list
	var posLeaves, keptLeaves []phiLeaf
	okIdx := true
	matchIdx := ""
	if p, isPhi := idx.(*ssa.Phi); isPhi {
		if isInduction(p) {
			r.Fail("removeExtension:matched-index", r.Where(sts[0]), "undecided: the removed index is a loop counter itself, not a recorded match position")
			return
		}
		ph = p
		// the values the index can hold: the φ-web is followed down to constants and
		// loop positions (a loop counter is a value, not a merge: `for i, x := range xs`
		// and `for i := 0; i < len(xs); i++` both give the position it@N)
		for _, l := range loopPosLeaves(ph) {
			d := r.D.D(l.v)
			if d == "-1" {
				continue
			}
			if !isLoopPos(d) || (matchIdx != "" && d != matchIdx) {
				okIdx = false
			}
			matchIdx = d
			posLeaves = append(posLeaves, l)
		}
		r.Check("removeExtension:matched-index", okIdx && matchIdx != "", r.Where(sts[0]), "the removed index takes only the values −1 and the loop position "+matchIdx)
	} else if acc, why := c03FirstOf(idx); acc != nil {
		matches = acc
		for _, l := range acc.added {
			d := r.D.D(l.v)
			if !isLoopPos(d) || (matchIdx != "" && d != matchIdx) || d != fmt.Sprintf("it@%d", acc.hdr.Index) {
				okIdx = false
			}
			matchIdx = d
			posLeaves = append(posLeaves, l)
		}
		keptLeaves = acc.kept
		// the list is complete when its element is read
		at := idx.(ssa.Instruction).Block()
		done := acc.hdr.Dominates(at) && !blockReachesBlock(at, acc.hdr)
		r.Check("removeExtension:matched-index", okIdx && matchIdx != "" && done, r.Where(sts[0]), "the removed index is element 0 of the list of the loop positions "+matchIdx+" recorded by the finished loop")
		okIdx = okIdx && done
	} else {
		r.Fail("removeExtension:matched-index", r.Where(sts[0]), "undecided: the removed index "+r.D.D(idx)+" is neither a loop-carried match position nor the first of a list of them "+why)
		return
	}
	if okIdx && matchIdx != "" {
		// that loop visits every element of the extension list
		ok, why := loopSweeps(r, fn, matchIdx, ext, true)
		r.Check("removeExtension:loop-covers-list", ok, r.Where(sts[0]), "the loop whose position is recorded visits every extension of the parsed TBS: "+why)
	}
	// the match test: Extensions[i].Id.Equal(oid) for that i
	eq := CallsTo(fn, "(asn1.ObjectIdentifier).Equal")
	if len(eq) == 1 {
		r.ExpectArg(eq[0], "removeExtension:match.oid", 1, "p1")
		// the element may be read in place or through the per-iteration copy of a range loop
		src := elemTerm(r, fn, CallArgs(eq[0])[0])
		r.Check("removeExtension:match.element", okIdx && src == ext+"["+matchIdx+"].Id", r.Where(eq[0]), "the OID compared is "+src+" (that of the element at the recorded position)")
		// the position is recorded only when the comparison said "equal" (and is recorded then)
		if eqv := eq[0].Value(); eqv != nil && len(posLeaves) > 0 {
			key := r.D.Classify(eqv).Key
			for _, v := range []string{"F", "T"} {
				reach := r.D.Walk(fn, Sigma{key: v}, nil, nil)
				r.Valuations++
				taken := leafTaken(reach, posLeaves)
				okRec := taken == (v == "T")
				if matches != nil { // … and every way round the loop that leaves the list as it is, is a non-match
					okRec = okRec && leafTaken(reach, keptLeaves) == (v == "F")
				}
				r.Check("removeExtension:index-recorded-iff-matched["+v+"]", okRec, r.Where(eq[0]), fmt.Sprintf("OID comparison = %s ⇒ position recorded: %v", v, taken))
			}
		}
		if ph != nil {
			// not matched ⇒ index not taken; matched twice ⇒ error
			// a second match (index already set) inside the loop ⇒ error, nothing removed
			n2 := 0
			for _, b := range r.blocksTesting(fn, func(ci *CondInfo) bool { return ci.Kind == "ord" && (ci.A == "-1" || ci.B == "-1") }) {
				if !blockReachesBlock(b, eq[0].Block()) {
					continue // the test after the loop
				}
				n2++
				ifi := b.Instrs[len(b.Instrs)-1].(*ssa.If)
				ci := r.D.Classify(ifi.Cond)
				for _, v := range []string{"<", ">"} {
					reach := r.D.Walk(fn, Sigma{ci.Key: v}, b, nil)
					r.Valuations++
					okE := !reach.Has(sts[0])
					for _, ret := range reachableReturns(fn, reach) {
						if errKind(ret.Results[len(ret.Results)-1]) == "nil" {
							okE = false
						}
					}
					r.Check("removeExtension:second-occurrence["+v+"]", okE, r.Where(ifi), "a second extension of the requested type ⇒ error, nothing removed")
				}
			}
			r.Check("removeExtension:second-occurrence-tested", n2 == 1, r.Where(eq[0]), "inside the loop a match tests whether an earlier match exists")
		}
	} else if len(eq) == 2 && ph != nil && okIdx && matchIdx != "" {
		// the first match, then a second scan for another one behind it
		c03FirstThenTail(r, fn, sts[0], ph, posLeaves, matchIdx, ext, eq, append([]ssa.Instruction{sts[0]}, successReturns(fn)...))
	} else {
		r.Fail("removeExtension:match", r.FnPos(fn), fmt.Sprintf("%d OID comparisons", len(eq)))
	}
	markers := append([]ssa.Instruction{sts[0]}, successReturns(fn)...)
	if ph != nil {
		// absent ⇒ error: while the index still holds −1 neither the removal nor a success
		// return executes (and they do otherwise); a missing test leaves the obligation undecided
		absentKey := ordAtom("-1", r.D.D(idx), map[string]bool{}).Key
		r.MustGuard(fn, "removeExtension:absent-is-error", absentKey, "=", markers, "removal of an extension / success return")
	} else {
		// the list holds every matching position: removal and success only when there is exactly one
		c03ExactlyOne(r, fn, matches, markers)
	}
	// the result is the re-marshalled, modified struct
	for _, ret := range Returns(fn) {
		if errKind(ret.Results[len(ret.Results)-1]) == "nil" {
			r.Check("removeExtension:result", r.D.D(ret.Results[0]) == "asn1.Marshal(*new:x509.tbsCertificate#0)#0", r.Where(ret), "returns "+r.D.D(ret.Results[0]))
		}
	}
}

func leafTaken(reach *Reach, ls []phiLeaf) bool {
	for _, l := range ls {
		if reach.Edges[[2]int{l.phi.Block().Preds[l.edge].Index, l.phi.Block().Index}] {
			return true
		}
	}
	return false
}

// sliceAcc: a slice that a loop builds element by element.  root is the loop-carried value in
// the loop header; it enters the loop empty (nil or make(T, 0, …)), and every way round the
// loop either leaves it as it is (kept) or appends exactly one element to its current value
// (added; the leaf value is that element).  After the loop root therefore lists, in iteration
// order, the elements of the iterations that went round an `added` way.
type sliceAcc struct {
	root  *ssa.Phi
	hdr   *ssa.BasicBlock
	kept  []phiLeaf
	added []phiLeaf
}

func (a *sliceAcc) inLoop(b *ssa.BasicBlock) bool {
	return a.hdr.Dominates(b) && (b == a.hdr || blockReachesBlock(b, a.hdr))
}

func sliceAccOf(v ssa.Value) (*sliceAcc, string) {
	root, ok := v.(*ssa.Phi)
	if !ok || isInduction(root) {
		return nil, "not a loop-carried value"
	}
	if _, isSlice := root.Type().Underlying().(*types.Slice); !isSlice {
		return nil, "not a slice"
	}
	acc := &sliceAcc{root: root, hdr: root.Block()}
	if !blockReachesBlock(acc.hdr, acc.hdr) {
		return nil, "not merged in a loop header"
	}
	web := map[*ssa.Phi]bool{}
	var bases []ssa.Value
	why := ""
	var visit func(p *ssa.Phi)
	visit = func(p *ssa.Phi) {
		if web[p] {
			return
		}
		web[p] = true
		if p != root && (p.Block() == acc.hdr || !acc.inLoop(p.Block())) {
			why = "merged outside the loop body"
			return
		}
		for i, e := range p.Edges {
			if p == root && !acc.inLoop(p.Block().Preds[i]) {
				// entering the loop
				mk, isMake := e.(*ssa.MakeSlice)
				if !isNilConst(e) && !(isMake && isConstInt(mk.Len, 0)) {
					why = "does not enter the loop empty"
				}
				continue
			}
			switch x := e.(type) {
			case *ssa.Phi:
				if x == root {
					acc.kept = append(acc.kept, phiLeaf{e, p, i})
				} else {
					visit(x)
				}
			case *ssa.Call:
				b, isB := x.Call.Value.(*ssa.Builtin)
				if !isB || b.Name() != "append" || len(x.Call.Args) != 2 {
					why = "updated by something other than append"
					continue
				}
				el := oneElem(x.Call.Args[1])
				if el == nil {
					why = "append of something other than one element"
					continue
				}
				bases = append(bases, x.Call.Args[0])
				acc.added = append(acc.added, phiLeaf{el, p, i})
			default:
				why = "updated by something other than append"
			}
		}
	}
	visit(root)
	for _, b := range bases { // what is appended to is the current value of the slice
		if q, isPhi := b.(*ssa.Phi); !isPhi || !web[q] {
			why = "append to something other than the slice's current value"
		}
	}
	if why != "" || len(acc.added) == 0 {
		return nil, "not built by appending single elements: " + why
	}
	return acc, ""
}

// oneElem: the x of append(s, x) — go/ssa passes new:[1]T{x}[:].
func oneElem(v ssa.Value) ssa.Value {
	sl, ok := v.(*ssa.Slice)
	if !ok || sl.Low != nil || sl.High != nil || sl.Max != nil {
		return nil
	}
	al, ok := sl.X.(*ssa.Alloc)
	if !ok {
		return nil
	}
	arr, ok := al.Type().(*types.Pointer).Elem().Underlying().(*types.Array)
	if !ok || arr.Len() != 1 {
		return nil
	}
	var el ssa.Value
	for _, ref := range *al.Referrers() {
		switch x := ref.(type) {
		case *ssa.Slice, *ssa.DebugRef:
		case *ssa.IndexAddr:
			for _, r2 := range *x.Referrers() {
				st, isStore := r2.(*ssa.Store)
				if !isStore || st.Addr != ssa.Value(x) || el != nil {
					return nil
				}
				el = st.Val
			}
		default:
			return nil
		}
	}
	return el
}

// c03FirstOf: v is acc[0] for a slice acc built by a loop.
func c03FirstOf(v ssa.Value) (*sliceAcc, string) {
	ld, ok := v.(*ssa.UnOp)
	if !ok || ld.Op != token.MUL {
		return nil, ""
	}
	ia, ok := ld.X.(*ssa.IndexAddr)
	if !ok || !isConstInt(ia.Index, 0) {
		return nil, ""
	}
	return sliceAccOf(ia.X)
}

// c03FilterRemoval recognises the removal written as a filter: the stored list is built by a
// loop that sweeps ext front to back and appends ext[j] to an initially empty slice exactly
// when j differs from one value i, which it returns (nil, reason otherwise).
func c03FilterRemoval(r *Run, fn *ssa.Function, st *ssa.Store, ext string) (ssa.Value, string) {
	acc, why := sliceAccOf(st.Val)
	if acc == nil {
		return nil, why
	}
	// stored when the loop is over
	if !acc.hdr.Dominates(st.Block()) || blockReachesBlock(st.Block(), acc.hdr) {
		return nil, "the list is stored before the loop that builds it is over"
	}
	pos := fmt.Sprintf("it@%d", acc.hdr.Index)
	for _, l := range acc.added {
		got := r.D.D(l.v)
		if u, ok := l.v.(*ssa.UnOp); ok && u.Op == token.MUL {
			if _, isA := u.X.(*ssa.Alloc); isA {
				got = elemTerm(r, fn, u.X)
			}
		}
		if got != ext+"["+pos+"]" {
			return nil, "the element appended is " + got + ", not " + ext + "[" + pos + "]"
		}
	}
	if ok, why := loopSweeps(r, fn, pos, ext, false); !ok {
		return nil, "the building loop does not go through the list front to back: " + why
	}
	// the one comparison of the position that decides between appending and skipping
	var cmp *ssa.BinOp
	var other ssa.Value
	for _, b := range fn.Blocks {
		if !acc.inLoop(b) || b == acc.hdr || len(b.Instrs) == 0 {
			continue
		}
		ifi, ok := b.Instrs[len(b.Instrs)-1].(*ssa.If)
		if !ok {
			continue
		}
		c := ifi.Cond
		if u, isNot := c.(*ssa.UnOp); isNot && u.Op == token.NOT {
			c = u.X
		}
		bo, ok := c.(*ssa.BinOp)
		if !ok || (bo.Op != token.EQL && bo.Op != token.NEQ) {
			return nil, "the building loop branches on something other than position == i"
		}
		var o ssa.Value
		switch {
		case r.D.D(bo.X) == pos:
			o = bo.Y
		case r.D.D(bo.Y) == pos:
			o = bo.X
		default:
			return nil, "the building loop branches on something other than position == i"
		}
		if cmp != nil {
			return nil, "the building loop compares the position more than once"
		}
		cmp, other = bo, o
	}
	if cmp == nil {
		return nil, "the building loop appends every element"
	}
	// i does not change while the list is built: computed before the loop, or re-read in every
	// iteration as element 0 of a slice that an earlier loop finished
	if in, isIn := other.(ssa.Instruction); isIn && acc.inLoop(in.Block()) {
		fin := false
		if ld, isLoad := other.(*ssa.UnOp); isLoad && ld.Op == token.MUL {
			if ia, isIA := ld.X.(*ssa.IndexAddr); isIA && isConstInt(ia.Index, 0) {
				if q, isPhi := ia.X.(*ssa.Phi); isPhi && !acc.inLoop(q.Block()) {
					fin = true
				}
			}
		}
		if !fin {
			return nil, "the position compared with changes inside the building loop"
		}
	}
	key := r.D.Classify(cmp).Key
	for _, v := range []string{"<", "=", ">"} {
		reach := r.D.Walk(fn, Sigma{key: v}, nil, nil)
		r.Valuations++
		if leafTaken(reach, acc.added) != (v != "=") || leafTaken(reach, acc.kept) != (v == "=") {
			return nil, fmt.Sprintf("with the position %s i the element is appended: %v, skipped: %v", v, leafTaken(reach, acc.added), leafTaken(reach, acc.kept))
		}
	}
	// no way out of the loop other than through its header
	for _, b := range fn.Blocks {
		if acc.inLoop(b) && b != acc.hdr {
			for _, sb := range b.Succs {
				if !acc.inLoop(sb) {
					return nil, "the building loop can be left before the end of the list"
				}
			}
		}
	}
	return other, ""
}

// c03ExactlyOne: matches lists every matching position.  For each possible length n, with the
// comparisons of len(matches) against constants answered for that n, the markers (removal,
// success returns) are reachable exactly when n = 1.
func c03ExactlyOne(r *Run, fn *ssa.Function, matches *sliceAcc, markers []ssa.Instruction) {
	type lenAtom struct {
		key     string
		c       int64
		constIs string // "A" or "B": which operand of the atom is the constant
	}
	var atoms []lenAtom
	maxC := int64(1)
	undecided := ""
	isLen := func(v ssa.Value) bool {
		c, ok := v.(*ssa.Call)
		if !ok {
			return false
		}
		b, isB := c.Call.Value.(*ssa.Builtin)
		return isB && b.Name() == "len" && len(c.Call.Args) == 1 && c.Call.Args[0] == ssa.Value(matches.root)
	}
	constOf := func(v ssa.Value) (int64, bool) {
		c, ok := v.(*ssa.Const)
		if !ok || c.Value == nil {
			return 0, false
		}
		n, err := parseInt(c.Value.ExactString())
		return n, err == nil
	}
	for _, b := range fn.Blocks {
		if len(b.Instrs) == 0 {
			continue
		}
		ifi, ok := b.Instrs[len(b.Instrs)-1].(*ssa.If)
		if !ok {
			continue
		}
		c := ifi.Cond
		if u, isNot := c.(*ssa.UnOp); isNot && u.Op == token.NOT {
			c = u.X
		}
		bo, ok := c.(*ssa.BinOp)
		if !ok || !(isLen(bo.X) || isLen(bo.Y)) {
			continue
		}
		if matches.inLoop(b) {
			undecided = "the length of the list is tested while it is still being built"
			continue
		}
		lenX := isLen(bo.X)
		cv, isC := constOf(bo.Y)
		if !lenX {
			cv, isC = constOf(bo.X)
		}
		ci := r.D.Classify(bo)
		if !isC || ci.Kind != "ord" {
			continue // left open: both outcomes are explored
		}
		cs := fmt.Sprint(cv)
		which := "B"
		if ci.A == cs {
			which = "A"
		}
		atoms = append(atoms, lenAtom{ci.Key, cv, which})
		if cv > maxC {
			maxC = cv
		}
	}
	if undecided != "" {
		r.Fail("removeExtension:exactly-one-match", r.FnPos(fn), "undecided: "+undecided)
		return
	}
	cmp := func(a, b int64) string {
		switch {
		case a < b:
			return "<"
		case a > b:
			return ">"
		}
		return "="
	}
	for n := int64(0); n <= maxC+1; n++ {
		s := Sigma{}
		for _, a := range atoms {
			if a.constIs == "A" {
				s[a.key] = cmp(a.c, n)
			} else {
				s[a.key] = cmp(n, a.c)
			}
		}
		reach := r.D.Walk(fn, s, nil, nil)
		r.Valuations++
		var hit ssa.Instruction
		for _, m := range markers {
			if reach.Has(m) {
				hit = m
			}
		}
		switch {
		case n == 1:
			r.Check("removeExtension:exactly-one-match[n=1]", reach.Has(markers[0]), r.Where(markers[0]), "with one extension of the requested type the removal is reachable (positive control)")
		case n == 0:
			r.Check("removeExtension:absent-is-error", hit == nil, r.FnPos(fn), "no extension of the requested type ⇒ neither the removal nor a success return executes")
		default:
			r.Check(fmt.Sprintf("removeExtension:second-occurrence[n=%d]", n), hit == nil, r.FnPos(fn), fmt.Sprintf("%d extensions of the requested type ⇒ neither the removal nor a success return executes", n))
		}
	}
}

// c03IsRemoval recognises append(E[:i], E[i+1:]...) and slices.Delete(E, i, i+1); returns i.
func c03IsRemoval(r *Run, v ssa.Value, ext string) (ssa.Value, bool) {
	call, ok := v.(*ssa.Call)
	if !ok {
		return nil, false
	}
	if b, isB := call.Call.Value.(*ssa.Builtin); isB && b.Name() == "append" && len(call.Call.Args) == 2 {
		lo, ok1 := call.Call.Args[0].(*ssa.Slice)
		hi, ok2 := call.Call.Args[1].(*ssa.Slice)
		if !ok1 || !ok2 || r.D.D(lo.X) != ext || r.D.D(hi.X) != ext {
			return nil, false
		}
		if lo.Low != nil || lo.High == nil || hi.High != nil || hi.Low == nil {
			return nil, false
		}
		want := r.D.Lin(lo.High, nil).add(LinForm{Coef: map[string]int64{}, Const: 1}, 1).String()
		if r.D.Lin(hi.Low, nil).String() != want {
			return nil, false
		}
		return lo.High, true
	}
	if f := call.Call.StaticCallee(); f != nil && strings.HasPrefix(FuncName(f), "slices.Delete") && len(call.Call.Args) == 3 {
		if r.D.D(call.Call.Args[0]) != ext {
			return nil, false
		}
		want := r.D.Lin(call.Call.Args[1], nil).add(LinForm{Coef: map[string]int64{}, Const: 1}, 1).String()
		if r.D.Lin(call.Call.Args[2], nil).String() != want {
			return nil, false
		}
		return call.Call.Args[1], true
	}
	return nil, false
}

// c03RawCleared (C03.R3): whenever the re-marshal executes after a modification of the parsed
// structure, its cached encoding has been cleared since it was last filled — decided as a
// typestate of the cache (empty / filled / stale) on every path, see rules_t8c03.go.
func c03RawCleared(r *Run, fn *ssa.Function) { c03RawFresh(r, fn) }

func c03Build(r *Run, fn *ssa.Function) {
	tbs := "new:x509.tbsCertificate#0"
	if c := r.OneCall(fn, "BuildPrecertTBS:depoison", "x509.removeExtension"); c != nil {
		r.ExpectArg(c, "BuildPrecertTBS:depoison.data", 0, "p0")
		r.ExpectArg(c, "BuildPrecertTBS:depoison.oid", 1, "g:x509.OIDExtensionCTPoison")
	}
	if c := r.OneCall(fn, "BuildPrecertTBS:reparse", "asn1.Unmarshal"); c != nil {
		r.ExpectArg(c, "BuildPrecertTBS:reparse.data", 0, "x509.removeExtension(*)#0")
		if rest := CallResult(c, 0); rest != nil {
			r.FailEdge(fn, "BuildPrecertTBS", EdgeSpec{Name: "trailing-bytes", Atom: ordAtomR("len("+r.D.D(rest)+")", "0"), Bad: ">", Want: wantErr(true)})
		}
	}
	r.ErrorsGate(fn, "BuildPrecertTBS:errors", "x509.removeExtension", 1)
	r.ErrorsGate(fn, "BuildPrecertTBS:errors", "asn1.*", 2)
	// no CONTENT of the TBS changes without a pre-issuer.  Emptying the cached encoding
	// (`Raw = nil`) changes no content: it makes asn1.Marshal encode the fields it parsed instead
	// of copying the bytes they were parsed from — the same bytes under the round-trip assumption
	// recorded below (C03.R1, C03.R11, C10.R3/R4 carry its decidable parts).  Any other store
	// into Raw is a modification.
	r.Assume("re-marshalling a tbsCertificate that was just parsed from asn1.Marshal output and not modified reproduces those bytes (the pre-issuer route of BuildPrecertTBS relies on this in the unchanged tree already)")
	var mods []ssa.Instruction
	eachInstr(fn, func(in ssa.Instruction) {
		if st, ok := in.(*ssa.Store); ok && strings.HasPrefix(r.D.D(st.Addr), "&("+tbs+".") {
			if r.D.D(st.Addr) == "&("+tbs+".Raw)" && emptiesRaw(st.Val) {
				return
			}
			mods = append(mods, st)
		}
	})
	r.MustGuard(fn, "BuildPrecertTBS:no-preissuer-no-change", "nil?p1", "nil", mods, "modification of the TBS")
	r.ExpectStores(fn, "BuildPrecertTBS:issuer", "&("+tbs+".Issuer.FullBytes)", "p1.RawIssuer", 1)
	// CT EKU required
	ekuOK := false
	for k, ci := range r.D.AtomsOf(fn) {
		if ci.Kind == "ord" && (glob("p1.ExtKeyUsage[*]", ci.A) && ci.B == "14" || glob("p1.ExtKeyUsage[*]", ci.B) && ci.A == "14") {
			ekuOK = true
			// no element equals the CT EKU ⇒ error and no modification beyond the issuer
			for _, b := range r.blocksTesting(fn, func(c *CondInfo) bool { return c.Key == k }) {
				hdr := b.Preds[0]
				for _, v := range []string{"<", ">"} {
					reach := r.D.Walk(fn, Sigma{k: v}, hdr, nil)
					r.Valuations++
					okE := true
					for _, ret := range reachableReturns(fn, reach) {
						if errKind(ret.Results[1]) == "nil" {
							okE = false
						}
					}
					for _, m := range mods {
						if reach.Has(m) && !glob("*Issuer.FullBytes)", r.D.D(m.(*ssa.Store).Addr)) {
							okE = false
						}
					}
					r.Check("BuildPrecertTBS:preissuer-without-ct-eku["+v+"]", okE, r.Where(b.Instrs[len(b.Instrs)-1]), "a pre-issuer none of whose EKUs is CertificateTransparency ⇒ error")
				}
			}
		}
	}
	c := r.P.LookupConst("x509.ExtKeyUsageCertificateTransparency")
	r.Check("BuildPrecertTBS:ct-eku-test", ekuOK && c != nil && c.Val().ExactString() == "14", r.FnPos(fn), "the pre-issuer's ExtKeyUsage list is searched for ExtKeyUsageCertificateTransparency")

	// AKI decision table
	var keyAtKey, issKey string
	atoms := r.D.AtomsOf(fn)
	// the position tested is that of a scan of the parsed TBS's own extension list for the AKI OID
	// (other scans may record a position in the same way)
	for _, k := range keysOf(atoms) {
		ci := atoms[k]
		if ci.Kind == "ord" && ci.A == "0" && glob("phi(-1|it@*)", ci.B) {
			pos := strings.TrimSuffix(strings.TrimPrefix(ci.B, "phi(-1|"), ")")
			for _, eq := range CallsTo(fn, "(asn1.ObjectIdentifier).Equal") {
				if r.D.D(CallArgs(eq)[1]) == "g:x509.OIDExtensionAuthorityKeyId" && isLoopPos(pos) && elemTerm(r, fn, CallArgs(eq)[0]) == tbs+".Extensions["+pos+"].Id" {
					keyAtKey = k
				}
			}
		}
	}
	// the pre-issuer's AKI value is the raw Value of that element of its extension list whose
	// Id equals the AKI OID (read in place or through the per-iteration copy of a range loop);
	// it is nil when there is none
	issSrc := ""
	for _, eq := range CallsTo(fn, "(asn1.ObjectIdentifier).Equal") {
		if r.D.D(CallArgs(eq)[1]) != "g:x509.OIDExtensionAuthorityKeyId" {
			continue
		}
		src := elemTerm(r, fn, CallArgs(eq)[0])
		pos := strings.TrimSuffix(strings.TrimPrefix(src, "p1.Extensions["), "].Id")
		if !glob("p1.Extensions[it@*].Id", src) || !isLoopPos(pos) {
			continue
		}
		// taken inside the scan, when the comparison said "equal" …
		parts := []string{strings.TrimSuffix(r.D.D(CallArgs(eq)[0]), ".Id") + ".Value", "nil"}
		sort.Strings(parts)
		k := "nil?phi(" + strings.Join(parts, "|") + ")"
		if ci := atoms[k]; ci != nil && ci.Kind == "nil" {
			issKey, issSrc = k, strings.TrimSuffix(src, ".Id")+".Value"
		}
		// … or behind it, from the element at the position the scan recorded (−1: none): the
		// position is recorded exactly when the comparison said "equal"
		parts = []string{"p1.Extensions[phi(-1|" + pos + ")].Value", "nil"}
		sort.Strings(parts)
		k = "nil?phi(" + strings.Join(parts, "|") + ")"
		if ci := atoms[k]; ci != nil && ci.Kind == "nil" && c03RecordedIffMatched(r, fn, eq, "phi(-1|"+pos+")", pos) {
			issKey, issSrc = k, strings.TrimSuffix(src, ".Id")+".Value"
		}
	}
	if keyAtKey == "" || issKey == "" {
		r.Fail("BuildPrecertTBS:aki-table", r.FnPos(fn), fmt.Sprintf("undecided: AKI decision atoms not found (%q, %q)", keyAtKey, issKey))
		return
	}
	// the position replaced / removed is that of the precertificate's own AKI extension:
	// the element of the parsed TBS's extension list, at the recorded loop position, whose
	// Id is compared with the AKI OID, in a loop over the whole list
	keyPos := strings.TrimSuffix(strings.TrimPrefix(atoms[keyAtKey].B, "phi(-1|"), ")")
	okPos, whyPos := false, "no comparison of "+tbs+".Extensions["+keyPos+"].Id with the AKI OID"
	for _, eq := range CallsTo(fn, "(asn1.ObjectIdentifier).Equal") {
		if r.D.D(CallArgs(eq)[1]) == "g:x509.OIDExtensionAuthorityKeyId" && isLoopPos(keyPos) && elemTerm(r, fn, CallArgs(eq)[0]) == tbs+".Extensions["+keyPos+"].Id" {
			okPos, whyPos = loopSweeps(r, fn, keyPos, tbs+".Extensions", false)
		}
	}
	r.Check("BuildPrecertTBS:aki-position", okPos, r.FnPos(fn), "the AKI position is that of the TBS extension whose Id equals the AKI OID: "+whyPos)
	issVal := strings.TrimPrefix(issKey, "nil?")
	r.Check("BuildPrecertTBS:aki-source", issSrc != "", r.FnPos(fn), "the replacement value is the raw Value of the pre-issuer's authorityKeyIdentifier extension: "+issVal+" = "+issSrc+" or nil")
	// the replacement happens IN PLACE and changes the Value only: every store into an element of the
	// TBS's extension list is the store of the new AKI value at the recorded position, with the
	// element's Id and Critical flag (the precertificate's own) carried over
	akiElem := "phi(-1|" + keyPos + ")"
	{
		okW, whyW := true, []string{}
		for _, st := range c03ExtensionWrites(r, fn, tbs+".Extensions") {
			_, desc, ok := c03InPlace(r, st, tbs+".Extensions", akiElem, "g:x509.OIDExtensionAuthorityKeyId")
			whyW = append(whyW, desc)
			okW = okW && ok
		}
		r.Check("BuildPrecertTBS:aki-replace-value-only", okW, r.FnPos(fn), fmt.Sprintf("the only writes into elements of the TBS's extension list replace the Value of the precertificate's own AKI extension; its Id and Critical flag stay as they were: %v", whyW))
	}
	type outcome struct{ inplace, removed, appended bool }
	for _, row := range []struct {
		name       string
		keyAt, iss string
		want       outcome
	}{
		{"precert-has-aki,preissuer-has-aki", "<", "non", outcome{inplace: true}},
		{"precert-has-aki,preissuer-lacks-aki", "<", "nil", outcome{removed: true}},
		{"precert-lacks-aki,preissuer-has-aki", ">", "non", outcome{appended: true}},
		{"precert-lacks-aki,preissuer-lacks-aki", ">", "nil", outcome{}},
		{"precert-aki-first,preissuer-has-aki", "=", "non", outcome{inplace: true}},
		{"precert-aki-first,preissuer-lacks-aki", "=", "nil", outcome{removed: true}},
	} {
		s := Sigma{keyAtKey: row.keyAt, issKey: row.iss, "nil?p1": "non", "phi(false|true)": "T"}
		// the decision starts at the first test of the position (the one every other test of it comes after)
		var from *ssa.BasicBlock
		tests := r.blocksTesting(fn, func(ci *CondInfo) bool { return ci.Key == keyAtKey })
		for _, b := range tests {
			first := true
			for _, o := range tests {
				first = first && b.Dominates(o)
			}
			if first {
				from = b
			}
		}
		if from == nil {
			r.Fail("BuildPrecertTBS:aki["+row.name+"]", r.FnPos(fn), "undecided: no first test of the AKI position")
			continue
		}
		reach := r.D.Walk(fn, s, from, nil)
		r.Valuations++
		var got outcome
		detail := []string{}
		eachInstr(fn, func(in ssa.Instruction) {
			st, ok := in.(*ssa.Store)
			if !ok || !reach.Has(st) {
				return
			}
			d := r.D.D(st.Addr)
			switch {
			case strings.HasPrefix(d, "&("+tbs+".Extensions["):
				nv, desc, okIP := c03InPlace(r, st, tbs+".Extensions", akiElem, "g:x509.OIDExtensionAuthorityKeyId")
				detail = append(detail, desc)
				if okIP {
					got.inplace = nv == issVal
				} else {
					got.removed, got.appended = true, true // not a replacement of the value: never equal to an expected outcome
				}
			case d == "&("+tbs+".Extensions)":
				if _, isRem := c03IsRemoval(r, st.Val, tbs+".Extensions"); isRem {
					got.removed = true
					detail = append(detail, "removed ext[keyAt]")
				} else if call, isCall := st.Val.(*ssa.Call); isCall && CalleeOf(call) == "append" && r.D.D(call.Call.Args[0]) == tbs+".Extensions" {
					// appended element {Id: AKI, Critical: false, Value: issuerKeyID}
					okApp := false
					// (what the struct value put into the one-element argument HOLDS where it is read:
					// a literal written in this arm or hoisted and shared, Critical left at its zero
					// value or set to false)
					what := r.D.D(call.Call.Args[1])
					if sl, isSl := call.Call.Args[1].(*ssa.Slice); isSl {
						if arr, isA := sl.X.(*ssa.Alloc); isA {
							if sts := r.StoresTo(fn, "&("+r.D.allocName(arr)+"[0])"); len(sts) == 1 && c03Before(sts[0], call) {
								if e, why := c03ExtOf(r, sts[0].Val); why == "" {
									okApp = e.id == "g:x509.OIDExtensionAuthorityKeyId" && e.critical == "false" && e.value == issVal
									what = e.String()
								} else {
									what += " (contents unknown: " + why + ")"
								}
							}
						}
					}
					got.appended = okApp
					detail = append(detail, "appended "+what)
				} else {
					detail = append(detail, "Extensions ← "+r.D.D(st.Val))
					got.removed, got.appended = true, true // unknown rewrite: never equal to an expected outcome
				}
			}
		})
		r.Check("BuildPrecertTBS:aki["+row.name+"]", got == row.want, r.FnPos(fn), fmt.Sprintf("actions %v; property: in-place=%v removed=%v appended=%v", detail, row.want.inplace, row.want.removed, row.want.appended))
	}
}

func c03Siblings(r *Run) {
	a := r.Fn("ct.MerkleTreeLeafFromChain")
	b := r.Fn("ct.MerkleTreeLeafForEmbeddedSCT")
	if a == nil || b == nil {
		return
	}
	// what the leaf handed back holds — read off the object the success return yields, however
	// it is put together (field assignments, one literal, a shared constructor)
	successLeaf := func(fn *ssa.Function, s Sigma, key string) (*Reach, *ssa.Return) {
		reach := r.D.Walk(fn, s, nil, nil)
		r.Valuations++
		var ret *ssa.Return
		n := 0
		for _, rt := range reachableReturns(fn, reach) {
			if errKind(rt.Results[1]) == "nil" {
				ret = rt
				n++
			}
		}
		if n != 1 {
			r.Fail(key, r.FnPos(fn), fmt.Sprintf("undecided: %d success returns", n))
			return nil, nil
		}
		return reach, ret
	}
	// embedded route
	if reach, ret := successLeaf(b, Sigma{}, "embedded:leaf"); ret != nil {
		leaf := ret.Results[0]
		r.ExpectBuilt(b, "embedded:EntryType", reach, ret, leaf, "TimestampedEntry.EntryType", "1")
		r.ExpectBuilt(b, "embedded:Timestamp", reach, ret, leaf, "TimestampedEntry.Timestamp", "p1")
		r.ExpectBuilt(b, "embedded:IssuerKeyHash", reach, ret, leaf, "TimestampedEntry.PrecertEntry.IssuerKeyHash", "sha256.Sum256(p0[1].RawSubjectPublicKeyInfo)")
		r.ExpectBuilt(b, "embedded:TBSCertificate", reach, ret, leaf, "TimestampedEntry.PrecertEntry.TBSCertificate", "x509.RemoveSCTList(p0[0].RawTBSCertificate)#0")
		r.ExpectBuilt(b, "embedded:Version", reach, ret, leaf, "Version", "0")
		r.ExpectBuilt(b, "embedded:LeafType", reach, ret, leaf, "LeafType", "0")
	}
	r.ErrorsGate(b, "embedded:errors", "x509.RemoveSCTList", 1)
	r.FailEdge(b, "embedded", EdgeSpec{Name: "no-issuer", Atom: ordAtomR("len(p0)", "2"), Bad: "<", Want: wantErr(true)})
	// precert route (the pre-issuer correlation itself is C01.R7)
	if reach, ret := successLeaf(a, Sigma{"ord(0, p1)": "<", "ord(1, p1)": "="}, "precert:leaf"); ret != nil {
		leaf := ret.Results[0]
		r.ExpectBuilt(a, "precert:IssuerKeyHash", reach, ret, leaf, "TimestampedEntry.PrecertEntry.IssuerKeyHash", "sha256.Sum256(phi(p0[1]|p0[2]).RawSubjectPublicKeyInfo)")
		r.ExpectBuilt(a, "precert:TBSCertificate", reach, ret, leaf, "TimestampedEntry.PrecertEntry.TBSCertificate", "x509.BuildPrecertTBS(p0[0].RawTBSCertificate, phi(nil|p0[1]))#0")
		// (the requested type is 1 on this walk)
		r.ExpectBuilt(a, "precert:EntryType", reach, ret, leaf, "TimestampedEntry.EntryType", "1 || p1")
		r.ExpectBuilt(a, "precert:Timestamp", reach, ret, leaf, "TimestampedEntry.Timestamp", "p2")
	}
	if sum := r.OneCall(a, "precert:Sum256", "sha256.Sum256"); sum != nil {
		for _, c := range []struct{ pi, want string }{{"T", "p0[2].RawSubjectPublicKeyInfo"}, {"F", "p0[1].RawSubjectPublicKeyInfo"}} {
			got := r.ArgUnder(a, sum, 0, Sigma{"ct.IsPreIssuer(p0[1])": c.pi})
			r.Check("precert:final-issuer[IsPreIssuer="+c.pi+"]", got == c.want, r.Where(sum), "issuer key hash over "+got+" (want "+c.want+")")
		}
	}
}

// createLeafInputs names the inputs of ctutil.createLeaf by what its callers hand over: the chain,
// the SCT and the embedded flag of VerifySCTWithVerifier (LeafHash, the other caller, must hand
// its own chain / SCT / flag to the same inputs).  Independent of the packaging of the
// parameter list (three parameters, or one struct built at each call).
func createLeafInputs(r *Run, key string, callers int) map[string]string {
	order := []string{"chain", "sct", "embedded"}
	var in map[string]string
	for _, c := range []struct {
		fn   string
		want map[string]string
	}{
		{"ctutil.VerifySCTWithVerifier", map[string]string{"chain": "p1", "sct": "p2", "embedded": "p3"}},
		{"ctutil.LeafHash", map[string]string{"chain": "p0", "sct": "p1", "embedded": "p2"}},
	}[:callers] {
		fn := r.Fn(c.fn)
		if fn == nil {
			return nil
		}
		call := r.OneCall(fn, key+"@"+short(c.fn), "ctutil.createLeaf")
		if call == nil {
			return nil
		}
		got, ok := r.roles(r.bindCall(call), key+"@"+short(c.fn), order, c.want)
		if !ok {
			return nil
		}
		if in == nil {
			in = got
			continue
		}
		for _, role := range order {
			if !r.Check(key+"@"+short(c.fn)+":same-input["+role+"]", in[role] == got[role], r.Where(call), fmt.Sprintf("%s hands its %s to the input %s of createLeaf (VerifySCTWithVerifier: %s)", c.fn, role, got[role], in[role])) {
				return nil
			}
		}
	}
	return in
}

func c03CreateLeaf(r *Run) {
	fn := r.Fn("ctutil.createLeaf")
	if fn == nil {
		return
	}
	in := createLeafInputs(r, "createLeaf:input", 2)
	if in == nil || !r.inputsReadOnly(fn, "createLeaf:inputs-read-only") {
		return
	}
	chain, sct, embedded := in["chain"], in["sct"], in["embedded"]
	// the embedded route: whatever is handed back when `embedded` is set is the leaf
	// MerkleTreeLeafForEmbeddedSCT(chain, sct.Timestamp) yields — its result, or an object holding
	// field by field what it would put there (rules_t8c03.go); the producers are the markers of
	// the gating obligations below
	slow := r.Fn("ct.MerkleTreeLeafForEmbeddedSCT")
	reg := CallsTo(fn, "ct.MerkleTreeLeafFromChain")
	con := CallsTo(fn, "ctutil.ContainsSCT")
	if slow == nil || len(reg) != 1 || len(con) != 1 {
		r.Fail("createLeaf:routes", r.FnPos(fn), "undecided: expected one call of the regular leaf constructor and of ContainsSCT")
		return
	}
	r.ExpectArg(reg[0], "createLeaf:regular.chain", 0, chain)
	r.ExpectArg(reg[0], "createLeaf:regular.timestamp", 2, sct+".Timestamp")
	r.ExpectArg(con[0], "createLeaf:contains.cert", 0, chain+"[0]")
	r.ExpectArg(con[0], "createLeaf:contains.sct", 1, sct)
	contains := "ctutil.ContainsSCT(" + chain + "[0], " + sct + ")"
	route := func(e string) Sigma {
		return Sigma{embedded: e, contains + "#0": "T", "nil?" + contains + "#1": "nil", "nil?" + sct: "non", "ord(0, len(" + chain + "))": "<"}
	}
	emb, ok := c03EmbeddedRoute(r, fn, slow, chain, sct, route("T"))
	if !ok {
		return
	}
	if regCall, isCall := reg[0].(*ssa.Call); isCall {
		c03LeafFromRegular(r, fn, regCall, route("F"))
	}
	anyEmb := func(reach *Reach) bool {
		for _, m := range emb {
			if reach.Has(m) {
				return true
			}
		}
		return false
	}
	for _, e := range []string{"T", "F"} {
		reach := r.D.Walk(fn, route(e), nil, nil)
		r.Valuations++
		r.Check("createLeaf:route[embedded="+e+"]", anyEmb(reach) == (e == "T") && reach.Has(reg[0]) == (e == "F"), r.FnPos(fn), fmt.Sprintf("embedded=%s ⇒ embedded route %v, regular route %v", e, anyEmb(reach), reach.Has(reg[0])))
	}
	for name, s := range map[string]Sigma{
		"embedded-needs-containment": {embedded: "T", contains + "#0": "F"},
		"containment-error":          {embedded: "T", "nil?" + contains + "#1": "non"},
	} {
		reach := r.D.Walk(fn, s, nil, nil)
		r.Valuations++
		where := r.FnPos(fn)
		if len(emb) > 0 {
			where = r.Where(emb[0])
		}
		r.Check("createLeaf:"+name, !anyEmb(reach) && reach.Has(con[0]), where, fmt.Sprintf("under %s the embedded-route leaf is not built", s))
	}
	for _, p := range []string{"T", "F"} {
		got := r.ArgUnder(fn, reg[0], 1, Sigma{"(*x509.Certificate).IsPrecertificate(" + chain + "[0])": p, embedded: "F"})
		want := map[string]string{"T": "1", "F": "0"}[p]
		r.Check("createLeaf:regular.type[isPrecert="+p+"]", got == want, r.Where(reg[0]), "entry type "+got+" (want "+want+")")
	}
	if c := r.Fn("ctutil.ContainsSCT"); c != nil {
		eq := CallsTo(c, "bytes.Equal")
		r.Check("ContainsSCT:compare", len(eq) == 1, r.FnPos(c), "one comparison per list element")
		if len(eq) == 1 {
			// (the encoding may sit in a variable that is assigned once and only read afterwards,
			// e.g. because a closure captures it)
			a0, a1 := heldTerm(r, CallArgs(eq[0])[0]), heldTerm(r, CallArgs(eq[0])[1])
			elem := func(v ssa.Value) bool {
				if glob("p0.SCTList.SCTList[it@*].Val", r.D.D(v)) {
					return true
				}
				if a := baseAlloc(v); a != nil && strings.HasSuffix(r.D.D(v), ".Val") {
					for _, st := range r.StoresTo(c, r.D.allocName(a)) {
						if glob("p0.SCTList.SCTList[it@*]", r.D.D(st.Val)) {
							return true
						}
					}
				}
				return false
			}
			okc := (a0 == "tls.Marshal(*p1)#0" && elem(CallArgs(eq[0])[1])) || (a1 == "tls.Marshal(*p1)#0" && elem(CallArgs(eq[0])[0]))
			r.Check("ContainsSCT:operands", okc, r.Where(eq[0]), "compares "+a0+" with "+a1)
			// once an element compared equal, every return that can still execute yields (true, nil):
			// the result is read as it is on the walks that start at the comparison with the
			// comparison true (a result variable merged from "found" and "not found" exits holds
			// true on those walks exactly when every way from the match to the return sets it)
			eqKey := ""
			if eqv := eq[0].Value(); eqv != nil {
				eqKey = r.D.Classify(eqv).Key
			}
			r.FailEdge(c, "ContainsSCT", EdgeSpec{Name: "found", Atom: boolAtom("bytes.Equal(*)"), Bad: "T", Want: func(r *Run, ret *ssa.Return) (bool, string) {
				d := r.D.D(ret.Results[0])
				if d != "true" && eqKey != "" {
					if u := resultAfter(r, c, ret, 0, eqKey, "T"); u != "" {
						d = u
					}
				}
				return d == "true" && errKind(ret.Results[1]) == "nil", "returns " + d
			}})
		}
		r.ErrorsGate(c, "ContainsSCT:errors", "tls.Marshal", 1)
	}
}

func c03SCTList(r *Run) {
	// writer
	if fn := r.Fn("x509util.MarshalSCTsIntoSCTList"); fn != nil {
		for _, ret := range Returns(fn) {
			if errKind(ret.Results[1]) == "nil" {
				a := baseAlloc(ret.Results[0])
				r.Check("writer:list-type", a != nil && TypeName(a.Type().(*types.Pointer).Elem()) == "x509.SignedCertificateTimestampList", r.Where(ret), "builds a x509.SignedCertificateTimestampList")
			}
		}
		c03WriterElements(r, fn)
		r.ErrorsGate(fn, "writer:errors", "tls.Marshal", 1)
	}
	if fn := r.Fn("submission.ASN1MarshalSCTs"); fn != nil {
		if c := r.OneCall(fn, "writer:tls", "tls.Marshal"); c != nil {
			r.ExpectArg(c, "writer:tls.list", 0, "*x509util.MarshalSCTsIntoSCTList(*)#0")
		}
		if c := r.OneCall(fn, "writer:asn1", "asn1.Marshal"); c != nil {
			r.ExpectArg(c, "writer:asn1.octets", 0, "tls.Marshal(*)#0")
			r.Check("writer:asn1.type", TypeName(CallArgs(c)[0].(*ssa.MakeInterface).X.Type()) == "[]byte", r.Where(c), "the TLS-encoded list is wrapped as an ASN.1 OCTET STRING ([]byte)")
		}
		r.ErrorsGateTail(fn, "writer:errors", "*Marshal*", 3)
	}
	// reader: parseCertificate decodes Value → []byte (RawSCT) → SignedCertificateTimestampList
	if fn := r.Fn("x509.parseCertificate"); fn != nil {
		okA, okT := false, false
		for _, c := range CallsTo(fn, "asn1.Unmarshal") {
			if glob("&(new:x509.Certificate#0.RawSCT)", r.D.D(CallArgs(c)[1])) {
				okA = true
				if rest := CallResult(c, 0); rest == nil {
					r.Fail("reader:asn1.trailing", r.Where(c), "remainder discarded")
				} else {
					found := false
					for k := range r.D.AtomsOf(fn) {
						if glob("ord(0, len("+r.D.D(rest)+"))", k) {
							found = true
						}
					}
					r.Check("reader:asn1.trailing", found, r.Where(c), "trailing data after the ASN.1 OCTET STRING is tested")
				}
			}
		}
		for _, c := range CallsTo(fn, "tls.Unmarshal") {
			if glob("&(new:x509.Certificate#0.SCTList)", r.D.D(CallArgs(c)[1])) && r.D.D(CallArgs(c)[0]) == "new:x509.Certificate#0.RawSCT" {
				okT = true
			}
		}
		r.Check("reader:asn1-octets", okA, r.FnPos(fn), "extension value is ASN.1-decoded into RawSCT ([]byte)")
		r.Check("reader:tls-list", okT, r.FnPos(fn), "RawSCT is TLS-decoded into SCTList (x509.SignedCertificateTimestampList)")
	}
	// types agree
	f1 := r.P.LookupField("x509.Certificate.SCTList")
	f2 := r.P.LookupField("x509.Certificate.RawSCT")
	r.Check("types:SCTList", f1 != nil && TypeName(f1.Type()) == "x509.SignedCertificateTimestampList", "-", "Certificate.SCTList has the writer's list type")
	r.Check("types:RawSCT", f2 != nil && TypeName(f2.Type()) == "[]byte", "-", "Certificate.RawSCT is []byte (OCTET STRING)")
}

// ---- loop positions and elements (shared by C03.R2 / C03.R9) --------------------

// phiLeaf is one value flowing into a φ-web, with the φ and edge it enters through.
type phiLeaf struct {
	v    ssa.Value
	phi  *ssa.Phi
	edge int
}

// loopPosLeaves follows a φ-web down to its incoming values, treating a loop
// counter (induction φ) as a value of its own rather than as a merge of its
// start and step: the position of the loop, whichever way the loop is written.
func loopPosLeaves(ph *ssa.Phi) []phiLeaf {
	var out []phiLeaf
	seen := map[*ssa.Phi]bool{}
	var visit func(p *ssa.Phi)
	visit = func(p *ssa.Phi) {
		if seen[p] {
			return
		}
		seen[p] = true
		for i, e := range p.Edges {
			if q, ok := e.(*ssa.Phi); ok && !isInduction(q) {
				visit(q)
				continue
			}
			out = append(out, phiLeaf{e, p, i})
		}
	}
	visit(ph)
	return out
}

// isLoopPos: the term is exactly a loop position it@N.
func isLoopPos(d string) bool {
	if !strings.HasPrefix(d, "it@") || len(d) == 3 {
		return false
	}
	for _, c := range d[3:] {
		if c < '0' || c > '9' {
			return false
		}
	}
	return true
}

// elemTerm renders the place a value is read from, seeing through a
// per-iteration copy: when the value lives in a local all of whose whole-value
// stores have one origin (the variable of a range loop, or `x := xs[i]`), that
// origin replaces the local in the term.  &xs[i] and &x with x := xs[i] thus
// both render xs[i] (the pointee), xs[i].f and x.f both xs[i].f.
func elemTerm(r *Run, fn *ssa.Function, v ssa.Value) string {
	d := r.D.D(v)
	if in, ok := stripAddr(d); ok {
		d = in
	}
	a := baseAlloc(v)
	if a == nil {
		return d
	}
	name := r.D.allocName(a)
	if !strings.HasPrefix(d, name) {
		return d
	}
	src := ""
	for _, st := range r.StoresTo(fn, name) {
		s := r.D.D(st.Val)
		if src != "" && s != src {
			return d
		}
		src = s
	}
	if src == "" {
		return d
	}
	// no partial update of the copy between the snapshot and the use
	for _, st := range r.StoresTo(fn, "&("+name+".*") {
		_ = st
		return d
	}
	return src + d[len(name):]
}

// loopSweeps decides whether the loop with position term pos (it@N) visits every
// index 0 … len(list)−1 exactly once: in ascending order, or — when backward is
// allowed — in descending order.  A range loop does so by construction of its
// lowering; an index loop must start at 0 (len−1), step by +1 (−1) on every way
// round and stay in the loop exactly while pos < len(list) (pos ≥ 0).
func loopSweeps(r *Run, fn *ssa.Function, pos, list string, backward bool) (bool, string) {
	n, err := parseInt(strings.TrimPrefix(pos, "it@"))
	if err != nil || n < 0 || int(n) >= len(fn.Blocks) {
		return false, "undecided: no loop header for " + pos
	}
	hdr := fn.Blocks[n]
	var ctr *ssa.Phi
	for _, in := range hdr.Instrs {
		if p, ok := in.(*ssa.Phi); ok && isInduction(p) {
			if d := r.D.D(p); d == pos || (isRangePre(p) && d == "(-1 + "+pos+")") {
				if ctr != nil {
					return false, "undecided: two counters in the loop header"
				}
				ctr = p
			}
		}
	}
	if ctr == nil || len(hdr.Instrs) == 0 {
		return false, "undecided: counter of " + pos + " not found"
	}
	ifi, ok := hdr.Instrs[len(hdr.Instrs)-1].(*ssa.If)
	if !ok || !blockReachesBlock(hdr.Succs[0], hdr) || blockReachesBlock(hdr.Succs[1], hdr) {
		return false, "undecided: the loop header does not decide between body and exit"
	}
	ci := r.D.Classify(ifi.Cond)
	lenT := "len(" + list + ")"
	// ascending: pos < len(list)
	asc := ci.Kind == "ord" && ((ci.A == pos && ci.B == lenT && ci.True["<"] && !ci.True["="]) || (ci.A == lenT && ci.B == pos && ci.True[">"] && !ci.True["="]))
	// descending: pos >= 0 (0 <= pos, −1 < pos)
	desc := ci.Kind == "ord" && ((ci.A == "0" && ci.B == pos && ci.True["<"] && ci.True["="] && !ci.True[">"]) || (ci.A == "-1" && ci.B == pos && ci.True["<"] && !ci.True["="] && !ci.True[">"]))
	if isRangePre(ctr) {
		if asc {
			return true, "range over " + list
		}
		return false, "the loop ranges over something else: " + ci.Key
	}
	step, start := int64(0), ""
	for _, e := range ctr.Edges {
		if b, isB := e.(*ssa.BinOp); isB && b.X == ssa.Value(ctr) {
			c, isC := r.D.Lin(b.Y, nil).isConst()
			if !isC {
				return false, "undecided: step " + r.D.D(e)
			}
			if b.Op == token.SUB {
				c = -c
			}
			if step != 0 && step != c {
				return false, "the counter advances by different steps"
			}
			step = c
			continue
		}
		s := r.D.Lin(e, nil).String()
		if start != "" && s != start {
			return false, "the counter has different starting values"
		}
		start = s
	}
	switch {
	case asc && step == 1 && start == "+0":
		return true, "index loop 0 … " + lenT + "−1"
	case backward && desc && step == -1 && start == "+"+lenT+" -1":
		return true, "index loop " + lenT + "−1 … 0"
	}
	return false, fmt.Sprintf("counter starts at %s, steps by %d, continues while %s %v", start, step, ci.Key, keysOfBool(ci.True))
}

func keysOfBool(m map[string]bool) []string {
	var out []string
	for _, k := range []string{"<", "=", ">", "T", "F", "nil", "non"} {
		if m[k] {
			out = append(out, k)
		}
	}
	return out
}
