package main

import (
	"fmt"
	"sort"
	"strings"

	"golang.org/x/tools/go/ssa"
)

// Lax/strict decision tables (an application of E1 PSR).
//
// For a function with a boolean mode flag, every valuation σ of *all other*
// branch atoms of the function is enumerated; for each σ the function is walked
// twice, with the flag false (strict) and true (lax), and the outcomes — the
// returns that may execute, with the origin of each result restricted to the
// walk and the nil-status of the error result — are recorded side by side.
// Rules then state, per row, what the property allows the flag to change.

type laxOutcome struct {
	Kind string // "nil" (accepts), "non" (rejects), "dyn" (error value decided elsewhere)
	Text string // results as origin terms under the walk + kind
}

type laxRow struct {
	Named  map[string]string // rule-level values of the named atoms
	Sigma  Sigma
	Strict []laxOutcome
	Lax    []laxOutcome
}

func (row laxRow) has(list []laxOutcome, text string) bool {
	for _, o := range list {
		if o.Text == text {
			return true
		}
	}
	return false
}

func laxOutcomesEqual(a, b []laxOutcome) bool {
	if len(a) != len(b) {
		return false
	}
	for i := range a {
		if a[i].Text != b[i].Text {
			return false
		}
	}
	return true
}

// errKindUnder classifies an error value as it is when σ holds.
func (r *Run) laxErrKindUnder(v ssa.Value, reach *Reach, s Sigma) string {
	if val, ok := s["nil?"+r.D.D(v)]; ok {
		return val
	}
	if ph, ok := v.(*ssa.Phi); ok {
		k := ""
		for i, e := range ph.Edges {
			if !reach.Edges[[2]int{ph.Block().Preds[i].Index, ph.Block().Index}] {
				continue
			}
			ek := r.laxErrKindUnder(e, reach, s)
			if k == "" {
				k = ek
			} else if k != ek {
				return "dyn"
			}
		}
		if k == "" {
			return "dyn"
		}
		return k
	}
	return errKind(v)
}

func (r *Run) laxOutcomesUnder(fn *ssa.Function, s Sigma) []laxOutcome {
	reach := r.D.Walk(fn, s, nil, nil)
	r.Valuations++
	var out []laxOutcome
	seen := map[string]bool{}
	for _, ret := range reachableReturns(fn, reach) {
		n := len(ret.Results)
		if n == 0 {
			continue
		}
		k := r.laxErrKindUnder(ret.Results[n-1], reach, s)
		var parts []string
		for _, v := range ret.Results[:n-1] {
			parts = append(parts, r.D.DUnder(v, reach))
		}
		errText := k
		if k != "nil" {
			errText = k + ":" + r.D.DUnder(ret.Results[n-1], reach)
		}
		o := laxOutcome{Kind: k, Text: "(" + strings.Join(append(parts, errText), ", ") + ")"}
		if !seen[o.Text] {
			seen[o.Text] = true
			out = append(out, o)
		}
	}
	sort.Slice(out, func(i, j int) bool { return out[i].Text < out[j].Text })
	return out
}

// LaxRows enumerates the table.  flagKey is the atom key of the mode flag
// (a bool atom); named atoms are bound by glob as in Describer.Table.
func (r *Run) LaxRows(fn *ssa.Function, flagKey string, named []RuleAtom) ([]laxRow, error) {
	found := r.D.AtomsOf(fn)
	if ci, ok := found[flagKey]; !ok || ci.Kind != "bool" {
		return nil, fmt.Errorf("no branch of %s tests the mode flag %s", FuncName(fn), flagKey)
	}
	var keys []string
	for k := range found {
		if k != flagKey {
			keys = append(keys, k)
		}
	}
	sort.Strings(keys)
	type binding struct {
		name    string
		flipped bool
	}
	bind := map[string]binding{}
	for _, a := range named {
		n := 0
		for _, k := range keys {
			ci := found[k]
			if a.OrdA != "" {
				if ci.Kind != "ord" {
					continue
				}
				if glob(a.OrdA, ci.A) && glob(a.OrdB, ci.B) {
					bind[k] = binding{a.Name, false}
					n++
				} else if glob(a.OrdA, ci.B) && glob(a.OrdB, ci.A) {
					bind[k] = binding{a.Name, true}
					n++
				}
			} else if glob(a.Pat, k) {
				bind[k] = binding{a.Name, false}
				n++
			}
		}
		if n != 1 {
			return nil, fmt.Errorf("named atom %s (%s%s~%s) binds %d branch conditions of %s, expected 1", a.Name, a.Pat, a.OrdA, a.OrdB, n, FuncName(fn))
		}
	}
	total := 1
	for _, k := range keys {
		total *= len(domains[found[k].Kind])
		if total > 60000 {
			return nil, fmt.Errorf("%s: more than 60000 valuations", FuncName(fn))
		}
	}
	var rows []laxRow
	idx := make([]int, len(keys))
	for {
		s := Sigma{}
		namedVal := map[string]string{}
		for i, k := range keys {
			v := domains[found[k].Kind][idx[i]]
			s[k] = v
			if b, ok := bind[k]; ok {
				if b.flipped {
					switch v {
					case "<":
						v = ">"
					case ">":
						v = "<"
					}
				}
				namedVal[b.name] = v
			}
		}
		row := laxRow{Named: namedVal, Sigma: s}
		for _, mode := range []string{"F", "T"} {
			s2 := Sigma{flagKey: mode}
			for k, v := range s {
				s2[k] = v
			}
			o := r.laxOutcomesUnder(fn, s2)
			if mode == "F" {
				row.Strict = o
			} else {
				row.Lax = o
			}
		}
		rows = append(rows, row)
		i := 0
		for ; i < len(idx); i++ {
			idx[i]++
			if idx[i] < len(domains[found[keys[i]].Kind]) {
				break
			}
			idx[i] = 0
		}
		if i == len(idx) {
			break
		}
	}
	return rows, nil
}

// LaxSpec states what the property allows the flag to change in one function.
type LaxSpec struct {
	Named []RuleAtom
	// MayDiffer: rows in which strict and lax outcomes may differ at all.
	MayDiffer func(v map[string]string) bool
	// MayAccept: rows in which lax may produce a non-rejecting outcome that strict does not produce.
	MayAccept func(v map[string]string) bool
	Doc       string // the documented relaxation, for messages
}

// CheckLaxTable records the monotonicity obligations of one function.
func (r *Run) CheckLaxTable(fn *ssa.Function, key, flagKey string, sp LaxSpec) {
	rows, err := r.LaxRows(fn, flagKey, sp.Named)
	if err != nil {
		r.Fail(key, r.FnPos(fn), "undecided: "+err.Error())
		return
	}
	type verdict struct {
		ok     bool
		detail string
	}
	v := map[string]*verdict{"accepts-preserved": {true, ""}, "no-new-rejection": {true, ""}, "differs-only-when-documented": {true, ""}, "accepts-only-documented": {true, ""}}
	fail := func(name, d string) {
		if v[name].ok {
			v[name].ok, v[name].detail = false, d
		}
	}
	relaxed := 0
	for _, row := range rows {
		hasRej := func(l []laxOutcome, strictOnly bool) bool {
			for _, o := range l {
				if o.Kind == "non" || (!strictOnly && o.Kind == "dyn") {
					return true
				}
			}
			return false
		}
		for _, o := range row.Strict {
			if o.Kind == "nil" && !row.has(row.Lax, o.Text) {
				fail("accepts-preserved", fmt.Sprintf("under %s strict mode returns %s but lax mode only %v", row.Sigma, o.Text, row.Lax))
			}
		}
		if hasRej(row.Lax, true) && !hasRej(row.Strict, false) {
			fail("no-new-rejection", fmt.Sprintf("under %s lax mode rejects %v while strict mode accepts %v", row.Sigma, row.Lax, row.Strict))
		}
		if !laxOutcomesEqual(row.Strict, row.Lax) && !sp.MayDiffer(row.Named) {
			fail("differs-only-when-documented", fmt.Sprintf("under %s the flag changes the outcome (%v vs %v) outside the documented case: %s", row.Sigma, row.Strict, row.Lax, sp.Doc))
		}
		extra := false
		for _, o := range row.Lax {
			if o.Kind != "non" && !row.has(row.Strict, o.Text) {
				extra = true
				if !sp.MayAccept(row.Named) {
					fail("accepts-only-documented", fmt.Sprintf("under %s lax mode additionally yields %s; only allowed for: %s", row.Sigma, o.Text, sp.Doc))
				}
			}
		}
		if extra && sp.MayAccept(row.Named) {
			relaxed++
		}
	}
	for _, name := range keysOf(v) {
		d := v[name].detail
		if v[name].ok {
			d = fmt.Sprintf("holds in all %d rows (each row = one valuation of every other branch atom, walked with %s=F and =T); relaxation: %s", len(rows), flagKey, sp.Doc)
		}
		r.Check(key+":"+name, v[name].ok, r.FnPos(fn), d)
	}
	r.Check(key+":relaxation-present", relaxed > 0, r.FnPos(fn), fmt.Sprintf("%d rows in which lax mode accepts what strict mode rejects (positive control: %s)", relaxed, sp.Doc))
}
