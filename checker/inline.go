package main

// Source-level normaliser: inlining of helper functions the rule tables do not know.
//
// The rule tables were confirmed against a named set of functions (the baseline
// list, baseline_funcs.txt, regenerated with `ctverif baseline`).  A change that
// moves part of an anchored function into a NEW unexported helper of the same
// package leaves behaviour unchanged but hides the moved statements from every
// intraprocedural rule.  Before the tree is loaded for analysis, calls to such
// unknown helpers are therefore expanded in place (go/packages Overlay; /repo is
// never modified).  Inlining is a semantics-preserving program transformation,
// so deciding the rules on the expanded program is as sound as deciding them on
// the original; when a helper or a call site is outside the supported subset it
// is simply left alone (the rules then see the call, as before).
//
// Supported: direct calls f(args) / recv.f(args) of a non-variadic, non-generic,
// non-recursive function without defer/recover, where the call is (a) a whole
// statement, (b) the only right-hand side of an assignment / var declaration /
// return, or (c) a single-valued operand that is evaluated before anything
// with an effect in its statement (so that hoisting it keeps evaluation order);
// init clauses of if/switch/for are first moved into an enclosing block.
// Expansion of  x, err := f(a, b) :
//
//	var r0 T0; var r1 T1
//	{ var p0 P0 = a; var p1 P1 = b
//	  L: for { <body with `return e0, e1` → `r0, r1 = e0, e1; break L`>; break L } }
//	x, err := r0, r1

import (
	"bytes"
	"crypto/sha256"
	_ "embed"
	"encoding/hex"
	"fmt"
	"go/ast"
	"go/format"
	"go/parser"
	"go/token"
	"go/types"
	"os"
	"path/filepath"
	"reflect"
	"regexp"
	"sort"
	"strings"

	"golang.org/x/tools/go/ast/astutil"
	"golang.org/x/tools/go/packages"
)

//go:embed baseline_funcs.txt
var baselineFuncsTxt string

//go:embed baseline_files.txt
var baselineFilesTxt string

// scanDirs, when non-nil, restricts the normaliser to the directories whose
// source files differ from the confirmed tree (by content hash).
var scanDirs map[string]bool

func walkSources(root string, f func(path, rel string)) {
	filepath.Walk(root, func(path string, fi os.FileInfo, err error) error {
		if err != nil {
			return nil
		}
		name := fi.Name()
		if fi.IsDir() {
			if path != root && (strings.HasPrefix(name, ".") || strings.HasPrefix(name, "_") || name == "testdata" || name == "vendor") {
				return filepath.SkipDir
			}
			return nil
		}
		if !strings.HasSuffix(name, ".go") || strings.HasSuffix(name, "_test.go") {
			return nil
		}
		rel, _ := filepath.Rel(root, filepath.Dir(path))
		f(path, filepath.ToSlash(rel))
		return nil
	})
}

func fileHash(path string) string {
	b, err := os.ReadFile(path)
	if err != nil {
		return ""
	}
	h := sha256.Sum256(b)
	return hex.EncodeToString(h[:8])
}

func writeBaselineFiles(root string) string {
	var lines []string
	walkSources(root, func(path, rel string) {
		lines = append(lines, rel+"/"+filepath.Base(path)+"\t"+fileHash(path))
	})
	sort.Strings(lines)
	return "# content hashes of the source files of the confirmed tree (ctverif baseline)\n" + strings.Join(lines, "\n") + "\n"
}

// changedDirs lists the directories with a source file that is new, gone or different.
func changedDirs(root string) map[string]bool {
	base := map[string]string{}
	for _, l := range strings.Split(baselineFilesTxt, "\n") {
		if l == "" || strings.HasPrefix(l, "#") {
			continue
		}
		p, h, _ := strings.Cut(l, "\t")
		base[p] = h
	}
	out := map[string]bool{}
	seen := map[string]bool{}
	walkSources(root, func(path, rel string) {
		k := rel + "/" + filepath.Base(path)
		seen[k] = true
		if base[k] != fileHash(path) {
			out[rel] = true
		}
	})
	for k := range base {
		if !seen[k] {
			out[filepath.ToSlash(filepath.Dir(k))] = true
		}
	}
	return out
}

// baselineSigs: funcKey → signature text (sigText) of the confirmed tree.
var baselineSigs = map[string]string{}

// baselinePrints: funcKey → fingerprint of the body (bodyPrint) of the confirmed tree.
var baselinePrints = map[string]string{}

// bodyPrint is a cheap fingerprint of a function body: the sorted set of the
// names it calls and of its string literals.  It only breaks ties between
// renamed functions that share receiver and signature.
func bodyPrint(fd *ast.FuncDecl) string {
	if fd.Body == nil {
		return ""
	}
	set := map[string]bool{}
	ast.Inspect(fd.Body, func(n ast.Node) bool {
		switch x := n.(type) {
		case *ast.CallExpr:
			switch f := x.Fun.(type) {
			case *ast.Ident:
				set[f.Name] = true
			case *ast.SelectorExpr:
				set["."+f.Sel.Name] = true
			}
		case *ast.BasicLit:
			if x.Kind == token.STRING && len(x.Value) < 40 {
				set[x.Value] = true
			}
		}
		return true
	})
	var ks []string
	for k := range set {
		ks = append(ks, strings.ReplaceAll(k, "\t", " "))
	}
	sort.Strings(ks)
	return strings.Join(ks, ",")
}

// baselineSpecs: funcKey → "recvName recvType|name type;name type;…" (paramSpec) of the confirmed tree.
var baselineSpecs = map[string]string{}

// paramSpec renders receiver and parameters with their names: "li *logInfo|ctx context.Context;req *http.Request".
func paramSpec(fd *ast.FuncDecl) string {
	typ := func(e ast.Expr) string {
		var tb bytes.Buffer
		format.Node(&tb, token.NewFileSet(), e)
		return strings.Join(strings.Fields(tb.String()), " ")
	}
	recv := ""
	if fd.Recv != nil && len(fd.Recv.List) == 1 {
		n := "_"
		if len(fd.Recv.List[0].Names) == 1 {
			n = fd.Recv.List[0].Names[0].Name
		}
		recv = n + " " + typ(fd.Recv.List[0].Type)
	}
	var ps []string
	if fd.Type.Params != nil {
		for _, f := range fd.Type.Params.List {
			if len(f.Names) == 0 {
				ps = append(ps, "_ "+typ(f.Type))
			}
			for _, n := range f.Names {
				ps = append(ps, n.Name+" "+typ(f.Type))
			}
		}
	}
	return recv + "|" + strings.Join(ps, ";")
}

var baselineFuncs = func() map[string]bool {
	m := map[string]bool{}
	for _, l := range strings.Split(baselineFuncsTxt, "\n") {
		if l = strings.TrimSpace(l); l != "" && !strings.HasPrefix(l, "#") {
			k, rest, _ := strings.Cut(l, "\t")
			sig, rest2, _ := strings.Cut(rest, "\t")
			spec, fp, _ := strings.Cut(rest2, "\t")
			m[k] = true
			baselineSigs[k] = sig
			baselineSpecs[k] = spec
			baselinePrints[k] = fp
		}
	}
	return m
}()

// sigText renders parameter and result types of a declaration (names dropped).
func sigText(fd *ast.FuncDecl) string {
	var sb strings.Builder
	list := func(fl *ast.FieldList) {
		sb.WriteString("(")
		if fl != nil {
			first := true
			for _, f := range fl.List {
				n := len(f.Names)
				if n == 0 {
					n = 1
				}
				var tb bytes.Buffer
				format.Node(&tb, token.NewFileSet(), f.Type)
				for i := 0; i < n; i++ {
					if !first {
						sb.WriteString(",")
					}
					first = false
					sb.WriteString(strings.Join(strings.Fields(tb.String()), " "))
				}
			}
		}
		sb.WriteString(")")
	}
	list(fd.Type.Params)
	list(fd.Type.Results)
	return sb.String()
}

// funcKey identifies a declared function independent of build configuration:
// "<dir relative to the module root>:<receiver base type>.<name>".
func funcKey(relDir string, fd *ast.FuncDecl) string {
	recv := ""
	if fd.Recv != nil && len(fd.Recv.List) == 1 {
		t := fd.Recv.List[0].Type
		for {
			switch x := t.(type) {
			case *ast.StarExpr:
				t = x.X
				continue
			case *ast.ParenExpr:
				t = x.X
				continue
			case *ast.IndexExpr:
				t = x.X
				continue
			case *ast.IndexListExpr:
				t = x.X
				continue
			}
			break
		}
		if id, ok := t.(*ast.Ident); ok {
			recv = id.Name
		}
	}
	return relDir + ":" + recv + "." + fd.Name.Name
}

// scanFuncs parses every non-test Go file of the module (no type checking) and
// calls f for each function declaration.
func scanFuncs(root string, f func(relDir, file string, fd *ast.FuncDecl)) error {
	fset := token.NewFileSet()
	return filepath.Walk(root, func(path string, fi os.FileInfo, err error) error {
		if err != nil {
			return nil
		}
		name := fi.Name()
		if fi.IsDir() {
			if path != root && (strings.HasPrefix(name, ".") || strings.HasPrefix(name, "_") || name == "testdata" || name == "vendor") {
				return filepath.SkipDir
			}
			return nil
		}
		if !strings.HasSuffix(name, ".go") || strings.HasSuffix(name, "_test.go") {
			return nil
		}
		af, perr := parser.ParseFile(fset, path, nil, parser.SkipObjectResolution)
		if perr != nil || af == nil {
			return nil // the loader reports syntax errors
		}
		rel, _ := filepath.Rel(root, filepath.Dir(path))
		for _, d := range af.Decls {
			if fd, ok := d.(*ast.FuncDecl); ok {
				f(filepath.ToSlash(rel), path, fd)
			}
		}
		return nil
	})
}

// writeBaseline prints the baseline list of the tree at root.
func writeBaseline(root string) string {
	var keys []string
	scanFuncs(root, func(rel, _ string, fd *ast.FuncDecl) {
		keys = append(keys, funcKey(rel, fd)+"\t"+sigText(fd)+"\t"+paramSpec(fd)+"\t"+bodyPrint(fd))
	})
	sort.Strings(keys)
	return "# functions of the tree the rule tables were confirmed against (ctverif baseline); one per line\n" + strings.Join(keys, "\n") + "\n"
}

// InlineNote describes what the normaliser did (recorded in the evidence).
type InlineNote struct {
	Helpers  []string // unknown helpers found
	Inlined  []string // "<helper> into <caller>" expansions
	Skipped  []string // "<helper>: reason" / "<call site>: reason"
	Removed  []string // helper declarations dropped (no reference left)
	Renamed  []string // "<new key> → <confirmed key>": renames of unexported functions undone
	Reshaped []string // signatures of unexported functions put back (parameter order, method ↔ function)
	Modelled []string // library calls replaced by their defining loops (slices.Contains, builtin min, …)
}

// buildInlineOverlay returns the overlay (absolute file name → content) that
// expands calls to unknown helpers, or nil when there is nothing to do.
func buildInlineOverlay(root string, env []string) (map[string][]byte, *InlineNote) {
	if os.Getenv("CTVERIF_NOINLINE") != "" {
		return nil, nil
	}
	scanDirs = nil
	if os.Getenv("CTVERIF_INLINE_ALL") == "" {
		scanDirs = changedDirs(root)
		if len(scanDirs) == 0 {
			return nil, nil // every source file is the confirmed one
		}
	}
	note := &InlineNote{}
	overlay := map[string][]byte{}
	inlineSeq, modelSeq = 0, 0
	renamesBack(root, env, overlay, note)
	for i := 0; i < 8; i++ { // one re-shaping may enable the next (a struct handed on to a callee that folds it too)
		n := len(note.Reshaped)
		signatureBack(root, env, overlay, note)
		if len(note.Reshaped) == n {
			break
		}
	}
	modelLibrary(root, env, overlay, note)
	inlineRounds(root, env, overlay, note)
	// a re-shaping can wait for an expansion (a method called on a folded parameter group): once more
	for i := 0; i < 4; i++ {
		n := len(note.Reshaped)
		signatureBack(root, env, overlay, note)
		if len(note.Reshaped) == n {
			break
		}
		inlineRounds(root, env, overlay, note)
	}
	if len(overlay) == 0 {
		if len(note.Helpers) == 0 && len(note.Renamed) == 0 && len(note.Modelled) == 0 && len(note.Reshaped) == 0 {
			return nil, nil
		}
		return nil, note
	}
	return overlay, note
}

var genBindingDecl = regexp.MustCompile(`var inl\d+_\w+ func\(`)

// curInlineRound: the round inlineRounds is in (read by (*inliner).run).
var curInlineRound int

func inlineRounds(root string, env []string, overlay map[string][]byte, note *InlineNote) {
	for round := 0; round < 5; round++ {
		curInlineRound = round
		dirs := map[string]bool{}
		cands := map[string]bool{} // funcKey
		scanFuncsOverlay(root, overlay, func(rel, file string, fd *ast.FuncDecl) {
			if fd.Body == nil || ast.IsExported(fd.Name.Name) || fd.Name.Name == "init" || fd.Name.Name == "main" || fd.Name.Name == "_" {
				return
			}
			if k := funcKey(rel, fd); !baselineFuncs[k] || (os.Getenv("CTVERIF_INLINE_ALL") != "" && strings.Contains(k, os.Getenv("CTVERIF_INLINE_ONLY"))) {
				cands[k] = true
				dirs[rel] = true
			}
		})
		// packages that still hold a generated binding of a function literal are visited as well
		for f, b := range overlay {
			if genBindingDecl.Match(b) {
				if rel, err := filepath.Rel(root, filepath.Dir(f)); err == nil {
					dirs[filepath.ToSlash(rel)] = true
				}
			}
		}
		if len(cands) == 0 && len(dirs) == 0 {
			break
		}
		if round == 0 && len(note.Helpers) == 0 {
			for k := range cands {
				note.Helpers = append(note.Helpers, k)
			}
			sort.Strings(note.Helpers)
		}
		var pats []string
		for d := range dirs {
			pats = append(pats, "./"+d)
		}
		sort.Strings(pats)
		cfg := &packages.Config{
			Mode: packages.NeedName | packages.NeedFiles | packages.NeedCompiledGoFiles | packages.NeedImports |
				packages.NeedTypes | packages.NeedSyntax | packages.NeedTypesInfo | packages.NeedTypesSizes,
			Dir: root, Env: env, Tests: false, Overlay: overlay,
		}
		pkgs, err := packages.Load(cfg, pats...)
		if err != nil {
			note.Skipped = append(note.Skipped, "normaliser load failed: "+err.Error())
			break
		}
		progress := false
		for _, pk := range pkgs {
			if len(pk.Errors) > 0 || pk.Types == nil || pk.TypesInfo == nil {
				why := ""
				if len(pk.Errors) > 0 {
					why = " (" + strings.Join(strings.Fields(pk.Errors[0].Error()), " ") + ")"
				}
				note.Skipped = append(note.Skipped, pk.PkgPath+": not type-checked, helpers left alone"+why)
				continue
			}
			rel, _ := filepath.Rel(root, pkgDir(pk))
			in := &inliner{pk: pk, rel: filepath.ToSlash(rel), cands: cands, note: note, changed: map[*ast.File]bool{}}
			in.run()
			for f := range in.changed {
				var buf bytes.Buffer
				if err := format.Node(&buf, pk.Fset, f); err != nil {
					note.Skipped = append(note.Skipped, "print "+pk.Fset.File(f.Pos()).Name()+": "+err.Error())
					continue
				}
				overlay[pk.Fset.File(f.Pos()).Name()] = buf.Bytes()
				progress = true
			}
		}
		if !progress {
			break
		}
	}
}

// ---- signatures of confirmed functions put back ----------------------------------------------
//
// Three pure re-shapings of an unexported function of the confirmed list are
// undone in the overlay, so that rule terms that name parameters by position
// keep their meaning:
//   - the parameters were permuted (same names and types, other order);
//   - a method became a function whose first parameter is the old receiver;
//   - a function became a method whose receiver is the old first parameter.
// Call sites are rewritten accordingly; this requires every use to be a direct
// call and, for a permutation, all arguments to be free of effects (their
// evaluation order changes back).  Anything else is left alone.

func signatureBack(root string, env []string, overlay map[string][]byte, note *InlineNote) {
	type cur struct {
		key, sig, spec, rel, name string
	}
	var cands []cur
	present := map[string]cur{}
	scanFuncsOverlay(root, overlay, func(rel, file string, fd *ast.FuncDecl) {
		if fd.Body == nil || ast.IsExported(fd.Name.Name) {
			return
		}
		c := cur{funcKey(rel, fd), sigText(fd), paramSpec(fd), rel, fd.Name.Name}
		present[c.key] = c
	})
	type job struct {
		kind string // "perm" | "toMethod" | "toFunc"
		c    cur
		base string // confirmed key
		pos  int    // toMethod: which parameter is the receiver; toFunc: where the receiver goes
	}
	var jobs []job
	curTypes := map[string]*declInfo{}
	scanDeclsOverlay(root, overlay, func(d *declInfo) {
		if d.kind == "type" {
			curTypes[d.dir+":"+d.name] = d
		}
	})
	for _, c := range present {
		if baselineFuncs[c.key] {
			if baselineSpecs[c.key] != c.spec && baselineSpecs[c.key] != "" && samePairs(baselineSpecs[c.key], c.spec) {
				jobs = append(jobs, job{"perm", c, c.key, 0})
				continue
			}
			// a group of parameters folded into one parameter of a new unexported struct type
			if baselineSpecs[c.key] != "" && baselineSigs[c.key] != c.sig && resultsOf(baselineSigs[c.key]) == resultsOf(c.sig) {
				_, bparams, _ := strings.Cut(baselineSpecs[c.key], "|")
				_, cparams, _ := strings.Cut(c.spec, "|")
				cps := strings.Split(cparams, ";")
				found, at := 0, -1
				for j := range cps {
					_, t, _ := strings.Cut(cps[j], " ")
					d := curTypes[c.rel+":"+t]
					if d == nil || baselineDecls[c.rel+":"+t] != nil || ast.IsExported(t) || d.isIfc || len(d.fields) == 0 {
						continue
					}
					var ts []string
					for i, p := range cps {
						if i == j {
							ts = append(ts, strings.Split(typesOnly(d.fields), ";")...)
							continue
						}
						_, pt, _ := strings.Cut(p, " ")
						ts = append(ts, pt)
					}
					if strings.Join(ts, ";") == typesOf(bparams) && !strings.Contains(typesOnly(d.fields), "•") {
						found, at = found+1, j
					}
				}
				if found == 1 {
					jobs = append(jobs, job{"unfold", c, c.key, at})
					continue
				}
			}
			if baselineSpecs[c.key] != "" && (typesOf(strings.SplitN(baselineSpecs[c.key], "|", 2)[1]) != typesOf(strings.SplitN(c.spec, "|", 2)[1]) ||
				(resultsOf(baselineSigs[c.key]) != resultsOf(c.sig) && resultsAgree(resultsOf(baselineSigs[c.key]), resultsOf(c.sig)))) {
				jobs = append(jobs, job{"resig", c, c.key, 0})
			}
			continue
		}
		cands = append(cands, c)
	}
	for _, c := range cands {
		nJobs := len(jobs)
		dir, rest, _ := strings.Cut(c.key, ":")
		recvT, name := rest[:strings.LastIndex(rest, ".")], c.name
		crecv, cparams, _ := strings.Cut(c.spec, "|")
		dropAt := func(spec string, k int) (string, string) { // (type of k-th, types of the others)
			ps := strings.Split(spec, ";")
			if spec == "" || k >= len(ps) {
				return "", ""
			}
			_, t, _ := strings.Cut(ps[k], " ")
			rest := append(append([]string{}, ps[:k]...), ps[k+1:]...)
			return t, typesOf(strings.Join(rest, ";"))
		}
		if recvT == "" {
			// a function: was it a method of the type of one of its parameters?
			n := len(strings.Split(cparams, ";"))
			found := 0
			var fj job
			for k := 0; k < n && cparams != ""; k++ {
				ft, others := dropAt(cparams, k)
				bt := strings.TrimPrefix(ft, "*")
				if bt == "" {
					continue
				}
				try := func(bk string) {
					if !baselineFuncs[bk] || presentKey(present, bk) {
						return
					}
					brecv, bparams, _ := strings.Cut(baselineSpecs[bk], "|")
					_, brt, _ := strings.Cut(brecv, " ")
					if brt == ft && typesOf(bparams) == others && resultsOf(baselineSigs[bk]) == resultsOf(c.sig) {
						found++
						fj = job{"toMethod", c, bk, k}
					}
				}
				try(dir + ":" + bt + "." + name)
				if found == 0 {
					// renamed as well: any missing method of that type with this shape (must be the only one)
					pre := dir + ":" + bt + "."
					for bk := range baselineFuncs {
						if strings.HasPrefix(bk, pre) && !strings.Contains(bk[len(pre):], ".") {
							try(bk)
						}
					}
				}
			}
			if found == 1 {
				jobs = append(jobs, fj)
			}
			if found == 0 {
				// a method whose receiver was dropped (it was unused): same name, same parameters and results
				pre := dir + ":"
				cnt := 0
				var bk string
				for k := range baselineFuncs {
					if !strings.HasPrefix(k, pre) || presentKey(present, k) || !strings.HasSuffix(k, "."+name) {
						continue
					}
					rest := k[len(pre):]
					if rest == "."+name {
						continue
					}
					_, bparams, _ := strings.Cut(baselineSpecs[k], "|")
					if typesOf(bparams) == typesOf(cparams) && baselineSigs[k] == c.sig {
						cnt++
						bk = k
					}
				}
				if cnt == 1 {
					jobs = append(jobs, job{"reRecv", c, bk, 0})
				}
			}
		} else {
			// a method: was it a function with a parameter of the receiver's type?
			bk := dir + ":." + name
			if baselineFuncs[bk] && !presentKey(present, bk) {
				_, bparams, _ := strings.Cut(baselineSpecs[bk], "|")
				_, crt, _ := strings.Cut(crecv, " ")
				n := len(strings.Split(bparams, ";"))
				found := 0
				var fj job
				for k := 0; k < n && bparams != ""; k++ {
					ft, others := dropAt(bparams, k)
					if ft == crt && others == typesOf(cparams) && resultsOf(baselineSigs[bk]) == resultsOf(c.sig) {
						found++
						fj = job{"toFunc", c, bk, k}
					}
				}
				if found == 1 {
					jobs = append(jobs, fj)
				}
			}
		}
		if len(jobs) == nJobs {
			// none of the named re-shapings: the general solver, against the one missing confirmed
			// function of this name (whatever its receiver)
			var bks []string
			for k := range baselineFuncs {
				if strings.HasPrefix(k, dir+":") && strings.HasSuffix(k, "."+name) && !presentKey(present, k) && k != c.key {
					bks = append(bks, k)
				}
			}
			if len(bks) == 1 {
				jobs = append(jobs, job{"resig", c, bks[0], 0})
			}
		}
	}
	if len(jobs) == 0 {
		return
	}
	sort.SliceStable(jobs, func(a, b int) bool {
		if (jobs[a].kind == "resig") != (jobs[b].kind == "resig") {
			return jobs[b].kind == "resig"
		}
		return jobs[a].c.key < jobs[b].c.key
	})
	dirs := map[string]bool{}
	for _, j := range jobs {
		dirs[j.c.rel] = true
	}
	var pats []string
	for d := range dirs {
		pats = append(pats, "./"+d)
	}
	sort.Strings(pats)
	cfg := &packages.Config{
		Mode: packages.NeedName | packages.NeedFiles | packages.NeedCompiledGoFiles | packages.NeedImports |
			packages.NeedTypes | packages.NeedSyntax | packages.NeedTypesInfo | packages.NeedTypesSizes,
		Dir: root, Env: env, Tests: false, Overlay: overlay,
	}
	pkgs, err := packages.Load(cfg, pats...)
	if err != nil {
		return
	}
	for _, pk := range pkgs {
		if len(pk.Errors) > 0 || pk.TypesInfo == nil {
			continue
		}
		rel, _ := filepath.Rel(root, pkgDir(pk))
		rel = filepath.ToSlash(rel)
		in := &inliner{pk: pk, note: note, changed: map[*ast.File]bool{}}
		unfolded := false
		for _, j := range jobs {
			if j.c.rel != rel || ((j.kind == "unfold" || j.kind == "resig") && unfolded) {
				continue
			}
			if j.kind == "resig" {
				if in.resig(j.c.key, j.base, rel) {
					note.Reshaped = append(note.Reshaped, "resig: "+j.c.key+" → "+j.base)
					unfolded = true
				}
				continue
			}
			if in.reshape(j.kind, j.c.key, j.base, rel, j.pos) {
				note.Reshaped = append(note.Reshaped, j.kind+": "+j.c.key+" → "+j.base)
				if j.kind == "unfold" {
					unfolded = true // new nodes carry no type information: the next one waits for the next pass
				}
			}
		}
		for f := range in.changed {
			in.finishFile(f)
			var buf bytes.Buffer
			if err := format.Node(&buf, pk.Fset, f); err == nil {
				overlay[pk.Fset.File(f.Pos()).Name()] = buf.Bytes()
			}
		}
	}
}

func presentKey[T any](m map[string]T, k string) bool { _, ok := m[k]; return ok }

// typesOf: "a T;b U" → "T;U".
func typesOf(spec string) string {
	if spec == "" {
		return ""
	}
	var ts []string
	for _, p := range strings.Split(spec, ";") {
		_, t, _ := strings.Cut(p, " ")
		ts = append(ts, t)
	}
	return strings.Join(ts, ";")
}

// resultsOf: "(params)(results)" → "(results)".
func resultsOf(sig string) string {
	depth := 0
	for i, c := range sig {
		switch c {
		case '(':
			depth++
		case ')':
			depth--
			if depth == 0 {
				return sig[i+1:]
			}
		}
	}
	return sig
}

// samePairs: both specs have the same receiver and the same set of distinct (name, type) parameters.
func samePairs(a, b string) bool {
	ra, pa, _ := strings.Cut(a, "|")
	rb, pb, _ := strings.Cut(b, "|")
	_, rta, _ := strings.Cut(ra, " ")
	_, rtb, _ := strings.Cut(rb, " ")
	if rta != rtb || pa == pb {
		return false
	}
	sa, sb := strings.Split(pa, ";"), strings.Split(pb, ";")
	if len(sa) != len(sb) {
		return false
	}
	seen := map[string]int{}
	for _, p := range sa {
		if strings.HasPrefix(p, "_ ") {
			return false
		}
		seen[p]++
	}
	for _, p := range sb {
		seen[p]--
	}
	names := map[string]bool{}
	for _, p := range sa {
		n, _, _ := strings.Cut(p, " ")
		if names[n] {
			return false
		}
		names[n] = true
	}
	for _, v := range seen {
		if v != 0 {
			return false
		}
	}
	return true
}

// reshape rewrites the declaration with key `from` and all its call sites.
func (in *inliner) reshape(kind, from, base, rel string, pos int) bool {
	info := in.info()
	var decl *ast.FuncDecl
	var dfile *ast.File
	for _, f := range in.pk.Syntax {
		for _, d := range f.Decls {
			if fd, ok := d.(*ast.FuncDecl); ok && funcKey(rel, fd) == from {
				decl, dfile = fd, f
			}
		}
	}
	if decl == nil || in.fileUnsupported(dfile) {
		return false
	}
	obj, _ := info.Defs[decl.Name].(*types.Func)
	if obj == nil {
		return false
	}
	// every use must be the callee of a direct call
	type site struct {
		call *ast.CallExpr
		file *ast.File
	}
	var sites []site
	ok := true
	for _, f := range in.pk.Syntax {
		calls := map[*ast.Ident]*ast.CallExpr{}
		ast.Inspect(f, func(n ast.Node) bool {
			if c, isCall := n.(*ast.CallExpr); isCall {
				switch fx := c.Fun.(type) {
				case *ast.Ident:
					calls[fx] = c
				case *ast.SelectorExpr:
					calls[fx.Sel] = c
				}
			}
			return true
		})
		ast.Inspect(f, func(n ast.Node) bool {
			id, isId := n.(*ast.Ident)
			if !isId || info.Uses[id] != types.Object(obj) {
				return true
			}
			c := calls[id]
			if c == nil || in.fileUnsupported(f) || c.Ellipsis.IsValid() {
				ok = false
				return false
			}
			sites = append(sites, site{c, f})
			return true
		})
	}
	if !ok {
		return false
	}
	// split grouped parameter fields into one field per name
	var fields []*ast.Field
	if decl.Type.Params != nil {
		for _, f := range decl.Type.Params.List {
			if len(f.Names) <= 1 {
				fields = append(fields, f)
				continue
			}
			for _, n := range f.Names {
				fields = append(fields, &ast.Field{Names: []*ast.Ident{n}, Type: f.Type})
			}
		}
	}
	switch kind {
	case "perm":
		_, bparams, _ := strings.Cut(baselineSpecs[base], "|")
		var order []int // position in the current list of the i-th confirmed parameter
		for _, bp := range strings.Split(bparams, ";") {
			bn, _, _ := strings.Cut(bp, " ")
			found := -1
			for i, f := range fields {
				if len(f.Names) == 1 && f.Names[0].Name == bn {
					found = i
				}
			}
			if found < 0 {
				return false
			}
			order = append(order, found)
		}
		if len(order) != len(fields) {
			return false
		}
		for _, s := range sites {
			if len(s.call.Args) != len(fields) {
				return false
			}
			for _, a := range s.call.Args {
				if !in.pure(a) {
					return false
				}
			}
		}
		nf := make([]*ast.Field, len(fields))
		for i, o := range order {
			nf[i] = fields[o]
		}
		decl.Type.Params.List = nf
		for _, s := range sites {
			na := make([]ast.Expr, len(order))
			for i, o := range order {
				na[i] = s.call.Args[o]
			}
			s.call.Args = na
			in.changed[s.file] = true
		}
	case "toMethod":
		if pos >= len(fields) || len(fields[pos].Names) != 1 {
			return false
		}
		for _, s := range sites {
			if _, isId := s.call.Fun.(*ast.Ident); !isId || len(s.call.Args) != len(fields) {
				return false
			}
			// the receiver is evaluated first again: arguments before it must be free of effects
			for i := 0; i < pos; i++ {
				if !in.pure(s.call.Args[i]) {
					return false
				}
			}
			if pos > 0 && !in.pure(s.call.Args[pos]) {
				return false
			}
		}
		decl.Recv = &ast.FieldList{List: []*ast.Field{fields[pos]}}
		decl.Type.Params.List = append(append([]*ast.Field{}, fields[:pos]...), fields[pos+1:]...)
		if i := strings.LastIndex(base, "."); i >= 0 && base[i+1:] != decl.Name.Name {
			decl.Name = ast.NewIdent(base[i+1:]) // the function had been renamed as well
		}
		for _, s := range sites {
			rx := s.call.Args[pos]
			s.call.Fun = &ast.SelectorExpr{X: &ast.ParenExpr{X: rx}, Sel: ast.NewIdent(decl.Name.Name)}
			if id, isId := unparen(rx).(*ast.Ident); isId {
				s.call.Fun.(*ast.SelectorExpr).X = id
			}
			s.call.Args = append(append([]ast.Expr{}, s.call.Args[:pos]...), s.call.Args[pos+1:]...)
			in.changed[s.file] = true
		}
	case "toFunc":
		if decl.Recv == nil || len(decl.Recv.List) != 1 || len(decl.Recv.List[0].Names) != 1 {
			return false
		}
		if in.pk.Types.Scope().Lookup(decl.Name.Name) != nil {
			return false
		}
		_, recvPtr := obj.Type().(*types.Signature).Recv().Type().(*types.Pointer)
		type fix struct {
			s   site
			arg ast.Expr
		}
		var fixes []fix
		for _, s := range sites {
			se, isSel := s.call.Fun.(*ast.SelectorExpr)
			if !isSel {
				return false
			}
			sel := info.Selections[se]
			if sel == nil || sel.Kind() != types.MethodVal || len(sel.Index()) != 1 {
				return false
			}
			_, havePtr := info.TypeOf(se.X).Underlying().(*types.Pointer)
			var arg ast.Expr = se.X
			switch {
			case recvPtr && !havePtr:
				arg = &ast.UnaryExpr{Op: token.AND, X: se.X}
			case !recvPtr && havePtr:
				arg = &ast.StarExpr{X: se.X}
			}
			fixes = append(fixes, fix{s, arg})
		}
		if pos > len(fields) {
			return false
		}
		for _, fx := range fixes {
			if pos > 0 {
				if !in.pure(fx.arg) {
					return false
				}
				for i := 0; i < pos && i < len(fx.s.call.Args); i++ {
					if !in.pure(fx.s.call.Args[i]) {
						return false
					}
				}
			}
		}
		nl := append([]*ast.Field{}, fields[:pos]...)
		nl = append(nl, decl.Recv.List[0])
		nl = append(nl, fields[pos:]...)
		decl.Type.Params.List = nl
		decl.Recv = nil
		for _, fx := range fixes {
			fx.s.call.Fun = ast.NewIdent(decl.Name.Name)
			na := append([]ast.Expr{}, fx.s.call.Args[:pos]...)
			na = append(na, fx.arg)
			na = append(na, fx.s.call.Args[pos:]...)
			fx.s.call.Args = na
			in.changed[fx.s.file] = true
		}
	case "reRecv":
		brecv, _, _ := strings.Cut(baselineSpecs[base], "|")
		_, brt, _ := strings.Cut(brecv, " ")
		if brt == "" {
			return false
		}
		rte, err := parser.ParseExpr(brt)
		if err != nil {
			return false
		}
		zeroPos(rte)
		tname := strings.TrimPrefix(brt, "*")
		tn, _ := in.pk.Types.Scope().Lookup(tname).(*types.TypeName)
		if tn == nil {
			return false
		}
		for _, s := range sites {
			if _, isId := s.call.Fun.(*ast.Ident); !isId {
				return false
			}
		}
		// receiver expression at a call site: the enclosing method's own receiver when it has the
		// type, otherwise the zero value (the put-back receiver is blank, so it is never read)
		recvFor := func(call *ast.CallExpr, file *ast.File) ast.Expr {
			var found ast.Expr
			for _, d := range file.Decls {
				fd, ok := d.(*ast.FuncDecl)
				if !ok || fd.Body == nil || call.Pos() < fd.Body.Pos() || call.Pos() > fd.Body.End() {
					continue
				}
				if fd.Recv != nil && len(fd.Recv.List) == 1 && len(fd.Recv.List[0].Names) == 1 && fd.Recv.List[0].Names[0].Name != "_" {
					if nodeText(fd.Recv.List[0].Type) == brt {
						found = ast.NewIdent(fd.Recv.List[0].Names[0].Name)
					}
				}
			}
			if found != nil {
				return found
			}
			var e ast.Expr
			if strings.HasPrefix(brt, "*") {
				e, _ = parser.ParseExpr("(" + brt + ")(nil)")
			} else {
				e, _ = parser.ParseExpr(brt + "{}")
			}
			if e != nil {
				zeroPos(e)
			}
			return e
		}
		for _, s := range sites {
			rx := recvFor(s.call, s.file)
			if rx == nil {
				return false
			}
			s.call.Fun = &ast.SelectorExpr{X: rx, Sel: ast.NewIdent(decl.Name.Name)}
			in.changed[s.file] = true
		}
		decl.Recv = &ast.FieldList{List: []*ast.Field{{Names: []*ast.Ident{ast.NewIdent("_")}, Type: rte}}}
	case "unfold":
		if pos >= len(fields) || len(fields[pos].Names) != 1 {
			return false
		}
		pobj, _ := info.Defs[fields[pos].Names[0]].(*types.Var)
		if pobj == nil {
			return false
		}
		st, ok := pobj.Type().Underlying().(*types.Struct)
		named, isNamed := pobj.Type().(*types.Named)
		if !ok || !isNamed {
			return false
		}
		// every use of the parameter in the body must be a field selection that is only read or written as a plain variable would be
		selOf := map[*ast.Ident]*ast.SelectorExpr{}
		ast.Inspect(decl.Body, func(n ast.Node) bool {
			if se, ok := n.(*ast.SelectorExpr); ok {
				if id, ok := se.X.(*ast.Ident); ok {
					selOf[id] = se
				}
			}
			return true
		})
		okUses := true
		ast.Inspect(decl.Body, func(n ast.Node) bool {
			if id, ok := n.(*ast.Ident); ok && info.Uses[id] == types.Object(pobj) {
				if selOf[id] == nil {
					okUses = false
				} else if sel := info.Selections[selOf[id]]; sel == nil || sel.Kind() != types.FieldVal || len(sel.Index()) != 1 {
					okUses = false // a method called on the whole value
				}
			}
			return okUses
		})
		if !okUses {
			return false
		}
		tstrQ := in.qualifierAt(decl.Pos())
		tstr := func(t types.Type) string {
			bad := false
			s := types.TypeString(t, func(p *types.Package) string {
				n, ok := tstrQ(p)
				if !ok {
					bad = true
				}
				return n
			})
			if bad {
				return ""
			}
			return s
		}
		zero := func(t types.Type, file *ast.File) ast.Expr {
			ts := tstr(t)
			if ts == "" {
				return nil
			}
			switch u := t.Underlying().(type) {
			case *types.Pointer, *types.Slice, *types.Map, *types.Chan, *types.Signature, *types.Interface:
				return ast.NewIdent("nil")
			case *types.Basic:
				lit := "0"
				switch {
				case u.Info()&types.IsString != 0:
					lit = `""`
				case u.Info()&types.IsBoolean != 0:
					lit = "false"
				}
				e, err := parser.ParseExpr(ts + "(" + lit + ")")
				if err != nil {
					return nil
				}
				zeroPos(e)
				return e
			default:
				e, err := parser.ParseExpr(ts + "{}")
				if err != nil {
					return nil
				}
				zeroPos(e)
				return e
			}
		}
		// call sites first (nothing is changed before everything is known to work)
		type siteArgs struct {
			s    site
			args []ast.Expr
		}
		var rewrites []siteArgs
		for _, s := range sites {
			if len(s.call.Args) != len(fields) {
				return false
			}
			a := unparen(s.call.Args[pos])
			var per []ast.Expr
			switch x := a.(type) {
			case *ast.CompositeLit:
				if tv, ok := info.Types[x]; !ok || !types.Identical(tv.Type, named) {
					return false
				}
				per = make([]ast.Expr, st.NumFields())
				for i, el := range x.Elts {
					if kv, isKV := el.(*ast.KeyValueExpr); isKV {
						kid, ok := kv.Key.(*ast.Ident)
						if !ok {
							return false
						}
						idx := -1
						for fi := 0; fi < st.NumFields(); fi++ {
							if st.Field(fi).Name() == kid.Name {
								idx = fi
							}
						}
						if idx < 0 || !in.pure(kv.Value) {
							return false
						}
						per[idx] = kv.Value
					} else {
						if i >= len(per) || !in.pure(el) {
							return false
						}
						per[i] = el
					}
				}
				for fi := range per {
					if per[fi] == nil {
						if per[fi] = zero(st.Field(fi).Type(), s.file); per[fi] == nil {
							return false
						}
					}
				}
			case *ast.Ident:
				if v, ok := info.Uses[x].(*types.Var); !ok || !types.Identical(v.Type(), named) {
					return false
				}
				for fi := 0; fi < st.NumFields(); fi++ {
					per = append(per, &ast.SelectorExpr{X: ast.NewIdent(x.Name), Sel: ast.NewIdent(st.Field(fi).Name())})
				}
			default:
				return false
			}
			na := append([]ast.Expr{}, s.call.Args[:pos]...)
			na = append(na, per...)
			na = append(na, s.call.Args[pos+1:]...)
			rewrites = append(rewrites, siteArgs{s, na})
		}
		// the declaration
		var nf []*ast.Field
		names := make([]string, st.NumFields())
		for fi := 0; fi < st.NumFields(); fi++ {
			ts := tstr(st.Field(fi).Type())
			te, err := parser.ParseExpr(ts)
			if ts == "" || err != nil {
				return false
			}
			zeroPos(te)
			names[fi] = fmt.Sprintf("sb%d_%s", pos, st.Field(fi).Name())
			nf = append(nf, &ast.Field{Names: []*ast.Ident{ast.NewIdent(names[fi])}, Type: te})
		}
		nl := append([]*ast.Field{}, fields[:pos]...)
		nl = append(nl, nf...)
		nl = append(nl, fields[pos+1:]...)
		decl.Type.Params.List = nl
		// call sites first: a recursive call's arguments are part of the body rewritten next
		for _, rw := range rewrites {
			rw.s.call.Args = rw.args
			in.changed[rw.s.file] = true
		}
		astutil.Apply(decl.Body, nil, func(c *astutil.Cursor) bool {
			if se, ok := c.Node().(*ast.SelectorExpr); ok {
				if id, ok := se.X.(*ast.Ident); ok && info.Uses[id] == types.Object(pobj) {
					for fi := 0; fi < st.NumFields(); fi++ {
						if st.Field(fi).Name() == se.Sel.Name {
							c.Replace(ast.NewIdent(names[fi]))
						}
					}
				}
			}
			return true
		})
	default:
		return false
	}
	in.changed[dfile] = true
	return true
}

// ---- models of a few generic library functions ---------------------------------------------
//
// slices.Contains / ContainsFunc / Index / IndexFunc / Equal, maps.Copy and the
// builtins min / max (two integer operands) are replaced by monomorphic
// package-local helpers that spell out their documented definition (the loop,
// the comparison); the helpers are unknown functions and are expanded in place
// by the rounds that follow.  A hand-written loop and the library call thereby
// reach the rules in the same shape.  The confirmed tree uses none of these
// functions, so nothing changes for it.

var modelNames = map[string]bool{"slices.Contains": true, "slices.ContainsFunc": true, "slices.Index": true, "slices.IndexFunc": true,
	"slices.Equal": true, "maps.Copy": true, "min": true, "max": true}

func modelLibrary(root string, env []string, overlay map[string][]byte, note *InlineNote) {
	// cheap syntactic pre-filter
	dirs := map[string]bool{}
	fset := token.NewFileSet()
	filepath.Walk(root, func(path string, fi os.FileInfo, err error) error {
		if err != nil {
			return nil
		}
		name := fi.Name()
		if fi.IsDir() {
			if path != root && (strings.HasPrefix(name, ".") || strings.HasPrefix(name, "_") || name == "testdata" || name == "vendor") {
				return filepath.SkipDir
			}
			return nil
		}
		if !strings.HasSuffix(name, ".go") || strings.HasSuffix(name, "_test.go") {
			return nil
		}
		if scanDirs != nil {
			if r, _ := filepath.Rel(root, filepath.Dir(path)); !scanDirs[filepath.ToSlash(r)] {
				return nil
			}
		}
		if scanDirs != nil {
			if r, _ := filepath.Rel(root, filepath.Dir(path)); !scanDirs[filepath.ToSlash(r)] {
				return nil
			}
		}
		var src interface{}
		if b, ok := overlay[path]; ok {
			src = b
		} else if b, err := os.ReadFile(path); err == nil {
			if !bytes.Contains(b, []byte("slices.")) && !bytes.Contains(b, []byte("maps.Copy")) && !bytes.Contains(b, []byte("min(")) && !bytes.Contains(b, []byte("max(")) {
				return nil
			}
			src = b
		}
		af, perr := parser.ParseFile(fset, path, src, parser.SkipObjectResolution)
		if perr != nil || af == nil {
			return nil
		}
		hit := false
		ast.Inspect(af, func(n ast.Node) bool {
			if c, ok := n.(*ast.CallExpr); ok {
				switch f := c.Fun.(type) {
				case *ast.SelectorExpr:
					if x, ok := f.X.(*ast.Ident); ok && modelNames[x.Name+"."+f.Sel.Name] {
						hit = true
					}
				case *ast.Ident:
					if modelNames[f.Name] && len(c.Args) == 2 {
						hit = true
					}
				}
			}
			return !hit
		})
		if hit {
			rel, _ := filepath.Rel(root, filepath.Dir(path))
			dirs[filepath.ToSlash(rel)] = true
		}
		return nil
	})
	if len(dirs) == 0 {
		return
	}
	var pats []string
	for d := range dirs {
		pats = append(pats, "./"+d)
	}
	sort.Strings(pats)
	cfg := &packages.Config{
		Mode: packages.NeedName | packages.NeedFiles | packages.NeedCompiledGoFiles | packages.NeedImports |
			packages.NeedTypes | packages.NeedSyntax | packages.NeedTypesInfo | packages.NeedTypesSizes,
		Dir: root, Env: env, Tests: false, Overlay: overlay,
	}
	pkgs, err := packages.Load(cfg, pats...)
	if err != nil {
		return
	}
	for _, pk := range pkgs {
		if len(pk.Errors) > 0 || pk.TypesInfo == nil {
			continue
		}
		in := &inliner{pk: pk, note: note, changed: map[*ast.File]bool{}}
		for _, f := range pk.Syntax {
			if in.fileUnsupported(f) {
				continue
			}
			var extra []string
			// innermost calls first: a modelled call inside the literal predicate of another modelled call
			// (slices.IndexFunc(xs, func(x T) bool { return slices.ContainsFunc(ys, x.Eq) })) must be rewritten
			// before the predicate's text is copied into the generated predicate function
			astutil.Apply(f, nil, func(c *astutil.Cursor) bool {
				call, ok := c.Node().(*ast.CallExpr)
				if !ok {
					return true
				}
				orig := exprText(call.Fun)
				name, src := in.modelFor(call, f)
				if name == "" {
					return true
				}
				extra = append(extra, src)
				note.Modelled = append(note.Modelled, orig+" in "+filepath.Base(pk.Fset.File(f.Pos()).Name())+" as "+name)
				return true
			})
			if len(extra) == 0 {
				continue
			}
			in.finishFileOnly(f, map[string]bool{"slices": true, "maps": true})
			var buf bytes.Buffer
			if err := format.Node(&buf, pk.Fset, f); err != nil {
				continue
			}
			for _, e := range extra {
				buf.WriteString("\n" + e + "\n")
			}
			if out, err := format.Source(buf.Bytes()); err == nil {
				overlay[pk.Fset.File(f.Pos()).Name()] = out
			}
		}
	}
}

func exprTextNode(n ast.Node) string {
	var b bytes.Buffer
	format.Node(&b, token.NewFileSet(), n)
	return b.String()
}

func exprText(e ast.Expr) string {
	var b bytes.Buffer
	format.Node(&b, token.NewFileSet(), e)
	return b.String()
}

var modelSeq int

// modelFor rewrites one call in place (its Fun and, for literal predicates,
// its arguments) and returns the helper's name and source; "" when the call is
// not a modelled one or cannot be expressed.
func (in *inliner) modelFor(call *ast.CallExpr, file *ast.File) (string, string) {
	info := in.info()
	qual := in.qualifierAt(call.Pos())
	tstr := func(t types.Type) string {
		bad := false
		s := types.TypeString(t, func(p *types.Package) string {
			n, ok := qual(p)
			if !ok {
				bad = true
			}
			return n
		})
		if bad {
			return ""
		}
		return s
	}
	what := ""
	switch f := call.Fun.(type) {
	case *ast.Ident:
		if b, ok := info.Uses[f].(*types.Builtin); ok && (b.Name() == "min" || b.Name() == "max") && len(call.Args) == 2 {
			what = b.Name()
		}
	case *ast.SelectorExpr:
		if fn, ok := info.Uses[f.Sel].(*types.Func); ok && fn.Pkg() != nil && (fn.Pkg().Path() == "slices" || fn.Pkg().Path() == "maps") {
			if modelNames[fn.Pkg().Path()+"."+fn.Name()] {
				what = fn.Pkg().Path() + "." + fn.Name()
			}
		}
	}
	if what == "" || call.Ellipsis.IsValid() {
		return "", ""
	}
	argT := func(i int) types.Type {
		if tv, ok := info.Types[call.Args[i]]; ok {
			return tv.Type
		}
		return nil
	}
	modelSeq++
	name := fmt.Sprintf("mdl%d_%s", modelSeq, strings.NewReplacer(".", "_").Replace(what))
	switch what {
	case "min", "max":
		rt := info.TypeOf(call)
		b, ok := rt.Underlying().(*types.Basic)
		if !ok || b.Info()&types.IsInteger == 0 {
			return "", ""
		}
		ts := tstr(rt)
		if ts == "" {
			return "", ""
		}
		op := "<"
		if what == "max" {
			op = ">"
		}
		call.Fun = ast.NewIdent(name)
		return name, fmt.Sprintf("func %s(a, b %s) %s {\n\tif b %s a {\n\t\treturn b\n\t}\n\treturn a\n}", name, ts, ts, op)
	case "slices.Contains", "slices.Index":
		if len(call.Args) != 2 || argT(0) == nil {
			return "", ""
		}
		st, ok := argT(0).Underlying().(*types.Slice)
		if !ok {
			return "", ""
		}
		ss, es := tstr(argT(0)), tstr(st.Elem())
		if ss == "" || es == "" {
			return "", ""
		}
		call.Fun = ast.NewIdent(name)
		if what == "slices.Contains" {
			return name, fmt.Sprintf("func %s(s %s, v %s) bool {\n\tfor _, e := range s {\n\t\tif e == v {\n\t\t\treturn true\n\t\t}\n\t}\n\treturn false\n}", name, ss, es)
		}
		return name, fmt.Sprintf("func %s(s %s, v %s) int {\n\tfor i, e := range s {\n\t\tif e == v {\n\t\t\treturn i\n\t\t}\n\t}\n\treturn -1\n}", name, ss, es)
	case "slices.Equal":
		if len(call.Args) != 2 || argT(0) == nil || argT(1) == nil {
			return "", ""
		}
		s1, s2 := tstr(argT(0)), tstr(argT(1))
		if s1 == "" || s2 == "" {
			return "", ""
		}
		call.Fun = ast.NewIdent(name)
		return name, fmt.Sprintf("func %s(a %s, b %s) bool {\n\tif len(a) != len(b) {\n\t\treturn false\n\t}\n\tfor i := 0; i < len(a); i++ {\n\t\tif a[i] != b[i] {\n\t\t\treturn false\n\t\t}\n\t}\n\treturn true\n}", name, s1, s2)
	case "maps.Copy":
		if len(call.Args) != 2 || argT(0) == nil || argT(1) == nil {
			return "", ""
		}
		s1, s2 := tstr(argT(0)), tstr(argT(1))
		if s1 == "" || s2 == "" {
			return "", ""
		}
		call.Fun = ast.NewIdent(name)
		return name, fmt.Sprintf("func %s(dst %s, src %s) {\n\tfor k, v := range src {\n\t\tdst[k] = v\n\t}\n}", name, s1, s2)
	case "slices.ContainsFunc", "slices.IndexFunc":
		if len(call.Args) != 2 || argT(0) == nil {
			return "", ""
		}
		st, ok := argT(0).Underlying().(*types.Slice)
		ss := tstr(argT(0))
		if !ok || ss == "" {
			return "", ""
		}
		res, hit, miss := "bool", "true", "false"
		if what == "slices.IndexFunc" {
			res, hit, miss = "int", "i", "-1"
		}
		lit, isLit := unparen(call.Args[1]).(*ast.FuncLit)
		if id, isId := unparen(call.Args[1]).(*ast.Ident); isId && !isLit {
			// a predicate held in a local that is defined once by a function literal
			if obj, ok := info.Uses[id].(*types.Var); ok {
				defs, writes := 0, 0
				ast.Inspect(file, func(n ast.Node) bool {
					switch x := n.(type) {
					case *ast.AssignStmt:
						for i, l := range x.Lhs {
							li, ok := unparen(l).(*ast.Ident)
							if !ok || (info.Defs[li] != types.Object(obj) && info.Uses[li] != types.Object(obj)) {
								continue
							}
							writes++
							if x.Tok == token.DEFINE && len(x.Rhs) == len(x.Lhs) {
								if fl, ok := unparen(x.Rhs[i]).(*ast.FuncLit); ok {
									lit, defs = fl, defs+1
								}
							}
						}
					case *ast.UnaryExpr:
						if li, ok := unparen(x.X).(*ast.Ident); ok && x.Op == token.AND && info.Uses[li] == types.Object(obj) {
							writes += 2
						}
					}
					return true
				})
				isLit = defs == 1 && writes == 1
			}
		}
		if isLit && lit.Type.Params != nil && len(lit.Type.Params.List) == 1 && len(lit.Type.Params.List[0].Names) == 1 {
			pname := lit.Type.Params.List[0].Names[0].Name
			// variables of the enclosing function used by the predicate become parameters of a
			// generated predicate function; they must only be read
			var capNames, capDecl []string
			var capVars []*types.Var
			seen := map[types.Object]bool{}
			okCap := true
			captured := func(id *ast.Ident) *types.Var {
				v, ok := info.Uses[id].(*types.Var)
				if !ok || v.IsField() || v.Parent() == in.pk.Types.Scope() || v.Parent() == nil {
					return nil
				}
				if v.Pos() >= lit.Pos() && v.Pos() <= lit.End() {
					return nil // declared inside the literal
				}
				return v
			}
			ast.Inspect(lit.Body, func(n ast.Node) bool {
				switch x := n.(type) {
				case *ast.FuncLit, *ast.DeferStmt, *ast.GoStmt:
					okCap = false
				case *ast.AssignStmt:
					for _, l := range x.Lhs {
						if id, ok := unparen(l).(*ast.Ident); ok && captured(id) != nil {
							okCap = false
						}
					}
				case *ast.IncDecStmt:
					if id, ok := unparen(x.X).(*ast.Ident); ok && captured(id) != nil {
						okCap = false
					}
				case *ast.UnaryExpr:
					if id, ok := unparen(x.X).(*ast.Ident); ok && x.Op == token.AND && captured(id) != nil {
						okCap = false
					}
				case *ast.Ident:
					v := captured(x)
					if v == nil || seen[v] {
						return true
					}
					seen[v] = true
					ts := tstr(v.Type())
					if ts == "" || x.Name == pname {
						okCap = false
					}
					capNames = append(capNames, x.Name)
					capVars = append(capVars, v)
					capDecl = append(capDecl, x.Name+" "+ts)
				}
				return okCap
			})
			es := tstr(st.Elem())
			if okCap && pname != "_" && es != "" {
				pred := name + "_pred"
				predSrc := fmt.Sprintf("func %s(%s) bool %s", pred, strings.Join(append([]string{pname + " " + es}, capDecl...), ", "), exprTextNode(lit.Body))
				params := append([]string{"s " + ss}, capDecl...)
				_, fromLocal := unparen(call.Args[1]).(*ast.Ident)
				if fromLocal {
					// the local holding the predicate stays used
					fs := tstr(argT(1))
					if fs == "" {
						return "", ""
					}
					params = append(params, "_ "+fs)
				}
				predArgs := strings.Join(append([]string{"mdl_e"}, capNames...), ", ")
				for _, cn := range capNames {
					if cn == "s" || cn == "mdl_e" || cn == "mdl_i" {
						return "", ""
					}
				}
				call.Fun = ast.NewIdent(name)
				args := []ast.Expr{call.Args[0]}
				for i, cn := range capNames {
					id := ast.NewIdent(cn)
					info.Uses[id] = capVars[i] // an enclosing modelled call sees the variable as captured too
					args = append(args, id)
				}
				if fromLocal {
					args = append(args, call.Args[1])
				}
				call.Args = args
				return name, fmt.Sprintf("func %s(%s) %s {\n\tfor mdl_i, mdl_e := range s {\n\t\t_ = mdl_i\n\t\t_ = mdl_e\n\t\tif %s(%s) {\n\t\t\treturn %s\n\t\t}\n\t}\n\treturn %s\n}\n\n%s",
					name, strings.Join(params, ", "), res, pred, predArgs, strings.Replace(hit, "i", "mdl_i", 1), miss, predSrc)
			}
		}
		fs := tstr(argT(1))
		if fs == "" {
			return "", ""
		}
		call.Fun = ast.NewIdent(name)
		return name, fmt.Sprintf("func %s(s %s, f %s) %s {\n\tfor i, e := range s {\n\t\t_ = i\n\t\tif f(e) {\n\t\t\treturn %s\n\t\t}\n\t}\n\treturn %s\n}", name, ss, fs, res, hit, miss)
	}
	return "", ""
}

func pkgDir(pk *packages.Package) string {
	if len(pk.GoFiles) > 0 {
		return filepath.Dir(pk.GoFiles[0])
	}
	return ""
}

// scanFuncsOverlay is scanFuncs reading overlaid files from the overlay.
func scanFuncsOverlay(root string, overlay map[string][]byte, f func(relDir, file string, fd *ast.FuncDecl)) {
	fset := token.NewFileSet()
	filepath.Walk(root, func(path string, fi os.FileInfo, err error) error {
		if err != nil {
			return nil
		}
		name := fi.Name()
		if fi.IsDir() {
			if path != root && (strings.HasPrefix(name, ".") || strings.HasPrefix(name, "_") || name == "testdata" || name == "vendor") {
				return filepath.SkipDir
			}
			return nil
		}
		if !strings.HasSuffix(name, ".go") || strings.HasSuffix(name, "_test.go") {
			return nil
		}
		if scanDirs != nil {
			if r, _ := filepath.Rel(root, filepath.Dir(path)); !scanDirs[filepath.ToSlash(r)] {
				return nil
			}
		}
		var src interface{}
		if b, ok := overlay[path]; ok {
			src = b
		}
		af, perr := parser.ParseFile(fset, path, src, parser.SkipObjectResolution)
		if perr != nil || af == nil {
			return nil
		}
		rel, _ := filepath.Rel(root, filepath.Dir(path))
		for _, d := range af.Decls {
			if fd, ok := d.(*ast.FuncDecl); ok {
				f(filepath.ToSlash(rel), path, fd)
			}
		}
		return nil
	})
}

// ---- the inliner for one package ---------------------------------------------------------

type helper struct {
	fn   *types.Func
	decl *ast.FuncDecl
	file *ast.File
	key  string
	lit  *ast.FuncLit // a generated local binding of a function literal (see inline_locals.go)
}

type inliner struct {
	pk            *packages.Package
	rel           string
	cands         map[string]bool
	note          *InlineNote
	changed       map[*ast.File]bool
	helpers       map[*types.Func]*helper
	closures      map[*types.Func]*helper // unknown helpers with defer statements: expanded as function literals
	localLits     map[*types.Var]*helper  // generated bindings of function literals, expanded at their calls
	seq           int
	curFile       *ast.File
	curFn         string
	inPlace       *types.Var // set around one expansion: this parameter is updated in place (x = f(…, E, …))
	tailNot       bool       // … and each returned value is negated (return !f(…))
	tail          bool       // set around one expansion: return f(…) — the body's returns become the caller's
	inPlaceName   string
	inPlaceDefine bool
	inPlaceIdx    int
}

func (in *inliner) info() *types.Info { return in.pk.TypesInfo }

func (in *inliner) run() {
	in.helpers = map[*types.Func]*helper{}
	for _, f := range in.pk.Syntax {
		if in.fileUnsupported(f) {
			continue
		}
		for _, d := range f.Decls {
			fd, ok := d.(*ast.FuncDecl)
			if !ok || fd.Body == nil {
				continue
			}
			k := funcKey(in.rel, fd)
			if !in.cands[k] || ast.IsExported(fd.Name.Name) {
				continue
			}
			obj, _ := in.info().Defs[fd.Name].(*types.Func)
			if obj == nil {
				continue
			}
			if why := in.ineligible(obj, fd); why != "" {
				if why == "uses defer" {
					if in.closures == nil {
						in.closures = map[*types.Func]*helper{}
					}
					in.closures[obj] = &helper{fn: obj, decl: fd, file: f, key: k}
					continue
				}
				in.note.Skipped = append(in.note.Skipped, k+": "+why)
				continue
			}
			in.helpers[obj] = &helper{fn: obj, decl: fd, file: f, key: k}
		}
	}
	in.closureForms()
	for _, f := range in.pk.Syntax {
		if in.fileUnsupported(f) {
			continue
		}
		for _, d := range f.Decls {
			if fd, ok := d.(*ast.FuncDecl); ok && fd.Body != nil {
				in.registerLocalLits(fd, f)
			}
		}
	}
	if len(in.helpers) == 0 && len(in.localLits) == 0 {
		for f := range in.changed {
			in.finishFile(f)
		}
		return
	}
	for _, f := range in.pk.Syntax {
		if in.fileUnsupported(f) {
			continue
		}
		for _, d := range f.Decls {
			if fd, ok := d.(*ast.FuncDecl); ok && fd.Body != nil && in.splitShortCircuits(fd.Body) {
				in.changed[f] = true
			}
		}
	}
	for _, f := range in.pk.Syntax {
		if in.fileUnsupported(f) {
			continue
		}
		in.curFile = f
		for _, d := range f.Decls {
			fd, ok := d.(*ast.FuncDecl)
			if !ok || fd.Body == nil {
				continue
			}
			if obj, _ := in.info().Defs[fd.Name].(*types.Func); obj != nil && in.helpers[obj] != nil {
				if curInlineRound == 0 {
					continue // helper bodies are expanded where they land (next round)
				}
				// a helper that is still here after the first round could not be expanded at some call
				// site: the calls of other unknown helpers inside it (e.g. the generated min / max
				// models) are expanded in its own body
			}
			in.curFn = fd.Name.Name
			in.block(fd.Body)
		}
	}
	// drop helpers that are no longer referenced (by name: cloned bodies carry no type information)
	if in.anyChanged() && os.Getenv("CTVERIF_INLINE_KEEP") == "" {
		names := map[string]int{}
		for _, f := range in.pk.Syntax {
			ast.Inspect(f, func(n ast.Node) bool {
				switch x := n.(type) {
				case *ast.FuncDecl:
					if x.Body != nil {
						ast.Inspect(x.Body, func(m ast.Node) bool {
							if id, ok := m.(*ast.Ident); ok {
								names[id.Name]++
							}
							return true
						})
					}
					return false
				case *ast.Ident:
					names[x.Name]++
				}
				return true
			})
		}
		for _, h := range in.helpers {
			if names[h.decl.Name.Name] > 0 {
				continue
			}
			for i, d := range h.file.Decls {
				if d == ast.Decl(h.decl) {
					h.file.Decls = append(h.file.Decls[:i:i], h.file.Decls[i+1:]...)
					in.changed[h.file] = true
					in.note.Removed = append(in.note.Removed, h.key)
					break
				}
			}
		}
	}
	for f := range in.changed {
		in.finishFile(f)
	}
}

func (in *inliner) anyChanged() bool { return len(in.changed) > 0 }

// fileUnsupported: cgo files are never rewritten.  Compiler directives in
// comments (//go:generate, //go:noinline, //go:embed …) are dropped with the
// other comments: the overlay is only type-checked and analysed, never compiled
// into a program, and none of them changes typing.
func (in *inliner) fileUnsupported(f *ast.File) bool {
	for _, im := range f.Imports {
		if im.Path.Value == `"C"` {
			return true
		}
	}
	return false
}

// finishFile drops comments after the package clause (they are positioned by
// offsets that no longer exist) and imports that became unused.
func (in *inliner) finishFile(f *ast.File) { in.finishFileOnly(f, nil) }

// finishFileOnly: as finishFile, but when only is non-nil, just the imports named in it are pruned.
func (in *inliner) finishFileOnly(f *ast.File, only map[string]bool) {
	var keep []*ast.CommentGroup
	for _, cg := range f.Comments {
		if cg.End() < f.Package {
			keep = append(keep, cg)
		}
	}
	f.Comments = keep
	ast.Inspect(f, func(n ast.Node) bool {
		switch x := n.(type) {
		case *ast.FuncDecl:
			x.Doc = nil
		case *ast.GenDecl:
			x.Doc = nil
		case *ast.Field:
			x.Doc, x.Comment = nil, nil
		case *ast.ValueSpec:
			x.Doc, x.Comment = nil, nil
		case *ast.TypeSpec:
			x.Doc, x.Comment = nil, nil
		case *ast.ImportSpec:
			x.Doc, x.Comment = nil, nil
		}
		return true
	})
	used := map[string]bool{}
	ast.Inspect(f, func(n ast.Node) bool {
		if se, ok := n.(*ast.SelectorExpr); ok {
			if id, ok := se.X.(*ast.Ident); ok {
				used[id.Name] = true
			}
		}
		return true
	})
	for _, d := range f.Decls {
		gd, ok := d.(*ast.GenDecl)
		if !ok || gd.Tok != token.IMPORT {
			continue
		}
		var specs []ast.Spec
		for _, s := range gd.Specs {
			is := s.(*ast.ImportSpec)
			name := ""
			if is.Name != nil {
				name = is.Name.Name
			} else if pn := in.importedName(is); pn != "" {
				name = pn
			}
			if name == "_" || name == "." || name == "" || used[name] || (only != nil && !only[name]) {
				specs = append(specs, s)
			}
		}
		gd.Specs = specs
	}
	var decls []ast.Decl
	for _, d := range f.Decls {
		if gd, ok := d.(*ast.GenDecl); ok && gd.Tok == token.IMPORT && len(gd.Specs) == 0 {
			continue
		}
		decls = append(decls, d)
	}
	f.Decls = decls
}

func (in *inliner) importedName(is *ast.ImportSpec) string {
	if pn, ok := in.info().Implicits[is].(*types.PkgName); ok {
		return pn.Name()
	}
	if pn, ok := in.info().Defs[is.Name].(*types.PkgName); ok && is.Name != nil {
		return pn.Name()
	}
	return ""
}

func (in *inliner) ineligible(obj *types.Func, fd *ast.FuncDecl) string {
	sig := obj.Type().(*types.Signature)
	if sig.Variadic() {
		return "variadic"
	}
	if sig.TypeParams().Len() > 0 || sig.RecvTypeParams().Len() > 0 {
		return "generic"
	}
	why := ""
	ast.Inspect(fd.Body, func(n ast.Node) bool {
		switch x := n.(type) {
		case *ast.DeferStmt:
			why = "uses defer"
		case *ast.CallExpr:
			if id, ok := x.Fun.(*ast.Ident); ok {
				if b, ok := in.info().Uses[id].(*types.Builtin); ok && b.Name() == "recover" {
					why = "uses recover"
				}
			}
		case *ast.Ident:
			if in.info().Uses[x] == types.Object(obj) {
				why = "recursive"
			}
		}
		return why == ""
	})
	return why
}

// ---- statement lists --------------------------------------------------------------------

func (in *inliner) block(b *ast.BlockStmt) {
	if b != nil {
		b.List = in.list(b.List)
	}
}

func (in *inliner) list(l []ast.Stmt) []ast.Stmt {
	var out []ast.Stmt
	for i := 0; i < len(l); i++ {
		var next ast.Stmt
		if i+1 < len(l) {
			next = l[i+1]
		}
		if st, used := in.thread(l[i], next); used > 0 {
			out = append(out, st...)
			i += used - 1
			continue
		}
		out = append(out, in.stmt(l[i])...)
	}
	return out
}

// ---- call + immediate test of its result: jump threading -----------------------------------
//
//	x, err := f(a)            var r0 T0; var r1 error; var x T0; var err error
//	if err != nil { A }   ⇒   { <params>; <body: `return e0, e1` → r0, r1 = e0, e1; goto TAKEN | goto SKIP> }
//	rest                      TAKEN: x, err = r0, r1; { A }; goto END
//	                          SKIP:  x, err = r0, r1
//	                          END:   rest
//
// A return whose tested result is syntactically nil / non-nil (true / false)
// jumps straight to the side the test would choose; any other return repeats the
// test on the result variable.  This is the merge-free form of the plain
// expansion: values returned together stay together (no φ of an error return's
// zero value with a success return's value), which is what the rules see in the
// un-refactored code.

type threadCtl struct {
	k         int    // index of the tested result
	takenWhen string // "non" | "nil" | "true" | "false": the class of r_k for which the test holds
	taken     string // labels
	skip      string
	usedTaken bool
	usedSkip  bool
	// mkTaken, when set, builds a private copy of the taken side (copy-back + the
	// caller's single return statement) for one return site of the helper: values
	// returned together then stay together (status with its error), as in code
	// that was never split.  nil: jump to the shared taken side.
	mkTaken func(results []string) []ast.Stmt
}

// matchTest recognises  X != nil, X == nil, X, !X  and returns X.
func matchTest(cond ast.Expr) (ast.Expr, string) {
	for {
		p, ok := cond.(*ast.ParenExpr)
		if !ok {
			break
		}
		cond = p.X
	}
	isNil := func(e ast.Expr) bool { id, ok := e.(*ast.Ident); return ok && id.Name == "nil" }
	switch x := cond.(type) {
	case *ast.BinaryExpr:
		if x.Op == token.NEQ || x.Op == token.EQL {
			when := "non"
			if x.Op == token.EQL {
				when = "nil"
			}
			if isNil(x.Y) {
				return x.X, when
			}
			if isNil(x.X) {
				return x.Y, when
			}
		}
		return nil, ""
	case *ast.UnaryExpr:
		if x.Op == token.NOT {
			return x.X, "false"
		}
		return nil, ""
	}
	return cond, "true"
}

func unparen(e ast.Expr) ast.Expr {
	for {
		p, ok := e.(*ast.ParenExpr)
		if !ok {
			return e
		}
		e = p.X
	}
}

// lhsIdent returns the identifier an assignment target is, or nil for a field of a local.
func lhsIdent(l ast.Expr) *ast.Ident {
	id, _ := l.(*ast.Ident)
	return id
}

// plainTarget: an identifier, or a chain of field selections on a local struct
// value without any pointer indirection: evaluating it has no effect and
// assigning to it cannot panic.
func (in *inliner) plainTarget(l ast.Expr) bool {
	switch x := l.(type) {
	case *ast.Ident:
		return true
	case *ast.SelectorExpr:
		sel := in.info().Selections[x]
		if sel == nil || sel.Kind() != types.FieldVal || sel.Indirect() {
			return false
		}
		if id, ok := x.X.(*ast.Ident); ok {
			v, isVar := in.info().Uses[id].(*types.Var)
			return isVar && !v.IsField() && v.Parent() != in.pk.Types.Scope() && v.Parent() != nil
		}
		return in.plainTarget(x.X)
	}
	return false
}

// thread handles statement s (and possibly the statement after it); it returns
// the replacement and how many statements of the list it consumed (0: not applicable).
func (in *inliner) thread(s, next ast.Stmt) ([]ast.Stmt, int) {
	var call *ast.CallExpr
	var ifs *ast.IfStmt
	var asg *ast.AssignStmt
	consumed := 0
	k := -1
	when := ""
	switch x := s.(type) {
	case *ast.AssignStmt:
		// form (a): results assigned to plain variables, next statement tests one of them
		if len(x.Rhs) != 1 || (x.Tok != token.DEFINE && x.Tok != token.ASSIGN) {
			return nil, 0
		}
		c, ok := unparen(x.Rhs[0]).(*ast.CallExpr)
		if !ok || in.helperOf(c) == nil {
			return nil, 0
		}
		for _, l := range x.Lhs {
			// (targets that are fields of a local could be threaded the same way — plainTarget —
			// but the AST-based comparison of C10 reads the plain expansion of such calls, so they keep it)
			if lhsIdent(l) == nil {
				return nil, 0
			}
		}
		n, ok := next.(*ast.IfStmt)
		if !ok || n.Init != nil {
			return nil, 0
		}
		op, w := matchTest(n.Cond)
		id, isId := unparen0(op).(*ast.Ident)
		if !isId || id.Name == "_" {
			return nil, 0
		}
		for i, l := range x.Lhs {
			if li := lhsIdent(l); li != nil && li.Name == id.Name {
				if k >= 0 {
					return nil, 0
				}
				k = i
			}
		}
		if k < 0 {
			return nil, 0
		}
		call, ifs, asg, consumed, when = c, n, x, 2, w
	case *ast.IfStmt:
		// form (b): the test is applied to the call itself
		if x.Init != nil {
			return nil, 0
		}
		op, w := matchTest(x.Cond)
		c, ok := unparen0(op).(*ast.CallExpr)
		if !ok || in.helperOf(c) == nil {
			return nil, 0
		}
		call, ifs, consumed, when, k = c, x, 1, w, 0
	default:
		return nil, 0
	}
	h := in.helperOf(call)
	sig := h.fn.Type().(*types.Signature)
	if sig.Results().Len() <= k || (asg == nil && sig.Results().Len() != 1) || (asg != nil && sig.Results().Len() != len(asg.Lhs)) {
		return nil, 0
	}
	// arguments must not contain further helper calls (those are expanded by the plain path first)
	for _, a := range append([]ast.Expr{recvOf(call)}, call.Args...) {
		if a != nil && in.hasHelperCall(a) {
			return nil, 0
		}
	}
	// the tested result must be of a kind the test makes sense for
	rt := sig.Results().At(k).Type().Underlying()
	switch when {
	case "non", "nil":
		switch rt.(type) {
		case *types.Interface, *types.Pointer, *types.Slice, *types.Map, *types.Chan, *types.Signature:
		default:
			return nil, 0
		}
	default:
		if b, ok := rt.(*types.Basic); !ok || b.Info()&types.IsBoolean == 0 {
			return nil, 0
		}
	}
	// variables that := declares are declared before the expanded body here: their
	// names must not capture anything the body (or a result type) refers to
	if asg != nil && asg.Tok == token.DEFINE {
		free := map[string]bool{}
		ast.Inspect(h.decl, func(n ast.Node) bool {
			if id, ok := n.(*ast.Ident); ok {
				if o := in.info().Uses[id]; o != nil && (o.Parent() == in.pk.Types.Scope() || o.Parent() == types.Universe) {
					free[id.Name] = true
				}
				if _, isPkg := in.info().Uses[id].(*types.PkgName); isPkg {
					free[id.Name] = true
				}
			}
			return true
		})
		for _, l := range asg.Lhs {
			if id := lhsIdent(l); id != nil && in.info().Defs[id] != nil && free[id.Name] {
				return nil, 0
			}
		}
	}
	thr := &threadCtl{k: k, takenWhen: when}
	// the taken side is a lone return: give every return site of the helper its own copy,
	// provided no name it uses (or assigns on the way) is declared inside the helper's body
	if len(ifs.Body.List) == 1 {
		// (a bare return is left alone: it may stand for named results that a declaration
		// inside the helper's body would shadow)
		if ret, ok := ifs.Body.List[0].(*ast.ReturnStmt); ok && !in.hasHelperCall(ret) && len(ret.Results) > 0 {
			// the variables just assigned are read from the result variables directly (unique
			// names); every other name of the return must not be declared inside the helper
			lhsIdx := map[string]int{}
			if asg != nil {
				for i, l := range asg.Lhs {
					if li := lhsIdent(l); li != nil && li.Name != "_" {
						lhsIdx[li.Name] = i
					}
				}
			}
			fieldRoots := map[string]bool{} // locals whose fields are assigned: a copied return must not read them
			if asg != nil {
				for _, l := range asg.Lhs {
					if lhsIdent(l) == nil {
						ast.Inspect(l, func(n ast.Node) bool {
							if id, ok := n.(*ast.Ident); ok {
								fieldRoots[id.Name] = true
							}
							return true
						})
					}
				}
			}
			names := map[string]bool{}
			ast.Inspect(ret, func(n ast.Node) bool {
				if id, ok := n.(*ast.Ident); ok {
					if _, isLhs := lhsIdx[id.Name]; !isLhs {
						names[id.Name] = true
					}
				}
				return true
			})
			clash := false
			ast.Inspect(ret, func(n ast.Node) bool {
				switch x := n.(type) {
				case *ast.FuncLit:
					clash = true
				case *ast.Ident:
					if fieldRoots[x.Name] {
						clash = true
					}
				}
				return !clash
			})
			ast.Inspect(h.decl.Body, func(n ast.Node) bool {
				switch x := n.(type) {
				case *ast.FuncLit:
					clash = true // a return inside a literal would not be the caller's
				case *ast.Ident:
					if in.info().Defs[x] != nil && names[x.Name] {
						clash = true
					}
				}
				return !clash
			})
			if !clash {
				thr.mkTaken = func(results []string) []ast.Stmt {
					cp := cloneNode(ret, func(old, nw *ast.Ident) {
						if i, ok := lhsIdx[old.Name]; ok && in.info().Uses[old] != nil {
							if _, isVar := in.info().Uses[old].(*types.Var); isVar {
								nw.Name = results[i]
							}
						}
					}).(ast.Stmt)
					return []ast.Stmt{cp}
				}
			}
		}
	}
	exp, why := in.expandWith(h, call, thr)
	if exp == nil {
		in.note.Skipped = append(in.note.Skipped, in.curFn+" → "+h.key+": "+why)
		return nil, 0
	}
	in.note.Inlined = append(in.note.Inlined, h.key+" into "+in.rel+":"+in.curFn+" (threaded)")
	in.changed[in.curFile] = true
	var out []ast.Stmt
	out = append(out, exp.decls...)
	for _, rn := range exp.results {
		out = append(out, &ast.AssignStmt{Lhs: []ast.Expr{ast.NewIdent("_")}, Tok: token.ASSIGN, Rhs: []ast.Expr{ast.NewIdent(rn)}})
	}
	copyBack := func() []ast.Stmt { return nil }
	if asg != nil {
		// new variables of := are declared up front with the result types
		if asg.Tok == token.DEFINE {
			for i, l := range asg.Lhs {
				id := lhsIdent(l)
				if id == nil || id.Name == "_" || in.info().Defs[id] == nil {
					continue
				}
				te := cloneNode(exp.types[i], nil).(ast.Expr)
				out = append(out, &ast.DeclStmt{Decl: &ast.GenDecl{Tok: token.VAR, Specs: []ast.Spec{&ast.ValueSpec{Names: []*ast.Ident{ast.NewIdent(id.Name)}, Type: te}}}})
			}
		}
		copyBack = func() []ast.Stmt {
			var lhs, rhs []ast.Expr
			for i, l := range asg.Lhs {
				lhs = append(lhs, cloneNode(l, nil).(ast.Expr))
				rhs = append(rhs, ast.NewIdent(exp.results[i]))
			}
			// (the variables' only reads may have been the test that is threaded away)
			sts := []ast.Stmt{&ast.AssignStmt{Lhs: lhs, Tok: token.ASSIGN, Rhs: rhs}}
			for _, l := range asg.Lhs {
				if li := lhsIdent(l); li != nil && li.Name != "_" {
					sts = append(sts, &ast.AssignStmt{Lhs: []ast.Expr{ast.NewIdent("_")}, Tok: token.ASSIGN, Rhs: []ast.Expr{ast.NewIdent(li.Name)}})
				}
			}
			return sts
		}
	}
	out = append(out, exp.stmts...)
	end := thr.taken + "_end"
	in.block(ifs.Body)
	takenSide := append(copyBack(), ifs.Body)
	var skipSide []ast.Stmt
	skipSide = append(skipSide, copyBack()...)
	switch e := ifs.Else.(type) {
	case *ast.BlockStmt:
		in.block(e)
		skipSide = append(skipSide, e)
	case *ast.IfStmt:
		skipSide = append(skipSide, &ast.BlockStmt{List: in.stmt(e)})
	}
	labeled := func(label string, used bool, sts []ast.Stmt) []ast.Stmt {
		if len(sts) == 0 {
			sts = []ast.Stmt{&ast.EmptyStmt{}}
		}
		if used {
			sts[0] = &ast.LabeledStmt{Label: ast.NewIdent(label), Stmt: sts[0]}
		}
		return sts
	}
	if thr.mkTaken != nil && !thr.usedTaken {
		// every return site carries its own copy of the taken side
		out = append(out, labeled(thr.skip, thr.usedSkip, skipSide)...)
		return out, consumed
	}
	out = append(out, labeled(thr.taken, thr.usedTaken, takenSide)...)
	out = append(out, &ast.BranchStmt{Tok: token.GOTO, Label: ast.NewIdent(end)})
	out = append(out, labeled(thr.skip, thr.usedSkip, skipSide)...)
	out = append(out, &ast.LabeledStmt{Label: ast.NewIdent(end), Stmt: &ast.EmptyStmt{}})
	return out, consumed
}

func unparen0(e ast.Expr) ast.Expr {
	if e == nil {
		return nil
	}
	return unparen(e)
}

// nonNilGuarded maps each return statement that stands in the body of
// `if X != nil { … }` (X a variable that the body neither assigns nor takes the
// address of) to X: there X is known to be non-nil.
func (in *inliner) nonNilGuarded(body *ast.BlockStmt) map[*ast.ReturnStmt]map[types.Object]bool {
	out := map[*ast.ReturnStmt]map[types.Object]bool{}
	ast.Inspect(body, func(n ast.Node) bool {
		ifs, ok := n.(*ast.IfStmt)
		if !ok {
			return true
		}
		op, when := matchTest(ifs.Cond)
		id, isId := unparen0(op).(*ast.Ident)
		if !isId || when != "non" {
			return true
		}
		obj := in.info().Uses[id]
		if obj == nil {
			return true
		}
		assigned := false
		ast.Inspect(ifs.Body, func(m ast.Node) bool {
			switch x := m.(type) {
			case *ast.AssignStmt:
				for _, l := range x.Lhs {
					if li, ok := unparen(l).(*ast.Ident); ok && (in.info().Uses[li] == obj || in.info().Defs[li] == obj) {
						assigned = true
					}
				}
			case *ast.UnaryExpr:
				if li, ok := unparen(x.X).(*ast.Ident); ok && x.Op == token.AND && in.info().Uses[li] == obj {
					assigned = true
				}
			}
			return !assigned
		})
		if assigned {
			return true
		}
		// every return inside the body (at any depth, function literals excluded) sees X non-nil:
		// nothing in the body assigns X or takes its address
		ast.Inspect(ifs.Body, func(m ast.Node) bool {
			switch x := m.(type) {
			case *ast.FuncLit:
				return false
			case *ast.ReturnStmt:
				// (every enclosing test counts: an inner `if err != nil` inside `if rsp != nil`)
				if out[x] == nil {
					out[x] = map[types.Object]bool{}
				}
				out[x][obj] = true
			}
			return true
		})
		return true
	})
	return out
}

// classOf classifies a returned expression of the helper: "nil", "non", "true", "false" or "".
func (in *inliner) classOf(e ast.Expr) string {
	switch x := unparen(e).(type) {
	case *ast.Ident:
		switch o := in.info().Uses[x].(type) {
		case *types.Nil:
			return "nil"
		case *types.Const:
			if o.Parent() == types.Universe && (x.Name == "true" || x.Name == "false") {
				return x.Name
			}
		}
	case *ast.CallExpr:
		if se, ok := x.Fun.(*ast.SelectorExpr); ok {
			if fn, ok := in.info().Uses[se.Sel].(*types.Func); ok && fn.Pkg() != nil {
				p := fn.Pkg().Path() + "." + fn.Name()
				if p == "fmt.Errorf" || p == "errors.New" {
					return "non"
				}
				// status.Error(f)(code, …) is nil only for codes.OK (= 0)
				if (p == "google.golang.org/grpc/status.Errorf" || p == "google.golang.org/grpc/status.Error") && len(x.Args) > 0 {
					if tv, ok := in.info().Types[x.Args[0]]; ok && tv.Value != nil && tv.Value.String() != "0" {
						return "non"
					}
				}
			}
		}
	case *ast.UnaryExpr:
		if _, ok := unparen(x.X).(*ast.CompositeLit); ok && x.Op == token.AND {
			return "non"
		}
	case *ast.CompositeLit:
		// a struct / array value boxed into an interface, or a slice / map literal: never nil
		return "non"
	}
	return ""
}

// stmt rewrites one statement of a statement list; it may return several.
func (in *inliner) stmt(s ast.Stmt) []ast.Stmt {
	// an init clause that contains a helper call, or a condition/tag with a helper
	// call behind an init clause, is moved into an enclosing block first
	switch x := s.(type) {
	case *ast.IfStmt:
		if x.Init != nil && (in.hasHelperCall(x.Init) || in.hasHelperCall(x.Cond)) {
			init := x.Init
			x.Init = nil
			return []ast.Stmt{&ast.BlockStmt{List: in.list([]ast.Stmt{init, x})}}
		}
	case *ast.SwitchStmt:
		if x.Init != nil && (in.hasHelperCall(x.Init) || (x.Tag != nil && in.hasHelperCall(x.Tag))) {
			init := x.Init
			x.Init = nil
			return []ast.Stmt{&ast.BlockStmt{List: in.list([]ast.Stmt{init, x})}}
		}
	case *ast.TypeSwitchStmt:
		if x.Init != nil && in.hasHelperCall(x.Init) {
			init := x.Init
			x.Init = nil
			return []ast.Stmt{&ast.BlockStmt{List: in.list([]ast.Stmt{init, x})}}
		}
	case *ast.ForStmt:
		if x.Init != nil && in.hasHelperCall(x.Init) {
			init := x.Init
			x.Init = nil
			return []ast.Stmt{&ast.BlockStmt{List: in.list([]ast.Stmt{init, x})}}
		}
	case *ast.LabeledStmt:
		// keep the label on the (possibly expanded) statement: only expand inside
		in.nested(x.Stmt)
		return []ast.Stmt{s}
	}
	// expand calls at the level of this statement (repeat: several calls in one statement)
	var pre []ast.Stmt
	for guard := 0; guard < 8; guard++ {
		p, ns, ok := in.expandIn(s)
		if !ok {
			break
		}
		pre = append(pre, p...)
		s = ns
		if s == nil {
			break
		}
	}
	if s != nil {
		in.nested(s)
		pre = append(pre, s)
	}
	return pre
}

// nested descends into the statement lists contained in s.
func (in *inliner) nested(s ast.Stmt) {
	switch x := s.(type) {
	case *ast.BlockStmt:
		in.block(x)
	case *ast.IfStmt:
		in.block(x.Body)
		switch e := x.Else.(type) {
		case *ast.BlockStmt:
			in.block(e)
		case *ast.IfStmt:
			r := in.stmt(e)
			if len(r) == 1 {
				if _, isIf := r[0].(*ast.IfStmt); isIf {
					x.Else = r[0]
					break
				}
				if blk, isBlk := r[0].(*ast.BlockStmt); isBlk {
					x.Else = blk
					break
				}
			}
			x.Else = &ast.BlockStmt{List: r}
		}
	case *ast.ForStmt:
		in.block(x.Body)
	case *ast.RangeStmt:
		in.block(x.Body)
	case *ast.SwitchStmt:
		in.clauses(x.Body)
	case *ast.TypeSwitchStmt:
		in.clauses(x.Body)
	case *ast.SelectStmt:
		in.clauses(x.Body)
	case *ast.LabeledStmt:
		in.nested(x.Stmt)
	case *ast.CaseClause:
		x.Body = in.list(x.Body)
	case *ast.CommClause:
		x.Body = in.list(x.Body)
	}
	// function literals anywhere in the statement
	ast.Inspect(s, func(n ast.Node) bool {
		switch y := n.(type) {
		case *ast.FuncLit:
			in.block(y.Body)
			return false
		case *ast.BlockStmt, *ast.CaseClause, *ast.CommClause:
			// handled structurally above, but function literals below them still need a visit
			return true
		}
		return true
	})
}

func (in *inliner) clauses(b *ast.BlockStmt) {
	if b == nil {
		return
	}
	for _, c := range b.List {
		in.nested(c)
	}
}

func (in *inliner) helperOf(c *ast.CallExpr) *helper {
	var id *ast.Ident
	switch f := c.Fun.(type) {
	case *ast.Ident:
		id = f
	case *ast.SelectorExpr:
		id = f.Sel
	case *ast.ParenExpr:
		return nil
	}
	if id == nil {
		return nil
	}
	if v, isVar := in.info().Uses[id].(*types.Var); isVar {
		if _, plain := c.Fun.(*ast.Ident); plain {
			return in.localLits[v]
		}
		return nil
	}
	fn, _ := in.info().Uses[id].(*types.Func)
	if fn == nil {
		return nil
	}
	return in.helpers[fn]
}

func (in *inliner) hasHelperCall(n ast.Node) bool {
	found := false
	if n == nil || reflect.ValueOf(n).IsNil() {
		return false
	}
	ast.Inspect(n, func(m ast.Node) bool {
		if _, ok := m.(*ast.FuncLit); ok {
			return false
		}
		if c, ok := m.(*ast.CallExpr); ok && in.helperOf(c) != nil {
			found = true
		}
		return !found
	})
	return found
}

// evalRoots lists, in evaluation order, the expressions a simple statement
// evaluates itself (not those of nested statements).
func (in *inliner) evalRoots(s ast.Stmt) ([]ast.Expr, bool) {
	lhsOperands := func(l ast.Expr) []ast.Expr {
		switch x := l.(type) {
		case *ast.Ident:
			return nil
		case *ast.IndexExpr:
			return []ast.Expr{x.X, x.Index}
		case *ast.SelectorExpr:
			return []ast.Expr{x.X}
		case *ast.StarExpr:
			return []ast.Expr{x.X}
		case *ast.ParenExpr:
			return []ast.Expr{x.X}
		}
		return []ast.Expr{l}
	}
	switch x := s.(type) {
	case *ast.ExprStmt:
		return []ast.Expr{x.X}, true
	case *ast.AssignStmt:
		var r []ast.Expr
		for _, l := range x.Lhs {
			r = append(r, lhsOperands(l)...)
		}
		return append(r, x.Rhs...), true
	case *ast.ReturnStmt:
		return x.Results, true
	case *ast.SendStmt:
		return []ast.Expr{x.Chan, x.Value}, true
	case *ast.IfStmt:
		if x.Init == nil {
			return []ast.Expr{x.Cond}, true
		}
	case *ast.SwitchStmt:
		if x.Init == nil && x.Tag != nil {
			return []ast.Expr{x.Tag}, true
		}
	case *ast.RangeStmt:
		if x.Tok == token.DEFINE || (x.Key == nil && x.Value == nil) {
			return []ast.Expr{x.X}, true
		}
	case *ast.DeclStmt:
		if gd, ok := x.Decl.(*ast.GenDecl); ok && gd.Tok == token.VAR && len(gd.Specs) == 1 {
			return gd.Specs[0].(*ast.ValueSpec).Values, true
		}
	}
	return nil, false
}

// firstCall finds the helper call evaluated first in the statement's own
// expressions and says whether everything evaluated before it is effect-free
// and cannot panic (so that hoisting the call keeps the order of effects).
func (in *inliner) firstCall(roots []ast.Expr) (*ast.CallExpr, bool) {
	simpleSoFar := true
	var found *ast.CallExpr
	ok := false
	var walk func(e ast.Expr) bool // returns "e is simple" ; sets found
	walk = func(e ast.Expr) bool {
		if found != nil || e == nil {
			return false
		}
		if tv, isT := in.info().Types[e]; isT && tv.IsType() {
			return true // make([]T, n), new(T), T(x): the type is not evaluated
		}
		switch x := e.(type) {
		case *ast.Ident, *ast.BasicLit:
			return true
		case *ast.ParenExpr:
			return walk(x.X)
		case *ast.FuncLit:
			return !in.hasHelperCall(x) // a literal is a value; calls inside are not evaluated here
		case *ast.SelectorExpr:
			s := walk(x.X)
			if found != nil {
				return false
			}
			if sel := in.info().Selections[x]; sel != nil && sel.Indirect() {
				return false
			}
			return s
		case *ast.UnaryExpr:
			s := walk(x.X)
			return s && (x.Op == token.ADD || x.Op == token.SUB || x.Op == token.NOT || x.Op == token.XOR)
		case *ast.BinaryExpr:
			if x.Op == token.LAND || x.Op == token.LOR {
				s := walk(x.X)
				if found != nil {
					return false
				}
				if in.hasHelperCall(x.Y) {
					// the call is evaluated conditionally: not hoistable; stop looking in this statement
					found, ok = nil, false
					simpleSoFar = false
					return false
				}
				return s && in.pure(x.Y)
			}
			s1 := walk(x.X)
			if found != nil {
				return false
			}
			if !s1 {
				simpleSoFar = false
			}
			s2 := walk(x.Y)
			if found != nil {
				return false
			}
			return s1 && s2 && x.Op != token.QUO && x.Op != token.REM && x.Op != token.SHL && x.Op != token.SHR
		case *ast.CallExpr:
			if h := in.helperOf(x); h != nil {
				// arguments first: a helper call nested in the arguments comes earlier;
				// otherwise the arguments move together with the call
				saved := simpleSoFar
				for _, a := range append([]ast.Expr{recvOf(x)}, x.Args...) {
					if a == nil {
						continue
					}
					s := walk(a)
					if found != nil {
						return false
					}
					if !s {
						simpleSoFar = false
					}
				}
				simpleSoFar = saved
				found, ok = x, true
				return false
			}
			s := true
			if _, isSel := x.Fun.(*ast.SelectorExpr); isSel {
				s = walk(x.Fun.(*ast.SelectorExpr).X)
				if found != nil {
					return false
				}
				if !s {
					simpleSoFar = false
				}
			}
			for _, a := range x.Args {
				sa := walk(a)
				if found != nil {
					return false
				}
				if !sa {
					simpleSoFar = false
				}
				s = s && sa
			}
			// len/cap of something simple, and conversions to basic types, are simple
			if id, isId := x.Fun.(*ast.Ident); isId && s {
				if b, isB := in.info().Uses[id].(*types.Builtin); isB && (b.Name() == "len" || b.Name() == "cap") {
					return true
				}
				if tn, isT := in.info().Uses[id].(*types.TypeName); isT {
					if _, basic := tn.Type().Underlying().(*types.Basic); basic {
						return true
					}
				}
			}
			return false
		case *ast.IndexExpr:
			for _, c := range []ast.Expr{x.X, x.Index} {
				s := walk(c)
				if found != nil {
					return false
				}
				if !s {
					simpleSoFar = false
				}
			}
			return false
		case *ast.SliceExpr:
			for _, c := range []ast.Expr{x.X, x.Low, x.High, x.Max} {
				if c == nil {
					continue
				}
				s := walk(c)
				if found != nil {
					return false
				}
				if !s {
					simpleSoFar = false
				}
			}
			return false
		case *ast.StarExpr:
			walk(x.X)
			return false
		case *ast.TypeAssertExpr:
			walk(x.X)
			return false
		case *ast.KeyValueExpr:
			return walk(x.Value)
		case *ast.CompositeLit:
			all := true
			for _, el := range x.Elts {
				s := walk(el)
				if found != nil {
					return false
				}
				if !s {
					simpleSoFar = false
					all = false
				}
			}
			return all
		}
		return false
	}
	for _, r := range roots {
		s := walk(r)
		if found != nil {
			return found, ok && (simpleSoFar || in.pureHelperCall(found))
		}
		if !s {
			simpleSoFar = false
		}
	}
	return nil, false
}

// pureHelperCall: the helper only reads its parameters and package-level variables and compares / selects among
// them (no calls, no indexing, no dereference, no division, no assignment to anything but its own locals), and
// the arguments are free of effects: evaluating it earlier than written changes nothing but the order in
// which two expressions that would both panic do so.
func (in *inliner) pureHelperCall(call *ast.CallExpr) bool {
	h := in.helperOf(call)
	if h == nil {
		return false
	}
	for _, a := range append([]ast.Expr{recvOf(call)}, call.Args...) {
		if a != nil && !in.pure(a) {
			return false
		}
	}
	okAll := true
	ast.Inspect(h.decl.Body, func(n ast.Node) bool {
		switch x := n.(type) {
		case *ast.CallExpr:
			if id, ok := x.Fun.(*ast.Ident); ok {
				if b, ok := in.info().Uses[id].(*types.Builtin); ok && (b.Name() == "len" || b.Name() == "cap") {
					return true
				}
			}
			okAll = false
		case *ast.IndexExpr, *ast.SliceExpr, *ast.StarExpr, *ast.TypeAssertExpr, *ast.FuncLit, *ast.GoStmt, *ast.DeferStmt, *ast.SendStmt, *ast.RangeStmt, *ast.ForStmt, *ast.IncDecStmt:
			okAll = false
		case *ast.UnaryExpr:
			if x.Op == token.ARROW || x.Op == token.AND {
				okAll = false
			}
		case *ast.BinaryExpr:
			if x.Op == token.QUO || x.Op == token.REM || x.Op == token.SHL || x.Op == token.SHR {
				okAll = false
			}
		case *ast.SelectorExpr:
			if sel := in.info().Selections[x]; sel != nil && (sel.Indirect() || sel.Kind() != types.FieldVal) {
				okAll = false
			}
		case *ast.AssignStmt:
			for _, l := range x.Lhs {
				id, ok := l.(*ast.Ident)
				if !ok {
					okAll = false
					continue
				}
				o := in.info().Defs[id]
				if o == nil {
					o = in.info().Uses[id]
				}
				if v, isVar := o.(*types.Var); id.Name != "_" && (!isVar || v.Parent() == in.pk.Types.Scope() || v.Parent() == nil) {
					okAll = false
				}
			}
		}
		return okAll
	})
	return okAll
}

// pure: no calls (other than len/cap), receives, or function literals with helper calls.
func (in *inliner) pure(e ast.Expr) bool {
	p := true
	ast.Inspect(e, func(n ast.Node) bool {
		switch x := n.(type) {
		case *ast.CallExpr:
			if id, ok := x.Fun.(*ast.Ident); ok {
				if b, ok := in.info().Uses[id].(*types.Builtin); ok && (b.Name() == "len" || b.Name() == "cap") {
					return true
				}
			}
			if tv, ok := in.info().Types[x.Fun]; ok && tv.IsType() && len(x.Args) == 1 {
				return true // a conversion
			}
			p = false
		case *ast.UnaryExpr:
			if x.Op == token.ARROW {
				p = false
			}
		}
		return p
	})
	return p
}

func recvOf(c *ast.CallExpr) ast.Expr {
	if se, ok := c.Fun.(*ast.SelectorExpr); ok {
		return se.X
	}
	return nil
}

// expandIn expands the first helper call evaluated by statement s.  It returns
// the statements to put before s, the rewritten s (nil when s disappears) and
// whether anything was done.
func (in *inliner) expandIn(s ast.Stmt) ([]ast.Stmt, ast.Stmt, bool) {
	roots, ok := in.evalRoots(s)
	if !ok {
		return nil, s, false
	}
	call, hoistable := in.firstCall(roots)
	if call == nil {
		return nil, s, false
	}
	h := in.helperOf(call)
	site := in.curFn + " → " + h.key
	if !hoistable {
		in.note.Skipped = append(in.note.Skipped, site+": call is not the first effect of its statement")
		return nil, s, false
	}
	sig := h.fn.Type().(*types.Signature)
	nres := sig.Results().Len()
	// where does the call sit?
	whole := false // the call is the complete right-hand side / result list / statement
	switch x := s.(type) {
	case *ast.ExprStmt:
		whole = x.X == ast.Expr(call)
	case *ast.AssignStmt:
		whole = len(x.Rhs) == 1 && x.Rhs[0] == ast.Expr(call)
	case *ast.ReturnStmt:
		whole = len(x.Results) == 1 && x.Results[0] == ast.Expr(call)
	case *ast.DeclStmt:
		vs := x.Decl.(*ast.GenDecl).Specs[0].(*ast.ValueSpec)
		whole = len(vs.Values) == 1 && vs.Values[0] == ast.Expr(call)
	}
	if nres != 1 && !whole {
		in.note.Skipped = append(in.note.Skipped, site+": multi-value call inside an expression")
		return nil, s, false
	}
	in.inPlace = nil
	if whole {
		in.inPlace = in.inPlaceParam(h, call, s)
	}
	rs, isRet := s.(*ast.ReturnStmt)
	in.tail, in.tailNot = isRet && whole && nres > 0, false
	if isRet && !whole && nres == 1 && len(rs.Results) == 1 {
		if u, ok := unparen(rs.Results[0]).(*ast.UnaryExpr); ok && u.Op == token.NOT && unparen(u.X) == ast.Expr(call) {
			in.tail, in.tailNot = true, true // return !f(…)
		}
	}
	exp, why := in.expand(h, call)
	updated := in.inPlace != nil
	tail := in.tail
	in.inPlace, in.tail, in.tailNot = nil, false, false
	if exp == nil {
		in.note.Skipped = append(in.note.Skipped, site+": "+why)
		return nil, s, false
	}
	in.note.Inlined = append(in.note.Inlined, h.key+" into "+in.rel+":"+in.curFn)
	if tail {
		// return f(…): every return of the body is a return of the caller
		in.changed[in.curFile] = true
		return exp.stmts, nil, true
	}
	if updated {
		// x = f(…, E, …) where f returns its (modified) parameter: the body ran on x itself
		in.changed[in.curFile] = true
		pre := exp.stmts
		for _, rn := range exp.results {
			pre = append(pre, &ast.AssignStmt{Lhs: []ast.Expr{ast.NewIdent("_")}, Tok: token.ASSIGN, Rhs: []ast.Expr{ast.NewIdent(rn)}})
		}
		return pre, nil, true
	}
	in.changed[in.curFile] = true
	var results []ast.Expr
	for _, r := range exp.results {
		results = append(results, ast.NewIdent(r))
	}
	pre := exp.stmts
	switch x := s.(type) {
	case *ast.ExprStmt:
		if whole {
			if nres > 0 {
				var blanks []ast.Expr
				for range results {
					blanks = append(blanks, ast.NewIdent("_"))
				}
				pre = append(pre, &ast.AssignStmt{Lhs: blanks, Tok: token.ASSIGN, Rhs: results})
			}
			return pre, nil, true
		}
	case *ast.AssignStmt:
		if whole {
			x.Rhs = results
			return pre, s, true
		}
	case *ast.ReturnStmt:
		if whole {
			x.Results = results
			return pre, s, true
		}
	case *ast.DeclStmt:
		if whole {
			x.Decl.(*ast.GenDecl).Specs[0].(*ast.ValueSpec).Values = results
			return pre, s, true
		}
	}
	// single-valued operand: replace the call by its result variable
	replaced := false
	astutil.Apply(s, func(c *astutil.Cursor) bool {
		if c.Node() == ast.Node(call) {
			c.Replace(ast.NewIdent(exp.results[0]))
			replaced = true
			return false
		}
		switch c.Node().(type) {
		case *ast.BlockStmt, *ast.FuncLit:
			return false
		}
		return true
	}, nil)
	if !replaced {
		// cannot happen (the call was found under s); be safe
		return nil, s, false
	}
	return pre, s, true
}

// inlineSeq numbers expansions across packages and rounds (labels are function-scoped).
var inlineSeq int

type expansion struct {
	decls   []ast.Stmt // declarations of the result variables
	stmts   []ast.Stmt // the block computing them
	results []string
	types   []ast.Expr // result type expressions
}

// expand builds the statements that compute the helper's results for this call.
func (in *inliner) expand(h *helper, call *ast.CallExpr) (*expansion, string) {
	exp, why := in.expandWith(h, call, nil)
	if exp != nil {
		exp.stmts = append(exp.decls, exp.stmts...)
	}
	return exp, why
}

// typeHiddenAtCall marks the reason "a name of the type means something else at the call site".
const typeHiddenAtCall = " cannot be written at the call site"

func (in *inliner) expandWith(h *helper, call *ast.CallExpr, thr *threadCtl) (*expansion, string) {
	sig := h.fn.Type().(*types.Signature)
	if len(call.Args) != sig.Params().Len() {
		return nil, "argument list is a multi-value call"
	}
	if call.Ellipsis.IsValid() {
		return nil, "variadic call"
	}
	inlineSeq++
	pfx := fmt.Sprintf("inl%d_", inlineSeq)
	scope := in.pk.Types.Scope().Innermost(call.Pos())
	if scope == nil {
		return nil, "no scope at the call"
	}
	// free names of the body must mean the same thing at the call site
	bad := ""
	ast.Inspect(h.decl.Body, func(n ast.Node) bool {
		id, ok := n.(*ast.Ident)
		if !ok || bad != "" {
			return bad == ""
		}
		obj := in.info().Uses[id]
		if obj == nil {
			return true
		}
		switch o := obj.(type) {
		case *types.PkgName:
			_, at := scope.LookupParent(id.Name, call.Pos())
			pn, ok := at.(*types.PkgName)
			if !ok || pn.Imported() != o.Imported() {
				bad = "package name " + id.Name + " means something else at the call site"
			}
		default:
			if obj.Parent() == in.pk.Types.Scope() || obj.Parent() == types.Universe {
				_, at := scope.LookupParent(id.Name, call.Pos())
				if at != obj {
					bad = "name " + id.Name + " is shadowed at the call site"
				}
			} else if h.lit != nil && (obj.Pos() < h.lit.Pos() || obj.Pos() >= h.lit.End()) {
				// a variable the literal captures must be the one visible at the call
				if _, isVar := obj.(*types.Var); isVar && !obj.(*types.Var).IsField() {
					if _, at := scope.LookupParent(id.Name, call.Pos()); at != obj {
						bad = "captured variable " + id.Name + " is not the one in scope at the call site"
					}
				}
			}
		}
		return true
	})
	if bad != "" {
		return nil, bad
	}
	qual := in.qualifierAt(call.Pos())
	typeExpr := func(t types.Type) (ast.Expr, string) {
		failed := ""
		s := types.TypeString(t, func(p *types.Package) string {
			n, ok := qual(p)
			if !ok {
				failed = p.Path()
			}
			return n
		})
		if failed != "" {
			return nil, "type " + s + " needs package " + failed + " which the caller's file does not import"
		}
		e, err := parser.ParseExpr(s)
		if err != nil {
			return nil, "type " + s + " is not expressible"
		}
		// a name of the type must mean the type (or the package) at the call site: a local of the caller may hide it
		hidden := ""
		var visit func(n ast.Node) bool
		visit = func(n ast.Node) bool {
			switch x := n.(type) {
			case *ast.SelectorExpr: // pkg.T
				if id, ok := x.X.(*ast.Ident); ok {
					if _, at := scope.LookupParent(id.Name, call.Pos()); at != nil {
						if _, isPkg := at.(*types.PkgName); !isPkg {
							hidden = id.Name
						}
					}
				}
				return false
			case *ast.Field: // the names of fields / parameters are not references
				ast.Inspect(x.Type, visit)
				return false
			case *ast.Ident:
				if _, at := scope.LookupParent(x.Name, call.Pos()); at != nil {
					if _, isType := at.(*types.TypeName); !isType {
						hidden = x.Name
					}
				}
			}
			return true
		}
		ast.Inspect(e, visit)
		if hidden != "" {
			return nil, "type " + s + typeHiddenAtCall + " (" + hidden + " names something else there)"
		}
		zeroPos(e)
		return e, ""
	}
	rename := map[types.Object]string{}
	var out []ast.Stmt
	exp := &expansion{}
	// result variables
	var named []*types.Var
	for i := 0; i < sig.Results().Len(); i++ {
		rv := sig.Results().At(i)
		name := fmt.Sprintf("%sr%d", pfx, i)
		te, why := typeExpr(rv.Type())
		if te == nil {
			return nil, why
		}
		exp.decls = append(exp.decls, &ast.DeclStmt{Decl: &ast.GenDecl{Tok: token.VAR, Specs: []ast.Spec{&ast.ValueSpec{Names: []*ast.Ident{ast.NewIdent(name)}, Type: te}}}})
		exp.results = append(exp.results, name)
		exp.types = append(exp.types, te)
		if rv.Name() != "" && rv.Name() != "_" {
			// a named result is a variable of the function's outermost scope, the scope its
			// top-level statements share (`x, err := f()` there re-uses err): it becomes a
			// local declared next to the parameters, in the block the body is spliced into
			rename[rv] = pfx + rv.Name()
			named = append(named, rv)
		}
	}
	var inner []ast.Stmt
	subst := map[types.Object]ast.Expr{}
	bind := func(v *types.Var, name string, val ast.Expr) string {
		if name != "_" && v == in.inPlace {
			x := ast.NewIdent(in.inPlaceName)
			if in.inPlaceDefine {
				te, why := typeExpr(v.Type())
				if te == nil {
					return why
				}
				exp.decls = append(exp.decls, &ast.DeclStmt{Decl: &ast.GenDecl{Tok: token.VAR, Specs: []ast.Spec{&ast.ValueSpec{Names: []*ast.Ident{x}, Type: te, Values: []ast.Expr{val}}}}})
			} else if id, isId := unparen(val).(*ast.Ident); !isId || id.Name != in.inPlaceName {
				exp.decls = append(exp.decls, &ast.AssignStmt{Lhs: []ast.Expr{x}, Tok: token.ASSIGN, Rhs: []ast.Expr{val}})
			}
			subst[v] = ast.NewIdent(in.inPlaceName)
			return ""
		}
		if name != "_" && in.substitutable(h, v, val, call) {
			subst[v] = val
			return ""
		}
		te, why := typeExpr(v.Type())
		if te == nil {
			// the type cannot be written at the call site because a local hides its name: an argument that has
			// exactly the parameter's type declares the temporary by itself
			if at := in.typeOfArg(val); strings.Contains(why, typeHiddenAtCall) && at != nil && types.Identical(at, v.Type()) {
				if name == "_" {
					inner = append(inner, &ast.AssignStmt{Lhs: []ast.Expr{ast.NewIdent("_")}, Tok: token.ASSIGN, Rhs: []ast.Expr{val}})
					return ""
				}
				inner = append(inner, &ast.AssignStmt{Lhs: []ast.Expr{ast.NewIdent(name)}, Tok: token.DEFINE, Rhs: []ast.Expr{val}})
				inner = append(inner, &ast.AssignStmt{Lhs: []ast.Expr{ast.NewIdent("_")}, Tok: token.ASSIGN, Rhs: []ast.Expr{ast.NewIdent(name)}})
				return ""
			}
			return why
		}
		id := ast.NewIdent(name)
		inner = append(inner, &ast.DeclStmt{Decl: &ast.GenDecl{Tok: token.VAR, Specs: []ast.Spec{&ast.ValueSpec{Names: []*ast.Ident{id}, Type: te, Values: []ast.Expr{val}}}}})
		if name != "_" {
			inner = append(inner, &ast.AssignStmt{Lhs: []ast.Expr{ast.NewIdent("_")}, Tok: token.ASSIGN, Rhs: []ast.Expr{ast.NewIdent(name)}})
		}
		return ""
	}
	// receiver
	if recv := sig.Recv(); recv != nil {
		se, ok := call.Fun.(*ast.SelectorExpr)
		if !ok {
			return nil, "method called without a selector"
		}
		sel := in.info().Selections[se]
		if sel == nil || sel.Kind() != types.MethodVal || len(sel.Index()) != 1 {
			return nil, "method reached through an embedded field or a method expression"
		}
		var rx ast.Expr = se.X
		_, wantPtr := recv.Type().(*types.Pointer)
		_, havePtr := in.info().TypeOf(se.X).Underlying().(*types.Pointer)
		switch {
		case wantPtr && !havePtr:
			rx = &ast.UnaryExpr{Op: token.AND, X: &ast.ParenExpr{X: se.X}}
		case !wantPtr && havePtr:
			rx = &ast.StarExpr{X: &ast.ParenExpr{X: se.X}}
		}
		name := "_"
		if recv.Name() != "" && recv.Name() != "_" {
			name = pfx + recv.Name()
			rename[recv] = name
		}
		if why := bind(recv, name, rx); why != "" {
			return nil, why
		}
	}
	for i := 0; i < sig.Params().Len(); i++ {
		pv := sig.Params().At(i)
		name := "_"
		if pv.Name() != "" && pv.Name() != "_" {
			name = pfx + pv.Name()
			rename[pv] = name
		}
		if why := bind(pv, name, call.Args[i]); why != "" {
			return nil, why
		}
	}
	allNamed := len(named) == sig.Results().Len() && len(named) > 0
	for _, rv := range named {
		te, why := typeExpr(rv.Type())
		if te == nil {
			return nil, why
		}
		inner = append(inner, &ast.DeclStmt{Decl: &ast.GenDecl{Tok: token.VAR, Specs: []ast.Spec{&ast.ValueSpec{Names: []*ast.Ident{ast.NewIdent(rename[rv])}, Type: te}}}})
		inner = append(inner, &ast.AssignStmt{Lhs: []ast.Expr{ast.NewIdent("_")}, Tok: token.ASSIGN, Rhs: []ast.Expr{ast.NewIdent(rename[rv])}})
	}
	if len(named) > 0 && !allNamed {
		return nil, "mixed named and unnamed results"
	}
	// the body
	label := pfx + "ret"
	var origRets []*ast.ReturnStmt
	ast.Inspect(h.decl.Body, func(n ast.Node) bool {
		switch x := n.(type) {
		case *ast.FuncLit:
			return false
		case *ast.ReturnStmt:
			origRets = append(origRets, x)
		}
		return true
	})
	identObj := map[*ast.Ident]types.Object{}
	body := cloneNode(h.decl.Body, func(old, nw *ast.Ident) {
		obj := in.info().Uses[old]
		if obj == nil {
			obj = in.info().Defs[old]
		}
		if obj == nil {
			return
		}
		if _, ok := subst[obj]; ok {
			identObj[nw] = obj
			return
		}
		if n, ok := rename[obj]; ok {
			nw.Name = n
		}
	}).(*ast.BlockStmt)
	if len(subst) > 0 {
		astutil.Apply(body, nil, func(c *astutil.Cursor) bool {
			switch x := c.Node().(type) {
			case *ast.Ident:
				if e, ok := subst[identObj[x]]; ok && identObj[x] != nil {
					c.Replace(&ast.ParenExpr{X: cloneNode(e, nil).(ast.Expr)})
				}
			}
			return true
		})
		// (&x).f → x.f,  *(&x) → x,  (x) → x for plain operands
		astutil.Apply(body, nil, func(c *astutil.Cursor) bool {
			switch x := c.Node().(type) {
			case *ast.SelectorExpr:
				if u, ok := unparen(x.X).(*ast.UnaryExpr); ok && u.Op == token.AND {
					x.X = unparen(u.X)
				}
			case *ast.StarExpr:
				if u, ok := unparen(x.X).(*ast.UnaryExpr); ok && u.Op == token.AND {
					c.Replace(unparen(u.X))
				}
			case *ast.ParenExpr:
				switch unparen(x.X).(type) {
				case *ast.Ident, *ast.BasicLit, *ast.SelectorExpr:
					c.Replace(unparen(x.X))
				}
			}
			return true
		})
	}
	// labels of the body are made unique
	astutil.Apply(body, func(c *astutil.Cursor) bool {
		switch x := c.Node().(type) {
		case *ast.LabeledStmt:
			x.Label = ast.NewIdent(pfx + x.Label.Name)
		case *ast.BranchStmt:
			if x.Label != nil {
				x.Label = ast.NewIdent(pfx + x.Label.Name)
			}
		}
		return true
	}, nil)
	nres := len(exp.results)
	okRet := true
	// straight-line: no return, or a single return that is the last statement of the body
	straight := thr == nil && (len(origRets) == 0 ||
		len(origRets) == 1 && len(h.decl.Body.List) > 0 && h.decl.Body.List[len(h.decl.Body.List)-1] == ast.Stmt(origRets[0]))
	retClass := map[*ast.ReturnStmt]string{}
	if thr != nil {
		var newRets []*ast.ReturnStmt
		ast.Inspect(body, func(n ast.Node) bool {
			switch x := n.(type) {
			case *ast.FuncLit:
				return false
			case *ast.ReturnStmt:
				newRets = append(newRets, x)
			}
			return true
		})
		if len(newRets) != len(origRets) {
			return nil, "internal: return sites of the clone do not line up"
		}
		guarded := in.nonNilGuarded(h.decl.Body)
		for i, o := range origRets {
			if len(o.Results) == nres {
				retClass[newRets[i]] = in.classOf(o.Results[thr.k])
				if id, ok := unparen(o.Results[thr.k]).(*ast.Ident); ok && retClass[newRets[i]] == "" {
					if obj := in.info().Uses[id]; obj != nil && guarded[o][obj] {
						retClass[newRets[i]] = "non"
					}
				}
			} else if len(o.Results) == 0 && sig.Results().Len() > 0 {
				// bare return of named results: unknown
				retClass[newRets[i]] = ""
			}
		}
	}
	if thr != nil {
		thr.taken, thr.skip = pfx+"taken", pfx+"skip"
	}
	astutil.Apply(body, func(c *astutil.Cursor) bool {
		switch x := c.Node().(type) {
		case *ast.FuncLit:
			return false
		case *ast.ReturnStmt:
			brk := ast.Stmt(&ast.BranchStmt{Tok: token.BREAK, Label: ast.NewIdent(label)})
			if thr != nil {
				cls := ""
				if len(x.Results) == nres {
					cls = retClass[x]
				}
				jump := func(l string) ast.Stmt { return &ast.BranchStmt{Tok: token.GOTO, Label: ast.NewIdent(l)} }
				switch {
				case cls == "":
					// repeat the caller's test on the result variable
					var cond ast.Expr
					rk := ast.NewIdent(exp.results[thr.k])
					switch thr.takenWhen {
					case "non":
						cond = &ast.BinaryExpr{X: rk, Op: token.NEQ, Y: ast.NewIdent("nil")}
					case "nil":
						cond = &ast.BinaryExpr{X: rk, Op: token.EQL, Y: ast.NewIdent("nil")}
					case "true":
						cond = rk
					default:
						cond = &ast.UnaryExpr{Op: token.NOT, X: rk}
					}
					thr.usedSkip = true
					takenBody := []ast.Stmt{jump(thr.taken)}
					if thr.mkTaken != nil {
						takenBody = thr.mkTaken(exp.results)
					} else {
						thr.usedTaken = true
					}
					brk = &ast.BlockStmt{List: []ast.Stmt{&ast.IfStmt{Cond: cond, Body: &ast.BlockStmt{List: takenBody}}, jump(thr.skip)}}
				case cls == thr.takenWhen:
					if thr.mkTaken != nil {
						brk = &ast.BlockStmt{List: thr.mkTaken(exp.results)}
					} else {
						thr.usedTaken = true
						brk = jump(thr.taken)
					}
				default:
					thr.usedSkip = true
					brk = jump(thr.skip)
				}
			}
			if in.tail && thr == nil {
				if len(x.Results) == 0 && allNamed {
					for _, rv := range named {
						x.Results = append(x.Results, ast.NewIdent(rename[rv]))
					}
				}
				if in.tailNot && len(x.Results) == 1 {
					switch id, _ := unparen(x.Results[0]).(*ast.Ident); {
					case id != nil && id.Name == "true":
						x.Results[0] = ast.NewIdent("false")
					case id != nil && id.Name == "false":
						x.Results[0] = ast.NewIdent("true")
					default:
						x.Results[0] = &ast.UnaryExpr{Op: token.NOT, X: &ast.ParenExpr{X: x.Results[0]}}
					}
				}
				return false // stays a return, now of the caller
			}
			var copyOut ast.Stmt
			if len(x.Results) == 0 && allNamed {
				var lhs, rhs []ast.Expr
				for i, rv := range named {
					lhs = append(lhs, ast.NewIdent(exp.results[i]))
					rhs = append(rhs, ast.NewIdent(rename[rv]))
				}
				copyOut = &ast.AssignStmt{Lhs: lhs, Tok: token.ASSIGN, Rhs: rhs}
			}
			switch {
			case len(x.Results) == 0 && copyOut != nil && in.inPlace == nil:
				if straight {
					c.Replace(copyOut)
				} else {
					c.Replace(&ast.BlockStmt{List: []ast.Stmt{copyOut, brk}})
				}
			case len(x.Results) == 0 && straight:
				c.Replace(&ast.EmptyStmt{Implicit: true})
			case len(x.Results) == 0:
				c.Replace(brk)
			case len(x.Results) == nres || len(x.Results) == 1:
				var lhs []ast.Expr
				for _, r := range exp.results {
					lhs = append(lhs, ast.NewIdent(r))
				}
				if in.inPlace != nil {
					// the returned value is the parameter, which is the caller's variable itself
					if straight {
						c.Replace(&ast.EmptyStmt{Implicit: true})
					} else {
						c.Replace(brk)
					}
					return false
				}
				if straight {
					c.Replace(&ast.BlockStmt{List: []ast.Stmt{&ast.AssignStmt{Lhs: lhs, Tok: token.ASSIGN, Rhs: x.Results}}})
					return false
				}
				c.Replace(&ast.BlockStmt{List: []ast.Stmt{&ast.AssignStmt{Lhs: lhs, Tok: token.ASSIGN, Rhs: x.Results}, brk}})
			default:
				okRet = false
			}
			return false
		}
		return true
	}, nil)
	if !okRet {
		return nil, "unexpected return arity"
	}
	if thr != nil {
		// every path of the body ends in a goto (a function with results cannot fall off its end);
		// the body's top-level statements share the scope of the parameters, as in the function
		inner = append(inner, body.List...)
		out = append(out, &ast.BlockStmt{List: inner})
		exp.stmts = out
		return exp, ""
	}
	if in.tail && thr == nil {
		inner = append(inner, body.List...)
		exp.decls = nil
		exp.stmts = []ast.Stmt{&ast.BlockStmt{List: inner}}
		return exp, ""
	}
	if straight {
		// no early exit: the body's statements stand for themselves
		flat := len(inner) == 0
		for _, st := range body.List {
			switch y := st.(type) {
			case *ast.DeclStmt, *ast.LabeledStmt:
				flat = false
			case *ast.AssignStmt:
				if y.Tok == token.DEFINE {
					flat = false
				}
			case *ast.BlockStmt:
				// the rewritten final return
				if len(y.List) == 1 {
					continue
				}
			}
		}
		if flat {
			for _, st := range body.List {
				if blk, ok := st.(*ast.BlockStmt); ok && len(blk.List) == 1 {
					out = append(out, blk.List[0])
					continue
				}
				out = append(out, st)
			}
		} else {
			inner = append(inner, body.List...)
			out = append(out, &ast.BlockStmt{List: inner})
		}
		exp.stmts = out
		return exp, ""
	}
	// parameters, named results and the body's top-level statements share one scope (the loop body)
	inner = append(inner, body.List...)
	inner = append(inner, &ast.BranchStmt{Tok: token.BREAK, Label: ast.NewIdent(label)})
	out = append(out, &ast.LabeledStmt{Label: ast.NewIdent(label), Stmt: &ast.ForStmt{Body: &ast.BlockStmt{List: inner}}})
	exp.stmts = out
	return exp, ""
}

// inPlaceParam recognises  x = f(…, E, …)  and  x := f(…, E, …)  where x is a
// local variable of the caller, f's single result has the type of the
// parameter that receives E (passed by value) and every return of f returns
// exactly that parameter: f works on its private copy of E and hands it back.
// Copying E into x first and running the body on x itself gives the same final
// x; the difference — x changes step by step instead of at the end — is
// invisible because nothing else can observe the local x while the body runs
// (no other argument mentions it, its address is not taken, no closures).
func (in *inliner) inPlaceParam(h *helper, call *ast.CallExpr, s ast.Stmt) *types.Var {
	as, ok := s.(*ast.AssignStmt)
	if !ok || (as.Tok != token.ASSIGN && as.Tok != token.DEFINE) || len(as.Lhs) != 1 {
		return nil
	}
	lhs, ok := unparen(as.Lhs[0]).(*ast.Ident)
	if !ok || lhs.Name == "_" {
		return nil
	}
	var xv *types.Var
	if as.Tok == token.DEFINE {
		xv, _ = in.info().Defs[lhs].(*types.Var)
	} else {
		xv, _ = in.info().Uses[lhs].(*types.Var)
	}
	if xv == nil || xv.IsField() || xv.Parent() == in.pk.Types.Scope() || xv.Parent() == nil {
		return nil
	}
	sig := h.fn.Type().(*types.Signature)
	if sig.Results().Len() != 1 || len(call.Args) != sig.Params().Len() {
		return nil
	}
	// the parameter every return hands back
	var pv *types.Var
	okAll, nret := true, 0
	ast.Inspect(h.decl.Body, func(n ast.Node) bool {
		switch x := n.(type) {
		case *ast.FuncLit:
			okAll = false // a closure could keep the parameter alive
		case *ast.ReturnStmt:
			nret++
			if len(x.Results) != 1 {
				okAll = false
				break
			}
			id, isId := unparen(x.Results[0]).(*ast.Ident)
			v, _ := in.info().Uses[id].(*types.Var)
			if !isId || v == nil || (pv != nil && v != pv) {
				okAll = false
				break
			}
			pv = v
		case *ast.Ident:
			if x.Name == lhs.Name && in.info().Defs[x] != nil {
				okAll = false // the body declares the caller's name
			}
		}
		return okAll
	})
	if !okAll || nret == 0 || pv == nil {
		return nil
	}
	idx := -1
	for i := 0; i < sig.Params().Len(); i++ {
		if sig.Params().At(i) == pv {
			idx = i
		}
	}
	if idx < 0 || !types.Identical(pv.Type(), sig.Results().At(0).Type()) || !types.Identical(pv.Type(), xv.Type()) {
		return nil
	}
	if _, isPtr := pv.Type().Underlying().(*types.Pointer); isPtr {
		return nil
	}
	addrTaken := false
	ast.Inspect(h.decl.Body, func(n ast.Node) bool {
		if u, ok := n.(*ast.UnaryExpr); ok && u.Op == token.AND {
			if id, isId := unparen(u.X).(*ast.Ident); isId && in.info().Uses[id] == types.Object(pv) {
				addrTaken = true
			}
		}
		return !addrTaken
	})
	if addrTaken {
		return nil
	}
	// E is copied into x before the other arguments are evaluated: they must be pure and must not mention x
	for i, a := range append([]ast.Expr{recvOf(call)}, call.Args...) {
		if a == nil {
			continue
		}
		mentions := false
		ast.Inspect(a, func(n ast.Node) bool {
			if id, ok := n.(*ast.Ident); ok && id.Name == lhs.Name {
				mentions = true
			}
			return true
		})
		if i-1 == idx {
			if id, isId := unparen(a).(*ast.Ident); mentions && !(isId && as.Tok == token.ASSIGN && in.info().Uses[id] == types.Object(xv)) {
				return nil // E mentions x other than being x itself
			}
			continue
		}
		if mentions || !in.pure(a) {
			return nil
		}
	}
	in.inPlaceName, in.inPlaceDefine, in.inPlaceIdx = lhs.Name, as.Tok == token.DEFINE, idx
	return pv
}

// substitutable: the parameter can be replaced by the argument expression
// itself.  The argument is a literal, a constant, a local variable of the
// caller or the address of one; the parameter is never assigned or addressed
// in the body; no name of the argument is declared inside the body; and no
// other argument hands out the address of the same variable.
func (in *inliner) substitutable(h *helper, p *types.Var, arg ast.Expr, call *ast.CallExpr) bool {
	a := unparen(arg)
	// the argument must have the parameter's very type: an implicit conversion (a concrete value handed to an
	// interface parameter) is part of the binding
	if at := in.typeOfArg(arg); at == nil || !types.Identical(at, p.Type()) {
		return false
	}
	var base *ast.Ident
	switch x := a.(type) {
	case *ast.Ident:
		base = x
	case *ast.UnaryExpr:
		id, ok := unparen(x.X).(*ast.Ident)
		if x.Op != token.AND || !ok {
			return false
		}
		base = id
	default:
		return false
	}
	if base != nil {
		// (constants and nil are not substituted: they would lose the parameter's type)
		switch o := in.info().Uses[base].(type) {
		case *types.Var:
			if o.IsField() || o.Parent() == in.pk.Types.Scope() || o.Parent() == nil {
				return false
			}
			// another argument takes the variable's address: the body could change it
			if _, isAddr := a.(*ast.UnaryExpr); !isAddr {
				for _, other := range append([]ast.Expr{recvOf(call)}, call.Args...) {
					if other == nil || other == arg {
						continue
					}
					aliased := false
					ast.Inspect(other, func(n ast.Node) bool {
						if u, ok := n.(*ast.UnaryExpr); ok && u.Op == token.AND {
							ast.Inspect(u.X, func(m ast.Node) bool {
								if id, ok := m.(*ast.Ident); ok && in.info().Uses[id] == types.Object(o) {
									aliased = true
								}
								return true
							})
						}
						return true
					})
					if aliased {
						return false
					}
				}
			}
		default:
			return false
		}
	}
	okAll := true
	ast.Inspect(h.decl.Body, func(n ast.Node) bool {
		isP := func(e ast.Expr) bool {
			id, ok := unparen(e).(*ast.Ident)
			return ok && (in.info().Uses[id] == types.Object(p) || in.info().Defs[id] == types.Object(p))
		}
		switch x := n.(type) {
		case *ast.AssignStmt:
			for _, l := range x.Lhs {
				if isP(l) {
					okAll = false
				}
			}
		case *ast.IncDecStmt:
			if isP(x.X) {
				okAll = false
			}
		case *ast.UnaryExpr:
			if x.Op == token.AND && isP(x.X) {
				okAll = false
			}
		case *ast.RangeStmt:
			if x.Key != nil && isP(x.Key) || x.Value != nil && isP(x.Value) {
				okAll = false
			}
		case *ast.Ident:
			if base != nil && x.Name == base.Name && in.info().Defs[x] != nil {
				okAll = false // the body declares the argument's name
			}
		}
		return okAll
	})
	// a value-typed struct/array parameter selected by address (p.f = …) is an assignment too
	if okAll {
		ast.Inspect(h.decl.Body, func(n ast.Node) bool {
			if as, ok := n.(*ast.AssignStmt); ok {
				for _, l := range as.Lhs {
					root := l
					for {
						switch y := unparen(root).(type) {
						case *ast.SelectorExpr:
							root = y.X
							continue
						case *ast.IndexExpr:
							root = y.X
							continue
						}
						break
					}
					if id, ok := unparen(root).(*ast.Ident); ok && in.info().Uses[id] == types.Object(p) {
						if _, isPtr := p.Type().Underlying().(*types.Pointer); !isPtr {
							okAll = false
						}
					}
				}
			}
			return okAll
		})
	}
	return okAll
}

// qualifierAt maps a package to the name it has in the file containing pos.
func (in *inliner) qualifierAt(pos token.Pos) func(*types.Package) (string, bool) {
	var file *ast.File
	for _, f := range in.pk.Syntax {
		if f.Pos() <= pos && pos <= f.End() {
			file = f
		}
	}
	names := map[string]string{}
	if file != nil {
		for _, is := range file.Imports {
			path := strings.Trim(is.Path.Value, `"`)
			if is.Name != nil {
				if is.Name.Name != "_" && is.Name.Name != "." {
					names[path] = is.Name.Name
				}
				continue
			}
			if n := in.importedName(is); n != "" {
				names[path] = n
			}
		}
	}
	return func(p *types.Package) (string, bool) {
		if p == in.pk.Types {
			return "", true
		}
		n, ok := names[p.Path()]
		return n, ok
	}
}

// ---- AST cloning ---------------------------------------------------------------------------

var (
	identPtrType = reflect.TypeOf((*ast.Ident)(nil))
	objPtrType   = reflect.TypeOf((*ast.Object)(nil))
	scopePtrType = reflect.TypeOf((*ast.Scope)(nil))
	posType      = reflect.TypeOf(token.NoPos)
	cgPtrType    = reflect.TypeOf((*ast.CommentGroup)(nil))
)

// cloneNode deep-copies an AST without positions, objects and comments;
// onIdent sees every (old, new) identifier pair.
func cloneNode(n ast.Node, onIdent func(old, nw *ast.Ident)) ast.Node {
	v := cloneValue(reflect.ValueOf(n), onIdent)
	return v.Interface().(ast.Node)
}

func cloneValue(v reflect.Value, onIdent func(old, nw *ast.Ident)) reflect.Value {
	switch v.Kind() {
	case reflect.Ptr:
		if v.IsNil() {
			return v
		}
		switch v.Type() {
		case objPtrType, scopePtrType, cgPtrType:
			return reflect.Zero(v.Type())
		}
		nv := reflect.New(v.Type().Elem())
		cloneStruct(v.Elem(), nv.Elem(), onIdent)
		if v.Type() == identPtrType && onIdent != nil {
			onIdent(v.Interface().(*ast.Ident), nv.Interface().(*ast.Ident))
		}
		return nv
	case reflect.Interface:
		if v.IsNil() {
			return v
		}
		nv := reflect.New(v.Type()).Elem()
		nv.Set(cloneValue(v.Elem(), onIdent))
		return nv
	case reflect.Slice:
		if v.IsNil() {
			return v
		}
		nv := reflect.MakeSlice(v.Type(), v.Len(), v.Len())
		for i := 0; i < v.Len(); i++ {
			nv.Index(i).Set(cloneValue(v.Index(i), onIdent))
		}
		return nv
	case reflect.Struct:
		nv := reflect.New(v.Type()).Elem()
		cloneStruct(v, nv, onIdent)
		return nv
	}
	return v
}

func cloneStruct(src, dst reflect.Value, onIdent func(old, nw *ast.Ident)) {
	for i := 0; i < src.NumField(); i++ {
		f := src.Field(i)
		if !dst.Field(i).CanSet() {
			continue
		}
		if f.Type() == posType {
			// positions are dropped, except the two whose validity carries meaning
			if n := src.Type().Field(i).Name; (n == "Ellipsis" || n == "Assign") && f.Int() != 0 {
				dst.Field(i).Set(f)
			}
			continue
		}
		dst.Field(i).Set(cloneValue(f, onIdent))
	}
}

// zeroPos clears the positions of a freshly parsed expression.
func zeroPos(n ast.Node) {
	ast.Inspect(n, func(m ast.Node) bool {
		if m == nil {
			return false
		}
		v := reflect.ValueOf(m)
		if v.Kind() == reflect.Ptr && !v.IsNil() && v.Elem().Kind() == reflect.Struct {
			e := v.Elem()
			for i := 0; i < e.NumField(); i++ {
				if e.Field(i).Type() == posType && e.Field(i).CanSet() {
					e.Field(i).SetInt(0)
				}
			}
		}
		return true
	})
}

// typeOfArg: the type of an argument expression, also of the &x / *x the normaliser itself wrote around a typed x.
func (in *inliner) typeOfArg(e ast.Expr) types.Type {
	if t := in.info().TypeOf(e); t != nil {
		return t
	}
	switch x := e.(type) {
	case *ast.ParenExpr:
		return in.typeOfArg(x.X)
	case *ast.UnaryExpr:
		if x.Op == token.AND {
			if t := in.typeOfArg(x.X); t != nil {
				return types.NewPointer(t)
			}
		}
	case *ast.StarExpr:
		if t := in.typeOfArg(x.X); t != nil {
			if p, ok := t.Underlying().(*types.Pointer); ok {
				return p.Elem()
			}
		}
	}
	return nil
}
