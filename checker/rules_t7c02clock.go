package main

import (
	"fmt"
	"go/token"
	"go/types"
	"os"
	"sort"
	"strings"

	"golang.org/x/tools/go/ssa"
)

// Round 7, C02.R10 (run for the filters of C18 as C18.R6): NO STALE CLOCK.
//
// "Expired", "inside the window" are judged at the time of the submission: the instant a temporal filter
// compares the certificate with is configuration (a fixed instant somebody configured) or a clock read made
// during THAT call.  C02.R1 decides the second half inside ValidateChain (ValidateChain:wall-clock-by-default:
// with no configured time the instant compared is time.Now()).  What that rule cannot see is the first half:
// the "configured" instant is read from state that outlives the call (the validation options of the log, the
// intervals of a temporal client, …), and whoever writes a SAMPLE OF THE CLOCK into that state — at set-up,
// in a constructor, in a background refresh — freezes "now" for every later request.
//
// Fact decided: no clock sample is stored into long-lived state that the comparison of a temporal filter reads.
//
//	cells     the long-lived cells a filter reads are found on the filter itself: the operands of every
//	          comparison of instants in it (time.Time methods over two instants, integer comparisons of Unix
//	          readings) are followed back inside the filter; every field of a module struct (and every module
//	          global) the operand is read from is a cell — except the fields of the certificate, which is the
//	          subject of the comparison, not state of the filter.
//	stores    memory is modelled per field (every store to field f anywhere in the module — composite
//	          literals, constructors, assignments through a pointer held in f, element stores into a slice held
//	          in f — may be what a read of f sees).  The value of every such store is followed back through
//	          copies, φ-nodes, arithmetic, results of callees (module functions, and library functions that have
//	          a body), parameters (to the arguments of every call site, call strings kept so that a helper's
//	          parameter resolves to the argument of the call being followed) and interface calls (to the
//	          module's implementations).  A field or global read on the way is a further cell, judged on its own
//	          stores (the closure of "feeds").  Reaching a read of the clock — time.Now / Since / Until /
//	          After / Tick / NewTimer / NewTicker / AfterFunc, directly or through any function or interface
//	          whose result derives from one — makes the stored value a clock sample.
//	lifetime  a clock sample in a cell is harmless exactly when the struct it is stored into is a temporary of
//	          the call that took the sample: the sample was taken in the activation (or passed down from an
//	          activation, call sites matched) in which the struct written lives as a local that is only read,
//	          copied into other such locals, handed by value / pointer to module functions that only read it,
//	          or returned along the very call sites the sample came down; and no call that consumes the struct
//	          sits on a cycle that does not take the sample again.  Everything else — returned to an unknown
//	          caller, stored into a field / global / slice, boxed, captured, handed to a goroutine or to code
//	          without a body — outlives the call, and the store is reported.
//
// Fails closed: a filter without a comparison of instants, a comparison that reads no cell where the floor
// says it does, a derivation that ends in something not followed (channel receive, select, a function
// literal's parameter with unknown callers, an interface without implementation in the module whose result is
// an instant, budget exhausted) are failed obligations ("undecided").

// ---- indexes over the module ---------------------------------------------------------------------------

type clkIndex struct {
	funcs        []*ssa.Function
	fieldStores  map[*types.Var][]*ssa.Store
	derefStores  map[*types.Var][]*ssa.Store      // *x.f = v
	elemStores   map[*types.Var][]ssa.Instruction // x.f[i] = v (Store) / x.f[k] = v (MapUpdate)
	globalStores map[*ssa.Global][]*ssa.Store
	sites        map[*ssa.Function][]ssa.CallInstruction
	invokes      map[string][]ssa.CallInstruction
	closures     map[*ssa.Function][]*ssa.MakeClosure
	impls        map[string][]*ssa.Function
	owner        map[*types.Var]types.Type // struct type a field was seen selected from
}

var clkIndexMemo = map[*Prog]*clkIndex{}

func isModulePkg(p *types.Package) bool {
	return p != nil && (p.Path() == ModPath || strings.HasPrefix(p.Path(), ModPath+"/"))
}

func isModuleVar(f *types.Var) bool { return f != nil && isModulePkg(f.Pkg()) }

func isModuleFn(fn *ssa.Function) bool { return fn != nil && isModulePkg(fnPkg(fn)) }

func clkIndexOf(p *Prog) *clkIndex {
	if ix := clkIndexMemo[p]; ix != nil {
		return ix
	}
	ix := &clkIndex{fieldStores: map[*types.Var][]*ssa.Store{}, derefStores: map[*types.Var][]*ssa.Store{}, elemStores: map[*types.Var][]ssa.Instruction{},
		globalStores: map[*ssa.Global][]*ssa.Store{}, sites: map[*ssa.Function][]ssa.CallInstruction{}, invokes: map[string][]ssa.CallInstruction{},
		closures: map[*ssa.Function][]*ssa.MakeClosure{}, impls: map[string][]*ssa.Function{}, owner: map[*types.Var]types.Type{}}
	clkIndexMemo[p] = ix
	seen := map[*ssa.Function]bool{}
	var add func(fn *ssa.Function)
	add = func(fn *ssa.Function) {
		if fn == nil || seen[fn] {
			return
		}
		seen[fn] = true
		ix.funcs = append(ix.funcs, fn)
		for _, af := range fn.AnonFuncs {
			add(af)
		}
	}
	for _, fn := range p.ModFuncs {
		add(fn)
	}
	// package initialisers (var x = …, composite literals of package-level variables) are synthetic and not in ModFuncs
	for _, pk := range p.Pkgs {
		if sp := p.SSA.Package(pk.Types); sp != nil {
			add(sp.Func("init"))
		}
	}
	for _, fn := range ix.funcs {
		eachInstr(fn, func(in ssa.Instruction) {
			switch x := in.(type) {
			case *ssa.FieldAddr:
				if f := fieldOf(x); f != nil {
					ix.owner[f] = x.X.Type().Underlying().(*types.Pointer).Elem()
				}
			case *ssa.Field:
				if f := fieldOfVal(x); f != nil {
					ix.owner[f] = x.X.Type()
				}
			case *ssa.Store:
				switch a := x.Addr.(type) {
				case *ssa.FieldAddr:
					if f := fieldOf(a); f != nil {
						ix.fieldStores[f] = append(ix.fieldStores[f], x)
					}
				case *ssa.Global:
					ix.globalStores[a] = append(ix.globalStores[a], x)
				}
			case *ssa.MakeClosure:
				if cf, ok := x.Fn.(*ssa.Function); ok {
					ix.closures[cf] = append(ix.closures[cf], x)
				}
			}
			if ci, ok := in.(ssa.CallInstruction); ok {
				com := ci.Common()
				if com.IsInvoke() {
					ix.invokes[com.Method.Name()] = append(ix.invokes[com.Method.Name()], ci)
				} else if cf := com.StaticCallee(); cf != nil {
					ix.sites[cf] = append(ix.sites[cf], ci)
				}
			}
		})
	}
	// stores through a pointer / into a container that is held in a field (needs the call sites)
	for _, fn := range ix.funcs {
		eachInstr(fn, func(in ssa.Instruction) {
			switch x := in.(type) {
			case *ssa.Store:
				switch a := x.Addr.(type) {
				case *ssa.FieldAddr, *ssa.Global, *ssa.Alloc:
				case *ssa.IndexAddr:
					for _, f := range ix.heldInFields(a.X, 2, map[ssa.Value]bool{}) {
						ix.elemStores[f] = append(ix.elemStores[f], x)
					}
				default:
					for _, f := range ix.heldInFields(x.Addr, 2, map[ssa.Value]bool{}) {
						ix.derefStores[f] = append(ix.derefStores[f], x)
					}
				}
			case *ssa.MapUpdate:
				for _, f := range ix.heldInFields(x.Map, 2, map[ssa.Value]bool{}) {
					ix.elemStores[f] = append(ix.elemStores[f], x)
				}
			}
		})
	}
	return ix
}

// heldInFields: the module fields of which v is (a copy of) the value read: x.f, a φ of such, a parameter that
// receives such a value at some call site.
func (ix *clkIndex) heldInFields(v ssa.Value, depth int, seen map[ssa.Value]bool) []*types.Var {
	if v == nil || seen[v] {
		return nil
	}
	seen[v] = true
	switch x := v.(type) {
	case *ssa.UnOp:
		if fa, ok := x.X.(*ssa.FieldAddr); ok && x.Op == token.MUL {
			if f := fieldOf(fa); isModuleVar(f) {
				return []*types.Var{f}
			}
		}
	case *ssa.Field:
		if f := fieldOfVal(x); isModuleVar(f) {
			return []*types.Var{f}
		}
	case *ssa.Phi:
		var out []*types.Var
		for _, e := range x.Edges {
			out = append(out, ix.heldInFields(e, depth, seen)...)
		}
		return out
	case *ssa.Slice:
		return ix.heldInFields(x.X, depth, seen)
	case *ssa.ChangeType:
		return ix.heldInFields(x.X, depth, seen)
	case *ssa.Parameter:
		if depth == 0 || x.Parent() == nil {
			return nil
		}
		var out []*types.Var
		i := paramIndex(x)
		for _, c := range ix.sites[x.Parent()] {
			if args := CallArgs(c); i >= 0 && i < len(args) {
				out = append(out, ix.heldInFields(args[i], depth-1, seen)...)
			}
		}
		return out
	}
	return nil
}

// implementers: the functions with a body that an invocation of method name on interface it may run,
// taken over the named types of the module.
func (ix *clkIndex) implementers(p *Prog, it *types.Interface, pkg *types.Package, name string) []*ssa.Function {
	key := fmt.Sprintf("%p|%s", it, name)
	if fs, ok := ix.impls[key]; ok {
		return fs
	}
	var out []*ssa.Function
	for _, pk := range p.Pkgs {
		sc := pk.Types.Scope()
		for _, n := range sc.Names() {
			tn, ok := sc.Lookup(n).(*types.TypeName)
			if !ok || tn.IsAlias() {
				continue
			}
			if _, isIface := tn.Type().Underlying().(*types.Interface); isIface {
				continue
			}
			if nt, ok := tn.Type().(*types.Named); ok && nt.TypeParams().Len() > 0 {
				continue
			}
			for _, t := range []types.Type{tn.Type(), types.NewPointer(tn.Type())} {
				if !types.Implements(t, it) {
					continue
				}
				sel := types.NewMethodSet(t).Lookup(pkg, name)
				if sel == nil {
					continue
				}
				if fn := p.SSA.MethodValue(sel); fn != nil && len(fn.Blocks) > 0 {
					dup := false
					for _, o := range out {
						// the pointer method set repeats the value methods through a wrapper
						dup = dup || o == fn || fn.Synthetic != "" && o.Name() == fn.Name() && TypeName(o.Signature.Recv().Type()) == strings.TrimPrefix(TypeName(fn.Signature.Recv().Type()), "*")
					}
					if !dup {
						out = append(out, fn)
					}
				}
				break
			}
		}
	}
	ix.impls[key] = out
	return out
}

// ---- the backward derivation ----------------------------------------------------------------------------

type clkDown struct {
	c   ssa.CallInstruction
	fn  *ssa.Function
	ext bool
}

// clkState: how the node being looked at relates to the activation the derivation started in.
type clkState struct {
	fresh bool                  // reached through values of activations that enclose / are enclosed by the start (no memory in between)
	why   string                // why not fresh
	down  []clkDown             // calls entered (results followed into the callee) and not yet left
	up    []ssa.CallInstruction // call sites climbed through (parameter → argument), innermost first
}

func (s clkState) ext() bool {
	for _, d := range s.down {
		if d.ext {
			return true
		}
	}
	return false
}

func (s clkState) sig() string {
	var b strings.Builder
	if s.fresh {
		b.WriteString("F")
	} else {
		b.WriteString("S")
	}
	for _, d := range s.down {
		fmt.Fprintf(&b, "d%p", d.c)
	}
	for _, u := range s.up {
		fmt.Fprintf(&b, "u%p", u)
	}
	return b.String()
}

type clkTrail struct {
	text string
	prev *clkTrail
}

func (t *clkTrail) String() string {
	var parts []string
	for x := t; x != nil; x = x.prev {
		if x.text != "" && (len(parts) == 0 || parts[len(parts)-1] != x.text) {
			parts = append(parts, x.text)
		}
	}
	// root first
	for i, j := 0, len(parts)-1; i < j; i, j = i+1, j-1 {
		parts[i], parts[j] = parts[j], parts[i]
	}
	if len(parts) > 6 {
		parts = append(append([]string{}, parts[:3]...), append([]string{"…"}, parts[len(parts)-2:]...)...)
	}
	return strings.Join(parts, " ← ")
}

type clkItem struct {
	v     ssa.Value
	ops   string // pending selections on the values reached: '*' contents of the address, 'e' elements of the container
	idx   int    // result wanted of a tuple-valued v (−1: the value itself)
	st    clkState
	trail *clkTrail
}

// clkCell is a long-lived memory cell: a field of a module struct (on any instance) or a module global, and the
// selections applied to what is read from it.
type clkCell struct {
	f   *types.Var
	g   *ssa.Global
	ops string
}

func (c clkCell) key() string {
	if c.g != nil {
		return fmt.Sprintf("g%p|%s", c.g, c.ops)
	}
	return fmt.Sprintf("f%p|%s", c.f, c.ops)
}

type clkLeaf struct {
	call  ssa.CallInstruction
	st    clkState
	trail *clkTrail
}

type clkOut struct {
	clocks  []clkLeaf
	cells   []clkCell
	cellVia map[string]string
	unknown []string
	nodes   int
}

type clkEngine struct {
	r     *Run
	ix    *clkIndex
	scope bool // derivation of a filter's operand: stops at the filter's parameters
	out   *clkOut
	seen  map[string]bool
	work  []clkItem
}

const clkBudget = 60000

func newClkEngine(r *Run) *clkEngine { return &clkEngine{r: r, ix: clkIndexOf(r.P)} }

func (e *clkEngine) explore(v ssa.Value, ops string, scope bool) *clkOut {
	e.scope = scope
	e.out = &clkOut{cellVia: map[string]string{}}
	e.seen = map[string]bool{}
	e.work = nil
	e.push(clkItem{v: v, ops: ops, idx: -1, st: clkState{fresh: true}})
	for len(e.work) > 0 {
		it := e.work[len(e.work)-1]
		e.work = e.work[:len(e.work)-1]
		e.out.nodes++
		if e.out.nodes > clkBudget {
			e.unknown(it, "derivation too large to follow (budget exhausted)")
			break
		}
		e.step(it)
	}
	return e.out
}

func (e *clkEngine) push(it clkItem) {
	if it.v == nil {
		return
	}
	if len(it.ops) > 5 {
		e.unknown(it, "selection too deep")
		return
	}
	k := fmt.Sprintf("%p|%s|%d|%s", it.v, it.ops, it.idx, it.st.sig())
	if e.seen[k] {
		return
	}
	e.seen[k] = true
	e.work = append(e.work, it)
}

func (e *clkEngine) next(it clkItem, v ssa.Value, ops string) {
	e.push(clkItem{v: v, ops: ops, idx: -1, st: it.st, trail: it.trail})
}

func (e *clkEngine) nextT(it clkItem, v ssa.Value, ops, text string) {
	e.push(clkItem{v: v, ops: ops, idx: -1, st: it.st, trail: &clkTrail{text: text, prev: it.trail}})
}

func (e *clkEngine) unknown(it clkItem, what string) {
	if it.st.ext() {
		return // inside library code only positive findings count (see Assume)
	}
	s := what
	if it.trail != nil {
		s += " (via " + it.trail.String() + ")"
	}
	for _, u := range e.out.unknown {
		if u == s {
			return
		}
	}
	e.out.unknown = append(e.out.unknown, s)
}

func (e *clkEngine) cell(it clkItem, c clkCell, text string) {
	k := c.key()
	if _, ok := e.out.cellVia[k]; ok {
		return
	}
	e.out.cellVia[k] = text
	e.out.cells = append(e.out.cells, c)
}

func stale(st clkState, why string) clkState {
	return clkState{fresh: false, why: why}
}

func (e *clkEngine) step(it clkItem) {
	ops := it.ops
	switch x := it.v.(type) {
	case *ssa.Const, *ssa.Function, *ssa.Builtin, *ssa.MakeClosure, *ssa.MakeChan:
		return
	case *ssa.Parameter:
		e.stepParam(it, x)
	case *ssa.FreeVar:
		e.stepFreeVar(it, x)
	case *ssa.Phi:
		for _, ed := range x.Edges {
			e.next(it, ed, ops)
		}
	case *ssa.Extract:
		e.push(clkItem{v: x.Tuple, ops: ops, idx: x.Index, st: it.st, trail: it.trail})
	case *ssa.UnOp:
		switch x.Op {
		case token.MUL:
			e.next(it, x.X, "*"+ops)
		case token.ARROW:
			e.next(it, x.X, "")
			if !clkLibraryValue(x.X) {
				e.unknown(it, "a value received from channel "+clipStr(e.r.D.D(x.X), 60)+" is not followed to what is sent on it")
			}
		default:
			e.next(it, x.X, "")
		}
	case *ssa.BinOp:
		e.next(it, x.X, "")
		e.next(it, x.Y, "")
	case *ssa.Convert:
		e.next(it, x.X, ops)
	case *ssa.ChangeType:
		e.next(it, x.X, ops)
	case *ssa.ChangeInterface:
		e.next(it, x.X, ops)
	case *ssa.MakeInterface:
		e.next(it, x.X, ops)
	case *ssa.SliceToArrayPointer:
		e.next(it, x.X, ops)
	case *ssa.MultiConvert:
		e.next(it, x.X, ops)
	case *ssa.TypeAssert:
		e.next(it, x.X, ops)
	case *ssa.Slice:
		e.next(it, x.X, ops)
	case *ssa.Field:
		e.stepFieldRead(it, x.X, fieldOfVal(x), ops, false)
	case *ssa.FieldAddr:
		if ops == "" {
			return // an address, not a value stored anywhere
		}
		if ops[0] != '*' {
			e.unknown(it, "elements of the address "+clipStr(e.r.D.D(x), 60))
			return
		}
		e.stepFieldRead(it, x.X, fieldOf(x), ops[1:], true)
	case *ssa.IndexAddr:
		if ops == "" {
			return
		}
		if ops[0] == '*' {
			e.next(it, x.X, "e"+ops[1:])
		} else {
			e.unknown(it, "elements of the address "+clipStr(e.r.D.D(x), 60))
		}
	case *ssa.Index:
		e.next(it, x.X, "e"+ops)
	case *ssa.Lookup:
		if _, isMap := x.X.Type().Underlying().(*types.Map); isMap {
			e.next(it, x.X, "e"+ops)
		} else {
			e.next(it, x.X, "")
		}
	case *ssa.Next:
		if rg, ok := x.Iter.(*ssa.Range); ok {
			e.next(it, rg.X, "e"+ops)
		}
	case *ssa.Range:
		e.next(it, x.X, ops)
	case *ssa.Alloc:
		e.stepAlloc(it, x)
	case *ssa.Global:
		if ops == "" || ops[0] != '*' {
			return
		}
		if x.Pkg != nil && isModulePkg(x.Pkg.Pkg) && !it.st.ext() {
			e.cell(it, clkCell{g: x, ops: ops[1:]}, "global "+e.r.D.D(x))
		}
	case *ssa.MakeSlice, *ssa.MakeMap:
		e.stepMake(it, it.v)
	case *ssa.Call:
		e.stepCall(it, x)
	case *ssa.Select:
		e.unknown(it, "a value received in a select is not followed")
	default:
		e.unknown(it, fmt.Sprintf("%T %s is not followed", it.v, clipStr(e.r.D.D(it.v), 60)))
	}
}

// clkLibraryValue: v is produced by library code (a call into a non-module package, a field of a library struct).
func clkLibraryValue(v ssa.Value) bool {
	switch x := v.(type) {
	case *ssa.Call:
		cf := x.Common().StaticCallee()
		return cf != nil && !isModuleFn(cf)
	case *ssa.Field:
		return !isModuleVar(fieldOfVal(x))
	case *ssa.UnOp:
		if fa, ok := x.X.(*ssa.FieldAddr); ok {
			return !isModuleVar(fieldOf(fa))
		}
	}
	return false
}

func (e *clkEngine) stepFieldRead(it clkItem, base ssa.Value, f *types.Var, ops string, viaAddr bool) {
	if f == nil {
		e.unknown(it, "a field selection that does not resolve")
		return
	}
	if !isModuleVar(f) || it.st.ext() {
		// a library struct: the field is a projection of the value it is selected from
		if viaAddr {
			e.next(it, base, "*")
		} else {
			e.next(it, base, "")
		}
		return
	}
	e.cell(it, clkCell{f: f, ops: ops}, "field "+e.fieldName(f))
}

func (e *clkEngine) fieldName(f *types.Var) string {
	if t := e.ix.owner[f]; t != nil {
		return TypeName(t) + "." + f.Name()
	}
	return f.Name()
}

func (e *clkEngine) stepAlloc(it clkItem, a *ssa.Alloc) {
	ops := it.ops
	if ops == "" || a.Referrers() == nil {
		return
	}
	rest := ops[1:]
	if ops[0] == 'e' {
		// a is an array: the elements written through &a[i]
		for _, ref := range *a.Referrers() {
			if ia, ok := ref.(*ssa.IndexAddr); ok && ia.X == ssa.Value(a) && ia.Referrers() != nil {
				for _, r2 := range *ia.Referrers() {
					if st, ok := r2.(*ssa.Store); ok && st.Addr == ssa.Value(ia) {
						e.next(it, st.Val, rest)
					}
				}
			}
		}
		return
	}
	for _, ref := range *a.Referrers() {
		switch x := ref.(type) {
		case *ssa.Store:
			if x.Addr == ssa.Value(a) {
				e.next(it, x.Val, rest)
			}
		case *ssa.MakeClosure:
			cf, ok := x.Fn.(*ssa.Function)
			if !ok {
				continue
			}
			for j, b := range x.Bindings {
				if b != ssa.Value(a) || j >= len(cf.FreeVars) {
					continue
				}
				eachInstr(cf, func(in ssa.Instruction) {
					if st, ok := in.(*ssa.Store); ok && st.Addr == ssa.Value(cf.FreeVars[j]) {
						e.push(clkItem{v: st.Val, ops: rest, idx: -1, st: stale(it.st, "it is assigned by the function literal "+FuncName(cf)+", which may run at another time"), trail: it.trail})
					}
				})
			}
		case ssa.CallInstruction:
			// the address is handed to a callee that may write through it
			com := x.Common()
			if com.IsInvoke() {
				continue
			}
			cf := com.StaticCallee()
			for i, arg := range CallArgs(x) {
				if arg != ssa.Value(a) {
					continue
				}
				if cf != nil && len(cf.Blocks) > 0 && isModuleFn(cf) && i < len(cf.Params) && len(it.st.down) < 6 {
					st2 := it.st
					st2.down = append(append([]clkDown{}, it.st.down...), clkDown{c: x, fn: cf})
					eachInstr(cf, func(in ssa.Instruction) {
						if st, ok := in.(*ssa.Store); ok && st.Addr == ssa.Value(cf.Params[i]) {
							e.push(clkItem{v: st.Val, ops: rest, idx: -1, st: st2, trail: &clkTrail{text: "written by " + FuncName(cf), prev: it.trail}})
						}
					})
				} else if cf == nil || !isModuleFn(cf) {
					// library code filling the variable: a function of its other arguments
					for j, other := range CallArgs(x) {
						if j != i {
							e.next(it, other, "")
						}
					}
				}
			}
		}
	}
}

func (e *clkEngine) stepMake(it clkItem, v ssa.Value) {
	if it.ops == "" {
		return
	}
	if it.ops[0] != 'e' {
		e.unknown(it, "contents of "+clipStr(e.r.D.D(v), 60))
		return
	}
	rest := it.ops[1:]
	// the values the container flows to inside its function (re-slicing, append, φ)
	alias := map[ssa.Value]bool{v: true}
	work := []ssa.Value{v}
	for len(work) > 0 && len(alias) < 64 {
		c := work[len(work)-1]
		work = work[:len(work)-1]
		if c.Referrers() == nil {
			continue
		}
		for _, ref := range *c.Referrers() {
			switch x := ref.(type) {
			case *ssa.Phi, *ssa.Slice, *ssa.ChangeType:
				if val := x.(ssa.Value); !alias[val] {
					alias[val] = true
					work = append(work, val)
				}
			case *ssa.Call:
				if b, ok := x.Common().Value.(*ssa.Builtin); ok && b.Name() == "append" && len(x.Common().Args) > 0 && x.Common().Args[0] == c && !alias[x] {
					alias[x] = true
					work = append(work, x)
				}
			case *ssa.IndexAddr:
				if x.X == c && x.Referrers() != nil {
					for _, r2 := range *x.Referrers() {
						if st, ok := r2.(*ssa.Store); ok && st.Addr == ssa.Value(x) {
							e.next(it, st.Val, rest)
						}
					}
				}
			case *ssa.MapUpdate:
				if x.Map == c {
					e.next(it, x.Value, rest)
				}
			}
		}
	}
}

func (e *clkEngine) stepParam(it clkItem, p *ssa.Parameter) {
	fn := p.Parent()
	i := paramIndex(p)
	if fn == nil || i < 0 {
		e.unknown(it, "a parameter that does not resolve")
		return
	}
	if n := len(it.st.down); n > 0 && it.st.down[n-1].fn == fn {
		// the call being followed: its own argument
		args := CallArgs(it.st.down[n-1].c)
		if i < len(args) {
			st2 := it.st
			st2.down = append([]clkDown{}, it.st.down[:n-1]...)
			e.push(clkItem{v: args[i], ops: it.ops, idx: -1, st: st2, trail: it.trail})
		}
		return
	}
	if e.scope || it.st.ext() {
		return // supplied by the caller of the filter per call / library internals
	}
	var sites []ssa.CallInstruction
	sites = append(sites, e.ix.sites[fn]...)
	if recv := fn.Signature.Recv(); recv != nil {
		for _, c := range e.ix.invokes[fn.Name()] {
			if it2, ok := c.Common().Value.Type().Underlying().(*types.Interface); ok && types.Implements(recv.Type(), it2) {
				sites = append(sites, c)
			}
		}
	}
	if fn.Parent() != nil {
		// a function literal: called where it is made, or through a local it is bound to
		for _, mc := range e.ix.closures[fn] {
			if mc.Referrers() == nil {
				continue
			}
			for _, ref := range *mc.Referrers() {
				if c, ok := ref.(ssa.CallInstruction); ok && c.Common().Value == ssa.Value(mc) {
					sites = append(sites, c)
				}
			}
		}
		if len(sites) == 0 {
			e.unknown(it, "parameter "+p.Name()+" of the function literal "+FuncName(fn)+" (its callers are not resolved)")
			return
		}
	}
	for _, c := range sites {
		args := CallArgs(c)
		if fn.Parent() != nil && c.Common().StaticCallee() == nil {
			args = c.Common().Args
		}
		if i >= len(args) {
			continue
		}
		st2 := clkState{fresh: it.st.fresh, why: it.st.why}
		if it.st.fresh {
			if len(it.st.up) < 4 {
				st2.up = append(append([]ssa.CallInstruction{}, it.st.up...), c)
			} else {
				st2 = stale(it.st, "it is handed down through more than four calls")
			}
		}
		e.push(clkItem{v: args[i], ops: it.ops, idx: -1, st: st2, trail: &clkTrail{text: "argument of " + FuncName(fn) + " in " + FuncName(c.Parent()), prev: it.trail}})
	}
}

func (e *clkEngine) stepFreeVar(it clkItem, fv *ssa.FreeVar) {
	fn := fv.Parent()
	j := -1
	for k, x := range fn.FreeVars {
		if x == fv {
			j = k
		}
	}
	mcs := e.ix.closures[fn]
	if j < 0 || len(mcs) == 0 {
		if !it.st.ext() {
			e.unknown(it, "captured variable "+fv.Name()+" of "+FuncName(fn))
		}
		return
	}
	st2 := it.st
	if !it.st.ext() {
		st2 = stale(it.st, "it is read from the captured variable "+fv.Name()+" by the function literal "+FuncName(fn)+", which may run at another time than the enclosing call")
	}
	for _, mc := range mcs {
		if j < len(mc.Bindings) {
			e.push(clkItem{v: mc.Bindings[j], ops: it.ops, idx: -1, st: st2, trail: it.trail})
		}
	}
	if it.ops != "" && it.ops[0] == '*' {
		eachInstr(fn, func(in ssa.Instruction) {
			if st, ok := in.(*ssa.Store); ok && st.Addr == ssa.Value(fv) {
				e.next(it, st.Val, it.ops[1:])
			}
		})
	}
}

// isClockRead: fn reads the clock (or arms a timer that delivers clock samples).
func isClockRead(fn *ssa.Function) bool {
	if fn == nil || fn.Signature.Recv() != nil {
		return false
	}
	pk := fnPkg(fn)
	if pk == nil || pk.Path() != "time" {
		return false
	}
	switch fn.Name() {
	case "Now", "Since", "Until", "After", "Tick", "NewTimer", "NewTicker", "AfterFunc":
		return true
	}
	return false
}

func (e *clkEngine) stepCall(it clkItem, c *ssa.Call) {
	com := c.Common()
	args := CallArgs(c)
	if b, ok := com.Value.(*ssa.Builtin); ok {
		switch b.Name() {
		case "append":
			for _, a := range args {
				e.next(it, a, it.ops)
			}
		case "min", "max":
			for _, a := range args {
				e.next(it, a, it.ops)
			}
		case "len", "cap":
		default:
			for _, a := range args {
				e.next(it, a, "")
			}
		}
		return
	}
	if com.IsInvoke() {
		iface, _ := com.Value.Type().Underlying().(*types.Interface)
		var impls []*ssa.Function
		if iface != nil && !it.st.ext() {
			impls = e.ix.implementers(e.r.P, iface, com.Method.Pkg(), com.Method.Name())
		}
		if len(impls) == 0 {
			for _, a := range args {
				e.next(it, a, "")
			}
			if !it.st.ext() && clkInstantType(resultType(c, it.idx)) {
				e.unknown(it, "cannot tell whether "+calleeName(com)+" reads a clock: the interface has no implementation in the module")
			}
			return
		}
		for _, fn := range impls {
			e.descend(it, c, fn)
		}
		return
	}
	cf := com.StaticCallee()
	if cf == nil {
		targets, ok := e.funcTargets(com.Value, 5, map[ssa.Value]bool{})
		if !ok || len(targets) == 0 {
			for _, a := range args {
				e.next(it, a, "")
			}
			e.unknown(it, "the function called in "+clipStr(e.r.D.D(c), 80)+" is not resolved")
			return
		}
		for _, fn := range targets {
			e.descend(it, c, fn)
		}
		return
	}
	e.descend(it, c, cf)
}

func resultType(c *ssa.Call, idx int) types.Type {
	t := c.Type()
	if tup, ok := t.(*types.Tuple); ok {
		if idx >= 0 && idx < tup.Len() {
			return tup.At(idx).Type()
		}
		if tup.Len() > 0 {
			return tup.At(0).Type()
		}
		return nil
	}
	return t
}

// clkInstantType: time.Time, *time.Time, time.Duration or an integer (a reading of a clock comes in these).
func clkInstantType(t types.Type) bool {
	if t == nil {
		return false
	}
	if p, ok := t.Underlying().(*types.Pointer); ok {
		t = p.Elem()
	}
	if n, ok := t.(*types.Named); ok && n.Obj().Pkg() != nil && n.Obj().Pkg().Path() == "time" {
		return true
	}
	return isIntegerType(t)
}

func (e *clkEngine) descend(it clkItem, c ssa.CallInstruction, fn *ssa.Function) {
	if isClockRead(fn) {
		e.out.clocks = append(e.out.clocks, clkLeaf{call: c, st: it.st, trail: &clkTrail{text: clkCallText(e.r, c), prev: it.trail}})
		return
	}
	args := CallArgs(c)
	ext := !isModuleFn(fn)
	if len(fn.Blocks) == 0 || len(it.st.down) >= 6 {
		for _, a := range args {
			e.next(it, a, "")
		}
		if len(fn.Blocks) > 0 && !ext {
			e.unknown(it, "calls nested more than six deep at "+FuncName(fn))
		}
		return
	}
	st2 := it.st
	st2.down = append(append([]clkDown{}, it.st.down...), clkDown{c: c, fn: fn, ext: ext})
	tr := it.trail
	if !ext {
		tr = &clkTrail{text: "result of " + FuncName(fn), prev: it.trail}
	} else if !it.st.ext() {
		tr = &clkTrail{text: clkCallText(e.r, c), prev: it.trail}
	}
	for _, ret := range Returns(fn) {
		i := it.idx
		if i < 0 {
			i = 0
		}
		if i < len(ret.Results) {
			e.push(clkItem{v: ret.Results[i], ops: it.ops, idx: -1, st: st2, trail: tr})
		}
	}
	if ext {
		// whatever the body does not show: a function of the arguments
		for _, a := range args {
			e.next(it, a, "")
		}
	}
}

func clkCallText(r *Run, c ssa.CallInstruction) string {
	if v := c.Value(); v != nil {
		return clipStr(r.D.D(v), 70)
	}
	return CalleeOf(c)
}

// funcTargets: the functions a function value may be.
func (e *clkEngine) funcTargets(v ssa.Value, depth int, seen map[ssa.Value]bool) ([]*ssa.Function, bool) {
	if depth == 0 {
		return nil, false
	}
	if seen[v] {
		return nil, true
	}
	seen[v] = true
	var out []*ssa.Function
	all := func(vals []ssa.Value) bool {
		for _, x := range vals {
			fs, ok := e.funcTargets(x, depth-1, seen)
			if !ok {
				return false
			}
			out = append(out, fs...)
		}
		return true
	}
	storeVals := func(sts []*ssa.Store) []ssa.Value {
		var vs []ssa.Value
		for _, st := range sts {
			vs = append(vs, st.Val)
		}
		return vs
	}
	switch x := v.(type) {
	case *ssa.Function:
		return []*ssa.Function{x}, true
	case *ssa.MakeClosure:
		if fn, ok := x.Fn.(*ssa.Function); ok {
			return []*ssa.Function{fn}, true
		}
	case *ssa.Const:
		return nil, true // nil function value
	case *ssa.Phi:
		return out, all(x.Edges) && true
	case *ssa.ChangeType:
		return e.funcTargets(x.X, depth, seen)
	case *ssa.Field:
		if f := fieldOfVal(x); isModuleVar(f) {
			ok := all(storeVals(e.ix.fieldStores[f]))
			return out, ok && len(out) > 0
		}
	case *ssa.UnOp:
		if x.Op != token.MUL {
			return nil, false
		}
		switch a := x.X.(type) {
		case *ssa.FieldAddr:
			if f := fieldOf(a); isModuleVar(f) {
				ok := all(storeVals(e.ix.fieldStores[f]))
				return out, ok && len(out) > 0
			}
		case *ssa.Global:
			ok := all(storeVals(e.ix.globalStores[a]))
			return out, ok && len(out) > 0
		case *ssa.Alloc:
			var vs []ssa.Value
			if a.Referrers() != nil {
				for _, ref := range *a.Referrers() {
					if st, ok := ref.(*ssa.Store); ok && st.Addr == ssa.Value(a) {
						vs = append(vs, st.Val)
					}
				}
			}
			ok := all(vs)
			return out, ok && len(out) > 0
		}
	case *ssa.Parameter:
		fn := x.Parent()
		i := paramIndex(x)
		var vs []ssa.Value
		for _, c := range e.ix.sites[fn] {
			if args := CallArgs(c); i >= 0 && i < len(args) {
				vs = append(vs, args[i])
			}
		}
		ok := all(vs)
		return out, ok && len(out) > 0
	}
	return nil, false
}

// storesOf: the stores that may be what a read of the cell sees, each with the selections still to apply.
type clkStore struct {
	in  ssa.Instruction
	val ssa.Value
	ops string
}

func (e *clkEngine) storesOf(c clkCell) []clkStore {
	var out []clkStore
	if c.g != nil {
		for _, st := range e.ix.globalStores[c.g] {
			out = append(out, clkStore{st, st.Val, c.ops})
		}
		return out
	}
	for _, st := range e.ix.fieldStores[c.f] {
		out = append(out, clkStore{st, st.Val, c.ops})
	}
	if c.ops != "" && c.ops[0] == '*' {
		for _, st := range e.ix.derefStores[c.f] {
			out = append(out, clkStore{st, st.Val, c.ops[1:]})
		}
	}
	if c.ops != "" && c.ops[0] == 'e' {
		for _, in := range e.ix.elemStores[c.f] {
			switch x := in.(type) {
			case *ssa.Store:
				out = append(out, clkStore{x, x.Val, c.ops[1:]})
			case *ssa.MapUpdate:
				out = append(out, clkStore{x, x.Value, c.ops[1:]})
			}
		}
	}
	return out
}

func (e *clkEngine) cellName(c clkCell) string {
	if c.g != nil {
		return "g:" + strings.TrimSuffix(strings.TrimPrefix(e.r.D.D(c.g), "&(g:"), ")")
	}
	return e.fieldName(c.f)
}

// ---- lifetime of the struct a sample is stored into ---------------------------------------------------

type clkFwd struct {
	e     *clkEngine
	holds func(t types.Type) bool
	seen  map[ssa.Value]bool
	why   string
	uses  map[*ssa.Function][]ssa.Instruction // calls that consume the instance, per function
	depth int
}

func (c *clkFwd) retained(why string) {
	if c.why == "" {
		c.why = why
	}
}

// holdsType: t contains, by value, the struct type owner (so a value of type t carries the cell).
func holdsType(t, owner types.Type, depth int) bool {
	if t == nil || depth > 6 {
		return false
	}
	if types.Identical(t, owner) {
		return true
	}
	switch u := t.Underlying().(type) {
	case *types.Struct:
		for i := 0; i < u.NumFields(); i++ {
			if holdsType(u.Field(i).Type(), owner, depth+1) {
				return true
			}
		}
	case *types.Array:
		return holdsType(u.Elem(), owner, depth+1)
	}
	return false
}

func derefType(t types.Type) types.Type {
	if p, ok := t.Underlying().(*types.Pointer); ok {
		return p.Elem()
	}
	return t
}

// track follows v — the instance by value, or a pointer to it — through its uses in its function; onReturn is
// what happens when it is returned (result index given).
func (c *clkFwd) track(v ssa.Value, onReturn func(ret *ssa.Return, idx int)) {
	if c.why != "" || v == nil || c.seen[v] {
		return
	}
	c.seen[v] = true
	refs := v.Referrers()
	if refs == nil {
		return
	}
	D := c.e.r.D
	for _, in := range *refs {
		if c.why != "" {
			return
		}
		switch x := in.(type) {
		case *ssa.DebugRef:
		case *ssa.FieldAddr:
			if x.X == v && c.holds(derefType(x.Type())) {
				c.track(x, onReturn)
			}
		case *ssa.Field:
			if x.X == v && c.holds(x.Type()) {
				c.track(x, onReturn)
			}
		case *ssa.IndexAddr:
			if x.X == v && c.holds(derefType(x.Type())) {
				c.track(x, onReturn)
			}
		case *ssa.Index:
			if x.X == v && c.holds(x.Type()) {
				c.track(x, onReturn)
			}
		case *ssa.UnOp:
			if x.Op == token.MUL && c.holds(x.Type()) {
				c.track(x, onReturn)
			}
		case *ssa.Store:
			if x.Val != v {
				continue // a write into the instance
			}
			if root := clkRootAlloc(x.Addr); root != nil {
				c.track(root, onReturn)
			} else {
				c.retained("it is stored to " + clipStr(D.D(x.Addr), 80) + " in " + FuncName(in.Parent()))
			}
		case *ssa.Phi:
			c.track(x, onReturn)
		case *ssa.ChangeType:
			c.track(x, onReturn)
		case *ssa.Convert:
			c.track(x, onReturn)
		case *ssa.Extract:
			if c.holds(derefType(x.Type())) {
				c.track(x, onReturn)
			}
		case *ssa.Return:
			for i, res := range x.Results {
				if res == v {
					onReturn(x, i)
				}
			}
		case *ssa.BinOp, *ssa.If:
		case *ssa.Go:
			c.retained("it is handed to a goroutine in " + FuncName(in.Parent()))
		case ssa.CallInstruction:
			com := x.Common()
			cf := com.StaticCallee()
			c.uses[in.Parent()] = append(c.uses[in.Parent()], in)
			for i, arg := range CallArgs(x) {
				if arg != v {
					continue
				}
				if com.IsInvoke() || cf == nil || len(cf.Blocks) == 0 || !isModuleFn(cf) || i >= len(cf.Params) || c.depth >= 5 {
					c.retained("it is handed to " + CalleeOf(x) + ", which is not followed, in " + FuncName(in.Parent()))
					return
				}
				call := x
				c.depth++
				c.track(cf.Params[i], func(ret *ssa.Return, idx int) {
					// back in the caller: the result of this call carries the instance
					if cv := call.Value(); cv != nil {
						if _, isTuple := cv.Type().(*types.Tuple); isTuple {
							if ex := CallResult(call, idx); ex != nil {
								c.track(ex, onReturn)
							}
						} else {
							c.track(cv, onReturn)
						}
					}
				})
				c.depth--
			}
		default:
			c.retained(fmt.Sprintf("it is used by %T (%s) in %s", in, clipStr(clkInstrText(c.e.r, in), 60), FuncName(in.Parent())))
		}
	}
}

func clkInstrText(r *Run, in ssa.Instruction) string {
	if v, ok := in.(ssa.Value); ok {
		return r.D.D(v)
	}
	return in.String()
}

// clkRootAlloc: the local variable an address lies in (the variable itself or a field / element of it).
func clkRootAlloc(addr ssa.Value) *ssa.Alloc {
	for i := 0; i < 8; i++ {
		switch x := addr.(type) {
		case *ssa.Alloc:
			return x
		case *ssa.FieldAddr:
			addr = x.X
		case *ssa.IndexAddr:
			if _, isArr := derefType(x.X.Type()).Underlying().(*types.Array); !isArr {
				return nil
			}
			addr = x.X
		default:
			return nil
		}
	}
	return nil
}

// onCycleAvoiding: block b lies on a cycle of the CFG that does not pass through block avoid.
func onCycleAvoiding(b, avoid *ssa.BasicBlock) bool {
	if b == avoid {
		return false
	}
	seen := map[*ssa.BasicBlock]bool{}
	work := append([]*ssa.BasicBlock{}, b.Succs...)
	for len(work) > 0 {
		x := work[len(work)-1]
		work = work[:len(work)-1]
		if x == avoid || seen[x] {
			continue
		}
		seen[x] = true
		if x == b {
			return true
		}
		work = append(work, x.Succs...)
	}
	return false
}

// perCall decides whether the clock sample leaf, stored by st into a cell of struct type owner, stays inside the
// call that took it.  Returns "" when it does, otherwise why it does not.
func (e *clkEngine) perCall(st ssa.Instruction, addr ssa.Value, owner types.Type, leaf clkLeaf) string {
	if !leaf.st.fresh {
		return leaf.st.why
	}
	root := clkRootAlloc(addr)
	if root == nil || root.Parent() != st.Parent() {
		return "the struct written (" + clipStr(e.r.D.D(addr), 80) + ") is not a local variable of " + FuncName(st.Parent()) + ": it exists before and after the call"
	}
	if owner == nil {
		return "the type of the struct written is not known"
	}
	c := &clkFwd{e: e, seen: map[ssa.Value]bool{}, uses: map[*ssa.Function][]ssa.Instruction{},
		holds: func(t types.Type) bool { return holdsType(t, owner, 0) }}
	up := leaf.st.up
	var frames []*ssa.Function
	frames = append(frames, st.Parent())
	var onRet func(k int) func(ret *ssa.Return, idx int)
	onRet = func(k int) func(ret *ssa.Return, idx int) {
		return func(ret *ssa.Return, idx int) {
			if k >= len(up) {
				c.retained("it is returned by " + FuncName(ret.Parent()) + " to callers that are not part of the call that read the clock")
				return
			}
			call := up[k]
			if call.Common().StaticCallee() != ret.Parent() {
				c.retained("it is returned by " + FuncName(ret.Parent()) + " through a call that is not resolved")
				return
			}
			cv := call.Value()
			if cv == nil {
				return // result dropped (go / defer / statement)
			}
			if _, isTuple := cv.Type().(*types.Tuple); isTuple {
				if ex := CallResult(call, idx); ex != nil {
					c.track(ex, onRet(k+1))
				}
				return
			}
			c.track(cv, onRet(k+1))
		}
	}
	c.track(root, onRet(0))
	if c.why != "" {
		return c.why
	}
	// no consumer of the struct sits on a cycle that does not take the sample again
	for k := 0; k <= len(up); k++ {
		var fn *ssa.Function
		if k == 0 {
			fn = st.Parent()
		} else {
			fn = up[k-1].Parent()
		}
		var entry *ssa.BasicBlock
		if k == len(up) {
			if len(leaf.st.down) > 0 {
				entry = leaf.st.down[0].c.Block()
			} else {
				entry = leaf.call.Block()
			}
			if entry == nil || entry.Parent() != fn {
				return "the place where the clock is read is not in " + FuncName(fn)
			}
		} else {
			entry = fn.Blocks[0]
		}
		uses := append([]ssa.Instruction{}, c.uses[fn]...)
		if k > 0 {
			uses = append(uses, up[k-1])
		}
		for _, u := range uses {
			if u.Block() != nil && u.Parent() == fn && onCycleAvoiding(u.Block(), entry) {
				return "the struct is consumed at " + e.r.Where(u) + " inside a loop of " + FuncName(fn) + " that does not read the clock again: later iterations compare with the instant of the first"
			}
		}
	}
	return ""
}

// ---- comparisons of instants in a filter ------------------------------------------------------------------

func isTimeTime(t types.Type) bool {
	n, ok := t.(*types.Named)
	return ok && n.Obj().Pkg() != nil && n.Obj().Pkg().Path() == "time" && n.Obj().Name() == "Time"
}

// clkUnixReading: v is an integer reading of an instant (t.Unix(), t.UnixNano(), … possibly converted / scaled).
func clkUnixReading(v ssa.Value, depth int) ssa.Value {
	if depth > 3 {
		return nil
	}
	switch x := v.(type) {
	case *ssa.Call:
		if cf := x.Common().StaticCallee(); cf != nil && cf.Signature.Recv() != nil && isTimeTime(cf.Signature.Recv().Type()) && isIntegerType(x.Type()) && len(x.Common().Args) == 1 {
			return x.Common().Args[0]
		}
	case *ssa.Convert:
		return clkUnixReading(x.X, depth+1)
	case *ssa.BinOp:
		if r := clkUnixReading(x.X, depth+1); r != nil {
			return r
		}
		return clkUnixReading(x.Y, depth+1)
	}
	return nil
}

type clkComparison struct {
	in       ssa.Instruction
	operands []ssa.Value
}

// comparisonsOf: the comparisons of instants in fn, its function literals and the helpers of its package it
// hands an instant (or a struct holding one) to.
func (e *clkEngine) comparisonsOf(fn *ssa.Function) []clkComparison {
	var out []clkComparison
	seen := map[*ssa.Function]bool{}
	var visit func(f *ssa.Function, depth int)
	visit = func(f *ssa.Function, depth int) {
		if f == nil || seen[f] || len(f.Blocks) == 0 {
			return
		}
		seen[f] = true
		for _, af := range f.AnonFuncs {
			visit(af, depth)
		}
		eachInstr(f, func(in ssa.Instruction) {
			switch x := in.(type) {
			case *ssa.BinOp:
				switch x.Op {
				case token.LSS, token.LEQ, token.GTR, token.GEQ, token.EQL, token.NEQ:
					a, b := clkUnixReading(x.X, 0), clkUnixReading(x.Y, 0)
					if a != nil && b != nil {
						out = append(out, clkComparison{in, []ssa.Value{a, b}})
					}
				}
			case ssa.CallInstruction:
				com := x.Common()
				cf := com.StaticCallee()
				if cf == nil {
					return
				}
				if pk := fnPkg(cf); pk != nil && pk.Path() == "time" {
					var ops []ssa.Value
					for _, a := range com.Args {
						if isTimeTime(a.Type()) {
							ops = append(ops, a)
						}
					}
					if len(ops) >= 2 {
						out = append(out, clkComparison{in, ops})
					}
					return
				}
				if depth < 2 && isModuleFn(cf) && fnPkg(cf) == fnPkg(fn) && cf != fn {
					for _, a := range com.Args {
						if clkCarriesInstant(a.Type(), 0) {
							visit(cf, depth+1)
							break
						}
					}
				}
			}
		})
	}
	visit(fn, 0)
	return out
}

func clkCarriesInstant(t types.Type, depth int) bool {
	if depth > 3 {
		return false
	}
	t = derefType(t)
	if isTimeTime(t) {
		return true
	}
	if s, ok := t.Underlying().(*types.Struct); ok {
		for i := 0; i < s.NumFields(); i++ {
			if clkCarriesInstant(s.Field(i).Type(), depth+1) {
				return true
			}
		}
	}
	return false
}

// ---- the rule ------------------------------------------------------------------------------------------

// clkFilter names a temporal filter and the number of distinct long-lived cells its comparisons read (confirmed by reading).
type clkFilter struct {
	fn    string
	floor int
}

// isCertificateField: f is a field of the module's certificate type — the subject the filters judge.
func (e *clkEngine) isCertificateField(f *types.Var) bool {
	t := e.ix.owner[f]
	return t != nil && TypeName(t) == "x509.Certificate"
}

func noStaleClock(r *Run, filters []clkFilter) {
	r.Assume("the clock enters the program only through package time (Now, Since, Until, After, Tick, NewTimer, NewTicker, AfterFunc); library functions without a body are functions of their arguments, and inside library code only the values that reach a result are followed")
	r.Assume("memory is modelled per field: a read of field f may see any store to f in the module (no struct of the module is written through reflection, unsafe or a conversion between struct types with a clock sample)")
	r.Assume("the fields of x509.Certificate are the subject of the temporal filters (input of the call), not state of the filter")
	e := newClkEngine(r)
	type pending struct {
		c   clkCell
		via string
	}
	var work []pending
	queued := map[string]bool{}
	enqueue := func(c clkCell, via string) {
		if !queued[c.key()] {
			queued[c.key()] = true
			work = append(work, pending{c, via})
		}
	}
	for _, fl := range filters {
		fn := r.Fn(fl.fn)
		if fn == nil {
			continue
		}
		comps := e.comparisonsOf(fn)
		if len(comps) == 0 {
			r.Fail("no-stale-clock:comparisons:"+short(fl.fn), r.FnPos(fn), "undecided: no comparison of two instants found in "+fl.fn+" (the temporal filter is not where it is expected)")
			continue
		}
		// the floor counts what it protects: the distinct long-lived cells the filter's comparisons read (however many
		// comparisons are spelled over them)
		read := map[string]bool{}
		for _, cmp := range comps {
			for _, op := range cmp.operands {
				out := e.explore(op, "", true)
				for _, u := range out.unknown {
					r.Fail("no-stale-clock:operand:"+short(fl.fn), r.Where(cmp.in), "undecided: the instant compared in "+clipStr(clkInstrText(r, cmp.in), 120)+" derives from something that is not followed: "+u)
				}
				for _, c := range out.cells {
					if c.f != nil && e.isCertificateField(c.f) {
						continue
					}
					read[c.key()] = true
					enqueue(c, "read by the comparison "+clipStr(clkInstrText(r, cmp.in), 100)+" of "+fl.fn)
				}
			}
		}
		r.Floor("long-lived cells read by the comparisons of "+short(fl.fn), len(read), fl.floor)
	}
	// the closure of "feeds": every cell is judged on its own stores
	nStores := 0
	for i := 0; i < len(work); i++ {
		if i > 400 {
			r.Fail("no-stale-clock:closure", "-", "undecided: more than 400 cells feed the temporal filters")
			break
		}
		c, via := work[i].c, work[i].via
		name := e.cellName(c)
		if c.ops != "" {
			name += "[" + strings.NewReplacer("*", "pointee", "e", "element").Replace(c.ops) + "]"
		}
		stores := e.storesOf(c)
		bad := 0
		for _, s := range stores {
			nStores++
			out := e.explore(s.val, s.ops, false)
			r.Valuations++
			fnName := FuncName(s.in.Parent())
			for _, nc := range out.cells {
				enqueue(nc, "feeds "+name+" (store in "+fnName+")")
			}
			for _, u := range out.unknown {
				bad++
				r.Fail("no-stale-clock:"+name+"@"+fnName, r.Where(s.in), "undecided: "+fnName+" stores "+clipStr(r.D.D(s.val), 80)+" into "+name+" ("+via+"), and its derivation ends in something that is not followed: "+u)
			}
			var addr ssa.Value
			var owner types.Type
			switch x := s.in.(type) {
			case *ssa.Store:
				addr = x.Addr
				if fa, ok := x.Addr.(*ssa.FieldAddr); ok {
					owner = derefType(fa.X.Type())
				}
			case *ssa.MapUpdate:
				addr = x.Map
			}
			for _, leaf := range out.clocks {
				why := e.perCall(s.in, addr, owner, leaf)
				chain := leaf.trail.String()
				if why == "" {
					r.Pass("per-call-clock:"+name+"@"+fnName, r.Where(s.in), fnName+" stores the clock sample "+chain+" into "+name+" of a struct that does not outlive the call that read the clock (a local that is only read, passed on to readers and returned to the caller that took the sample): the instant compared is a clock read made during that call")
					continue
				}
				bad++
				where := "when " + fnName + " runs"
				if n := len(leaf.st.up); n > 0 {
					where = "when " + FuncName(leaf.st.up[n-1].Parent()) + " runs"
				}
				r.Fail("no-stale-clock:"+name+"@"+fnName, r.Where(s.in),
					fnName+" stores a sample of the clock into "+name+" — "+clipStr(r.D.D(s.val), 80)+" derives from "+chain+", read "+where+" — and the value outlives that call: "+why+". "+
						name+" is long-lived state of a temporal filter ("+via+"): every later submission is compared with the instant of the store instead of the time of the submission (a certificate that expires after the store is never seen as expired, the window never moves) — the instant compared must be configuration or a clock read made during the call itself")
			}
		}
		if bad == 0 {
			r.Pass("no-stale-clock:"+name, "-", fmt.Sprintf("%s (%s): none of its %d stores in the module carries a sample of a clock that outlives the call", name, via, len(stores)))
		}
	}
	r.Floor("stores into the long-lived state of the temporal filters examined", nStores, 1)
	// positive control: the derivation recognises the module's clock abstractions — an interface with a method
	// returning an instant, one implementation of which returns a reading of the clock
	nClock := 0
	var names []string
	for _, pk := range r.P.Pkgs {
		sc := pk.Types.Scope()
		for _, n := range sc.Names() {
			tn, ok := sc.Lookup(n).(*types.TypeName)
			if !ok {
				continue
			}
			it, ok := tn.Type().Underlying().(*types.Interface)
			if !ok {
				continue
			}
			for i := 0; i < it.NumMethods(); i++ {
				m := it.Method(i)
				sig := m.Type().(*types.Signature)
				if sig.Params().Len() != 0 || sig.Results().Len() != 1 || !isTimeTime(sig.Results().At(0).Type()) {
					continue
				}
				isClock := false
				for _, fn := range e.ix.implementers(r.P, it, m.Pkg(), m.Name()) {
					for _, ret := range Returns(fn) {
						if len(ret.Results) == 1 && len(e.explore(ret.Results[0], "", false).clocks) > 0 {
							isClock = true
						}
					}
				}
				if isClock {
					nClock++
					names = append(names, TypeName(tn.Type())+"."+m.Name())
				}
			}
		}
	}
	sort.Strings(names)
	r.Floor("clock abstractions of the module recognised as clocks", nClock, 1)
	defer func() {
		if os.Getenv("CTVERIF_CLOCK_DEBUG") != "" { // dev aid: print the obligations of this rule
			for _, o := range r.Obls {
				if o.Rule == r.curRule {
					fmt.Fprintf(os.Stderr, "clock: ok=%v %s at %s: %s\n", o.OK, o.Key, o.Where, o.Detail)
				}
			}
		}
	}()
	r.Check("no-stale-clock:clock-recognised", nClock > 0, "-", "positive control: the derivation finds a reading of the clock behind "+strings.Join(names, ", "))
}

// ---- C02.R5: the options a submission is judged by ------------------------------------------------------------

// c02LogOptions decides "ValidateChain judges the submission by the log's configured options" as a fact about the
// struct handed over, not about the spelling of the argument: it is the log's options themselves (p0.validationOpts),
// or a local copy of them in which nothing was changed except — at most — the instant to compare with, and that
// only where none is configured (the field is zero) and only to a reading of the clock taken during this very call
// (the per-call form of "expiry is judged by the log's time source": decided with the derivation and the lifetime
// analysis of the no-stale-clock rule).  Every other write into the copy, a copy taken from anything else, or an
// address of the copy that is handed on fails.
func c02LogOptions(r *Run, fn *ssa.Function, v ssa.CallInstruction) {
	const key = "verifyAddChain:log-options"
	args := CallArgs(v)
	if len(args) < 2 {
		r.Fail(key, r.Where(v), "undecided: ValidateChain is not called with the submitted chain and the options")
		return
	}
	arg := args[1]
	got := r.D.D(arg)
	if got == "p0.validationOpts" {
		r.Pass(key, r.Where(v), "arg 1 of trillian/ctfe.ValidateChain = p0.validationOpts")
		return
	}
	mismatch := "arg 1 of trillian/ctfe.ValidateChain = " + clipStr(got, 120) + " (expected p0.validationOpts)"
	ld, ok := arg.(*ssa.UnOp)
	if !ok || ld.Op != token.MUL {
		r.Fail(key, r.Where(v), mismatch)
		return
	}
	a, ok := ld.X.(*ssa.Alloc)
	if !ok || a.Referrers() == nil {
		r.Fail(key, r.Where(v), mismatch)
		return
	}
	name := r.D.allocName(a)
	e := newClkEngine(r)
	whole, bad := 0, ""
	var overrides []string
	var visit func(addr ssa.Value, path string, ft types.Type)
	visit = func(addr ssa.Value, path string, ft types.Type) {
		for _, ref := range *addr.Referrers() {
			if bad != "" {
				return
			}
			switch x := ref.(type) {
			case *ssa.DebugRef:
			case *ssa.UnOp:
				if x.Op != token.MUL {
					bad = "the copy is used by " + x.String()
				}
			case *ssa.FieldAddr:
				f := fieldOf(x)
				if f == nil || x.Referrers() == nil {
					bad = "a field of the copy does not resolve"
					return
				}
				visit(x, path+"."+f.Name(), f.Type())
			case *ssa.Store:
				if x.Addr != addr {
					bad = "the address of the copy" + path + " is stored to " + clipStr(r.D.D(x.Addr), 60)
					return
				}
				if path == "" {
					// the copy is taken from the log's options, before the call
					if r.D.D(x.Val) != "p0.validationOpts" {
						bad = "the copy is taken from " + clipStr(r.D.D(x.Val), 80) + ", not from the log's options p0.validationOpts"
						return
					}
					if !(x.Block() == v.Block() && instrIdx(x) < instrIdx(v) || x.Block() != v.Block() && x.Block().Dominates(v.Block())) {
						bad = "the copy of the log's options is not taken on every path to the call"
						return
					}
					whole++
					continue
				}
				// a field of the copy is overwritten: only the instant to compare with, only where none is configured, only by a clock read of this call
				if !isTimeTime(ft) {
					bad = "field " + strings.TrimPrefix(path, ".") + " of the copy is overwritten with " + clipStr(r.D.D(x.Val), 80) + ": the submission is not judged by the log's configured " + strings.TrimPrefix(path, ".")
					return
				}
				out := e.explore(x.Val, "", false)
				r.Valuations++
				if len(out.unknown) > 0 {
					bad = "undecided: the instant stored into " + strings.TrimPrefix(path, ".") + " derives from something that is not followed: " + out.unknown[0]
					return
				}
				if len(out.clocks) == 0 {
					bad = "the configured instant " + strings.TrimPrefix(path, ".") + " is replaced by " + clipStr(r.D.D(x.Val), 80) + ", which is neither the log's configuration nor a reading of the clock"
					return
				}
				for _, leaf := range out.clocks {
					if why := e.perCall(x, x.Addr, derefType(a.Type()), leaf); why != "" {
						bad = "the instant stored into " + strings.TrimPrefix(path, ".") + " is a clock sample that is not taken during this call: " + why
						return
					}
				}
				// … and only where no instant is configured: with a configured (non-zero) instant the store does not
				// execute, or what it stores is that configured instant
				cfgd, free := Sigma{}, Sigma{}
				for _, pat := range []string{"(time.Time).IsZero(" + name + path + ")", "(time.Time).IsZero(p0.validationOpts" + path + ")"} {
					for _, k := range r.bindAtom(fn, boolAtom(pat)) {
						cfgd[k], free[k] = "F", "T"
					}
				}
				if len(cfgd) == 0 {
					bad = "the configured instant " + strings.TrimPrefix(path, ".") + " is overwritten without a test that none is configured (IsZero)"
					return
				}
				reachC, reachF := r.D.Walk(fn, cfgd, nil, nil), r.D.Walk(fn, free, nil, nil)
				r.Valuations += 2
				if !reachF.Has(x) {
					bad = "undecided: the replacement of a zero " + strings.TrimPrefix(path, ".") + " is unreachable even when none is configured (positive control)"
					return
				}
				if reachC.Has(x) {
					if under := r.D.DUnder(x.Val, reachC); under != name+path && under != "p0.validationOpts"+path {
						bad = "with a configured (non-zero) " + strings.TrimPrefix(path, ".") + " the copy's field is still overwritten, with " + clipStr(under, 80) + ": the configured fixed time is not the instant compared"
						return
					}
				}
				r.Pass(key+":configured-time-kept"+path, r.Where(x), "with a configured (non-zero) instant the copy keeps it: the replacement by a clock reading is unreachable, or stores the configured instant itself")
				overrides = append(overrides, strings.TrimPrefix(path, "."))
			default:
				bad = "the copy" + path + " is used by " + clipStr(clkInstrText(r, ref), 80) + ", which may change it"
			}
		}
	}
	visit(a, "", nil)
	switch {
	case bad != "":
		r.Fail(key, r.Where(v), mismatch+": "+bad)
	case whole == 0:
		r.Fail(key, r.Where(v), mismatch+": the local is never set to the log's options")
	default:
		d := "arg 1 of trillian/ctfe.ValidateChain is a local copy of p0.validationOpts"
		if len(overrides) > 0 {
			d += " in which only " + strings.Join(overrides, ", ") + " is replaced — where it is zero — by a reading of the clock taken during this call"
		} else {
			d += ", unchanged"
		}
		r.Pass(key, r.Where(v), d)
	}
}
