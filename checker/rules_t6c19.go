package main

import (
	"fmt"
	"sort"
	"strings"

	"golang.org/x/tools/go/ssa"
)

// ---- C19: "a verified tree head", wherever the verification is written ----------------------
//
// Update, GetSTH and parse are decided on one fact, not on a helper's name:
//
//	a function BINDS A VERIFIED TREE HEAD for (raw bytes B, log ID L) when it holds a
//	*ct.SignedTreeHead V such that V was decoded from B (json), V names log L (its log ID is
//	absent and filled in with L, or equal to L), and the verifier configured for L,
//	w.Logs[L], accepted the log's signature over that same V.
//
// Two shapes establish it: result 0 of parse(w, B, L) — parse itself is decided by the same
// fact on (p1, p2) — or the three checks written out in the function over a local STH (a
// helper that does part of them is expanded by the source normaliser before the rules see it).
// Either way the binding comes with an OUTCOME DIMENSION for the decision tables: "nil" (all
// checks passed) or "non" with the check that refused.  For the written-out shape the refusals
// are told apart (not-json, log-id-undecodable, another-log, bad-log-signature) so that a
// table row names the clause that was skipped.

type c19Opt struct {
	Val string // value of the dimension under this option
	Why string // for a refusal: the check that refused
	S   Sigma  // the atoms this option fixes
}

// c19Dim is one dimension of a decision table: a named finite set of options, each fixing
// some atoms of the function.  A plain rule atom is the dimension of its domain values.
type c19Dim struct {
	Name string
	Opts []c19Opt
}

// c19DimOfAtom binds a rule atom to the branch conditions of fn (as Describer.Table does) and
// returns it as a dimension.  A pattern is matched as the exact key first, then as a glob.
func c19DimOfAtom(r *Run, fn *ssa.Function, found map[string]*CondInfo, a RuleAtom) (c19Dim, error) {
	d := c19Dim{Name: a.Name}
	var bound []string
	flipped := map[string]bool{}
	kind := ""
	for _, k := range keysOf(found) {
		ci := found[k]
		m := false
		if a.OrdA != "" {
			if ci.Kind == "ord" {
				if glob(a.OrdA, ci.A) && glob(a.OrdB, ci.B) {
					m = true
				} else if glob(a.OrdA, ci.B) && glob(a.OrdB, ci.A) {
					m = true
					flipped[k] = true
				}
			}
		} else {
			m = k == a.Pat || glob(a.Pat, k)
		}
		if !m {
			continue
		}
		if kind != "" && kind != ci.Kind {
			return d, fmt.Errorf("atom %s binds keys of different kinds", a.Name)
		}
		kind = ci.Kind
		bound = append(bound, k)
	}
	if len(bound) == 0 {
		return d, fmt.Errorf("atom %s: no branch condition of %s matches %q", a.Name, FuncName(fn), a.Pat+a.OrdA+" ~ "+a.OrdB)
	}
	flip := func(v string) string {
		switch v {
		case "<":
			return ">"
		case ">":
			return "<"
		}
		return v
	}
	dom := domains[kind]
	if len(a.Dom) > 0 {
		dom = a.Dom
	}
	for _, v := range dom {
		if kind == "ord" && len(a.Dom) == 0 {
			feasible := false
			for _, k := range bound {
				vv := v
				if flipped[k] {
					vv = flip(v)
				}
				feasible = feasible || !r.D.infeasible(found, k, vv)
			}
			if !feasible {
				continue
			}
		}
		o := c19Opt{Val: v, S: Sigma{}}
		if v != "?" {
			for _, k := range bound {
				if flipped[k] {
					o.S[k] = flip(v)
				} else {
					o.S[k] = v
				}
			}
		}
		d.Opts = append(d.Opts, o)
	}
	return d, nil
}

// c19DimTable enumerates the product of the dimensions' options; per combination it walks fn
// from the entry under the union of the fixed atoms, classifies the rule-level valuation
// (v[name] = value, v[name+"?"] = the refusing check) and judges it.  One obligation per
// class, as ClassTable; of several non-conforming valuations of a class the first GRAVE one
// (the judge's second result) is the one reported.
func (r *Run) c19DimTable(fn *ssa.Function, key string, dims []c19Dim, want []string,
	classify func(v map[string]string) string,
	judge func(class string, v map[string]string, reach *Reach, s Sigma) (string, bool)) {
	for _, d := range dims {
		if len(d.Opts) == 0 {
			r.Fail(key, r.FnPos(fn), "undecided: dimension "+d.Name+" has no option")
			return
		}
	}
	bad := map[string]string{}
	grave := map[string]bool{}
	hits := map[string]int{}
	idx := make([]int, len(dims))
	n := 0
	for {
		v := map[string]string{}
		s := Sigma{}
		consistent := true
		for i, d := range dims {
			o := d.Opts[idx[i]]
			v[d.Name] = o.Val
			v[d.Name+"?"] = o.Why
			for k, x := range o.S {
				if old, ok := s[k]; ok && old != x {
					consistent = false
				}
				s[k] = x
			}
		}
		if consistent {
			if c := classify(v); c != "" {
				n++
				hits[c]++
				reach := r.D.Walk(fn, s, nil, nil)
				if msg, g := judge(c, v, reach, s); msg != "" && (bad[c] == "" || g && !grave[c]) {
					bad[c] = fmt.Sprintf("%s [valuation %s]", msg, s)
					grave[c] = g
				}
			}
		}
		i := 0
		for ; i < len(idx); i++ {
			idx[i]++
			if idx[i] < len(dims[i].Opts) {
				break
			}
			idx[i] = 0
		}
		if i == len(idx) {
			break
		}
	}
	r.Valuations += n
	for _, c := range want {
		switch {
		case hits[c] == 0:
			r.Fail(key+"["+c+"]", r.FnPos(fn), "undecided: no valuation falls into class "+c)
		case bad[c] != "":
			r.Fail(key+"["+c+"]", r.FnPos(fn), bad[c])
		default:
			r.Pass(key+"["+c+"]", r.FnPos(fn), fmt.Sprintf("%d valuations of class %s all conform", hits[c], c))
		}
	}
	for _, c := range keysOf(hits) {
		known := false
		for _, w := range want {
			known = known || w == c
		}
		if !known {
			r.Fail(key+"["+c+"]", r.FnPos(fn), "classifier produced an unlisted class")
		}
	}
}

// c19STH is a verified tree head bound in a function.
type c19STH struct {
	Form  string // "call": result 0 of parse(w, B, L); "inline": the checks are written out over a local STH
	Term  string // glob over the origin term of the *ct.SignedTreeHead
	Bytes string // origin term of the raw bytes it was decoded from
	At    ssa.Instruction
	Cell  *ssa.Alloc // inline: the local STH
	Dim   c19Dim     // outcome: "nil" = accepted, "non" = refused (Why says by which check)
	Whys  []string   // the refusals of Dim, in the order the classes are listed
}

func c19IsSTHCell(a *ssa.Alloc) bool {
	return a != nil && strings.HasSuffix(strings.TrimPrefix(a.Type().String(), "*"), "certificate-transparency-go.SignedTreeHead")
}

// c19BindSTH binds the verified tree head that fn establishes for the raw bytes matching
// bytesGlob and the log ID with origin term logID; nil (after a failed obligation) when fn
// has none.  role names the dimension; accept are the instructions that stand for "fn went on
// with the tree head" (positive / negative control of the log-ID decision).
func c19BindSTH(r *Run, fn *ssa.Function, key, role, bytesGlob, logID string, accept []ssa.Instruction) *c19STH {
	r.Rule("C19.R5")
	found := r.D.AtomsOf(fn)
	var out []*c19STH
	for _, pc := range CallsTo(fn, c19Wit+".parse") {
		args := CallArgs(pc)
		if len(args) != 3 || !anyGlob(bytesGlob, r.D.D(args[1])) {
			continue
		}
		t := &c19STH{Form: "call", At: pc, Bytes: r.D.D(args[1]), Whys: []string{""}}
		call := c19Wit + ".parse(p0, " + bytesGlob + ", " + logID + ")"
		t.Term = call + "#0"
		r.ExpectArg(pc, key+":parse.witness", 0, "p0")
		r.ExpectArg(pc, key+":parse.logID", 2, logID)
		d, err := c19DimOfAtom(r, fn, found, RuleAtom{Name: role, Pat: "nil?" + call + "#1"})
		if err != nil {
			r.Fail(key+":parse.error", r.Where(pc), "undecided: the error of parse("+t.Bytes+") is not tested: "+err.Error())
		}
		t.Dim = d
		out = append(out, t)
	}
	for _, um := range CallsTo(fn, "json.Unmarshal") {
		args := CallArgs(um)
		if len(args) != 2 || !anyGlob(bytesGlob, r.D.D(args[0])) {
			continue
		}
		cell := baseAlloc(args[1])
		if !c19IsSTHCell(cell) {
			continue
		}
		t := &c19STH{Form: "inline", At: um, Bytes: r.D.D(args[0]), Cell: cell, Term: r.D.allocName(cell)}
		c19Decoded(r, fn, found, key, role, t, um, logID, accept)
		out = append(out, t)
	}
	if len(out) != 1 {
		r.Fail(key, r.FnPos(fn), fmt.Sprintf("undecided: %s must bind exactly one tree head decoded from %s — by parse(w, %s, %s) or by json.Unmarshal into a local ct.SignedTreeHead followed by the log-ID and signature checks — found %d",
			FuncName(fn), bytesGlob, bytesGlob, logID, len(out)))
		return nil
	}
	r.Pass(key, r.Where(out[0].At), fmt.Sprintf("tree head decoded from %s bound (%s): %s", out[0].Bytes, out[0].Form, out[0].Term))
	return out[0]
}

// c19Decoded decides the fact on the written-out shape: the local STH t.Cell, filled by the
// json.Unmarshal call um, names the requested log and is verified under w.Logs[logID]; and it
// builds the outcome dimension.
func c19Decoded(r *Run, fn *ssa.Function, found map[string]*CondInfo, key, role string, t *c19STH, um ssa.CallInstruction, logID string, accept []ssa.Instruction) {
	sth := t.Cell
	acc := Sigma{} // atoms fixed on every accepting option
	var rej []c19Opt
	errAtom := func(c ssa.CallInstruction, k, what, why string) {
		a := ""
		if c.Value() != nil {
			a = "nil?" + r.D.D(c.Value())
		}
		if found[a] == nil {
			r.Fail(k, r.Where(c), "the error of "+what+" is not tested in "+FuncName(fn)+": a failure of that check refuses nothing")
			return
		}
		acc[a] = "nil"
		for i := range rej {
			if rej[i].Why == why {
				rej[i].S[a] = "non"
				return
			}
		}
		rej = append(rej, c19Opt{Val: "non", Why: why, S: Sigma{a: "non"}})
	}
	errAtom(um, key+":json.error", "json.Unmarshal("+t.Bytes+", …)", "not-json")

	// the log's signature over this very STH, under the verifier configured for the log ID
	var vs []ssa.CallInstruction
	for _, c := range CallsTo(fn, "(ct.SignatureVerifier).VerifySTHSignature") {
		if a := CallArgs(c); len(a) == 2 && baseAlloc(a[1]) == sth {
			vs = append(vs, c)
		}
	}
	where := r.Where(um)
	if len(vs) > 0 {
		where = r.Where(vs[0])
	}
	r.Check(key+":verify.sth", len(vs) >= 1, where, fmt.Sprintf("the log's signature is checked on the STH decoded from %s (%d VerifySTHSignature call(s) on it in %s)", t.Bytes, len(vs), FuncName(fn)))
	for _, c := range vs {
		r.ExpectArg(c, key+":verify.key", 0, "p0.Logs["+logID+"]#0 || &(p0.Logs["+logID+"]#0)")
	}

	// log-ID agreement: the requested ID decoded, compared with the STH's ID and with the zero ID
	// — as bytes.Equal over the full arrays or as array comparison, either polarity
	var ids []ssa.CallInstruction
	for _, c := range CallsTo(fn, "(*ct.SHA256Hash).FromBase64String") {
		if a := CallArgs(c); len(a) == 2 && baseAlloc(a[0]) != nil {
			ids = append(ids, c)
		}
	}
	if len(ids) == 0 {
		r.Fail(key+":logID-decode", r.FnPos(fn), "undecided: the requested log ID is not decoded ((*ct.SHA256Hash).FromBase64String) in "+FuncName(fn))
	}
	var eqID, eqEmpty []c19ArrEq
	var idCall ssa.CallInstruction
	var idAlloc *ssa.Alloc
	sthID := r.D.allocName(sth) + ".LogID"
	for _, e := range c19ArrayEqs(r, fn) {
		other := e.Y
		if e.TX != sthID {
			other = e.X
			if e.TY != sthID {
				continue
			}
		}
		oa, zero := c19ArrSource(other)
		isID := false
		for _, c := range ids {
			if ia := baseAlloc(CallArgs(c)[0]); CopyOf(oa, ia) {
				isID, idCall, idAlloc = true, c, ia
			}
		}
		switch {
		case zero:
			eqEmpty = append(eqEmpty, e)
		case isID:
			eqID = append(eqID, e)
		case oa != nil && len(WholeStores(oa)) == 0 && len(ElemStores(oa)) == 0 && !c19Escapes(oa):
			eqEmpty = append(eqEmpty, e)
		}
	}
	okTests := len(ids) > 0 && r.Check(key+":logID-tests", len(eqID) == 1 && len(eqEmpty) == 1, r.FnPos(fn),
		fmt.Sprintf("the log ID of the STH decoded from %s is compared with the requested ID (%d test(s)) and with the zero ID (%d test(s)); one of each is needed to refuse a tree head of another log and to fill in an absent ID", t.Bytes, len(eqID), len(eqEmpty)))
	if idCall == nil && len(ids) == 1 {
		idCall = ids[0]
	}
	if idCall != nil {
		r.ExpectArg(idCall, key+":logID-decode.input", 1, logID)
		errAtom(idCall, key+":logID-decode.error", "the log-ID decoding", "log-id-undecodable")
	}
	var idOpts []Sigma // the accepting outcomes of the log-ID decision
	if okTests {
		em, id := eqEmpty[0], eqID[0]
		fill := r.StoresTo(fn, "&("+r.D.allocName(sth)+".LogID)")
		// (walks start at the decoding: what ran before it — another tree head's branch — says
		// nothing about this one)
		r.ClassTable(fn, key+":logID", um.Block(), []RuleAtom{{Name: "empty", Pat: em.Key}, {Name: "same", Pat: id.Key}},
			[]string{"absent", "same", "different"},
			func(v map[string]string) string {
				switch {
				case v["empty"] == em.Eq:
					return "absent"
				case v["same"] == id.Eq:
					return "same"
				}
				return "different"
			},
			func(class string, v map[string]string, reach *Reach) string {
				ok := len(reachableIns(accept, reach)) > 0
				filled := false
				for _, st := range fill {
					if reach.Has(st) {
						filled = true
						if !CopyOf(baseAlloc(st.Val), idAlloc) {
							return "LogID filled with " + r.D.D(st.Val) + ", not the requested ID"
						}
					}
				}
				switch class {
				case "absent":
					// on acceptance the STH carries the requested log ID: it was filled in, or the
					// (zero) ID it carries was found equal to the requested one
					if !ok || !filled && v["same"] != id.Eq {
						return fmt.Sprintf("absent log ID must be filled in and accepted (accepted=%v filled=%v)", ok, filled)
					}
				case "same":
					if !ok || filled {
						return fmt.Sprintf("matching log ID must be accepted unchanged (accepted=%v rewritten=%v)", ok, filled)
					}
				case "different":
					if ok {
						return "an STH naming another log is accepted"
					}
				}
				return ""
			})
		idOpts = []Sigma{{em.Key: em.Eq}, {em.Key: em.Ne, id.Key: id.Eq}}
		rej = append(rej, c19Opt{Val: "non", Why: "another-log", S: Sigma{em.Key: em.Ne, id.Key: id.Ne}})
	} else {
		idOpts = []Sigma{{}}
	}
	for _, c := range vs {
		errAtom(c, key+":verify.error", "VerifySTHSignature", "bad-log-signature")
	}
	c19CellUntouched(r, fn, key, t, um)

	t.Dim = c19Dim{Name: role}
	for _, io := range idOpts {
		s := Sigma{}
		for k, v := range acc {
			s[k] = v
		}
		for k, v := range io {
			s[k] = v
		}
		t.Dim.Opts = append(t.Dim.Opts, c19Opt{Val: "nil", S: s})
	}
	for _, o := range rej {
		t.Dim.Opts = append(t.Dim.Opts, o)
		t.Whys = append(t.Whys, o.Why)
	}
}

// c19CellUntouched: the tree head that goes on is the one that was checked — the local STH is
// written by its decoding and by the log-ID fill-in only (the fill-in's value is decided with
// the log-ID table), and its address is handed to nothing else that could write it.
func c19CellUntouched(r *Run, fn *ssa.Function, key string, t *c19STH, um ssa.CallInstruction) {
	var bad []string
	where := r.Where(um)
	note := func(in ssa.Instruction, what string) {
		bad = append(bad, what+" at "+r.Where(in))
		where = r.Where(in)
	}
	readOnly := func(c ssa.CallInstruction) bool {
		name := CalleeOf(c)
		return c == um || name == c19Sign
	}
	// a function that only reads through the pointer it is handed (a memo lookup, a key builder)
	readsOnly := func(c ssa.CallInstruction, v ssa.Value) bool {
		g := c.Common().StaticCallee()
		if g == nil || c.Common().IsInvoke() {
			return false
		}
		ok, found := true, false
		for i, a := range c.Common().Args {
			if a == v {
				found = true
				ok = ok && c19ReadsOnly(g, i, 0)
			}
		}
		return ok && found
	}
	var visit func(v ssa.Value, path string, depth int)
	visit = func(v ssa.Value, path string, depth int) {
		if v.Referrers() == nil || depth > 4 {
			return
		}
		for _, ref := range *v.Referrers() {
			switch x := ref.(type) {
			case *ssa.Store:
				if x.Addr == v && path != ".LogID" {
					note(x, "store to "+t.Term+path)
				}
			case *ssa.FieldAddr:
				name := "?"
				if f := fieldOf(x); f != nil {
					name = f.Name()
				}
				visit(x, path+"."+name, depth+1)
			case *ssa.IndexAddr:
				visit(x, path+"[i]", depth+1)
			case *ssa.MakeInterface:
				visit(x, path, depth+1)
			case ssa.CallInstruction:
				if _, isBuiltin := x.Common().Value.(*ssa.Builtin); !isBuiltin && !readOnly(x) && !readsOnly(x, v) {
					note(x, "its address"+path+" is passed to "+CalleeOf(x))
				}
			}
		}
	}
	visit(t.Cell, "", 0)
	sort.Strings(bad)
	r.Check(key+":unmodified", len(bad) == 0, where, "the STH decoded from "+t.Bytes+" is written by its decoding and the log-ID fill-in only"+
		map[bool]string{true: "", false: ": " + strings.Join(bad, "; ")}[len(bad) == 0])
}

// ---- R2 / R3 / R4: Update ----------------------------------------------------------------

// c19Refusal words a refusing check for violation texts.
var c19Refusal = map[string]string{
	"":                   "parse refused it",
	"not-json":           "it does not decode as a SignedTreeHead",
	"log-id-undecodable": "the requested log ID does not decode",
	"another-log":        "it names another log than the requested one",
	"bad-log-signature":  "the log's signature on it does not verify under w.Logs[logID] (VerifySTHSignature failed)",
}

func c19Update(r *Run, fn *ssa.Function) {
	// the places where the row may be written: direct setSTH calls, and store units (function
	// literals of Update called where they are written that hold the setSTH call) — rules_t8c19.go
	sites := c19StoreSites(r, fn)
	var sets, directSets []ssa.Instruction
	for _, st := range sites {
		sets = append(sets, st.Call)
		if st.Unit == nil {
			directSets = append(directSets, st.Call)
		}
	}
	directSigns := asInstrs(CallsTo(fn, c19Sign))
	signs := append([]ssa.Instruction{}, directSigns...)
	for _, st := range sites {
		if st.Unit != nil && st.Signs {
			signs = append(signs, st.Call)
		}
	}
	r.Rule("C19.R2")
	r.Check("Update:calls", len(sets) >= 1 && len(signs) >= 1, r.FnPos(fn), fmt.Sprintf("%d setSTH and %d signSTH calls", len(sets), len(signs)))
	if len(sets) == 0 || len(signs) == 0 {
		return
	}
	found := r.D.AtomsOf(fn)
	goesOn := append(append([]ssa.Instruction{}, sets...), successReturns(fn)...)
	// the two tree heads Update decides on: the candidate, decoded from the request bytes, and
	// the held one, decoded from the stored row — each verified for the requested log ID
	cand := c19BindSTH(r, fn, "Update:candidate", "next", "p3", "p2", goesOn)
	held := c19BindSTH(r, fn, "Update:held", "prev", c19Get+"#0", "p2", goesOn)
	r.Rule("C19.R3")
	nb := 0
	for _, t := range []*c19STH{cand, held} {
		if t != nil {
			nb++
		}
	}
	r.Floor("verified tree heads Update decides on (candidate from the request, held from the stored row)", nb, 2)
	for _, pc := range CallsTo(fn, c19Wit+".parse") {
		r.ExpectArg(pc, "Update:parse.logID", 2, "p2")
		r.ExpectArg(pc, "Update:parse.bytes", 1, "p3 || "+c19Get+"#0")
	}
	// unbound: the terms of the call shape, so that what follows reports "undecided" by name
	nextT, prevT := c19Next+"#0", c19Prev+"#0"
	nextDim, errN := c19DimOfAtom(r, fn, found, RuleAtom{Name: "next", Pat: "nil?" + c19Next + "#1"})
	prevDim, errP := c19DimOfAtom(r, fn, found, RuleAtom{Name: "prev", Pat: "nil?" + c19Prev + "#1"})
	nextWhys, prevWhys := []string{""}, []string{""}
	heldBytes := ""
	if cand != nil {
		nextT, nextDim, errN, nextWhys = cand.Term, cand.Dim, nil, cand.Whys
	}
	if held != nil {
		prevT, prevDim, errP, prevWhys = held.Term, held.Dim, nil, held.Whys
		heldBytes = held.Bytes
	}
	c19VerifiedHeads = nil
	if cand != nil {
		c19VerifiedHeads = append(c19VerifiedHeads, cand.Term)
	}
	if held != nil {
		c19VerifiedHeads = append(c19VerifiedHeads, held.Term)
	}
	// the contract of every store unit (and what its write is conditional on)
	for _, st := range sites {
		if st.Unit != nil {
			c19StoreUnit(r, st, nextT, heldBytes)
		}
	}
	r.Rule("C19.R2")
	prevRaw := c19Get + "#0"
	// the equal-size test "the two root hashes are the same bytes", however it is written
	// (bytes.Equal over the full arrays, or the array comparison == / !=)
	rootTests := c19RootTests(r, fn)
	rootsKey, rootsNe := "<equality test of the two SHA256RootHash arrays>", "F"
	if len(rootTests) == 1 {
		rootsKey, rootsNe = rootTests[0].Key, rootTests[0].Ne
	}
	siteOf := func(v ssa.Value) (*c19Site, int) {
		call, i := ResultIndex(v)
		if call == nil {
			return nil, 0
		}
		for _, st := range sites {
			if st.Unit != nil && st.Call == call {
				return st, i
			}
		}
		return nil, 0
	}
	type shape struct{ data, err string }
	shapes := func(reach *Reach) []shape {
		var out []shape
		for _, ret := range reachableReturns(fn, reach) {
			for _, p := range c19RetPairs(ret, reach) {
				d := r.D.D(p[0])
				switch {
				case d == "nil":
				case glob(prevRaw, d):
					d = "held"
				case glob(c19Sign+"("+"p0, "+nextT+")#0", d):
					d = "cosigned(next)"
				}
				e := errKind(p[1])
				if e == "non" && glob("status.Errorf(9, *)", r.D.D(p[1])) {
					// the error as it is under this valuation (φ restricted to the edges taken)
					e = "FailedPrecondition"
				}
				// the outcome of a store unit handed on as it is: (cosigned(next), nil) after a
				// successful write, (nil, error) otherwise — the unit's own table decides that
				if sd, i := siteOf(p[0]); sd != nil {
					if se, j := siteOf(p[1]); se == sd && i == 0 && j == 1 {
						d, e = "unit-outcome", "unit-outcome"
					} else {
						d = "result of a store unit without its error"
					}
				}
				out = append(out, shape{d, e})
			}
		}
		return out
	}
	// the outcome of reading the stored row — "read" (no error), "nothing stored" (an error
	// with code NotFound) or "read failed" (any other error) — however Update tests it
	readAtoms, readState, tellsNotFound := c19ReadDecision(r, fn)
	var dims []c19Dim
	var dimErr error
	addAtoms := func(atoms ...RuleAtom) {
		for _, a := range atoms {
			d, err := c19DimOfAtom(r, fn, found, a)
			if err != nil && dimErr == nil {
				dimErr = err
			}
			dims = append(dims, d)
		}
	}
	addAtoms(RuleAtom{Name: "known", Pat: "p0.Logs[p2]#1"})
	dims = append(dims, nextDim)
	if errN != nil && dimErr == nil {
		dimErr = errN
	}
	// the transaction is opened by Update itself (then its failure is a class of this table) or
	// by the store units (then it is a class of theirs)
	txHere := len(CallsTo(fn, "(*sql.DB).BeginTx")) > 0 || len(directSets) > 0
	if txHere {
		addAtoms(RuleAtom{Name: "tx", Pat: "nil?(*sql.DB).BeginTx(*)#1"})
	}
	addAtoms(readAtoms...)
	dims = append(dims, prevDim)
	if errP != nil && dimErr == nil {
		dimErr = errP
	}
	addAtoms(
		RuleAtom{Name: "size", OrdA: nextT + ".TreeSize", OrdB: prevT + ".TreeSize"},
		RuleAtom{Name: "roots", Pat: rootsKey},
		RuleAtom{Name: "proof", Pat: "nil?proof.VerifyConsistency(*)"},
	)
	storeHere, signHere := len(directSets) > 0, len(directSigns) > 0
	if storeHere {
		addAtoms(RuleAtom{Name: "store", Pat: "nil?" + c19Set + "(*)"})
	}
	if signHere {
		addAtoms(RuleAtom{Name: "sign", Pat: "nil?" + c19Sign + "(*)#1"})
	}
	className := func(base, why string) string {
		if why == "" {
			return base
		}
		return base + ":" + why
	}
	refused := map[string]string{ // class → why the update is refused
		"unknown-log":          "no verifier is configured for the requested log ID",
		"no-transaction":       "no transaction could be opened",
		"read-failed":          "reading the stored row failed, so nothing is known about the held tree head",
		"smaller":              "the candidate is smaller than the held tree head",
		"same-size-other-root": "same size as the held tree head but another root",
		"proof-rejected":       "the consistency proof from the held tree head does not verify",
	}
	classify := func(v map[string]string) string {
		read := readState(v)
		switch {
		case read == "":
			return "" // no error has this combination of nil-ness and status code
		case v["known"] == "F":
			return "unknown-log"
		case v["next"] == "non":
			return className("candidate-rejected", v["next?"])
		case txHere && v["tx"] == "non":
			return "no-transaction"
		case read == "failed":
			return "read-failed"
		case read == "nothing-stored":
			return "first-use"
		case v["prev"] == "non":
			return className("stored-unparsable", v["prev?"])
		case v["size"] == "<":
			return "smaller"
		case v["size"] == "=" && v["roots"] == rootsNe:
			return "same-size-other-root"
		case v["size"] == "=":
			return "identical"
		case v["proof"] == "non":
			return "proof-rejected"
		}
		return "extension"
	}
	storeOK := func(v map[string]string) bool {
		return (!storeHere || v["store"] == "nil") && (!signHere || v["sign"] == "nil")
	}
	// the returns of an accepted update: (cosigned(next), nil) only when storing and signing
	// succeeded, (nil, error) otherwise
	accepted := func(sh []shape, v map[string]string) (string, bool) {
		okSeen := false
		for _, s := range sh {
			switch {
			case s.data == "nil" && (s.err == "non" || s.err == "FailedPrecondition"):
			case s.data == "unit-outcome":
				okSeen = true
			case s.data == "cosigned(next)" && s.err == "nil":
				okSeen = true
				if !storeOK(v) {
					return "returns the cosigned STH although storing or signing failed", true
				}
			default:
				return fmt.Sprintf("may return (%s, error:%s) on the accepting path", s.data, s.err), false
			}
		}
		if storeOK(v) && !okSeen {
			return "no (cosigned(next), nil) return although store and sign succeeded", false
		}
		return "", false
	}
	// what a store site's write is conditional on must be what the class decided on
	fits := func(class string, reach *Reach) string {
		for _, st := range sites {
			if st.Unit == nil || !reach.Has(st.Call) {
				continue
			}
			switch {
			case st.Mode == "":
				return "undecided: the store unit reached here has no decided condition for its write"
			case class == "first-use" && st.Mode != "nil":
				return "nothing was stored when the decision was made (first use), but the store unit reached here requires the row to equal the held bytes instead of requiring that there still is no row"
			case class != "first-use" && st.Mode != "held":
				return "the decision was made against the held tree head, but the store unit reached here does not require the row in its transaction to still be the bytes that tree head was decoded from"
			}
		}
		return ""
	}
	judge := func(class string, v map[string]string, reach *Reach, sg Sigma) (string, bool) {
		wrote := len(reachableIns(sets, reach)) > 0
		sh := shapes(reach)
		if len(sh) == 0 {
			return "no return reachable", false
		}
		all := func(sh []shape, data, err string) string {
			for _, s := range sh {
				if s.data != data || s.err != err {
					return fmt.Sprintf("may return (%s, error:%s); the property prescribes (%s, error:%s)", s.data, s.err, data, err)
				}
			}
			return ""
		}
		switch class {
		case "first-use", "extension":
			if !wrote {
				return "the accepted STH is not stored (no setSTH call executes)", true
			}
			if msg := fits(class, reach); msg != "" {
				return msg, true
			}
			return accepted(sh, v)
		case "identical":
			if !wrote {
				return all(sh, "held", "nil"), false
			}
			// Same size and same root as the held tree head: the property allows a validly signed
			// re-issue to replace it ("never shrinks", "equal size implies equal root").  Then
			// every return that does not pass a store site answers (held, nil), and what follows
			// a store site is the outcome of an accepted update.
			if msg := fits(class, reach); msg != "" {
				return msg, true
			}
			before := r.D.Walk(fn, sg, nil, BlocksOf(sets))
			for _, in := range sets {
				delete(before.Blocks, in.Block())
			}
			if msg := all(shapes(before), "held", "nil"); msg != "" {
				return "without storing: " + msg, false
			}
			for _, in := range reachableIns(sets, reach) {
				after := r.D.Walk(fn, sg, in.Block(), nil)
				ash := shapes(after)
				if len(ash) == 0 {
					return "no return reachable after the store", false
				}
				if msg, g := accepted(ash, v); msg != "" {
					return "after storing a re-issue of the held tree head: " + msg, g
				}
			}
			return "", false
		}
		why := ""
		if w, ok := refused[class]; ok {
			why = " (" + w + ")"
		}
		if wrote {
			return "setSTH may execute although the update must be refused" + why + ": the witness stores, and then cosigns, a tree head it must not accept", true
		}
		if len(reachableIns(signs, reach)) > 0 {
			return "signSTH may execute although the update must be refused" + why, true
		}
		switch class {
		case "smaller", "same-size-other-root", "proof-rejected":
			return all(sh, "held", "FailedPrecondition"), false
		case "no-transaction":
			// (the transaction may be opened only where it is needed: what is decided before that
			// is answered as it would be with one — by a refusal or the held STH, never a cosignature)
			for _, s := range sh {
				switch {
				case s.data == "nil" && (s.err == "non" || s.err == "FailedPrecondition"):
				case s.data == "held" && (s.err == "FailedPrecondition" || s.err == "nil"):
				default:
					return fmt.Sprintf("may return (%s, error:%s) although no transaction could be opened", s.data, s.err), false
				}
			}
			return "", false
		}
		for _, s := range sh {
			if s.data != "nil" || s.err == "nil" || s.err == "dyn" || s.err == "unit-outcome" {
				return fmt.Sprintf("may return (%s, error:%s); a hard refusal%s returns (nil, error)", s.data, s.err, why), false
			}
		}
		return "", false
	}
	classes := []string{"unknown-log"}
	for _, w := range nextWhys {
		c := className("candidate-rejected", w)
		refused[c] = "the candidate is refused: " + c19Refusal[w]
		classes = append(classes, c)
	}
	if txHere {
		classes = append(classes, "no-transaction")
	}
	classes = append(classes, "read-failed")
	if tellsNotFound {
		// (without a comparison of the read error's code with NotFound there is no first-use
		// class to judge: every non-nil read error is a failed read)
		classes = append(classes, "first-use")
	}
	for _, w := range prevWhys {
		c := className("stored-unparsable", w)
		refused[c] = "the stored STH is refused: " + c19Refusal[w]
		classes = append(classes, c)
	}
	classes = append(classes, "smaller", "same-size-other-root", "identical", "proof-rejected", "extension")
	if dimErr != nil {
		r.Fail("Update", r.FnPos(fn), "undecided: "+dimErr.Error())
	} else {
		r.c19DimTable(fn, "Update", dims, classes, classify, judge)
	}

	// ---- R3: arguments
	r.Rule("C19.R3")
	if vc := r.OneCall(fn, "Update:VerifyConsistency", "proof.VerifyConsistency"); vc != nil {
		for i, w := range []string{"g:rfc6962.DefaultHasher", prevT + ".TreeSize", nextT + ".TreeSize", "p4", prevT + ".SHA256RootHash[:]", nextT + ".SHA256RootHash[:]"} {
			r.ExpectArg(vc, fmt.Sprintf("Update:VerifyConsistency.arg%d", i), i, w)
		}
	}
	if len(rootTests) != 1 {
		r.Fail("Update:roots-compared", r.FnPos(fn), fmt.Sprintf("expected exactly one equality test of two root hashes (bytes.Equal over the full arrays or ==) in %s, found %d", FuncName(fn), len(rootTests)))
	} else {
		eq := rootTests[0]
		n, p := nextT+".SHA256RootHash", prevT+".SHA256RootHash"
		r.Check("Update:roots-compared.operands", glob(n, eq.TX) && glob(p, eq.TY) || glob(p, eq.TX) && glob(n, eq.TY), r.Where(eq.At), "equal-size test compares "+eq.TX+" with "+eq.TY)
	}
	if txHere {
		bts := CallsTo(fn, "(*sql.DB).BeginTx")
		r.Check("Update:BeginTx", len(bts) >= 1, r.FnPos(fn), fmt.Sprintf("%d call(s) of (*sql.DB).BeginTx in %s (the transaction setSTH writes through is opened here)", len(bts), FuncName(fn)))
		for _, bt := range bts {
			r.ExpectArg(bt, "Update:BeginTx.db", 0, "p0.db")
			r.ExpectArg(bt, "Update:BeginTx.ctx", 1, "p1")
		}
	}
	var txIDs []any // per direct store site: the transaction it writes through
	for _, sc := range directSets {
		c := sc.(ssa.CallInstruction)
		id, okTx := c19TxID(r, CallArgs(c)[1])
		txIDs = append(txIDs, id)
		r.Check("Update:setSTH.tx", okTx, r.Where(c), "setSTH writes through the transaction opened by BeginTx: "+r.D.D(CallArgs(c)[1]))
		r.ExpectArg(c, "Update:setSTH.logID", 2, "p2")
		r.ExpectArg(c, "Update:setSTH.bytes", 3, "p3")
	}
	if g := r.OneCall(fn, "Update:getLatestSTH", c19Wit+".getLatestSTH"); g != nil {
		// The decision is made on the row as it is in the writing transaction: a direct setSTH
		// call writes through the transaction the held STH was read through; a store unit reads
		// the row again in its own transaction and compares (its own obligations, above) — then
		// the first read only has to come from the witness's database.
		if len(directSets) > 0 {
			m, recv := BoundMethod(CallArgs(g)[1])
			rid, okR := c19TxID(r, recv)
			same := m == "(*database/sql.Tx).QueryRow" && okR
			for _, id := range txIDs {
				same = same && id != nil && id == rid
			}
			detail := "the previous STH is read with " + m + " bound to the transaction every setSTH call writes through"
			if !same {
				detail = "the held STH the decision is made on is read with " + m + ", not through the transaction that setSTH writes through (and the row is not read again and compared inside that transaction): an update that commits between the read and the write is overwritten by a candidate that was never checked against it — the held STH can shrink or fork"
			}
			r.Check("Update:read-in-tx", same, r.Where(g), detail)
		} else {
			what, ok := c19ReadSource(r, CallArgs(g)[1])
			r.Check("Update:read-source", ok, r.Where(g), "the held STH is read from the witness's database: "+what)
		}
		r.ExpectArg(g, "Update:getLatestSTH.logID", 2, "p2")
	}
	for _, sg := range directSigns {
		r.ExpectArg(sg.(ssa.CallInstruction), "Update:signSTH.sth", 1, nextT)
	}
	if fg := r.Fn(c19Wit + ".getLatestSTH"); fg != nil {
		if q := r.OneCall(fg, "getLatestSTH:query", "dyn(p1)"); q != nil {
			args := CallArgs(q)
			el := ElemStores(AllocBehind(args[len(args)-1]))
			ok := len(el[0]) == 1 && r.D.D(el[0][0]) == "p2"
			r.Check("getLatestSTH:query.param", ok, r.Where(q), "the row is selected by the requested log ID (p2)")
		}
		// NotFound only for sql.ErrNoRows (whichever way the test is written: ==, != with the
		// branches exchanged, errors.Is); success returns the scanned bytes
		r.Rule("C19.R2")
		c19ReadClasses(r, fg)
		r.Rule("C19.R3")
		// every error of the row gates the success return; the scan must be among them (Scan
		// also reports the error deferred from the query, so a separate row.Err() test is optional)
		r.ErrorsGate(fg, "getLatestSTH:errors", "(*sql.Row).*", 1)
		r.Check("getLatestSTH:errors.scan", len(CallsTo(fg, "(*sql.Row).Scan")) >= 1, r.FnPos(fg), "the row is read with (*sql.Row).Scan, whose error is among the gated ones")
	}
}

func c19GetSTH(r *Run, fn *ssa.Function) {
	succ := successReturns(fn)
	sth := c19BindSTH(r, fn, "GetSTH:held", "held", c19Get+"#0", "p1", succ)
	r.Rule("C19.R4")
	r.ErrorsGate(fn, "GetSTH:errors", "*", 3)
	term := c19Wit + ".parse(p0, " + c19Get + "#0, p1)#0"
	if sth != nil {
		term = sth.Term
	}
	for _, ret := range succ {
		v := RetVals(ret.(*ssa.Return))
		r.Check("GetSTH:result", glob(c19Sign+"(p0, "+term+")#0", r.D.D(v[0])), r.Where(ret), "GetSTH returns "+r.D.D(v[0])+" (the cosigned, verified stored tree head expected)")
	}
	if g := r.OneCall(fn, "GetSTH:getLatestSTH", c19Wit+".getLatestSTH"); g != nil {
		r.ExpectArg(g, "GetSTH:getLatestSTH.logID", 2, "p1")
	}
}

// ---- R5: parse ---------------------------------------------------------------------------

func c19Parse(r *Run, fn *ssa.Function) {
	r.Rule("C19.R5")
	succ := successReturns(fn)
	if !r.Check("parse:success-returns", len(succ) >= 1, r.FnPos(fn), fmt.Sprintf("%d nil-error returns", len(succ))) {
		return
	}
	r.MustGuard(fn, "parse:log-known", "p0.Logs[p2]#1", "F", succ, "nil-error return")
	r.ErrorsGate(fn, "parse:errors", "*", 3)
	t := c19BindSTH(r, fn, "parse", "sth", "p1", "p2", succ)
	r.Rule("C19.R5")
	if t == nil {
		return
	}
	if t.Form == "inline" {
		for _, ret := range succ {
			r.Check("parse:returns-verified", baseAlloc(RetVals(ret.(*ssa.Return))[0]) == t.Cell, r.Where(ret), "parse returns the STH whose signature was verified")
		}
		// every nil-error return comes after VerifySTHSignature accepted this STH — or after a test
		// that establishes it was accepted before (rules_t8c19.go)
		var verify []ssa.CallInstruction
		for _, c := range CallsTo(fn, "(ct.SignatureVerifier).VerifySTHSignature") {
			if a := CallArgs(c); len(a) == 2 && baseAlloc(a[1]) == t.Cell {
				verify = append(verify, c)
			}
		}
		c19Memo(r, fn, succ, t.Cell, verify)
	} else {
		r.Fail("parse:returns-verified", r.Where(succ[0]), "undecided: parse obtains its result from a call of itself")
	}
}
