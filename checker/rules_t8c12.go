package main

import (
	"fmt"
	"go/token"
	"go/types"
	"os"
	"regexp"
	"sort"
	"strconv"
	"strings"

	"golang.org/x/tools/go/ssa"
)

// Round 8, C12 — two obligations restated as the facts they protect.
//
// (A) C12.R2 signed-extensions — "THE EXTENSIONS INSIDE THE BYTES LogClient.VerifySCTSignature HAS
//     VERIFIED ARE THOSE OF THE SCT IT WAS HANDED" (the SCT addChainWithRetry built from the response
//     and returns).  RFC 6962 s3.2: the log signs (version, 0, timestamp, entry type, signed entry,
//     extensions); an SCT "verifies" only if the extensions it carries are part of what was checked.
//     The verified bytes are made two calls below the wrapper, so the fact is decided along the
//     verdict call: every value that is put into the Extensions member of a ct.CertificateTimestamp
//     that the verdict's callee (or a module function it calls with its own parameters) marshals is
//     traced back, parameter by parameter, to the wrapper, and there it must be
//
//       * the Extensions of the wrapper's own SCT parameter (the signed structure takes them from the
//         SCT), that parameter not being written on the way; or
//       * the Extensions of the leaf inside the entry handed to the verdict — then the wrapper must
//         have put the SCT's extensions into that leaf before it copied the leaf into the entry.
//
//     Anything else (a constant, nothing at all, a third object) is a violation; a value that cannot
//     be traced is "undecided" (fails).  A store of the SCT's extensions into the leaf is no longer
//     demanded when nothing on the verdict path reads it (it is dead code there); where such a store
//     exists it must still carry the SCT's extensions and precede the copy.
//
// (B) C12.R1 remembered verdict — see below (t8Remembered).

var t8ParamPath = regexp.MustCompile(`^p(\d+)((?:\.[A-Za-z_][A-Za-z_0-9]*)*)$`)

// t8ExtSrc: one value that ends up as the Extensions of a marshalled ct.CertificateTimestamp, over the
// parameters of the function asked (param < 0: not a member of a parameter; term says what it is).
type t8ExtSrc struct {
	param int
	path  string
	term  string
	where string
}

// t8ParamWritten: parameter idx of fn is assigned to (as a whole or in part) somewhere in fn — its
// origin term `pN` then no longer stands for the caller's argument.
func t8ParamWritten(fn *ssa.Function, idx int) bool {
	if idx < 0 || idx >= len(fn.Params) {
		return true
	}
	p := fn.Params[idx]
	for _, ref := range *p.Referrers() {
		st, ok := ref.(*ssa.Store)
		if !ok || st.Val != ssa.Value(p) {
			continue
		}
		a, ok := st.Addr.(*ssa.Alloc)
		if !ok {
			continue
		}
		for _, st2 := range storesInto(fn, a) {
			if st2 != st {
				return true
			}
		}
	}
	return false
}

// t8SignedExtSources: what fn — itself or through module functions it calls, up to three calls deep —
// puts into the Extensions member of a ct.CertificateTimestamp that is handed to tls.Marshal.
func t8SignedExtSources(r *Run, fn *ssa.Function, depth int, busy map[*ssa.Function]bool) (srcs []t8ExtSrc, undecided []string) {
	if fn == nil || len(fn.Blocks) == 0 || busy[fn] || depth > 3 {
		return nil, nil
	}
	busy[fn] = true
	defer delete(busy, fn)
	classify := func(term, where string) t8ExtSrc {
		if m := t8ParamPath.FindStringSubmatch(term); m != nil {
			i, _ := strconv.Atoi(m[1])
			if t8ParamWritten(fn, i) {
				return t8ExtSrc{param: -1, term: term + " (a parameter that " + FuncName(fn) + " assigns to)", where: where}
			}
			return t8ExtSrc{param: i, path: m[2], term: term, where: where}
		}
		return t8ExtSrc{param: -1, term: term, where: where}
	}
	for _, c := range CallsTo(fn, "tls.Marshal") {
		args := CallArgs(c)
		if len(args) == 0 {
			continue
		}
		a := baseAlloc(args[0])
		if a == nil {
			if strings.Contains(TypeName(args[0].Type()), "ct.CertificateTimestamp") {
				undecided = append(undecided, "the ct.CertificateTimestamp marshalled at "+r.Where(c)+" is not built in a local")
			}
			continue
		}
		if TypeName(a.Type().(*types.Pointer).Elem()) != "ct.CertificateTimestamp" {
			continue
		}
		sts := writesIntoField(fn, a, "Extensions")
		for _, st := range storesInto(fn, a) {
			if st.Addr == ssa.Value(a) {
				undecided = append(undecided, "the ct.CertificateTimestamp marshalled at "+r.Where(c)+" is assigned as a whole at "+r.Where(st))
			}
		}
		if len(sts) == 0 {
			srcs = append(srcs, t8ExtSrc{param: -1, term: "nothing (the member is never set: empty extensions)", where: r.Where(c)})
		}
		for _, st := range sts {
			srcs = append(srcs, classify(r.loadTerm(fn, st.Val), r.Where(st)))
		}
	}
	eachInstr(fn, func(in ssa.Instruction) {
		c, ok := in.(ssa.CallInstruction)
		if !ok {
			return
		}
		g := c.Common().StaticCallee()
		if g == nil || len(g.Blocks) == 0 || r.P.byName[FuncName(g)] != g {
			return
		}
		sub, und := t8SignedExtSources(r, g, depth+1, busy)
		undecided = append(undecided, und...)
		args := CallArgs(c)
		for _, s := range sub {
			if s.param < 0 || s.param >= len(args) {
				srcs = append(srcs, s)
				continue
			}
			t := classify(r.D.D(args[s.param]), s.where)
			if t.param >= 0 {
				t.path += s.path
			}
			t.term += s.path
			srcs = append(srcs, t)
		}
	})
	return srcs, undecided
}

// c12SignedExtensions decides (A) for the wrapper wf, whose verdict calls are cs and whose leaf is
// result 0 of leafCall.
func c12SignedExtensions(r *Run, wf *ssa.Function, cs []ssa.CallInstruction, leafCall ssa.CallInstruction) {
	k := "LogClient.VerifySCTSignature"
	leafAddr := "&(" + r.D.D(CallResult(leafCall, 0)) + ".TimestampedEntry.Extensions)"
	leafStores := r.StoresTo(wf, leafAddr)
	fromLeaf := false
	for _, c := range cs {
		v := c.Common().StaticCallee()
		if v == nil || len(v.Blocks) == 0 {
			r.Fail(k+":signed-extensions", r.Where(c), "undecided: the verdict is not a call of a function whose body can be read")
			continue
		}
		srcs, und := t8SignedExtSources(r, v, 0, map[*ssa.Function]bool{})
		for _, u := range und {
			r.Fail(k+":signed-extensions", r.Where(c), "undecided: "+u)
		}
		if len(srcs) == 0 {
			r.Fail(k+":signed-extensions", r.Where(c), "undecided: no ct.CertificateTimestamp is marshalled on the verdict path of "+FuncName(v)+" (up to three calls deep)")
			continue
		}
		args := CallArgs(c)
		for _, s := range srcs {
			if s.param < 0 || s.param >= len(args) {
				r.Fail(k+":signed-extensions", s.where, "the Extensions of the signed structure are "+s.term+": neither the extensions of the SCT under verification nor those of the leaf built for it, so the extensions field of the response is outside what the client verifies (an SCT whose extensions were not signed is returned; one whose extensions were signed is refused)")
				continue
			}
			at := r.D.D(args[s.param])
			switch {
			case at == "p1" && s.path == ".Extensions":
				w := t8ParamWritten(wf, 1)
				r.Check(k+":signed-extensions", !w, s.where, "the signed structure takes its extensions from the SCT it is given ("+s.term+" of "+FuncName(v)+"), and that is the wrapper's own SCT parameter"+map[bool]string{false: ", unmodified", true: " — but " + FuncName(wf) + " assigns to that parameter, so what is verified need not be the SCT that was received and is returned"}[w])
			case baseAlloc(args[s.param]) != nil && s.path == ".Leaf.TimestampedEntry.Extensions":
				fromLeaf = true
				// the entry's leaf is the wrapper's leaf (the :entry obligation); its extensions are the SCT's
				ok := len(leafStores) >= 1
				for _, st := range leafStores {
					ok = ok && r.D.D(st.Val) == "p1.Extensions"
				}
				r.Check(k+":signed-extensions", ok && !t8ParamWritten(wf, 1), s.where, fmt.Sprintf("the signed structure takes its extensions from the leaf of the entry (%s of %s), so the leaf the wrapper builds must carry the SCT's extensions: %d store(s) to %s in %s, each of which must store p1.Extensions%s", s.term, FuncName(v), len(leafStores), leafAddr, FuncName(wf),
					map[bool]string{true: "", false: " — the extensions field of the response is not part of what the client verifies: an SCT whose extensions were not signed is returned, one whose extensions were signed is refused"}[ok]))
			default:
				r.Fail(k+":signed-extensions", s.where, "the Extensions of the signed structure are "+at+s.path+" in "+FuncName(wf)+" (via "+s.term+" of "+FuncName(v)+"): neither p1.Extensions (the SCT under verification) nor the extensions of the leaf built for it")
			}
		}
	}
	// a store into the leaf's extensions, where there is one, carries the SCT's extensions (that there
	// is one when the signed structure reads the leaf is part of signed-extensions above)
	_ = fromLeaf
	r.ExpectStores(wf, k+":leaf.extensions", leafAddr, "p1.Extensions", 0)
}

// ---------------------------------------------------------------------------------------------------
// (B) C12.R1 remembered verdict — "GetSTH RETURNS A TREE HEAD ONLY IF ITS SIGNATURE VERIFIES UNDER THE
//     CONFIGURED KEY", on every shape of code, including one that does not run the verification again
//     for a head it has verified before.
//
// The fact is decided in two halves.
//
//   after-verdict   once c.VerifySTHSignature(head) has answered non-nil, no STH-yielding return
//                   executes (a walk that starts at the verification).
//   bypass          an STH-yielding return that can be reached WITHOUT executing the verification
//                   (decided on the control-flow graph with the verification's block taken out) is
//                   allowed only as a REMEMBERED VERDICT:
//
//       key         the conditions that are necessary for reaching that return (read off the CFG: an
//                   outcome of a branch is necessary when the return is unreachable without that edge;
//                   a bool-valued helper or function literal is opened: its "true" needs the
//                   conditions necessary for a return that can yield true, through φ of &&-chains)
//                   contain, for EVERY input the verdict depends on, an equality between that input
//                   as it is now and a record kept in the client.  The inputs the verdict depends on
//                   are read off the SSA of the verification itself — every member of the tree head
//                   and every piece of client state that c.VerifySTHSignature or a function it hands
//                   them to reads (on the unchanged tree: Version, TreeSize, Timestamp,
//                   SHA256RootHash, TreeHeadSignature.Algorithm.{Hash,Signature},
//                   TreeHeadSignature.Signature; the client's Verifier pointer and the verifier it
//                   points to).  A member the verdict does not depend on (LogID) need not be compared.
//                   Slices count as compared only through bytes.Equal, a pointer only through a
//                   comparison of what it points to (the pointee can be assigned in place).
//       fill        every store to a member of the client that the key compares with (found
//                   module-wide, not by name) sits where the head it copies is the head that was
//                   verified: its site is dominated by the verification, is not executed once the
//                   verdict was non-nil, copies the value of exactly that input (the verified head /
//                   the client's current verifier), all record members together; resetting a record
//                   to nil is always allowed.
//       private     a record that holds a slice the verdict depends on holds its own copy of the
//                   bytes (bytes.Clone, slices.Clone, append(nil, …)): the head handed to the caller
//                   shares nothing with the record, so the caller cannot rewrite what is remembered.
//       lock        every access to a record member, module-wide, happens with one common mutex of the
//                   client held, and the record members of one fill are stored without releasing it.
//
// Whatever cannot be decided — a record filled by a function whose call sites are not in GetSTH, a
// key condition hidden in a closure variable, an input of unknown extent handed to an interface — is
// a failed obligation.  Assumption recorded: a public-key object is not modified in place.

type t8AP struct {
	root ssa.Value
	segs []string
	vars []*types.Var // the member selected by each segment (nil for * & [])
}

func t8RootKey(v ssa.Value) string {
	if e, ok := v.(*ssa.Extract); ok {
		return fmt.Sprintf("%p#%d", e.Tuple, e.Index)
	}
	return fmt.Sprintf("%p", v)
}

func (p t8AP) key() string { return t8RootKey(p.root) + "|" + strings.Join(p.segs, "/") }

func (p t8AP) add(s string, v *types.Var) t8AP {
	if s == "*" && len(p.segs) > 0 && p.segs[len(p.segs)-1] == "&" {
		return t8AP{p.root, append([]string(nil), p.segs[:len(p.segs)-1]...), append([]*types.Var(nil), p.vars[:len(p.vars)-1]...)}
	}
	return t8AP{p.root, append(append([]string(nil), p.segs...), s), append(append([]*types.Var(nil), p.vars...), v)}
}

func (p t8AP) sameRoot(q t8AP) bool { return t8RootKey(p.root) == t8RootKey(q.root) }

// members renders the member part of a path: TreeHeadSignature.Signature, *JSONClient.Verifier
func t8Members(segs []string) string {
	var out []string
	for _, s := range segs {
		switch s {
		case "*", "&":
		default:
			out = append(out, s)
		}
	}
	if len(out) == 0 {
		return "(the whole value)"
	}
	return strings.Join(out, ".")
}

func t8HasPrefix(segs, pre []string) bool {
	if len(pre) > len(segs) {
		return false
	}
	for i := range pre {
		if segs[i] != pre[i] {
			return false
		}
	}
	return true
}

type t8Fact struct {
	kind  string // eq | eqbytes | nonnil
	a, b  t8AP
	where string
}

func (f t8Fact) key() string {
	ka, kb := f.a.key(), ""
	if f.kind != "nonnil" {
		kb = f.b.key()
		if kb < ka {
			ka, kb = kb, ka
		}
	}
	return f.kind + "(" + ka + "," + kb + ")"
}

type t8Facts map[string]t8Fact

func (a t8Facts) union(b t8Facts) {
	for k, v := range b {
		a[k] = v
	}
}

func t8Meet(a, b t8Facts) t8Facts {
	out := t8Facts{}
	for k, v := range a {
		if _, ok := b[k]; ok {
			out[k] = v
		}
	}
	return out
}

type t8Dep struct {
	segs  []string
	typ   types.Type
	where string
}

type t8R struct {
	r     *Run
	env   map[*ssa.Parameter]ssa.Value
	notes []string // why something could not be opened
}

// ---- access paths ----------------------------------------------------------------------------------

func (e *t8R) ap(v ssa.Value, depth int) t8AP {
	if depth > 24 {
		return t8AP{root: v}
	}
	switch x := v.(type) {
	case *ssa.Parameter:
		if a, ok := e.env[x]; ok {
			return e.ap(a, depth+1)
		}
		if a := onTheSpotArg(x); a != nil {
			return e.ap(a, depth+1)
		}
	case *ssa.Field:
		return e.ap(x.X, depth+1).add(fieldOfVal(x).Name(), fieldOfVal(x))
	case *ssa.UnOp:
		if x.Op == token.MUL {
			return e.apAddr(x.X, depth+1)
		}
	case *ssa.ChangeType:
		return e.ap(x.X, depth+1)
	case *ssa.ChangeInterface:
		return e.ap(x.X, depth+1)
	case *ssa.Alloc, *ssa.FieldAddr, *ssa.IndexAddr:
		return e.apAddr(v, depth+1).add("&", nil)
	}
	return t8AP{root: v}
}

// apAddr: the path of what is stored at address v.
func (e *t8R) apAddr(v ssa.Value, depth int) t8AP {
	if depth > 24 {
		return t8AP{root: v}
	}
	switch x := v.(type) {
	case *ssa.FieldAddr:
		if f := fieldOf(x); f != nil {
			return e.apAddr(x.X, depth+1).add(f.Name(), f)
		}
	case *ssa.IndexAddr:
		return e.apAddr(x.X, depth+1).add("[]", nil)
	case *ssa.Alloc:
		if p := paramSpill(x); p != nil {
			return e.ap(p, depth+1)
		}
		if w := structSpill(x); w != nil {
			return e.ap(w, depth+1)
		}
		if w := uniqueStore(x); w != nil {
			return e.ap(w, depth+1)
		}
		return t8AP{root: x}
	case *ssa.FreeVar:
		fn := x.Parent()
		if par := fn.Parent(); par != nil {
			for i, fv := range fn.FreeVars {
				if fv != x {
					continue
				}
				var bind ssa.Value
				n := 0
				eachInstr(par, func(in ssa.Instruction) {
					if mc, ok := in.(*ssa.MakeClosure); ok && mc.Fn == ssa.Value(fn) && i < len(mc.Bindings) {
						bind = mc.Bindings[i]
						n++
					}
				})
				if n == 1 {
					return e.apAddr(bind, depth+1)
				}
			}
		}
		return t8AP{root: v}
	}
	return e.ap(v, depth+1).add("*", nil)
}

func (e *t8R) show(p t8AP) string {
	s := e.r.D.D(p.root)
	for i, g := range p.segs {
		switch g {
		case "*":
			if i+1 < len(p.segs) && p.segs[i+1] != "*" && p.segs[i+1] != "&" {
				continue // a member selected through a pointer
			}
			s = deref(s)
		case "&":
			s = "&(" + s + ")"
		default:
			s = selBase(s) + "." + g
		}
	}
	return s
}

// ---- necessary conditions ----------------------------------------------------------------------------

type t8Edge struct {
	b *ssa.BasicBlock
	k int
}

// t8Reach: the blocks reachable from the entry of fn without entering the blocks of `without` and
// without taking the edge cut.
func t8Reach(fn *ssa.Function, without map[*ssa.BasicBlock]bool, cut *t8Edge) map[*ssa.BasicBlock]bool {
	seen := map[*ssa.BasicBlock]bool{}
	if len(fn.Blocks) == 0 || without[fn.Blocks[0]] {
		return seen
	}
	work := []*ssa.BasicBlock{fn.Blocks[0]}
	seen[fn.Blocks[0]] = true
	for len(work) > 0 {
		b := work[len(work)-1]
		work = work[:len(work)-1]
		for k, s := range b.Succs {
			if cut != nil && cut.b == b && cut.k == k {
				continue
			}
			if without[s] || seen[s] {
				continue
			}
			seen[s] = true
			work = append(work, s)
		}
	}
	return seen
}

// needReach: the facts that hold whenever control reaches block tb of fn (tk < 0) or passes over the
// edge tb→tb.Succs[tk], on a way that does not enter `without`. impossible: it cannot be reached at all.
func (e *t8R) needReach(fn *ssa.Function, tb *ssa.BasicBlock, tk int, without map[*ssa.BasicBlock]bool, depth int) (t8Facts, bool) {
	reached := func(cut *t8Edge) bool {
		if !t8Reach(fn, without, cut)[tb] {
			return false
		}
		return !(cut != nil && tk >= 0 && cut.b == tb && cut.k == tk)
	}
	out := t8Facts{}
	if !reached(nil) {
		return out, true
	}
	base := t8Reach(fn, without, nil)
	for _, u := range fn.Blocks {
		if !base[u] || len(u.Instrs) == 0 || len(u.Succs) != 2 || u.Succs[0] == u.Succs[1] {
			continue
		}
		ifi, ok := u.Instrs[len(u.Instrs)-1].(*ssa.If)
		if !ok {
			continue
		}
		for k := 0; k < 2; k++ {
			if reached(&t8Edge{u, k}) {
				continue
			}
			var f t8Facts
			var imp bool
			if k == 0 {
				f, imp = e.needBool(ifi.Cond, true, depth+1)
			} else {
				f, imp = e.needBool(ifi.Cond, false, depth+1)
			}
			if imp {
				return out, true
			}
			out.union(f)
		}
	}
	return out, false
}

// needBool: the facts that hold whenever the boolean v has the value want.
func (e *t8R) needBool(v ssa.Value, want bool, depth int) (t8Facts, bool) {
	out := t8Facts{}
	if depth > 12 {
		return out, false
	}
	if b, ok := isBoolConst(v); ok {
		return out, b != want
	}
	where := "-"
	if in, ok := v.(ssa.Instruction); ok {
		where = e.r.Where(in)
	}
	switch x := v.(type) {
	case *ssa.UnOp:
		if x.Op == token.NOT {
			return e.needBool(x.X, !want, depth+1)
		}
		// a result variable (functions with defer keep their results in memory): the one value stored
		if a, ok := x.X.(*ssa.Alloc); ok && x.Op == token.MUL {
			if w := t8BlockStore(a, x); w != nil {
				return e.needBool(w, want, depth+1)
			}
			if w := uniqueStore(a); w != nil {
				return e.needBool(w, want, depth+1)
			}
		}
	case *ssa.BinOp:
		if x.Op != token.EQL && x.Op != token.NEQ {
			return out, false
		}
		equal := (x.Op == token.EQL) == want
		if isNilConst(x.X) || isNilConst(x.Y) {
			o := x.X
			if isNilConst(o) {
				o = x.Y
			}
			if !equal {
				f := t8Fact{kind: "nonnil", a: e.ap(o, 0), where: where}
				out[f.key()] = f
			}
			return out, false
		}
		if equal {
			f := t8Fact{kind: "eq", a: e.ap(x.X, 0), b: e.ap(x.Y, 0), where: where}
			out[f.key()] = f
		}
		return out, false
	case *ssa.Phi:
		var acc t8Facts
		for i, ev := range x.Edges {
			pred := x.Block().Preds[i]
			k := -1
			for j, s := range pred.Succs {
				if s == x.Block() {
					k = j
				}
			}
			fv, imp := e.needBool(ev, want, depth+1)
			if imp {
				continue
			}
			fr, imp := e.needReach(x.Parent(), pred, k, nil, depth+1)
			if imp {
				continue
			}
			fv.union(fr)
			if acc == nil {
				acc = fv
			} else {
				acc = t8Meet(acc, fv)
			}
		}
		if acc == nil {
			return out, true
		}
		return acc, false
	case *ssa.Call:
		callee := x.Call.StaticCallee()
		if callee == nil {
			return out, false
		}
		args := x.Call.Args
		if FuncName(callee) == "bytes.Equal" && len(args) == 2 {
			if want {
				f := t8Fact{kind: "eqbytes", a: e.ap(args[0], 0), b: e.ap(args[1], 0), where: where}
				out[f.key()] = f
			}
			return out, false
		}
		sig := callee.Signature
		if len(callee.Blocks) == 0 || sig.Results().Len() != 1 || len(callee.Params) != len(args) {
			return out, false
		}
		if !e.bind(callee, args) {
			e.notes = append(e.notes, FuncName(callee)+" is called with different arguments at several places: not opened")
			return out, false
		}
		return e.calleeYields(callee, want, depth+1)
	}
	return out, false
}

// t8BlockStore: the value the load ld of the local a sees when the last whole-value store into a in
// ld's own block precedes it with no call in between that could write a (a's address is only ever used
// by loads and whole-value stores).
func t8BlockStore(a *ssa.Alloc, ld *ssa.UnOp) ssa.Value {
	for _, ref := range *a.Referrers() {
		switch x := ref.(type) {
		case *ssa.DebugRef, *ssa.UnOp:
		case *ssa.Store:
			if x.Addr != ssa.Value(a) {
				return nil
			}
		default:
			return nil
		}
	}
	b := ld.Block()
	var last ssa.Value
	for _, in := range b.Instrs {
		if in == ssa.Instruction(ld) {
			return last
		}
		if st, ok := in.(*ssa.Store); ok && st.Addr == ssa.Value(a) {
			last = st.Val
		}
	}
	return nil
}

// bind maps the parameters of callee to the arguments of one call; false when they are already bound
// to other values (a second call site with different arguments).
func (e *t8R) bind(callee *ssa.Function, args []ssa.Value) bool {
	if len(callee.Params) != len(args) {
		return false
	}
	for i, p := range callee.Params {
		if a, ok := e.env[p]; ok && a != args[i] {
			return false
		}
	}
	for i, p := range callee.Params {
		e.env[p] = args[i]
	}
	return true
}

// calleeYields: the facts that hold whenever fn returns `want`: common to every return that can yield it.
func (e *t8R) calleeYields(fn *ssa.Function, want bool, depth int) (t8Facts, bool) {
	var acc t8Facts
	base := t8Reach(fn, nil, nil)
	for _, ret := range Returns(fn) {
		if !base[ret.Block()] || len(ret.Results) != 1 {
			continue
		}
		fv, imp := e.needBool(ret.Results[0], want, depth+1)
		if imp {
			continue
		}
		fr, imp := e.needReach(fn, ret.Block(), -1, nil, depth+1)
		if imp {
			continue
		}
		fv.union(fr)
		if acc == nil {
			acc = fv
		} else {
			acc = t8Meet(acc, fv)
		}
	}
	if acc == nil {
		return t8Facts{}, true
	}
	return acc, false
}

// ---- what a function reads of a parameter ------------------------------------------------------------

func t8IsRefType(t types.Type) bool {
	switch t.Underlying().(type) {
	case *types.Slice, *types.Map, *types.Pointer, *types.Chan:
		return true
	}
	return false
}

// reads lists the parts of parameter p of fn that fn, or a function it hands them to, looks at: member
// paths relative to the parameter's value (a leading "*" for what a pointer parameter points to).
func (e *t8R) reads(fn *ssa.Function, p *ssa.Parameter, prefix []string, depth int, out *[]t8Dep, busy map[*ssa.Parameter]bool) {
	if busy[p] {
		return
	}
	busy[p] = true
	defer delete(busy, p)
	e.track(fn, p, prefix, false, depth, out, busy, map[ssa.Value]bool{})
}

func t8Join(segs []string, s string) []string {
	if s == "*" && len(segs) > 0 && segs[len(segs)-1] == "&" {
		return append([]string(nil), segs[:len(segs)-1]...)
	}
	return append(append([]string(nil), segs...), s)
}

func (e *t8R) track(fn *ssa.Function, v ssa.Value, segs []string, isAddr bool, depth int, out *[]t8Dep, busy map[*ssa.Parameter]bool, seen map[ssa.Value]bool) {
	if seen[v] {
		return
	}
	seen[v] = true
	where := e.r.FnPos(fn)
	add := func(s []string, t types.Type) {
		*out = append(*out, t8Dep{segs: append([]string(nil), s...), typ: t, where: where})
	}
	vt := v.Type()
	if isAddr {
		vt = vt.Underlying().(*types.Pointer).Elem()
	}
	whole := func() {
		add(segs, vt)
		if pt, ok := vt.Underlying().(*types.Pointer); ok && !isAddr {
			add(t8Join(segs, "*"), pt.Elem())
		}
	}
	if !isAddr {
		switch vt.Underlying().(type) {
		case *types.Struct, *types.Pointer:
		default:
			if v.Referrers() != nil && len(*v.Referrers()) > 0 {
				add(segs, vt)
			}
			return
		}
	}
	refs := v.Referrers()
	if refs == nil {
		return
	}
	for _, ref := range *refs {
		if in, ok := ref.(ssa.Instruction); ok {
			where = e.r.Where(in)
		}
		switch x := ref.(type) {
		case *ssa.DebugRef:
		case *ssa.Field:
			e.track(fn, x, append(append([]string(nil), segs...), fieldOfVal(x).Name()), false, depth, out, busy, seen)
		case *ssa.FieldAddr:
			f := fieldOf(x)
			if f == nil {
				whole()
				continue
			}
			if isAddr {
				e.track(fn, x, append(append([]string(nil), segs...), f.Name()), true, depth, out, busy, seen)
			} else {
				e.track(fn, x, append(t8Join(segs, "*"), f.Name()), true, depth, out, busy, seen)
			}
		case *ssa.UnOp:
			if x.Op != token.MUL {
				whole()
				continue
			}
			if isAddr {
				e.track(fn, x, segs, false, depth, out, busy, seen)
			} else {
				e.track(fn, x, t8Join(segs, "*"), false, depth, out, busy, seen)
			}
		case *ssa.Store:
			if x.Addr == v && isAddr {
				continue // a write
			}
			if a, ok := x.Addr.(*ssa.Alloc); ok && x.Val == v && !isAddr {
				e.track(fn, a, segs, true, depth, out, busy, seen)
				continue
			}
			whole()
		case *ssa.ChangeType:
			e.track(fn, x, segs, isAddr, depth, out, busy, seen)
		case *ssa.ChangeInterface:
			e.track(fn, x, segs, isAddr, depth, out, busy, seen)
		case ssa.CallInstruction:
			common := x.Common()
			callee := common.StaticCallee()
			args := CallArgs(x)
			opened := false
			for i, a := range args {
				if a != v {
					continue
				}
				if callee != nil && len(callee.Blocks) > 0 && i < len(callee.Params) && len(callee.Params) == len(args) && depth < 8 {
					ps := segs
					if isAddr {
						ps = t8Join(segs, "&")
					}
					e.reads(callee, callee.Params[i], ps, depth+1, out, busy)
					opened = true
				} else {
					whole()
					opened = true
				}
			}
			if !opened {
				whole()
			}
		default:
			whole()
		}
	}
}

// t8Leaves expands a dependence on a whole struct into its members (not through pointers).
func t8Leaves(d t8Dep, depth int) []t8Dep {
	st, ok := d.typ.Underlying().(*types.Struct)
	if !ok || depth > 6 {
		return []t8Dep{d}
	}
	var out []t8Dep
	for i := 0; i < st.NumFields(); i++ {
		out = append(out, t8Leaves(t8Dep{segs: append(append([]string(nil), d.segs...), st.Field(i).Name()), typ: st.Field(i).Type(), where: d.where}, depth+1)...)
	}
	if st.NumFields() == 0 {
		return nil
	}
	return out
}

// ---- the rule ------------------------------------------------------------------------------------------

type t8Input struct {
	ap    t8AP
	typ   types.Type
	where string
	label string
}

type t8Fill struct {
	w      *ssa.Function
	site   ssa.Instruction
	st     *ssa.Store
	field  *types.Var
	reset  bool
	base   t8AP       // the input whose value the record receives
	prefix []string   // the record's path up to where the copied value starts
	alloc  *ssa.Alloc // the fresh object the record points to (nil: held by value)
	why    string     // non-empty: not understood
}

// c12VerdictInputs: everything the verdict of the call ver depends on, as paths in ver's own frame.
func (e *t8R) verdictInputs(ver ssa.CallInstruction) []t8Input {
	callee := ver.Common().StaticCallee()
	if callee == nil || len(callee.Blocks) == 0 {
		return nil
	}
	args := CallArgs(ver)
	if len(args) != len(callee.Params) {
		return nil
	}
	var out []t8Input
	seen := map[string]bool{}
	for i, a := range args {
		var ds []t8Dep
		e.reads(callee, callee.Params[i], nil, 0, &ds, map[*ssa.Parameter]bool{})
		base := e.ap(a, 0)
		for _, d0 := range ds {
			for _, d := range t8Leaves(d0, 0) {
				p := base
				for _, s := range d.segs {
					p = p.add(s, nil)
				}
				if seen[p.key()] {
					continue
				}
				seen[p.key()] = true
				out = append(out, t8Input{ap: p, typ: d.typ, where: d.where, label: e.show(p)})
			}
		}
	}
	sort.Slice(out, func(i, j int) bool { return out[i].label < out[j].label })
	return out
}

func (e *t8R) isInputSide(p t8AP, inputs []t8Input) bool {
	for _, in := range inputs {
		if p.sameRoot(in.ap) && (t8HasPrefix(in.ap.segs, p.segs) || t8HasPrefix(p.segs, in.ap.segs)) {
			return true
		}
	}
	return false
}

// t8CloneOf: v is a fresh copy of a slice (bytes.Clone, slices.Clone, append(nil, x...)); the slice copied.
func t8CloneOf(v ssa.Value) ssa.Value {
	c, ok := v.(*ssa.Call)
	if !ok {
		return nil
	}
	if f := c.Call.StaticCallee(); f != nil {
		n := FuncName(f)
		if i := strings.Index(n, "["); i >= 0 {
			n = n[:i]
		}
		if (n == "bytes.Clone" || n == "slices.Clone") && len(c.Call.Args) == 1 {
			return c.Call.Args[0]
		}
		return nil
	}
	if b, ok := c.Call.Value.(*ssa.Builtin); ok && b.Name() == "append" && len(c.Call.Args) == 2 {
		if isNilConst(c.Call.Args[0]) {
			return c.Call.Args[1]
		}
	}
	return nil
}

func c12RememberedVerdict(r *Run, fn *ssa.Function, ver, conv ssa.CallInstruction, yield []*ssa.Return) {
	k := "GetSTH"
	what := "the STH signature does not verify"
	// ---- after-verdict: once the verification has said no, no STH-yielding return executes
	atom := nilAtom("(*client.LogClient).VerifySTHSignature(*)")
	sNon, bound, err := r.bindSets(fn, nil, nil, AtomSet{atom, "non"})
	if err != nil {
		if s2, b2 := r.bindMerged(fn, nil, nil, atom, "non"); len(b2) > 0 {
			sNon, bound, err = s2, b2, nil
		}
	}
	if err != nil {
		r.Fail(k+":signature-rejected", r.FnPos(fn), "undecided: "+err.Error()+" on this path (the check for '"+what+"' is missing)")
		return
	}
	reachNon := r.walkR(fn, sNon, ver.Block(), -1)
	r.Valuations++
	if ret := anyReach(reachNon, yield); ret != nil {
		r.Fail(k+":signature-rejected", r.FnPos(fn), fmt.Sprintf("%s: the accepting return at %s may execute under %s", what, r.Where(ret), sNon))
	} else {
		r.Pass(k+":signature-rejected", r.FnPos(fn), fmt.Sprintf("%s ⇒ no accepting return from the verification on (atom %v = non)", what, bound))
	}

	// ---- what the verdict depends on (read off the verification, whether or not anything bypasses it)
	e := &t8R{r: r, env: map[*ssa.Parameter]ssa.Value{}}
	inputs := e.verdictInputs(ver)
	head := e.ap(CallArgs(ver)[1], 0)
	nHead, nClient := 0, 0
	for _, in := range inputs {
		if in.ap.sameRoot(head) {
			nHead++
		} else {
			nClient++
		}
	}
	r.Floor("members of the tree head the verdict of VerifySTHSignature depends on (read off its SSA)", nHead, 7)
	r.Floor("pieces of client state the verdict of VerifySTHSignature depends on (read off its SSA)", nClient, 2)

	// ---- bypass: STH-yielding returns reachable without executing the verification
	// (a walk, not plain graph reachability: in the merged form "convert; if err == nil { err = verify };
	// if err != nil { return }" the way round the verification carries the conversion's non-nil error
	// into the merged test, so it cannot go on to the success return)
	without := map[*ssa.BasicBlock]bool{ver.Block(): true}
	g := r.t8WalkAvoiding(fn, without)
	r.Valuations++
	var bypass []*ssa.Return
	for _, ret := range yield {
		if g.Blocks[ret.Block()] {
			bypass = append(bypass, ret)
		}
	}
	if len(bypass) == 0 {
		r.Pass(k+":unverified-return", r.FnPos(fn), "no STH-yielding return is reachable without executing c.VerifySTHSignature on the head it returns")
		return
	}
	r.Assume("a public-key object (the *rsa/*ecdsa.PublicKey behind SignatureVerifier.PubKey) is not modified in place; signature verification is a deterministic function of key, head and signature")
	rk := k + ":remembered-verdict"
	n0 := len(r.Obls)
	for _, ret := range bypass {
		c12Bypass(r, e, fn, ver, ret, inputs, head, reachNon, without, rk)
	}
	if os.Getenv("CTVERIF_T8DEBUG") != "" {
		for _, o := range r.Obls[n0:] {
			fmt.Fprintf(os.Stderr, "t8 obl ok=%v %s @%s: %s\n", o.OK, o.Key, o.Where, o.Detail)
		}
	}
}

// t8WalkAvoiding: the blocks that may execute from the entry of fn without entering a block of
// `without`, branch conditions decided as walkR decides them under the empty valuation (a nil test of
// a merged value by the status of the value arriving over the edge taken).
func (r *Run) t8WalkAvoiding(fn *ssa.Function, without map[*ssa.BasicBlock]bool) *Reach {
	type st struct {
		b    *ssa.BasicBlock
		pred int
	}
	out := &Reach{Blocks: map[*ssa.BasicBlock]bool{}, Edges: map[[2]int]bool{}}
	if len(fn.Blocks) == 0 || without[fn.Blocks[0]] {
		return out
	}
	seen := map[st]bool{}
	work := []st{{fn.Blocks[0], -1}}
	for len(work) > 0 {
		c := work[len(work)-1]
		work = work[:len(work)-1]
		if seen[c] {
			continue
		}
		seen[c] = true
		out.Blocks[c.b] = true
		succs := c.b.Succs
		if len(c.b.Instrs) > 0 {
			if ifi, ok := c.b.Instrs[len(c.b.Instrs)-1].(*ssa.If); ok && len(c.b.Succs) == 2 {
				switch r.evalR(ifi.Cond, Sigma{}, c.b, c.pred) {
				case T:
					succs = c.b.Succs[:1]
				case F:
					succs = c.b.Succs[1:2]
				}
			}
		}
		for _, sb := range succs {
			if without[sb] {
				continue
			}
			pi := -1
			for i, p := range sb.Preds {
				if p == c.b {
					pi = i
					break
				}
			}
			out.Edges[[2]int{c.b.Index, sb.Index}] = true
			work = append(work, st{sb, pi})
		}
	}
	return out
}

func c12Bypass(r *Run, e *t8R, fn *ssa.Function, ver ssa.CallInstruction, ret *ssa.Return, inputs []t8Input, head t8AP, reachNon *Reach, without map[*ssa.BasicBlock]bool, rk string) {
	// the head handed out is the head the key speaks about
	okHead, n := true, 0
	for _, leaf := range phiLeaves(ret.Results[0]) {
		if isNilConst(leaf) {
			continue
		}
		n++
		okHead = okHead && e.ap(leaf, 0).add("*", nil).key() == head.key()
	}
	r.Check(rk+":returns-checked-head", okHead && n > 0, r.Where(ret), "the head returned without verification is the freshly converted head that the key compares and the verification would have been given: "+r.D.D(ret.Results[0]))

	facts, imp := e.needReach(fn, ret.Block(), -1, without, 0)
	if imp {
		r.Fail(rk+":key", r.Where(ret), "undecided: the conditions under which this return bypasses the verification could not be read")
		return
	}
	if os.Getenv("CTVERIF_T8DEBUG") != "" {
		for _, fk := range keysOf(facts) {
			f := facts[fk]
			fmt.Fprintf(os.Stderr, "t8 fact %s %s ~ %s @%s\n", f.kind, e.show(f.a), e.show(f.b), f.where)
		}
		for _, n := range e.notes {
			fmt.Fprintln(os.Stderr, "t8 note", n)
		}
	}
	// orient the comparisons: (input as it is now, record)
	type comp struct {
		f       t8Fact
		in, rec t8AP
	}
	var comps []comp
	fields := map[*types.Var]bool{}
	for _, fk := range keysOf(facts) {
		f := facts[fk]
		if f.kind == "nonnil" {
			continue
		}
		ia, ib := e.isInputSide(f.a, inputs), e.isInputSide(f.b, inputs)
		if ia == ib {
			continue
		}
		c := comp{f: f, in: f.a, rec: f.b}
		if ib {
			c.in, c.rec = f.b, f.a
		}
		if _, isParam := c.rec.root.(*ssa.Parameter); !isParam || len(c.rec.segs) < 2 || c.rec.segs[0] != "*" || c.rec.vars[1] == nil {
			continue // not a comparison with state kept in the client
		}
		comps = append(comps, c)
		fields[c.rec.vars[1]] = true
	}
	// ---- fill: every store to a record member
	fills := map[*types.Var][]*t8Fill{}
	var recFields []*types.Var
	for f := range fields {
		recFields = append(recFields, f)
	}
	sort.Slice(recFields, func(i, j int) bool { return recFields[i].Name() < recFields[j].Name() })
	for _, f := range recFields {
		fills[f] = e.fillsOf(fn, ver, f, reachNon)
		nfill := 0
		for _, fl := range fills[f] {
			key := rk + ":fill[" + f.Name() + "@" + short(FuncName(fl.w)) + "]"
			switch {
			case fl.why != "":
				r.Fail(key, r.Where(fl.st), "the record member "+f.Name()+" is stored at a place where it is not known to hold a verified head: "+fl.why)
			case fl.reset:
				r.Pass(key, r.Where(fl.st), f.Name()+" ← nil: forgetting the record is always safe")
			default:
				nfill++
				r.Pass(key, r.Where(fl.st), fmt.Sprintf("%s receives a copy of %s; the store is dominated by the verification and does not execute once the verdict was non-nil", f.Name(), e.show(fl.base)))
			}
		}
		if nfill == 0 {
			r.Fail(rk+":fill["+f.Name()+"]", r.Where(ret), "undecided: no store that fills the record member "+f.Name()+" from a verified head was found")
		}
	}
	// a comparison counts when the record side holds, by every fill, the value of exactly the input side
	covers := func(c comp) (bool, string) {
		fs := fills[c.rec.vars[1]]
		n := 0
		for _, fl := range fs {
			if fl.reset {
				continue
			}
			if fl.why != "" {
				return false, fl.why
			}
			n++
			if !t8HasPrefix(c.rec.segs, fl.prefix) {
				return false, "the record is compared at " + e.show(c.rec) + ", which is not inside what the fill stores"
			}
			want := fl.base
			for _, s := range c.rec.segs[len(fl.prefix):] {
				want = want.add(s, nil)
			}
			if want.key() != c.in.key() {
				return false, fmt.Sprintf("%s is compared with %s, but that part of the record holds %s", e.show(c.in), e.show(c.rec), e.show(want))
			}
		}
		return n > 0, "no fill"
	}
	var valid []comp
	for _, c := range comps {
		if ok, why := covers(c); ok {
			valid = append(valid, c)
		} else {
			e.notes = append(e.notes, "comparison at "+c.f.where+" does not count: "+why)
		}
	}
	// ---- key: every input of the verdict is compared
	for _, in := range inputs {
		covered, by := false, ""
		_, isSlice := in.typ.Underlying().(*types.Slice)
		_, isPtr := in.typ.Underlying().(*types.Pointer)
		for _, c := range valid {
			if !c.in.sameRoot(in.ap) {
				continue
			}
			switch {
			case isSlice:
				if c.f.kind == "eqbytes" && c.in.key() == in.ap.key() {
					covered = true
				}
			case isPtr && t8HasPrefix(c.in.segs, append(append([]string(nil), in.ap.segs...), "*")):
				covered = true // the pointer is dereferenced by the comparison, as it was by the fill
			default:
				if c.f.kind == "eq" && t8HasPrefix(in.ap.segs, c.in.segs) {
					covered = true
					for _, s := range in.ap.segs[len(c.in.segs):] {
						if s == "*" {
							covered = false // equal pointers say nothing about what they point to now and then
						}
					}
				}
			}
			if covered {
				by = c.f.where
				break
			}
		}
		lbl := "head." + t8Members(in.ap.segs)
		if !in.ap.sameRoot(head) {
			lbl = "state." + t8Members(in.ap.segs)
		}
		detail := fmt.Sprintf("the verdict of VerifySTHSignature depends on %s (read at %s); the return at %s is reached without verification", in.label, in.where, r.Where(ret))
		if covered {
			detail += "; only when it equals what was remembered after a successful verification (compared at " + by + ")"
		} else {
			detail += ", and no necessary condition of that path compares it with a record filled after a successful verification: a head that differs from the remembered one in this input is returned unverified"
			if len(e.notes) > 0 {
				detail += " [" + strings.Join(e.notes, "; ") + "]"
			}
		}
		r.Check(rk+":key["+lbl+"]", covered, r.Where(ret), detail)
	}
	// ---- fill-complete, private, lock
	// (the stores of one fill stand in one basic block: nothing can come between them but the stores)
	var blocks []*ssa.BasicBlock
	stored := map[*ssa.BasicBlock]map[*types.Var]bool{}
	first := map[*ssa.BasicBlock]*ssa.Store{}
	for _, f := range recFields {
		for _, fl := range fills[f] {
			if fl.reset {
				continue
			}
			b := fl.st.Block()
			if stored[b] == nil {
				stored[b] = map[*types.Var]bool{}
				first[b] = fl.st
				blocks = append(blocks, b)
			}
			stored[b][f] = true
		}
	}
	for _, b := range blocks {
		var missing []string
		for _, f := range recFields {
			if !stored[b][f] {
				missing = append(missing, f.Name())
			}
		}
		r.Check(rk+":fill-complete", len(missing) == 0, r.Where(first[b]), "a fill stores every record member the key compares with, so the members always describe one verification"+map[bool]string{true: "", false: "; not stored here: " + strings.Join(missing, ", ") + " (the record then pairs the new head with an older verifier / an older head with the new verifier)"}[len(missing) == 0])
	}
	for _, c := range valid {
		for _, in := range inputs {
			if in.ap.key() != c.in.key() || !t8IsRefType(in.typ) {
				continue
			}
			if _, isSlice := in.typ.Underlying().(*types.Slice); !isSlice {
				continue
			}
			for _, fl := range fills[c.rec.vars[1]] {
				if fl.reset || fl.why != "" {
					continue
				}
				ok, why := e.privateCopy(fl, c.rec.segs[len(fl.prefix):], c.in)
				r.Check(rk+":private["+c.rec.vars[1].Name()+"."+t8Members(c.rec.segs[len(fl.prefix):])+"]", ok, r.Where(fl.st), "the record holds its own copy of the bytes of "+e.show(c.in)+", so the head handed to the caller shares nothing with it"+map[bool]string{true: "", false: ": " + why + " — a caller that writes into the returned head rewrites the remembered one, and a server replaying those bytes is believed without verification"}[ok])
			}
		}
	}
	if len(recFields) > 0 {
		e.lockDiscipline(fn, recFields, rk)
	}
}

// fillsOf: every store, module-wide, to the member f, judged as a fill of the record.
func (e *t8R) fillsOf(fn *ssa.Function, ver ssa.CallInstruction, f *types.Var, reachNon *Reach) []*t8Fill {
	r := e.r
	var out []*t8Fill
	for _, w := range r.P.ModFuncs {
		w := w
		eachInstr(w, func(in ssa.Instruction) {
			st, ok := in.(*ssa.Store)
			if !ok {
				return
			}
			fa, ok := st.Addr.(*ssa.FieldAddr)
			if !ok || fieldOf(fa) != f {
				return
			}
			fl := &t8Fill{w: w, st: st, field: f, site: st}
			out = append(out, fl)
			if isNilConst(st.Val) {
				fl.reset = true
				return
			}
			if w != fn {
				var sites []ssa.CallInstruction
				eachInstr(fn, func(in2 ssa.Instruction) {
					if c, ok := in2.(ssa.CallInstruction); ok && c.Common().StaticCallee() == w {
						sites = append(sites, c)
					}
				})
				if len(sites) != 1 {
					fl.why = fmt.Sprintf("undecided: %s is called from %d places in %s (expected one)", FuncName(w), len(sites), FuncName(fn))
					return
				}
				if other := t8OtherUses(r, w, sites[0]); other != "" {
					fl.why = "undecided: " + FuncName(w) + " is also used at " + other
					return
				}
				if !e.bind(w, sites[0].Common().Args) {
					fl.why = "undecided: the arguments of " + FuncName(w) + " could not be bound"
					return
				}
				fl.site = sites[0]
			}
			if !executesBefore(ver, fl.site) {
				fl.why = "it can execute without the verification having run before (the store is not dominated by c.VerifySTHSignature): a head that was never verified is remembered as verified"
				return
			}
			if reachNon.Has(fl.site) {
				fl.why = "it can execute after the verification answered non-nil: a rejected head is remembered as verified"
				return
			}
			cell := e.apAddr(st.Addr, 0)
			if _, isParam := cell.root.(*ssa.Parameter); !isParam || len(cell.segs) != 2 || cell.segs[0] != "*" {
				fl.why = "undecided: the record written is " + e.show(cell) + ", not a member of the client itself"
				return
			}
			if a, ok := st.Val.(*ssa.Alloc); ok {
				// a fresh object: one whole-value store of an input, then only stores of copies of parts of it
				fl.alloc = a
				fl.prefix = []string{"*", f.Name(), "*"}
				var whole *ssa.Store
				for _, s2 := range storesInto(w, a) {
					if s2.Addr == ssa.Value(a) {
						if whole != nil {
							fl.why = "undecided: the remembered object is assigned as a whole twice"
							return
						}
						whole = s2
					}
				}
				if whole == nil || !executesBefore(whole, st) {
					fl.why = "undecided: the remembered object is not a whole copy of one value made before it is stored"
					return
				}
				fl.base = e.ap(whole.Val, 0)
				for _, s2 := range storesInto(w, a) {
					if s2 == whole {
						continue
					}
					rest := e.apAddr(s2.Addr, 0)
					src := s2.Val
					if c := t8CloneOf(src); c != nil {
						src = c
					}
					want := fl.base
					for _, s := range rest.segs {
						want = want.add(s, nil)
					}
					if rest.root != ssa.Value(a) || e.ap(src, 0).key() != want.key() || !executesBefore(whole, s2) {
						fl.why = fmt.Sprintf("after the copy, %s of the remembered object is overwritten with %s (not the same part of the verified value)", t8Members(rest.segs), r.D.D(s2.Val))
						return
					}
				}
				if why := t8Escapes(a, st); why != "" {
					fl.why = "undecided: the remembered object " + why
					return
				}
				return
			}
			fl.prefix = []string{"*", f.Name()}
			fl.base = e.ap(st.Val, 0)
		})
	}
	return out
}

// t8OtherUses: a place other than the call `site` where the function w is used (called or taken as a value).
func t8OtherUses(r *Run, w *ssa.Function, site ssa.CallInstruction) string {
	found := ""
	for _, g := range r.P.ModFuncs {
		eachInstr(g, func(in ssa.Instruction) {
			if in == ssa.Instruction(site) || found != "" {
				return
			}
			if mc, ok := in.(*ssa.MakeClosure); ok && mc.Fn == ssa.Value(w) {
				// the closure value itself: fine when its only use is the call at site
				for _, ref := range *mc.Referrers() {
					if ref != ssa.Instruction(site) {
						if _, dbg := ref.(*ssa.DebugRef); !dbg {
							found = r.Where(ref)
						}
					}
				}
				return
			}
			for _, op := range in.Operands(nil) {
				if *op == ssa.Value(w) {
					found = r.Where(in)
				}
			}
		})
	}
	return found
}

// t8Escapes: the fresh object a is used for anything but being written, and being stored by publish.
func t8Escapes(a *ssa.Alloc, publish *ssa.Store) string {
	var visit func(v ssa.Value) string
	visit = func(v ssa.Value) string {
		for _, ref := range *v.Referrers() {
			switch x := ref.(type) {
			case *ssa.DebugRef:
			case *ssa.Store:
				if x.Val == v && x != publish {
					return "is stored a second time"
				}
			case *ssa.FieldAddr:
				if why := visit(x); why != "" {
					return why
				}
			case *ssa.UnOp:
				// reading it back is harmless
			default:
				return "is handed to other code before it is stored"
			}
		}
		return ""
	}
	return visit(a)
}

// privateCopy: the part `rest` of the record filled by fl does not share memory with the input in.
func (e *t8R) privateCopy(fl *t8Fill, rest []string, in t8AP) (bool, string) {
	if fl.alloc == nil {
		return false, "the record is a plain copy of " + e.show(fl.base) + ", which shares the slice's bytes"
	}
	for _, s2 := range storesInto(fl.w, fl.alloc) {
		if s2.Addr == ssa.Value(fl.alloc) {
			continue
		}
		at := e.apAddr(s2.Addr, 0)
		if at.root == ssa.Value(fl.alloc) && strings.Join(at.segs, "/") == strings.Join(rest, "/") {
			if c := t8CloneOf(s2.Val); c != nil && e.ap(c, 0).key() == in.key() {
				return true, ""
			}
		}
	}
	return false, "the copy of the head shares the slice " + t8Members(rest) + " with the head (no bytes.Clone / slices.Clone / append(nil, …) of it is stored into the record)"
}

// lockDiscipline: every access to a record member, module-wide, holds one common mutex of the client.
func (e *t8R) lockDiscipline(fn *ssa.Function, recFields []*types.Var, rk string) {
	r := e.r
	isRec := map[*types.Var]bool{}
	for _, f := range recFields {
		isRec[f] = true
	}
	var common map[string]bool
	n := 0
	bad := ""
	where := r.FnPos(fn)
	heldMemo := map[*ssa.Function]map[ssa.Instruction]held{}
	for _, w := range r.P.ModFuncs {
		w := w
		eachInstr(w, func(in ssa.Instruction) {
			fa, ok := in.(*ssa.FieldAddr)
			if !ok || !isRec[fieldOf(fa)] {
				return
			}
			if heldMemo[w] == nil {
				heldMemo[w] = r.heldAt(w)
			}
			for _, ref := range *fa.Referrers() {
				write := false
				switch x := ref.(type) {
				case *ssa.DebugRef:
					continue
				case *ssa.Store:
					write = x.Addr == ssa.Value(fa)
				case *ssa.UnOp:
				default:
					bad = "the address of " + fieldOf(fa).Name() + " is handed on at " + r.Where(ref)
					continue
				}
				n++
				hs := map[string]bool{}
				for m, mode := range heldMemo[w][ref] {
					if write && mode != 'W' {
						continue
					}
					hs[strings.ReplaceAll(m, "^", "")] = true
				}
				if len(hs) == 0 {
					bad = fmt.Sprintf("%s is %s at %s with no mutex held", fieldOf(fa).Name(), map[bool]string{true: "written", false: "read"}[write], r.Where(ref))
					where = r.Where(ref)
				}
				if common == nil {
					common = hs
				} else {
					for m := range common {
						if !hs[m] {
							delete(common, m)
						}
					}
				}
			}
		})
	}
	if bad == "" && len(common) == 0 {
		bad = "the accesses to the record members hold no mutex in common"
	}
	r.Check(rk+":lock", bad == "" && n > 0, where, fmt.Sprintf("the %d accesses to the record members (%d members) happen under one common mutex %v, so the key is compared against one complete record", n, len(recFields), keysOf(common))+map[bool]string{true: "", false: ": " + bad + " — a poller running GetSTH on another goroutine can see a half-written record (new head, old verifier) or a torn pointer"}[bad == ""])
}
