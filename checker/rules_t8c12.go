package main

import (
	"fmt"
	"go/types"
	"regexp"
	"strconv"
	"strings"

	"golang.org/x/tools/go/ssa"
)

// Round 8, C12 — two obligations restated as the facts they protect.
//
// (A) C12.R2 signed-extensions — "THE EXTENSIONS INSIDE THE BYTES LogClient.VerifySCTSignature HAS
//     VERIFIED ARE THOSE OF THE SCT IT WAS HANDED" (the SCT addChainWithRetry built from the response
//     and returns).  RFC 6962 s3.2: the log signs (version, 0, timestamp, entry type, signed entry,
//     extensions); an SCT "verifies" only if the extensions it carries are part of what was checked.
//     The verified bytes are made two calls below the wrapper, so the fact is decided along the
//     verdict call: every value that is put into the Extensions member of a ct.CertificateTimestamp
//     that the verdict's callee (or a module function it calls with its own parameters) marshals is
//     traced back, parameter by parameter, to the wrapper, and there it must be
//
//       * the Extensions of the wrapper's own SCT parameter (the signed structure takes them from the
//         SCT), that parameter not being written on the way; or
//       * the Extensions of the leaf inside the entry handed to the verdict — then the wrapper must
//         have put the SCT's extensions into that leaf before it copied the leaf into the entry.
//
//     Anything else (a constant, nothing at all, a third object) is a violation; a value that cannot
//     be traced is "undecided" (fails).  A store of the SCT's extensions into the leaf is no longer
//     demanded when nothing on the verdict path reads it (it is dead code there); where such a store
//     exists it must still carry the SCT's extensions and precede the copy.
//
// (B) C12.R1 remembered verdict — see below (t8Remembered).

var t8ParamPath = regexp.MustCompile(`^p(\d+)((?:\.[A-Za-z_][A-Za-z_0-9]*)*)$`)

// t8ExtSrc: one value that ends up as the Extensions of a marshalled ct.CertificateTimestamp, over the
// parameters of the function asked (param < 0: not a member of a parameter; term says what it is).
type t8ExtSrc struct {
	param int
	path  string
	term  string
	where string
}

// t8ParamWritten: parameter idx of fn is assigned to (as a whole or in part) somewhere in fn — its
// origin term `pN` then no longer stands for the caller's argument.
func t8ParamWritten(fn *ssa.Function, idx int) bool {
	if idx < 0 || idx >= len(fn.Params) {
		return true
	}
	p := fn.Params[idx]
	for _, ref := range *p.Referrers() {
		st, ok := ref.(*ssa.Store)
		if !ok || st.Val != ssa.Value(p) {
			continue
		}
		a, ok := st.Addr.(*ssa.Alloc)
		if !ok {
			continue
		}
		for _, st2 := range storesInto(fn, a) {
			if st2 != st {
				return true
			}
		}
	}
	return false
}

// t8SignedExtSources: what fn — itself or through module functions it calls, up to three calls deep —
// puts into the Extensions member of a ct.CertificateTimestamp that is handed to tls.Marshal.
func t8SignedExtSources(r *Run, fn *ssa.Function, depth int, busy map[*ssa.Function]bool) (srcs []t8ExtSrc, undecided []string) {
	if fn == nil || len(fn.Blocks) == 0 || busy[fn] || depth > 3 {
		return nil, nil
	}
	busy[fn] = true
	defer delete(busy, fn)
	classify := func(term, where string) t8ExtSrc {
		if m := t8ParamPath.FindStringSubmatch(term); m != nil {
			i, _ := strconv.Atoi(m[1])
			if t8ParamWritten(fn, i) {
				return t8ExtSrc{param: -1, term: term + " (a parameter that " + FuncName(fn) + " assigns to)", where: where}
			}
			return t8ExtSrc{param: i, path: m[2], term: term, where: where}
		}
		return t8ExtSrc{param: -1, term: term, where: where}
	}
	for _, c := range CallsTo(fn, "tls.Marshal") {
		args := CallArgs(c)
		if len(args) == 0 {
			continue
		}
		a := baseAlloc(args[0])
		if a == nil {
			if strings.Contains(TypeName(args[0].Type()), "ct.CertificateTimestamp") {
				undecided = append(undecided, "the ct.CertificateTimestamp marshalled at "+r.Where(c)+" is not built in a local")
			}
			continue
		}
		if TypeName(a.Type().(*types.Pointer).Elem()) != "ct.CertificateTimestamp" {
			continue
		}
		sts := writesIntoField(fn, a, "Extensions")
		for _, st := range storesInto(fn, a) {
			if st.Addr == ssa.Value(a) {
				undecided = append(undecided, "the ct.CertificateTimestamp marshalled at "+r.Where(c)+" is assigned as a whole at "+r.Where(st))
			}
		}
		if len(sts) == 0 {
			srcs = append(srcs, t8ExtSrc{param: -1, term: "nothing (the member is never set: empty extensions)", where: r.Where(c)})
		}
		for _, st := range sts {
			srcs = append(srcs, classify(r.loadTerm(fn, st.Val), r.Where(st)))
		}
	}
	eachInstr(fn, func(in ssa.Instruction) {
		c, ok := in.(ssa.CallInstruction)
		if !ok {
			return
		}
		g := c.Common().StaticCallee()
		if g == nil || len(g.Blocks) == 0 || r.P.byName[FuncName(g)] != g {
			return
		}
		sub, und := t8SignedExtSources(r, g, depth+1, busy)
		undecided = append(undecided, und...)
		args := CallArgs(c)
		for _, s := range sub {
			if s.param < 0 || s.param >= len(args) {
				srcs = append(srcs, s)
				continue
			}
			t := classify(r.D.D(args[s.param]), s.where)
			if t.param >= 0 {
				t.path += s.path
			}
			t.term += s.path
			srcs = append(srcs, t)
		}
	})
	return srcs, undecided
}

// c12SignedExtensions decides (A) for the wrapper wf, whose verdict calls are cs and whose leaf is
// result 0 of leafCall.
func c12SignedExtensions(r *Run, wf *ssa.Function, cs []ssa.CallInstruction, leafCall ssa.CallInstruction) {
	k := "LogClient.VerifySCTSignature"
	leafAddr := "&(" + r.D.D(CallResult(leafCall, 0)) + ".TimestampedEntry.Extensions)"
	leafStores := r.StoresTo(wf, leafAddr)
	fromLeaf := false
	for _, c := range cs {
		v := c.Common().StaticCallee()
		if v == nil || len(v.Blocks) == 0 {
			r.Fail(k+":signed-extensions", r.Where(c), "undecided: the verdict is not a call of a function whose body can be read")
			continue
		}
		srcs, und := t8SignedExtSources(r, v, 0, map[*ssa.Function]bool{})
		for _, u := range und {
			r.Fail(k+":signed-extensions", r.Where(c), "undecided: "+u)
		}
		if len(srcs) == 0 {
			r.Fail(k+":signed-extensions", r.Where(c), "undecided: no ct.CertificateTimestamp is marshalled on the verdict path of "+FuncName(v)+" (up to three calls deep)")
			continue
		}
		args := CallArgs(c)
		for _, s := range srcs {
			if s.param < 0 || s.param >= len(args) {
				r.Fail(k+":signed-extensions", s.where, "the Extensions of the signed structure are "+s.term+": neither the extensions of the SCT under verification nor those of the leaf built for it, so the extensions field of the response is outside what the client verifies (an SCT whose extensions were not signed is returned; one whose extensions were signed is refused)")
				continue
			}
			at := r.D.D(args[s.param])
			switch {
			case at == "p1" && s.path == ".Extensions":
				r.Check(k+":signed-extensions", !t8ParamWritten(wf, 1), s.where, "the signed structure takes its extensions from the SCT it is given ("+s.term+" of "+FuncName(v)+"), and that is the wrapper's own SCT parameter, unmodified")
			case baseAlloc(args[s.param]) != nil && s.path == ".Leaf.TimestampedEntry.Extensions":
				fromLeaf = true
				// the entry's leaf is the wrapper's leaf (the :entry obligation); its extensions are the SCT's
				ok := len(leafStores) >= 1
				for _, st := range leafStores {
					ok = ok && r.D.D(st.Val) == "p1.Extensions"
				}
				r.Check(k+":signed-extensions", ok && !t8ParamWritten(wf, 1), s.where, fmt.Sprintf("the signed structure takes its extensions from the leaf of the entry (%s of %s), so the leaf the wrapper builds must carry the SCT's extensions: %d store(s) of p1.Extensions to %s in %s%s", s.term, FuncName(v), len(leafStores), leafAddr, FuncName(wf),
					map[bool]string{true: "", false: " — the extensions field of the response is not part of what the client verifies: an SCT whose extensions were not signed is returned, one whose extensions were signed is refused"}[ok]))
			default:
				r.Fail(k+":signed-extensions", s.where, "the Extensions of the signed structure are "+at+s.path+" in "+FuncName(wf)+" (via "+s.term+" of "+FuncName(v)+"): neither p1.Extensions (the SCT under verification) nor the extensions of the leaf built for it")
			}
		}
	}
	// a store into the leaf's extensions, where there is one, carries the SCT's extensions (that there
	// is one when the signed structure reads the leaf is part of signed-extensions above)
	_ = fromLeaf
	r.ExpectStores(wf, k+":leaf.extensions", leafAddr, "p1.Extensions", 0)
}
