package main

// Round 6 (repaired twins of the e seeds) — C14.R3 restated on facts about FixLogLeaf's *paths*.
//
// What the twin showed: when the two hash-layout branches become helpers that hand back
// (fixed bool, err error) and FixLogLeaf ends them with `if fixed || err != nil { return err }`, the
// function's verdict is no longer a `return nil` / `return err` per branch but one `return err` whose
// operand is a φ of φ-nodes, reached under a condition on a second φ.  "The success return" of
// ErrorsGate (a return of the nil constant) then does not exist where the rule looks for it, and the
// rule could neither see that the errors still block success nor (the e seed) that the
// "no trailing bytes" half of a layout probe had been lost.
//
// Facts decided here, on every shape:
//
//  1. c14ErrGate — "an error of call X is FixLogLeaf's verdict": once X's error is non-nil, every
//     return that may still execute yields a value that is non-nil on the path taken; with the error
//     nil a return that may yield nil can be reached (positive control).  A success is a return
//     *whose value is nil on the path that leads to it*, whatever expression carries it.
//  2. c14LayoutExact — "a layout is taken only when the extra data is exactly an encoding of it":
//     per probe (tls.Unmarshal of the extra data into a T, or a verified predicate helper) and per
//     way of not matching (decoder error; decoded but bytes left over), from the probe up to the next
//     probe nothing of the module is called, the leaf is not written and no return may yield nil.
//  3. c14LayoutTurn — "every layout gets its turn": with all other layouts not matching, no verdict
//     (return) is reached before the probe of the remaining layout has run.
//
// All three use c14Exec, an execution of the SSA that follows one path at a time: a φ is the value
// that arrived over the edge taken (also for a φ that was merged several blocks earlier, and for
// φ-nodes of φ-nodes), and a nil test that could go either way leaves its outcome as a fact on the
// path behind it.  Whatever it cannot decide it explores both ways (over-approximation: more may be
// reported reachable, never less); when its budget is exhausted the obligation fails as undecided.

import (
	"fmt"
	"go/constant"
	"go/token"
	"go/types"
	"os"
	"sort"
	"strings"

	"golang.org/x/tools/go/ssa"
)

// c14Debug (dev aid): with CTVERIF_C14_DEBUG set, print every obligation recorded so far.
func c14Debug(r *Run) {
	if os.Getenv("CTVERIF_C14_SSA") != "" {
		if fn := r.P.Func(os.Getenv("CTVERIF_C14_SSA")); fn != nil {
			fn.WriteTo(os.Stderr)
		}
	}
	if os.Getenv("CTVERIF_C14_DEBUG") == "" {
		return
	}
	for _, o := range r.Obls {
		fmt.Fprintf(os.Stderr, "OBL ok=%v %s @%s: %s\n", o.OK, o.Key, o.Where, o.Detail)
	}
}

// ---- path-wise execution ---------------------------------------------------------------------

// c14Obj: what a local variable that lives in memory holds on the path — its scalar parts by field
// path ("" = the variable itself, "0.1" = field 1 of field 0); zero: a part not listed has its zero
// value (otherwise it is unknown).
type c14Obj struct {
	zero bool
	f    map[string]ssa.Value
}

func (o *c14Obj) clone() *c14Obj {
	n := &c14Obj{zero: o.zero, f: make(map[string]ssa.Value, len(o.f))}
	for k, v := range o.f {
		n.f[k] = v
	}
	return n
}

// c14State: a block entered with what the path behind it has established.
type c14State struct {
	b     *ssa.BasicBlock
	vals  map[ssa.Value]ssa.Value // φ / load / field selection → the value it has on this path (fully resolved)
	facts map[ssa.Value]string    // value → "nil" | "non", decided by a test on this path
	mem   map[*ssa.Alloc]*c14Obj  // private locals that live in memory
	snaps map[ssa.Value]*c14Obj   // struct-typed values read from such locals
}

// c14RetVal: one value a return may yield, with what is known about it on the path.
type c14RetVal struct {
	ret    *ssa.Return
	val    ssa.Value
	status string // "nil" | "non" | "" (unknown)
}

type c14Exec struct {
	r       *Run
	fn      *ssa.Function
	s       Sigma
	stop    map[*ssa.BasicBlock]bool
	Blocks  map[*ssa.BasicBlock]bool // blocks executed
	Stopped map[*ssa.BasicBlock]bool // stop blocks arrived at (not executed)
	Rets    []c14RetVal
	Over    bool // budget exhausted: nothing may be concluded
	private map[*ssa.Alloc]bool
	zeros   map[string]*ssa.Const
}

const c14Budget = 20000

func (x *c14Exec) Has(in ssa.Instruction) bool { return in != nil && x.Blocks[in.Block()] }

func c14Resolve(v ssa.Value, vals map[ssa.Value]ssa.Value) ssa.Value {
	for i := 0; i < 16; i++ {
		w, ok := vals[v]
		if !ok || w == v {
			return v
		}
		v = w
	}
	return v
}

// c14Private: the local is reached only by loads and stores of itself and of its fields — no call,
// closure, φ or conversion ever sees its address, so what it holds is what this function last
// stored on the path taken.
func c14Private(a *ssa.Alloc) bool {
	var ok func(p ssa.Value, depth int) bool
	ok = func(p ssa.Value, depth int) bool {
		refs := p.Referrers()
		if refs == nil || depth > 4 {
			return false
		}
		for _, ref := range *refs {
			switch y := ref.(type) {
			case *ssa.Store:
				if y.Addr != p || y.Val == p {
					return false
				}
			case *ssa.UnOp:
				if y.Op != token.MUL {
					return false
				}
			case *ssa.FieldAddr:
				if !ok(y, depth+1) {
					return false
				}
			case *ssa.DebugRef:
			default:
				return false
			}
		}
		return true
	}
	return ok(a, 0)
}

// addrOf: p is the address of (a part of) a private local.
func (x *c14Exec) addrOf(p ssa.Value) (*ssa.Alloc, string, bool) {
	switch y := p.(type) {
	case *ssa.Alloc:
		pr, known := x.private[y]
		if !known {
			pr = c14Private(y)
			x.private[y] = pr
		}
		return y, "", pr
	case *ssa.FieldAddr:
		a, path, ok := x.addrOf(y.X)
		if !ok {
			return nil, "", false
		}
		if path != "" {
			path += "."
		}
		return a, fmt.Sprintf("%s%d", path, y.Field), true
	}
	return nil, "", false
}

func isStruct(t types.Type) bool {
	_, ok := t.Underlying().(*types.Struct)
	return ok
}

func (x *c14Exec) zero(t types.Type) ssa.Value {
	k := t.String()
	if c, ok := x.zeros[k]; ok {
		return c
	}
	var c *ssa.Const
	if b, ok := t.Underlying().(*types.Basic); ok && b.Info()&types.IsBoolean != 0 {
		c = ssa.NewConst(constant.MakeBool(false), t)
	} else {
		c = ssa.NewConst(nil, t)
	}
	x.zeros[k] = c
	return c
}

// step executes the instructions of c.b that move values through private locals.
func (x *c14Exec) step(c *c14State) {
	for _, in := range c.b.Instrs {
		switch y := in.(type) {
		case *ssa.Alloc:
			if _, _, ok := x.addrOf(y); ok {
				c.mem[y] = &c14Obj{zero: true, f: map[string]ssa.Value{}}
			}
		case *ssa.Store:
			a, path, ok := x.addrOf(y.Addr)
			if !ok {
				continue
			}
			o := c.mem[a]
			if o == nil {
				o = &c14Obj{f: map[string]ssa.Value{}}
				c.mem[a] = o
			}
			v := c14Resolve(y.Val, c.vals)
			switch {
			case !isStruct(y.Val.Type()):
				if _, isArr := y.Val.Type().Underlying().(*types.Array); isArr {
					delete(o.f, path)
					o.zero = false
					continue
				}
				o.f[path] = v
			case path == "":
				if k, isConst := v.(*ssa.Const); isConst && k.Value == nil {
					c.mem[a] = &c14Obj{zero: true, f: map[string]ssa.Value{}}
				} else if sn := c.snaps[v]; sn != nil {
					c.mem[a] = sn.clone()
				} else {
					c.mem[a] = &c14Obj{f: map[string]ssa.Value{}}
				}
			default:
				// a struct stored into a part of the local: that part is no longer known
				for k := range o.f {
					if k == path || strings.HasPrefix(k, path+".") {
						delete(o.f, k)
					}
				}
				o.zero = false
			}
		case *ssa.UnOp:
			if y.Op != token.MUL {
				continue
			}
			a, path, ok := x.addrOf(y.X)
			if !ok {
				continue
			}
			o := c.mem[a]
			if o == nil {
				continue
			}
			switch {
			case isStruct(y.Type()):
				if path == "" {
					c.snaps[y] = o.clone()
				}
			default:
				if v, has := o.f[path]; has {
					c.vals[y] = v
				} else if o.zero {
					if _, isArr := y.Type().Underlying().(*types.Array); !isArr {
						c.vals[y] = x.zero(y.Type())
					}
				}
			}
		case *ssa.Field:
			sn := c.snaps[c14Resolve(y.X, c.vals)]
			if sn == nil || isStruct(y.Type()) {
				continue
			}
			k := fmt.Sprint(y.Field)
			if v, has := sn.f[k]; has {
				c.vals[y] = v
			} else if sn.zero {
				if _, isArr := y.Type().Underlying().(*types.Array); !isArr {
					c.vals[y] = x.zero(y.Type())
				}
			}
		}
	}
}

// c14Run executes fn under σ from block `from` (nil = entry), not entering the stop blocks
// (`from` itself is executed even when listed).
func c14Run(r *Run, fn *ssa.Function, s Sigma, from *ssa.BasicBlock, stop map[*ssa.BasicBlock]bool) *c14Exec {
	x := &c14Exec{r: r, fn: fn, s: s, stop: stop, Blocks: map[*ssa.BasicBlock]bool{}, Stopped: map[*ssa.BasicBlock]bool{},
		private: map[*ssa.Alloc]bool{}, zeros: map[string]*ssa.Const{}}
	if from == nil {
		from = fn.Blocks[0]
	}
	r.Valuations++
	seen := map[string]bool{}
	retSeen := map[string]bool{}
	work := []*c14State{{b: from, vals: map[ssa.Value]ssa.Value{}, facts: map[ssa.Value]string{}, mem: map[*ssa.Alloc]*c14Obj{}, snaps: map[ssa.Value]*c14Obj{}}}
	for len(work) > 0 {
		c := work[len(work)-1]
		work = work[:len(work)-1]
		k := x.key(c)
		if seen[k] {
			continue
		}
		if len(seen) >= c14Budget {
			x.Over = true
			return x
		}
		seen[k] = true
		x.Blocks[c.b] = true
		if len(c.b.Instrs) == 0 {
			continue
		}
		x.step(c)
		switch last := c.b.Instrs[len(c.b.Instrs)-1].(type) {
		case *ssa.Return:
			if n := len(last.Results); n > 0 {
				v := c14Resolve(last.Results[n-1], c.vals)
				rv := c14RetVal{ret: last, val: v, status: x.nilStatus(v, c, 0)}
				rk := fmt.Sprintf("%p|%p|%s", last, v, rv.status)
				if !retSeen[rk] {
					retSeen[rk] = true
					x.Rets = append(x.Rets, rv)
				}
			} else {
				x.Rets = append(x.Rets, c14RetVal{ret: last})
			}
			continue
		case *ssa.If:
			t, tested, eq := x.evalCond(last.Cond, c)
			for k, sb := range c.b.Succs {
				if (t == T && k == 1) || (t == F && k == 0) {
					continue
				}
				n := x.enter(c, sb)
				if n == nil {
					continue
				}
				if t == U && tested != nil {
					// the outcome of this nil test is a fact on the path behind the edge
					if (k == 0) == eq {
						n.facts[tested] = "nil"
					} else {
						n.facts[tested] = "non"
					}
				}
				work = append(work, n)
			}
			continue
		}
		for _, sb := range c.b.Succs {
			if n := x.enter(c, sb); n != nil {
				work = append(work, n)
			}
		}
	}
	return x
}

// enter: the state in which sb is entered from c.b — φ-nodes of sb take the value arriving over this
// edge; what cannot be referred to from sb on (its definition does not dominate sb and nothing kept
// refers to it) is dropped.
func (x *c14Exec) enter(c *c14State, sb *ssa.BasicBlock) *c14State {
	if x.stop[sb] {
		x.Stopped[sb] = true
		return nil
	}
	pi := -1
	for i, p := range sb.Preds {
		if p == c.b {
			pi = i
			break
		}
	}
	dominates := func(v ssa.Value) bool {
		in, ok := v.(ssa.Instruction)
		return !ok || in.Block() == nil || (in.Block() != sb && in.Block().Dominates(sb))
	}
	n := &c14State{b: sb, vals: map[ssa.Value]ssa.Value{}, facts: map[ssa.Value]string{}, mem: map[*ssa.Alloc]*c14Obj{}, snaps: map[ssa.Value]*c14Obj{}}
	for k, v := range c.vals {
		if dominates(k) {
			n.vals[k] = v
		}
	}
	if pi >= 0 {
		for _, in := range sb.Instrs {
			ph, ok := in.(*ssa.Phi)
			if !ok {
				break
			}
			if pi < len(ph.Edges) {
				if v := c14Resolve(ph.Edges[pi], c.vals); v != ssa.Value(ph) {
					n.vals[ph] = v
				}
			}
		}
	}
	used := map[ssa.Value]bool{}
	for _, v := range n.vals {
		used[v] = true
	}
	definedHere := func(v ssa.Value) bool {
		in, ok := v.(ssa.Instruction)
		return ok && in.Block() == sb
	}
	for v, f := range c.facts {
		// what a test established about a value stays known while the value can still be referred to:
		// its definition dominates sb, or a φ kept above stands for it on this path (the verdict
		// `err` that is merged from several places and tested, or returned, further down)
		if dominates(v) || (used[v] && !definedHere(v)) {
			n.facts[v] = f
		}
	}
	for a, o := range c.mem {
		if a.Block() == sb || dominates(a) {
			n.mem[a] = o.clone()
		}
	}
	for v, o := range c.snaps {
		if dominates(v) || used[v] {
			n.snaps[v] = o // never modified once taken
		}
	}
	return n
}

func (x *c14Exec) key(c *c14State) string {
	var parts []string
	for k, v := range c.vals {
		parts = append(parts, fmt.Sprintf("%p=%p", k, v))
	}
	for v, f := range c.facts {
		parts = append(parts, fmt.Sprintf("%p:%s", v, f))
	}
	obj := func(tag string, k any, o *c14Obj) {
		var fs []string
		for p, v := range o.f {
			fs = append(fs, fmt.Sprintf("%s=%p", p, v))
		}
		sort.Strings(fs)
		parts = append(parts, fmt.Sprintf("%s%p{%v %s}", tag, k, o.zero, strings.Join(fs, " ")))
	}
	for a, o := range c.mem {
		obj("m", a, o)
	}
	for v, o := range c.snaps {
		obj("s", v, o)
	}
	sort.Strings(parts)
	return fmt.Sprintf("%d|%s", c.b.Index, strings.Join(parts, ","))
}

// nilStatus: what is known on this path about v being nil.
func (x *c14Exec) nilStatus(v ssa.Value, c *c14State, depth int) string {
	v = c14Resolve(v, c.vals)
	if isNilConst(v) {
		return "nil"
	}
	if f, ok := c.facts[v]; ok {
		return f
	}
	if val, ok := x.s["nil?"+x.r.D.D(v)]; ok && (val == "nil" || val == "non") {
		return val
	}
	if ph, isPhi := v.(*ssa.Phi); isPhi {
		if depth > 6 || len(ph.Edges) == 0 {
			return ""
		}
		// a φ merged before the execution started: known only if every value it can hold agrees
		res := ""
		for i, e := range ph.Edges {
			if e == ssa.Value(ph) {
				continue
			}
			n := x.nilStatus(e, &c14State{b: ph.Block().Preds[i], vals: c.vals, facts: c.facts}, depth+1)
			if n == "" || (res != "" && n != res) {
				return ""
			}
			res = n
		}
		return res
	}
	if neverNil(v) || errKind(v) == "non" {
		return "non"
	}
	if f := nilFactAt(v, c.b); f != "" {
		return f
	}
	return ""
}

// evalCond decides the branch condition of c.b.  When the condition is a nil test of a value whose
// status is unknown, the value and the test's polarity (eq: true means "is nil") are returned so
// that the outcome can be remembered on either side.
func (x *c14Exec) evalCond(cond ssa.Value, c *c14State) (t Tri, tested ssa.Value, eq bool) {
	t = x.eval(cond, c, 0)
	if t != U {
		return t, nil, false
	}
	if v, e, ok := nilCmpOf(c14Resolve(cond, c.vals)); ok {
		return U, c14Resolve(v, c.vals), e
	}
	return U, nil, false
}

func (x *c14Exec) eval(v ssa.Value, c *c14State, depth int) Tri {
	if depth > 8 {
		return U
	}
	v = c14Resolve(v, c.vals)
	if b, ok := isBoolConst(v); ok {
		if b {
			return T
		}
		return F
	}
	switch y := v.(type) {
	case *ssa.UnOp:
		if y.Op == token.NOT {
			return x.eval(y.X, c, depth+1).Not()
		}
	case *ssa.Phi:
		// not resolved on this path (merged before the execution started): decided only if all agree
		res := U
		for i, e := range y.Edges {
			t := x.eval(e, c, depth+1)
			if t == U || (i > 0 && t != res) {
				return U
			}
			res = t
		}
		return res
	case *ssa.BinOp:
		if y.Op == token.EQL || y.Op == token.NEQ {
			if op, eq, ok := nilCmpOf(y); ok {
				switch x.nilStatus(op, c, 0) {
				case "nil":
					if eq {
						return T
					}
					return F
				case "non":
					if eq {
						return F
					}
					return T
				}
				return U
			}
			if bt, ok := y.X.Type().Underlying().(*types.Basic); ok && bt.Info()&types.IsBoolean != 0 {
				a, b := x.eval(y.X, c, depth+1), x.eval(y.Y, c, depth+1)
				if a != U && b != U {
					if (a == b) == (y.Op == token.EQL) {
						return T
					}
					return F
				}
			}
		}
	}
	return x.r.D.Eval(v, x.s, c.b, -1)
}

// mayYieldNil: the first return value of the execution that is not known to be non-nil.
func (x *c14Exec) mayYieldNil() *c14RetVal {
	for i := range x.Rets {
		if x.Rets[i].status != "non" {
			return &x.Rets[i]
		}
	}
	return nil
}

func (x *c14Exec) describe(rv *c14RetVal) string {
	what := "a value that may be nil"
	if rv.val == nil {
		what = "no error value"
	} else if rv.status == "nil" {
		what = "nil"
	} else if rv.status == "non" {
		what = "an error (" + shortErr(x.r.D.D(rv.val)) + ")"
	} else {
		what += " (" + shortErr(x.r.D.D(rv.val)) + ")"
	}
	return fmt.Sprintf("the return at %s yields %s", x.r.Where(rv.ret), what)
}

// ---- 1. errors are the verdict ---------------------------------------------------------------

// c14ErrGate: for every call of fn matching calleeGlob whose last result is an error — once that error
// is non-nil, every return that may execute yields a non-nil error and the leaf is not written; with
// the error nil, a return that may yield nil is reachable (positive control: the call lies on a path
// to success).  At least min such calls must exist.
func c14ErrGate(r *Run, fn *ssa.Function, key, calleeGlob string, min int, noExec []ssa.Instruction) {
	errT := types.Universe.Lookup("error").Type()
	n := 0
outer:
	for _, c := range CallsTo(fn, calleeGlob) {
		name := CalleeOf(c)
		for _, ig := range errGateIgnore {
			if glob(ig, name) {
				continue outer
			}
		}
		call, isCall := c.(*ssa.Call)
		if !isCall {
			continue
		}
		var ev ssa.Value
		if tup, ok := call.Type().(*types.Tuple); ok {
			if tup.Len() == 0 || !types.Identical(tup.At(tup.Len()-1).Type(), errT) {
				continue
			}
			if ev = CallResult(c, tup.Len()-1); ev == nil {
				n++
				r.Fail(key+"@"+name, r.Where(c), "error result of "+name+" is discarded")
				continue
			}
		} else if types.Identical(call.Type(), errT) {
			ev = call
		} else {
			continue
		}
		n++
		atom := "nil?" + r.D.D(ev)
		bad := c14Run(r, fn, Sigma{atom: "non"}, c.Block(), nil)
		good := c14Run(r, fn, Sigma{atom: "nil"}, c.Block(), nil)
		ok, detail := true, fmt.Sprintf("an error of %s is the verdict: with %s non-nil every return that may execute (%d) yields a non-nil error; with it nil success is reachable", name, atom, len(bad.Rets))
		switch {
		case bad.Over || good.Over:
			ok, detail = false, "undecided: too many paths through "+FuncName(fn)
		case len(bad.Rets) == 0:
			ok, detail = false, "undecided: no return of "+FuncName(fn)+" is reachable after "+name+" failed"
		case bad.mayYieldNil() != nil:
			ok, detail = false, fmt.Sprintf("an error of %s is swallowed: under {%s=non} %s", name, atom, bad.describe(bad.mayYieldNil()))
		case good.mayYieldNil() == nil:
			ok, detail = false, fmt.Sprintf("success of %s is unreachable even under {%s=nil} (positive control)", FuncName(fn), atom)
		}
		for _, m := range noExec {
			if ok && bad.Has(m) {
				ok, detail = false, fmt.Sprintf("after an error of %s the leaf may still be rewritten (store at %s)", name, r.Where(m))
			}
		}
		r.Check(key+"@"+name, ok, r.Where(c), detail)
	}
	if n < min {
		r.Fail(key, r.FnPos(fn), fmt.Sprintf("expected >= %d error-returning calls to %s in %s, found %d", min, calleeGlob, FuncName(fn), n))
	}
}

// ---- 2./3. the discrimination of the layouts --------------------------------------------------

// c14Mismatch: the ways in which probe p can say "the extra data is not a T", as valuations.
func c14Mismatch(r *Run, p c14Probe) (names []string, sigmas []Sigma) {
	if p.via != "" {
		if p.failed != nil {
			return []string{"no"}, []Sigma{p.failed}
		}
		return nil, nil
	}
	errv, rest := CallResult(p.call, 1), CallResult(p.call, 0)
	if errv == nil || rest == nil {
		return nil, nil
	}
	ea, ra := "nil?"+r.D.D(errv), "ord(0, len("+r.D.D(rest)+"))"
	return []string{"decode-error", "trailing-bytes"}, []Sigma{{ea: "non"}, {ea: "nil", ra: "<"}}
}

// c14ModuleEffect: a call that can do more than compute a message — a function of this module, a
// method reached through an interface, a function value, a goroutine or a deferred call.
func c14ModuleEffect(in ssa.Instruction) bool {
	ci, ok := in.(ssa.CallInstruction)
	if !ok {
		return false
	}
	cc := ci.Common()
	if _, isB := cc.Value.(*ssa.Builtin); isB {
		return false
	}
	if cc.IsInvoke() {
		return true
	}
	f := cc.StaticCallee()
	if f == nil {
		return true
	}
	return inModule(f)
}

// c14LayoutExact (C14.R3): a layout's branch is taken only when the extra data decodes as that layout
// with nothing left over.  Per probe and per way of not matching, from the probe to the next probe:
// no call into the module (lookup, decode, re-encode), no store through the leaf, no return that may
// yield nil.  Positive control per hash layout: under a match the leaf can be rewritten.
func c14LayoutExact(r *Run, fix *ssa.Function, probes []c14Probe, stores []*ssa.Store) {
	probeBlocks := map[*ssa.BasicBlock]bool{}
	for _, p := range probes {
		probeBlocks[p.call.Block()] = true
	}
	var leafStores []ssa.Instruction
	eachInstr(fix, func(in ssa.Instruction) {
		if st, ok := in.(*ssa.Store); ok && glob("&(p2.*", r.D.D(st.Addr)) {
			leafStores = append(leafStores, st)
		}
	})
	seenTyp := map[string]int{}
	for _, p := range probes {
		seenTyp[p.typ]++
		key := "FixLogLeaf:layout-exact:" + p.typ
		if seenTyp[p.typ] > 1 {
			key += fmt.Sprintf("#%d", seenTyp[p.typ])
		}
		names, sigmas := c14Mismatch(r, p)
		if len(sigmas) == 0 {
			r.Fail(key, r.Where(p.call), "undecided: the outcome of probing the extra data as "+p.typ+" is not taken from the decoder's error and remainder")
			continue
		}
		stop := map[*ssa.BasicBlock]bool{}
		for b := range probeBlocks {
			if b != p.call.Block() {
				stop[b] = true
			}
		}
		for i, s := range sigmas {
			x := c14Run(r, fix, s, p.call.Block(), stop)
			how := map[string]string{"decode-error": "does not decode as " + p.typ, "trailing-bytes": "decodes as " + p.typ + " with bytes left over", "no": "is not exactly a " + p.typ}[names[i]]
			ok, detail := true, fmt.Sprintf("extra data that %s is left to the other layouts: up to the next probe no call into the module, no store through the leaf, no return that may yield nil (%s)", how, s)
			if x.Over {
				ok, detail = false, "undecided: too many paths through "+FuncName(fix)
			}
			after := false
			for _, in := range p.call.Block().Instrs {
				if in == ssa.Instruction(p.call) {
					after = true
					continue
				}
				if after && ok && c14ModuleEffect(in) {
					ok, detail = false, fmt.Sprintf("the %s layout is taken without an exact match: extra data that %s still reaches %s at %s", p.typ, how, instrName(in), r.Where(in))
				}
			}
			for _, b := range fix.Blocks {
				if !ok || !x.Blocks[b] || b == p.call.Block() {
					continue
				}
				for _, in := range b.Instrs {
					if ok && c14ModuleEffect(in) {
						ok, detail = false, fmt.Sprintf("the %s layout is taken without an exact match: extra data that %s still reaches %s at %s (under %s)", p.typ, how, instrName(in), r.Where(in), s)
					}
				}
			}
			for _, st := range leafStores {
				if ok && x.Has(st) && !(st.Block() == p.call.Block() && instrIdx(st) < instrIdx(p.call)) {
					ok, detail = false, fmt.Sprintf("the %s layout is taken without an exact match: with extra data that %s the leaf is still rewritten at %s (under %s)", p.typ, how, r.Where(st), s)
				}
			}
			if rv := x.mayYieldNil(); ok && rv != nil {
				ok, detail = false, fmt.Sprintf("the %s layout is taken without an exact match: with extra data that %s %s before another layout was tried (under %s)", p.typ, how, x.describe(rv), s)
			}
			r.Check(key+"["+names[i]+"]", ok, r.Where(p.call), detail)
		}
		// positive control: under a match of a hash layout its rewrite is reachable
		if strings.HasSuffix(p.typ, "Hash") && p.match != nil {
			x := c14Run(r, fix, p.match, p.call.Block(), stop)
			hit := false
			for _, st := range stores {
				if x.Has(st) {
					hit = true
				}
			}
			r.Check(key+"[match]", hit && !x.Over, r.Where(p.call), fmt.Sprintf("extra data that is exactly a %s reaches the rewrite of leaf.ExtraData (positive control, %s)", p.typ, p.match))
		}
	}
}

// c14LayoutTurn (C14.R3): every layout gets its turn — with each of the other layouts not matching
// (all by decoder error, all by left-over bytes), no return is reached from the entry of FixLogLeaf
// before the probe of layout q has run.  A helper that answers "not mine" with a verdict of its own
// (an error, or a success) takes the turn away from the layouts behind it: entries stored with their
// full chain would no longer be served.
func c14LayoutTurn(r *Run, fix *ssa.Function, probes []c14Probe) {
	for qi, q := range probes {
		key := "FixLogLeaf:layout-turn:" + q.typ
		for round, name := range []string{"decode-error", "trailing-bytes"} {
			s := Sigma{}
			bound := true
			for oi, o := range probes {
				if oi == qi {
					continue
				}
				names, sigmas := c14Mismatch(r, o)
				if len(sigmas) == 0 {
					bound = false
					continue
				}
				pick := sigmas[0]
				for i, n := range names {
					if n == name {
						pick = sigmas[i]
					}
				}
				for k, v := range pick {
					s[k] = v
				}
			}
			if !bound {
				if round == 0 {
					r.Fail(key, r.Where(q.call), "undecided: the outcome of another probe is not taken from its decoder's error and remainder")
				}
				continue
			}
			if q.call.Block() == fix.Blocks[0] {
				r.Pass(key+"["+name+"]", r.Where(q.call), "the extra data is probed as "+q.typ+" before anything else is decided")
				continue
			}
			x := c14Run(r, fix, s, nil, map[*ssa.BasicBlock]bool{q.call.Block(): true})
			ok, detail := true, fmt.Sprintf("with the other layouts not matching (%s) no verdict is reached before the extra data was probed as %s", name, q.typ)
			switch {
			case x.Over:
				ok, detail = false, "undecided: too many paths through "+FuncName(fix)
			case len(x.Rets) > 0:
				ok, detail = false, fmt.Sprintf("the %s layout is not given its turn: with the other layouts not matching (%s) %s before the extra data was probed as %s", q.typ, name, x.describe(&x.Rets[0]), q.typ)
			case !x.Stopped[q.call.Block()]:
				ok, detail = false, fmt.Sprintf("the extra data is never probed as %s when the other layouts do not match (%s)", q.typ, name)
			}
			r.Check(key+"["+name+"]", ok, r.Where(q.call), detail)
		}
	}
}

// c14OtherLengthTest: FixLogLeaf has no test of len(h) against 0 but compares len(h) with some other
// value — the atom of that comparison, "" otherwise (the emptiness test exists, or no test of the
// length at all: the caller's obligations then fail as undecided).
func c14OtherLengthTest(r *Run, fix *ssa.Function, h string) string {
	atoms := r.D.AtomsOf(fix)
	if _, ok := atoms["ord(0, len("+h+"))"]; ok {
		return ""
	}
	for _, k := range keysOf(atoms) {
		ci := atoms[k]
		if ci.Kind == "ord" && (ci.A == "len("+h+")" || ci.B == "len("+h+")") {
			return k
		}
	}
	return ""
}

// c14StoredChainTrailing (C14.R3): per decoding of a stored chain (asn1.Unmarshal in FixLogLeaf) — the
// remainder is looked at by a branch condition, and once the decoder succeeded with bytes left over
// every return that may execute yields a non-nil error (…:chain-trailing-bytes) and the leaf is not
// written (stored-chain-trailing-data).  Returns the number of decodings decided.
func c14StoredChainTrailing(r *Run, fix *ssa.Function, stores []*ssa.Store) int {
	n := 0
	atoms := r.D.AtomsOf(fix)
	for _, c := range CallsTo(fix, "asn1.Unmarshal") {
		errv, rest := CallResult(c, 1), CallResult(c, 0)
		if errv == nil || rest == nil {
			r.Fail("FixLogLeaf:stored-chain-trailing-data", r.Where(c), "result of asn1.Unmarshal ignored")
			continue
		}
		n++
		k1 := "FixLogLeaf:" + shortErr(r.D.D(CallArgs(c)[1])) + ":chain-trailing-bytes"
		ra := "ord(0, len(" + r.D.D(rest) + "))"
		s := Sigma{"nil?" + r.D.D(errv): "nil", ra: "<"}
		x := c14Run(r, fix, s, c.Block(), nil)
		ok, why := true, ""
		switch {
		case atoms[ra] == nil:
			ok, why = false, "undecided: no branch condition of "+FuncName(fix)+" tests "+ra+" (the check for bytes after the stored chain is missing)"
		case x.Over:
			ok, why = false, "undecided: too many paths through "+FuncName(fix)
		case len(x.Rets) == 0:
			ok, why = false, "undecided: no return is reachable under "+s.String()
		case x.mayYieldNil() != nil:
			ok, why = false, fmt.Sprintf("under %s %s", s, x.describe(x.mayYieldNil()))
		}
		r.Check(k1, ok, r.Where(c), "bytes after the stored issuance chain are an error: every return that may then execute yields a non-nil error "+why)
		if ok {
			for _, st := range stores {
				if x.Has(st) {
					ok, why = false, "the leaf is rewritten at "+r.Where(st)
				}
			}
		}
		r.Check("FixLogLeaf:stored-chain-trailing-data", ok, r.Where(c), "bytes after the stored issuance chain are an error and the leaf stays as it is "+why)
	}
	return n
}

// c14RewriteFinal (C14.R3): a rewrite is the verdict — once leaf.ExtraData has been replaced by the
// re-inflated structure, no layout is probed again (the new bytes would be read as one of the other
// layouts) and every return that may execute yields nil.
func c14RewriteFinal(r *Run, fix *ssa.Function, probes []c14Probe, stores []*ssa.Store) {
	stop := map[*ssa.BasicBlock]bool{}
	for _, p := range probes {
		stop[p.call.Block()] = true
	}
	for _, st := range stores {
		// a probe that follows the store inside its own block
		again := ""
		for _, p := range probes {
			if p.call.Block() == st.Block() && instrIdx(p.call) > instrIdx(st) {
				again = r.Where(p.call)
			}
		}
		x := c14Run(r, fix, Sigma{}, st.Block(), stop)
		ok, detail := true, "after the rewrite of leaf.ExtraData no layout is probed again and FixLogLeaf returns nil"
		switch {
		case x.Over:
			ok, detail = false, "undecided: too many paths through "+FuncName(fix)
		case again != "" || len(x.Stopped) > 0:
			if again == "" {
				for _, b := range fix.Blocks {
					if x.Stopped[b] && again == "" {
						again = r.P.Pos(b.Instrs[0].Pos())
						for _, p := range probes {
							if p.call.Block() == b {
								again = r.Where(p.call)
							}
						}
					}
				}
			}
			ok, detail = false, "after the rewrite of leaf.ExtraData the extra data is probed again at "+again+": the re-inflated bytes would be read as another layout"
		case len(x.Rets) == 0:
			ok, detail = false, "undecided: no return is reachable after the rewrite of leaf.ExtraData"
		default:
			for i := range x.Rets {
				if x.Rets[i].status != "nil" {
					ok, detail = false, "after the rewrite of leaf.ExtraData "+x.describe(&x.Rets[i])+" (expected nil: the leaf was fixed)"
					break
				}
			}
		}
		r.Check("FixLogLeaf:rewrite-is-final", ok, r.Where(st), detail)
	}
}
