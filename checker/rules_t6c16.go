package main

import (
	"fmt"
	"go/token"
	"sort"
	"strings"

	"golang.org/x/tools/go/ssa"
)

// ---- the end convention of a fetch range ---------------------------------------------------------
//
// The generator hands the worker a pair (start, end).  Which index "end" stands for — the last
// index of the range, the one after it — is private to the two functions; the property only says
// that every index of [start, start + len) is requested and delivered, where len is the batch
// length min(end − start, batch) the generator advances its cursor by.  So the rules decide three
// facts about one integer constant δ ("end = last index of the range + δ"):
//
//   generator   next.end − next.start = len − 1 + δ
//   request     the worker asks the log for indices up to r.end − δ
//   loop        the worker keeps requesting exactly while cursor ≤ r.end − δ
//
// δ is read off the code on either side (linear forms), never assumed: the inclusive convention
// (δ = 0) and the half-open one (δ = 1) are both decided, and so is any other constant.  When the
// generator and the request disagree, the worker's loop tells which of the two is the odd one out.

// c16WLin: linear form of an integer value of fn over the worker's leaves.  A read of a variable
// the function literal fn captured, and that holds one value (capturedOnce), stands for that value.
func c16WLin(r *Run, v ssa.Value, depth int) LinForm {
	leaf := func() LinForm { return linLeaf(c16Strip(r.D.D(v))) }
	if depth > 12 {
		return leaf()
	}
	switch x := v.(type) {
	case *ssa.Const:
		if l := r.D.Lin(v, nil); len(l.Coef) == 0 {
			return l
		}
	case *ssa.Convert:
		if isNumeric(x.Type()) && isNumeric(x.X.Type()) {
			return c16WLin(r, x.X, depth+1)
		}
	case *ssa.ChangeType:
		return c16WLin(r, x.X, depth+1)
	case *ssa.BinOp:
		if !isNumeric(x.Type()) {
			break
		}
		switch x.Op {
		case token.ADD:
			return c16WLin(r, x.X, depth+1).add(c16WLin(r, x.Y, depth+1), 1)
		case token.SUB:
			return c16WLin(r, x.X, depth+1).add(c16WLin(r, x.Y, depth+1), -1)
		}
	case *ssa.UnOp:
		switch x.Op {
		case token.SUB:
			return c16WLin(r, x.X, depth+1).scale(-1)
		case token.MUL:
			if a, ok := x.X.(*ssa.Alloc); ok {
				if sv := c16CellOnce(a); sv != nil {
					return c16WLin(r, sv, depth+1)
				}
			}
			if fv, ok := x.X.(*ssa.FreeVar); ok {
				if sv := capturedOnce(fv); sv != nil {
					return c16WLin(r, sv, depth+1)
				}
			}
			if ph, ok := x.X.(*ssa.Phi); ok {
				if l, ok := c16CopiedCell(r, ph, depth); ok {
					return l
				}
			}
			if fv, ok := x.X.(*ssa.FreeVar); ok {
				if ph, ok := c16Binding(fv).(*ssa.Phi); ok {
					if l, ok := c16CopiedCell(r, ph, depth); ok {
						return l
					}
				}
			}
		}
	}
	return leaf()
}

// c16CellOnce: the one value a local holds: it is assigned at exactly one place, as a whole, and
// otherwise only read — by its function, or by function literals that capture it and only read it.
func c16CellOnce(a *ssa.Alloc) ssa.Value {
	if sv := uniqueStore(a); sv != nil {
		return sv
	}
	if a.Referrers() == nil {
		return nil
	}
	var st *ssa.Store
	for _, ref := range *a.Referrers() {
		switch x := ref.(type) {
		case *ssa.Store:
			if x.Addr != ssa.Value(a) || st != nil {
				return nil
			}
			st = x
		case *ssa.UnOp:
			if x.Op != token.MUL {
				return nil
			}
		case *ssa.DebugRef:
		case *ssa.MakeClosure:
			cf, ok := x.Fn.(*ssa.Function)
			if !ok {
				return nil
			}
			for i, bnd := range x.Bindings {
				if bnd != ssa.Value(a) {
					continue
				}
				if i >= len(cf.FreeVars) || cf.FreeVars[i].Referrers() == nil {
					return nil
				}
				for _, r2 := range *cf.FreeVars[i].Referrers() {
					switch y := r2.(type) {
					case *ssa.UnOp:
						if y.Op != token.MUL {
							return nil
						}
					case *ssa.DebugRef:
					default:
						return nil
					}
				}
			}
		default:
			return nil
		}
	}
	if st == nil {
		return nil
	}
	return st.Val
}

// c16CopiedCell: a read through a φ of cells — a loop variable that is copied into a fresh cell
// for every iteration (a captured variable of a three-clause for statement).  When every cell of
// the web is assigned once, either a copy of the web's current cell or one and the same value,
// the read yields that value.
func c16CopiedCell(r *Run, ph *ssa.Phi, depth int) (LinForm, bool) {
	cells := map[*ssa.Alloc]bool{}
	phis := map[*ssa.Phi]bool{}
	var web func(v ssa.Value) bool
	web = func(v ssa.Value) bool {
		switch y := v.(type) {
		case *ssa.Phi:
			if phis[y] {
				return true
			}
			phis[y] = true
			for _, e := range y.Edges {
				if !web(e) {
					return false
				}
			}
			return true
		case *ssa.Alloc:
			cells[y] = true
			return true
		}
		return false
	}
	if !web(ph) || len(cells) == 0 {
		return LinForm{}, false
	}
	// every cell and every φ of the web is only read (directly, or by function literals that
	// capture it and only read it), apart from the one assignment each cell gets
	readOnly := func(v ssa.Value, st **ssa.Store) bool {
		if v.Referrers() == nil {
			return false
		}
		for _, ref := range *v.Referrers() {
			switch y := ref.(type) {
			case *ssa.Store:
				if st == nil || y.Addr != v || *st != nil {
					return false
				}
				*st = y
			case *ssa.UnOp:
				if y.Op != token.MUL {
					return false
				}
			case *ssa.DebugRef:
			case *ssa.Phi:
				if !phis[y] {
					return false
				}
			case *ssa.MakeClosure:
				cf, ok := y.Fn.(*ssa.Function)
				if !ok {
					return false
				}
				for i, bnd := range y.Bindings {
					if bnd != v {
						continue
					}
					if i >= len(cf.FreeVars) || cf.FreeVars[i].Referrers() == nil {
						return false
					}
					for _, r2 := range *cf.FreeVars[i].Referrers() {
						switch z := r2.(type) {
						case *ssa.UnOp:
							if z.Op != token.MUL {
								return false
							}
						case *ssa.DebugRef:
						default:
							return false
						}
					}
				}
			default:
				return false
			}
		}
		return true
	}
	for p := range phis {
		if !readOnly(p, nil) {
			return LinForm{}, false
		}
	}
	var root *LinForm
	for a := range cells {
		var st *ssa.Store
		if !readOnly(a, &st) || st == nil {
			return LinForm{}, false
		}
		sv := st.Val
		if u, ok := sv.(*ssa.UnOp); ok && u.Op == token.MUL {
			if p, ok := u.X.(*ssa.Phi); ok && phis[p] {
				continue
			}
			if c, ok := u.X.(*ssa.Alloc); ok && cells[c] {
				continue
			}
		}
		l := c16WLin(r, sv, depth+1)
		if root != nil && root.String() != l.String() {
			return LinForm{}, false
		}
		root = &l
	}
	if root == nil {
		return LinForm{}, false
	}
	return *root, true
}

// c16Binding: what the one function literal made of fv's function binds fv to (nil: not one).
func c16Binding(fv *ssa.FreeVar) ssa.Value {
	fn := fv.Parent()
	par := fn.Parent()
	if par == nil {
		return nil
	}
	var out ssa.Value
	n := 0
	eachInstr(par, func(in ssa.Instruction) {
		mc, ok := in.(*ssa.MakeClosure)
		if !ok || mc.Fn != ssa.Value(fn) {
			return
		}
		n++
		for i, x := range fn.FreeVars {
			if x == fv && i < len(mc.Bindings) {
				out = mc.Bindings[i]
			}
		}
	})
	if n != 1 {
		return nil
	}
	return out
}

// c16OneLeaf: l = +leaf + c with a single leaf of coefficient 1.
func c16OneLeaf(l LinForm) (leaf string, c int64, ok bool) {
	for k, co := range l.Coef {
		if co == 0 {
			continue
		}
		if co != 1 || leaf != "" {
			return "", 0, false
		}
		leaf = k
	}
	return leaf, l.Const, leaf != ""
}

// c16GenDelta: the δ of the generator: next.end − next.start = len − 1 + δ, where len is the one
// minimum min(end − start, batch) the generator computes.
func c16GenDelta(r *Run, gen *ssa.Function) (delta int64, why string) {
	ss := r.StoresTo(gen, "&(new:scanner.fetchRange#*.start)")
	es := r.StoresTo(gen, "&(new:scanner.fetchRange#*.end)")
	if len(ss) != 1 || len(es) != 1 {
		return 0, fmt.Sprintf("the generator builds %d/%d start/end fields of a fetchRange", len(ss), len(es))
	}
	mins := c16Minima(r, gen)
	if len(mins) != 1 {
		return 0, fmt.Sprintf("the generator computes %d minima", len(mins))
	}
	k := r.D.Lin(es[0].Val, nil).add(r.D.Lin(ss[0].Val, nil), -1).add(r.D.Lin(mins[0].V, nil), -1)
	c, ok := k.isConst()
	if !ok {
		return 0, "next.end − next.start − min(end−start, batch) = " + k.String() + " is not a constant"
	}
	return c + 1, ""
}

// c16Request: the worker's request as the worker function sees it.
type c16Request struct {
	cursor string          // leaf of the first index requested (the worker's cursor)
	bound  string          // leaf the last index requested is counted from (the range's end)
	delta  int64           // last index requested = bound − delta
	issue  ssa.Instruction // the instruction of the worker function the request is made from
	why    string
}

func c16ReqOf(r *Run, fn *ssa.Function, req ssa.CallInstruction) *c16Request {
	q := &c16Request{}
	args := CallArgs(req)
	if len(args) < 4 {
		q.why = "the request has no start / end arguments"
		return q
	}
	var c int64
	var ok bool
	if q.cursor, c, ok = c16OneLeaf(c16WLin(r, args[2], 0)); !ok || c != 0 {
		q.why = "the first index requested, " + c16WLin(r, args[2], 0).String() + ", is not a variable of the worker"
		return q
	}
	if q.bound, c, ok = c16OneLeaf(c16WLin(r, args[3], 0)); !ok || !glob("new:scanner.fetchRange#*.end", q.bound) {
		q.why = "the last index requested, " + c16WLin(r, args[3], 0).String() + ", is not the end of the range received ± a constant"
		return q
	}
	q.delta = -c
	// where the worker function issues it: the call itself, or the call the function literal that
	// contains it is handed to
	if req.Parent() == fn {
		q.issue = req
	} else {
		eachInstr(fn, func(in ssa.Instruction) {
			ci, isCall := in.(ssa.CallInstruction)
			if !isCall {
				return
			}
			for _, a := range ci.Common().Args {
				if mc, ok := a.(*ssa.MakeClosure); ok && mc.Fn == ssa.Value(req.Parent()) {
					q.issue = in
				}
			}
			if mc, ok := ci.Common().Value.(*ssa.MakeClosure); ok && mc.Fn == ssa.Value(req.Parent()) {
				q.issue = in
			}
		})
		if q.issue == nil {
			q.why = "the worker does not run the function literal that makes the request"
		}
	}
	return q
}

// c16Cmp: a comparison of the worker that relates the cursor to the range's end.
type c16Cmp struct {
	key  string
	c    int64 // X − Y = s·(cursor − bound + c)
	s    int64
	flip bool // the atom's key order is (Y, X)
	text string
}

// val: the atom's value when cursor − bound = d.
func (m c16Cmp) val(d int64) string {
	t := (d + m.c) * m.s
	if m.flip {
		t = -t
	}
	switch {
	case t < 0:
		return "<"
	case t > 0:
		return ">"
	}
	return "="
}

func c16Cmps(r *Run, fn *ssa.Function, cursor, bound string) []c16Cmp {
	var out []c16Cmp
	seen := map[string]bool{}
	eachInstr(fn, func(in ssa.Instruction) {
		b, ok := in.(*ssa.BinOp)
		if !ok {
			return
		}
		switch b.Op {
		case token.LSS, token.LEQ, token.GTR, token.GEQ, token.EQL, token.NEQ:
		default:
			return
		}
		if !c16Integer(b.X.Type()) {
			return
		}
		l := c16WLin(r, b.X, 0).add(c16WLin(r, b.Y, 0), -1)
		s := l.Coef[cursor]
		if (s != 1 && s != -1) || l.Coef[bound] != -s {
			return
		}
		for k, co := range l.Coef {
			if co != 0 && k != cursor && k != bound {
				return
			}
		}
		ci := r.D.Classify(b)
		if ci == nil || ci.Kind != "ord" || seen[ci.Key] {
			return
		}
		seen[ci.Key] = true
		out = append(out, c16Cmp{key: ci.Key, c: l.Const * s, s: s, flip: r.D.D(b.Y) < r.D.D(b.X), text: r.D.D(b)})
	})
	sort.Slice(out, func(i, j int) bool { return out[i].key < out[j].key })
	return out
}

type c16Verdict struct {
	key, where, detail string
	ok                 bool
}

// c16LoopVerdicts decides "the worker requests and delivers exactly while an index of the range
// is outstanding", the last index of the range being bound − delta: for every state of
// d = cursor − bound the comparisons can tell apart (and the two around the last index), walk one
// round from the test: with cursor ≤ last the request is issued and (when it succeeds) the batch
// delivered; with cursor > last neither happens.  A comparison that cannot tell cursor = last
// from cursor = last + 1 fails one of the two.
func c16LoopVerdicts(r *Run, fn *ssa.Function, q *c16Request, _ []ssa.Instruction, delta int64) []c16Verdict {
	cmps := c16Cmps(r, fn, q.cursor, q.bound)
	keys := map[string]bool{}
	for _, m := range cmps {
		keys[m.key] = true
	}
	var heads []*ssa.BasicBlock
	for _, b := range r.blocksTesting(fn, func(ci *CondInfo) bool { return keys[ci.Key] }) {
		if b == q.issue.Block() || b.Dominates(q.issue.Block()) {
			heads = append(heads, b)
		}
	}
	if len(cmps) == 0 || len(heads) == 0 {
		return []c16Verdict{{"runWorker:loop-condition", r.FnPos(fn), "undecided: no test of the cursor (" + q.cursor + ") against the range end (" + q.bound + ") guards the request: the worker's inner loop must compare the two", false}}
	}
	out := []c16Verdict{{"runWorker:loop-condition", r.FnPos(fn), "the worker's inner loop compares the cursor with the range end: " + cmps[0].text, true}}
	pts := map[int64]bool{}
	for _, b := range append([]int64{-delta}, func() (bs []int64) {
		for _, m := range cmps {
			bs = append(bs, -m.c)
		}
		return
	}()...) {
		pts[b-1], pts[b], pts[b+1] = true, true, true
	}
	var ds []int64
	for d := range pts {
		ds = append(ds, d)
	}
	sort.Slice(ds, func(i, j int) bool { return ds[i] < ds[j] })
	last := "r.end"
	if delta > 0 {
		last = fmt.Sprintf("r.end − %d", delta)
	} else if delta < 0 {
		last = fmt.Sprintf("r.end + %d", -delta)
	}
	done := map[string]bool{}
	for _, d := range ds {
		sg := Sigma{}
		var vec []string
		for _, m := range cmps {
			sg[m.key] = m.val(d)
			vec = append(vec, m.val(d))
		}
		class := "cursor=last"
		if d < -delta {
			class = "cursor<last"
		} else if d > -delta {
			class = "cursor>last"
		}
		id := class + "|" + strings.Join(vec, ",")
		if done[id] {
			continue
		}
		done[id] = true
		var tests []string
		for _, m := range cmps {
			tests = append(tests, m.text)
		}
		state := fmt.Sprintf("with the cursor at r.end %+d (the last index of the range is %s) the test %s", d, last, strings.Join(tests, " / "))
		for _, h := range heads {
			where := r.Where(h.Instrs[len(h.Instrs)-1])
			r.Valuations++
			if class == "cursor>last" {
				reach := r.D.Walk(fn, sg, h, map[*ssa.BasicBlock]bool{h: true})
				ok := !reach.Has(q.issue)
				out = append(out, c16Verdict{"runWorker:range-done[" + class + "]", where, fmt.Sprintf("no further request once the cursor has passed the last index of the range: %s lets the request be issued=%v (what is handed to the callback then: runWorker:range-complete)", state, reach.Has(q.issue)), ok})
				continue
			}
			// the context is live and the request succeeds
			for k := range r.D.AtomsOf(fn) {
				if glob("nil?iface(context.Context).Err(*)", k) || glob("nil?(*backoff.Backoff).Retry(*)", k) {
					sg[k] = "nil"
				}
			}
			reach := r.D.Walk(fn, sg, h, map[*ssa.BasicBlock]bool{h: true})
			ok := reach.Has(q.issue)
			out = append(out, c16Verdict{"runWorker:range-pending[" + class + "]", where, fmt.Sprintf("while an index of the range is outstanding the remainder is requested: %s lets the request be issued=%v (where its response goes: runWorker:batch.* / runWorker:kept)", state, reach.Has(q.issue)), ok})
		}
	}
	return out
}

func c16AllOK(vs []c16Verdict) bool {
	for _, v := range vs {
		if !v.ok {
			return false
		}
	}
	return true
}

// c16Conv: the end convention as found on the three sides.
type c16Conv struct {
	gen, req     int64
	genWhy       string // non-empty: the generator's δ is undecided
	reqWhy       string // non-empty: the worker's request is undecided
	q            *c16Request
	cbs          []ssa.Instruction
	worker       *ssa.Function
	oddGenerator bool // generator and request disagree, and the worker's loop sides with the request
}

// c16Convention reads the end convention off the generator and the worker.  It records nothing.
func c16Convention(r *Run) *c16Conv {
	cv := &c16Conv{}
	gen := r.P.Func("(*scanner.Fetcher).genRanges$1")
	if gen == nil || len(gen.Blocks) == 0 {
		cv.genWhy = "the range generator (*scanner.Fetcher).genRanges$1 is not found"
	} else {
		cv.gen, cv.genWhy = c16GenDelta(r, gen)
	}
	fn := r.P.Func("(*scanner.Fetcher).runWorker")
	if fn == nil || len(fn.Blocks) == 0 {
		cv.reqWhy = "the worker (*scanner.Fetcher).runWorker is not found"
		return cv
	}
	cv.worker = fn
	var reqs []ssa.CallInstruction
	for _, f := range append([]*ssa.Function{fn}, fn.AnonFuncs...) {
		reqs = append(reqs, CallsTo(f, "iface(scanner.LogClient).GetRawEntries")...)
	}
	_, cbs := c16Callbacks(r, fn)
	if len(reqs) != 1 || len(cbs) == 0 {
		cv.reqWhy = fmt.Sprintf("the worker makes %d get-entries requests and %d callback invocations", len(reqs), len(cbs))
		return cv
	}
	cv.cbs = asInstrs(cbs)
	cv.q = c16ReqOf(r, fn, reqs[0])
	cv.reqWhy = cv.q.why
	cv.req = cv.q.delta
	if cv.genWhy == "" && cv.reqWhy == "" && cv.gen != cv.req {
		saved := r.Valuations
		cv.oddGenerator = c16AllOK(c16LoopVerdicts(r, fn, cv.q, cv.cbs, cv.req)) && !c16AllOK(c16LoopVerdicts(r, fn, cv.q, cv.cbs, cv.gen))
		r.Valuations = saved
	}
	return cv
}

func c16Last(delta int64) string {
	switch {
	case delta > 0:
		return fmt.Sprintf("end − %d", delta)
	case delta < 0:
		return fmt.Sprintf("end + %d", -delta)
	}
	return "end"
}

// c16GenEndCheck (R1): the range emitted covers exactly the indices the cursor is advanced over.
func c16GenEndCheck(r *Run, gen *ssa.Function, es *ssa.Store, diff LinForm) {
	cv := c16Convention(r)
	if cv.genWhy != "" {
		r.Fail("genRanges:next.end", r.Where(es), "next.end − next.start = "+diff.String()+": "+cv.genWhy+" (must be min(end−start, batch) − 1 + δ, the last index of the range being next.end − δ)")
		return
	}
	detail := fmt.Sprintf("next.end − next.start = %s = min(end−start, batch) − 1 %+d: the last index of a range is its %s", diff.String(), cv.gen, c16Last(cv.gen))
	switch {
	case cv.reqWhy != "":
		// the worker's side is reported by R2
		r.Pass("genRanges:next.end", r.Where(es), detail+" (the worker's reading of the end is undecided, see runWorker:request.end)")
	case cv.gen == cv.req:
		r.Pass("genRanges:next.end", r.Where(es), detail+", and that is the last index the worker requests")
	case cv.oddGenerator:
		r.Fail("genRanges:next.end", r.Where(es), detail+fmt.Sprintf(", but the worker requests up to r.%s and loops until the cursor has passed r.%s: the ranges emitted and the indices fetched differ by %d at every batch boundary (must be min(end−start, batch) − 1 %+d)", c16Last(cv.req), c16Last(cv.req), cv.gen-cv.req, cv.req))
	default:
		r.Pass("genRanges:next.end", r.Where(es), detail+" (the worker's request disagrees, see runWorker:request.end)")
	}
}

// c16WorkerEndChecks (R2): the request ends at, and the loop runs up to, the last index of the range.
func c16WorkerEndChecks(r *Run, fn *ssa.Function, req ssa.CallInstruction) {
	cv := c16Convention(r)
	if cv.reqWhy != "" || cv.q == nil {
		r.Fail("runWorker:request.end", r.Where(req), "undecided: "+cv.reqWhy)
		r.Fail("runWorker:loop-condition", r.FnPos(fn), "undecided: the last index of the range is not known ("+cv.reqWhy+")")
		return
	}
	if cv.genWhy != "" {
		r.Fail("runWorker:request.end", r.Where(req), "undecided: requests up to r."+c16Last(cv.req)+", but which index the generator's end stands for is not known: "+cv.genWhy)
		r.Fail("runWorker:loop-condition", r.FnPos(fn), "undecided: the last index of the range is not known ("+cv.genWhy+")")
		return
	}
	// the range worked off is the one received from the generator, and its end stays what was sent
	okR, dR := c16RangeAsReceived(r, fn, cv.q.bound)
	r.Check("runWorker:range-as-received", okR, r.FnPos(fn), dR)
	delta := cv.gen
	switch {
	case cv.gen == cv.req:
		r.Pass("runWorker:request.end", r.Where(req), fmt.Sprintf("requests up to r.%s, the last index of the range (the generator emits end = start + min(end−start, batch) − 1 %+d)", c16Last(cv.req), cv.gen))
	case cv.oddGenerator:
		delta = cv.req
		r.Pass("runWorker:request.end", r.Where(req), "requests up to r."+c16Last(cv.req)+", the index its loop runs up to (the generator disagrees, see genRanges:next.end)")
	default:
		r.Fail("runWorker:request.end", r.Where(req), fmt.Sprintf("requests up to r.%s, but the last index of the range is r.%s (the generator emits end = start + min(end−start, batch) − 1 %+d): %d index(es) %s at every request", c16Last(cv.req), c16Last(cv.gen), cv.gen, abs64(cv.gen-cv.req), map[bool]string{true: "beyond the range are requested (delivered twice)", false: "of the range are left out of the request"}[cv.req < cv.gen]))
	}
	for _, v := range c16LoopVerdicts(r, fn, cv.q, cv.cbs, delta) {
		r.Check(v.key, v.ok, v.where, v.detail)
	}
	c16FailedRequestRetried(r, fn, cv.q)
}

// c16FailedRequestRetried (R2, "transient errors"): a request that failed is made again for the
// same range: once the error of the request came out non-nil (the context still live), control
// comes back to the loop's test of the cursor against the range end — it neither returns from the
// worker nor goes on to receive the next range (the rest of this one would never be delivered).
func c16FailedRequestRetried(r *Run, fn *ssa.Function, q *c16Request) {
	const key = "runWorker:failed-request-retried"
	iv, ok := q.issue.(ssa.Value)
	if !ok {
		r.Fail(key, r.Where(q.issue), "undecided: the request is issued by a statement without a result (go / defer)")
		return
	}
	errKeys := map[string]bool{"nil?" + r.D.D(iv): true}
	if iv.Referrers() != nil {
		for _, ref := range *iv.Referrers() {
			if ex, ok := ref.(*ssa.Extract); ok && TypeName(ex.Type()) == "error" {
				errKeys["nil?"+r.D.D(ex)] = true
			}
		}
	}
	cmps := c16Cmps(r, fn, q.cursor, q.bound)
	keys := map[string]bool{}
	for _, m := range cmps {
		keys[m.key] = true
	}
	heads := map[*ssa.BasicBlock]bool{}
	for _, b := range r.blocksTesting(fn, func(ci *CondInfo) bool { return keys[ci.Key] }) {
		if b == q.issue.Block() || b.Dominates(q.issue.Block()) {
			heads[b] = true
		}
	}
	tests := r.blocksTesting(fn, func(ci *CondInfo) bool { return errKeys[ci.Key] })
	if len(tests) == 0 || len(heads) == 0 {
		r.Fail(key, r.Where(q.issue), "undecided: the error of the request ("+r.D.D(iv)+") is not tested, or the loop's test of the cursor is not found")
		return
	}
	for _, tb := range tests {
		sg := Sigma{}
		for k := range errKeys {
			sg[k] = "non"
		}
		for k := range r.D.AtomsOf(fn) {
			if glob("nil?iface(context.Context).Err(*)", k) {
				sg[k] = "nil"
			}
		}
		reach := r.D.Walk(fn, sg, tb, heads)
		r.Valuations++
		back, left := false, ""
		for _, b := range fn.Blocks {
			if !reach.Blocks[b] {
				continue
			}
			for _, s := range b.Succs {
				if heads[s] {
					back = true
				}
			}
			for _, in := range b.Instrs {
				switch x := in.(type) {
				case *ssa.Return:
					if left == "" {
						left = "the worker returns (" + r.Where(in) + ")"
					}
				case *ssa.UnOp:
					if x.Op == token.ARROW && strings.HasSuffix(TypeName(x.X.Type()), "chan scanner.fetchRange") && left == "" {
						left = "the worker goes on to receive the next range (" + r.Where(in) + ")"
					}
				}
			}
		}
		r.Check(key, back && left == "", r.Where(tb.Instrs[len(tb.Instrs)-1]), fmt.Sprintf("after a failed request (context live) the same range is tried again: control returns to the loop's test=%v%s", back, map[bool]string{true: "", false: "; but " + left + ": the rest of the range is never delivered"}[left == ""]))
	}
}

func abs64(x int64) int64 {
	if x < 0 {
		return -x
	}
	return x
}

// c16RangeAsReceived: the variable whose end field the worker counts from (leaf bound = "<local>.end")
// is assigned, as a whole, only by a receive from a channel of fetch ranges; every read of its end
// in the worker function comes after that receive; and the end field is never assigned.
func c16RangeAsReceived(r *Run, fn *ssa.Function, bound string) (bool, string) {
	var cell *ssa.Alloc
	var reads []ssa.Instruction
	bad := ""
	eachInstr(fn, func(in ssa.Instruction) {
		fa, ok := in.(*ssa.FieldAddr)
		if !ok || c16Strip(r.D.D(fa)) != "&("+bound+")" || fa.Referrers() == nil {
			return
		}
		a, ok := fa.X.(*ssa.Alloc)
		if !ok || (cell != nil && cell != a) {
			bad = "the range is not held in one local of the worker"
			return
		}
		cell = a
		for _, ref := range *fa.Referrers() {
			switch y := ref.(type) {
			case *ssa.UnOp:
				reads = append(reads, y)
			case *ssa.DebugRef:
			default:
				bad = "the end of the range received is assigned or its address passed on (" + r.Where(ref) + ")"
			}
		}
	})
	if bad != "" {
		return false, bad
	}
	if cell == nil || cell.Referrers() == nil {
		return false, "undecided: the local holding the range (" + bound + ") is not found in the worker"
	}
	var recv []*ssa.Store
	for _, ref := range *cell.Referrers() {
		st, ok := ref.(*ssa.Store)
		if !ok {
			continue
		}
		if st.Addr != ssa.Value(cell) {
			return false, "the address of the range variable is stored away"
		}
		v := st.Val
		if ex, ok := v.(*ssa.Extract); ok {
			v = ex.Tuple
		}
		u, ok := v.(*ssa.UnOp)
		if !ok || u.Op != token.ARROW || !strings.HasSuffix(TypeName(u.X.Type()), "chan scanner.fetchRange") {
			return false, "the range variable is assigned " + r.D.D(st.Val) + ", not a range received from the generator's channel"
		}
		if _, isParam := u.X.(*ssa.Parameter); !isParam {
			return false, "the range is received from " + r.D.D(u.X) + ", not from the channel the worker was given"
		}
		recv = append(recv, st)
	}
	if len(recv) != 1 {
		return false, fmt.Sprintf("the range variable is received into at %d places", len(recv))
	}
	for _, rd := range reads {
		if !c16Precedes(recv[0], rd) {
			return false, "the end of the range is read before the range was received (" + r.Where(rd) + ")"
		}
	}
	return true, "the range worked off is the one received from the ranges channel; its end is read only after the receive and never assigned"
}
