package main

import (
	"fmt"
	"go/token"
	"go/types"
	"strings"

	"golang.org/x/tools/go/ssa"
)

// "An N-byte array member of the built message holds exactly the bytes of a slice member of the
// received message" (C04.R6 ToSCT:id / ToSTH:root; the same fact is what C12.R1 root-copy wants).
//
// The fact has three parts, whatever the code looks like:
//
//	dst   the array at field path `path` of the struct the success return hands out is written
//	      with those bytes, whole, and nothing that can run afterwards overwrites it;
//	src   the bytes are the slice whose origin term is `src`;
//	len   this happens only when len(src) == N: for any other length no success return and none
//	      of the instructions that consume the slice may execute.
//
// Form 1 (copy), decided by c04CopyDst + ExpectArg + FailEdge in rules_c04.go as before:
//
//	one call copy(result.path[:], src), behind `len(src) != N → error`.
//
// Form 2 (conversion), decided here: there is no copy call at all; every store to result.path
//
//	stores the value `*(*[N]T)(src)` (Go 1.20 slice-to-array conversion: go/ssa
//	SliceToArrayPointer + load; it PANICS when len(src) < N and silently keeps the first N bytes
//	when len(src) > N, so here the length test has to precede the conversion itself, not only the
//	success return: `len` is decided by a walk from the function entry, which a conversion placed
//	in front of the test does not survive).
//
// c04ConvertedField is for a function WITHOUT any copy call (the caller checks that): it records
// the dst / src parts under key+".dst" / key+".src" and returns the conversions of src found (the
// instructions that consume the slice, possibly none) and N (0 when no store decided it).
func c04ConvertedField(r *Run, fn *ssa.Function, key string, path, src string) ([]ssa.Instruction, int64) {
	// the conversions of `src` in fn
	var convs []*ssa.SliceToArrayPointer
	eachInstr(fn, func(in ssa.Instruction) {
		if c, ok := in.(*ssa.SliceToArrayPointer); ok && r.D.D(c.X) == src {
			convs = append(convs, c)
		}
	})
	var consumers []ssa.Instruction
	for _, c := range convs {
		consumers = append(consumers, c)
	}
	var n int64 = -1
	rets := successReturns(fn)
	if len(rets) == 0 {
		r.Fail(key+".dst", r.FnPos(fn), "undecided: no success return whose result could hold "+path)
		return consumers, 0
	}
	for _, ri := range rets {
		ret := ri.(*ssa.Return)
		a := baseAlloc(ret.Results[0])
		if a == nil {
			r.Fail(key+".dst", r.Where(ret), "undecided: value "+r.D.D(ret.Results[0])+" is not built in a local allocation")
			continue
		}
		full := r.D.allocName(a) + "." + path
		exact, how, why := c04ArrayStores(r, fn, a, path, ret, src, 0)
		if why != "" {
			r.Fail(key+".dst", r.Where(ret), why)
			continue
		}
		r.Pass(key+".dst", r.Where(exact[0]), how)
		// src: every such store stores the converted slice
		for _, st := range exact {
			got := r.D.D(st.Val)
			arr, isArr := st.Val.Type().Underlying().(*types.Array)
			if !isArr {
				r.Fail(key+".src", r.Where(st), fmt.Sprintf("%s <- %s is not an array value", full, got))
				continue
			}
			if n >= 0 && n != arr.Len() {
				r.Fail(key+".src", r.Where(st), "undecided: arrays of different lengths")
				continue
			}
			n = arr.Len()
			good := got == "*"+src && c04IsConversionOf(st.Val, convs, arr, map[ssa.Value]bool{})
			r.Check(key+".src", good, r.Where(st), fmt.Sprintf("%s <- %s (expected *%s: the [%d]-array conversion of the slice %s)", full, got, src, arr.Len(), src))
		}
	}
	if n < 0 {
		n = 0
	}
	return consumers, n
}

// c04ArrayStores finds the stores that decide what the array at field path `path` of the local
// struct a holds when `use` (the return handing the struct out, or a load of the whole local)
// executes: the stores to exactly that array — at least one always runs before use, and no store
// to a part of it or to a struct it lies in can run after one of them, nor is the address of the
// array (or of a struct around it) handed to a call, a closure or a store; or, when the array is
// only written as part of ONE enclosing struct value `a.prefix <- *L` read from another local L
// (`lid := LogID{KeyID: k}; … LogID: lid`), the stores that decide L.rest at that read. why != ""
// when neither form is there (how describes the form found).
func c04ArrayStores(r *Run, fn *ssa.Function, a *ssa.Alloc, path string, use ssa.Instruction, src string, depth int) (exact []*ssa.Store, how, why string) {
	an := r.D.allocName(a)
	full := an + "." + path
	var prefix, inside []*ssa.Store
	for _, st := range storesInto(fn, a) {
		at := strings.TrimSuffix(strings.TrimPrefix(r.D.D(st.Addr), "&("), ")")
		switch {
		case at == full:
			exact = append(exact, st)
		case at == an || strings.HasPrefix(full+".", at+"."):
			prefix = append(prefix, st) // a struct the array lies in
		case strings.HasPrefix(at, full+"[") || strings.HasPrefix(at, full+"."):
			inside = append(inside, st) // a part of the array
		}
	}
	if esc := c04EscapesBeforeReturn(r, a, path); esc != "" {
		return nil, "", fmt.Sprintf("undecided: the address of %s (or of a struct around it) is also handed to %s", full, esc)
	}
	deciding := exact
	if len(exact) == 0 && len(prefix) == 1 && depth < 3 {
		deciding = prefix
	}
	if len(deciding) == 0 {
		if len(prefix) > 0 {
			o := prefix[len(prefix)-1]
			return nil, "", fmt.Sprintf("undecided: %s is only written as part of %d enclosing struct values (%s <- %s at %s); the bytes of %s cannot be followed into it", full, len(prefix), r.D.D(o.Addr), r.D.D(o.Val), r.Where(o), src)
		}
		return nil, "", fmt.Sprintf("%s has neither a call to copy nor a store to %s: the array of the returned struct is never filled (expected copy(%s[:], %s) or a store of the slice-to-array conversion of %s)", FuncName(fn), full, full, src, src)
	}
	dom := false
	for _, st := range deciding {
		if executesBefore(st, use) {
			dom = true
		}
		for _, group := range [][]*ssa.Store{prefix, inside} {
			for _, o := range group {
				if o != st && mayExecuteAfter(o, st) {
					return nil, "", fmt.Sprintf("%s <- %s at %s is written, but %s <- %s at %s can overwrite it afterwards", r.D.D(st.Addr), r.D.D(st.Val), r.Where(st), r.D.D(o.Addr), r.D.D(o.Val), r.Where(o))
				}
			}
		}
	}
	if !dom {
		return nil, "", fmt.Sprintf("undecided: none of the %d store(s) to %s runs on every path to %s", len(deciding), full, r.Where(use))
	}
	if len(exact) > 0 {
		return exact, fmt.Sprintf("%d store(s) to %s, one on every path to %s, none overwritten afterwards", len(exact), full, r.Where(use)), ""
	}
	// carried by one enclosing struct value read from another local
	o := prefix[0]
	at := strings.TrimSuffix(strings.TrimPrefix(r.D.D(o.Addr), "&("), ")")
	ld, isLd := o.Val.(*ssa.UnOp)
	var L *ssa.Alloc
	if isLd && ld.Op == token.MUL {
		L, _ = ld.X.(*ssa.Alloc)
	}
	if L == nil {
		return nil, "", fmt.Sprintf("undecided: %s is only written as part of %s <- %s at %s, which is not the value of a local struct; the bytes of %s cannot be followed into it", full, r.D.D(o.Addr), r.D.D(o.Val), r.Where(o), src)
	}
	rest := strings.TrimPrefix(strings.TrimPrefix(full, at), ".")
	sub, subHow, subWhy := c04ArrayStores(r, fn, L, rest, ld, src, depth+1)
	if subWhy != "" {
		return nil, "", subWhy
	}
	return sub, fmt.Sprintf("%s <- %s on every path to %s; there: %s", r.D.D(o.Addr), r.D.D(o.Val), r.Where(use), subHow), ""
}

// c04IsConversionOf: v is the load of one of the conversions convs (directly, or merged / carried
// through locals: every leaf of the value is such a load of the same array type).
func c04IsConversionOf(v ssa.Value, convs []*ssa.SliceToArrayPointer, arr *types.Array, busy map[ssa.Value]bool) bool {
	if busy[v] {
		return true
	}
	busy[v] = true
	switch x := v.(type) {
	case *ssa.UnOp:
		if x.Op != token.MUL {
			return false
		}
		for _, c := range convs {
			if x.X == ssa.Value(c) {
				pt, ok := c.Type().Underlying().(*types.Pointer)
				return ok && types.Identical(pt.Elem().Underlying(), arr)
			}
		}
		// a local that only carries the value: every store into it is the conversion's value
		if a, ok := x.X.(*ssa.Alloc); ok && a.Parent() != nil {
			sts := storesInto(a.Parent(), a)
			if len(sts) == 0 {
				return false
			}
			for _, u := range *a.Referrers() {
				switch u := u.(type) {
				case *ssa.Store:
					if u.Addr != ssa.Value(a) {
						return false
					}
				case *ssa.UnOp, *ssa.DebugRef:
				default:
					return false
				}
			}
			before := false
			for _, st := range sts {
				if executesBefore(st, x) {
					before = true
				}
				if !c04IsConversionOf(st.Val, convs, arr, busy) {
					return false
				}
			}
			if !before {
				return false // may still hold its zero value when read
			}
			return true
		}
		return false
	case *ssa.Phi:
		for _, e := range x.Edges {
			if !c04IsConversionOf(e, convs, arr, busy) {
				return false
			}
		}
		return len(x.Edges) > 0
	case *ssa.ChangeType:
		return c04IsConversionOf(x.X, convs, arr, busy)
	}
	return false
}

// c04EscapesBeforeReturn names a use that hands the address of the array at field path `path`
// of the struct under construction (or of a struct it lies in, or of a part of it) to a call or
// stores it somewhere: such a holder could rewrite the array. Addresses of disjoint fields
// (`&result.Signature` passed to a decoder) cannot reach the array and are not followed. Empty
// when the address only feeds field selections, stores through it, loads and the return.
func c04EscapesBeforeReturn(r *Run, a *ssa.Alloc, path string) string {
	seen := map[ssa.Value]bool{}
	var walk func(v ssa.Value, rest []string) string
	walk = func(v ssa.Value, rest []string) string {
		if seen[v] || v.Referrers() == nil {
			return ""
		}
		seen[v] = true
		for _, u := range *v.Referrers() {
			w := ""
			switch u := u.(type) {
			case *ssa.FieldAddr:
				if len(rest) == 0 {
					w = walk(u, nil)
				} else if f := fieldOf(u); f == nil {
					w = "an unresolved field selection at " + r.Where(u)
				} else if f.Name() == rest[0] {
					w = walk(u, rest[1:])
				}
			case *ssa.IndexAddr:
				w = walk(u, nil)
			case *ssa.Slice:
				w = walk(u, nil)
			case *ssa.MakeInterface:
				w = walk(u, rest)
			case *ssa.ChangeType:
				w = walk(u, rest)
			case *ssa.Convert:
				w = walk(u, rest)
			case *ssa.Phi:
				w = walk(u, rest)
			case *ssa.Store:
				if u.Val == v {
					w = "a store at " + r.Where(u)
				}
			case *ssa.MakeClosure:
				w = "a closure at " + r.Where(u)
			case ssa.CallInstruction:
				w = CalleeOf(u) + " at " + r.Where(u)
			}
			if w != "" {
				return w
			}
		}
		return ""
	}
	return walk(a, strings.Split(path, "."))
}

// c04ConvertedLenGuard is the `len` part for form 2: with len(src) ≠ N, walking from the function
// entry, no conversion of src executes (it would panic on a short slice / truncate a long one);
// with len(src) = N one does.
func c04ConvertedLenGuard(r *Run, fn *ssa.Function, key, src string, n int64, consumers []ssa.Instruction) {
	want := fmt.Sprintf("len(%s)", src)
	num := fmt.Sprint(n)
	atom := ""
	found := r.D.AtomsOf(fn)
	for _, k := range keysOf(found) {
		ci := found[k]
		if ci.Kind == "ord" && ((ci.A == num && ci.B == want) || (ci.A == want && ci.B == num)) {
			atom = k
		}
	}
	if len(consumers) == 0 {
		r.Fail(key, r.FnPos(fn), fmt.Sprintf("undecided: %s has no slice-to-array conversion of %s whose length guard could be decided", FuncName(fn), src))
		return
	}
	if atom == "" {
		r.Fail(key, r.FnPos(fn), fmt.Sprintf("undecided: no branch condition of %s compares %s with %s: the slice-to-array conversion at %s panics on a shorter slice and truncates a longer one", FuncName(fn), want, num, r.Where(consumers[0])))
		return
	}
	r.MustGuard(fn, key, atom, "<,>", consumers, fmt.Sprintf("the [%s]-array conversion of %s", num, src))
}
