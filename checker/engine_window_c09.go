package main

import (
	"fmt"
	"go/constant"
	"go/token"
	"go/types"
	"math/big"
	"sort"
	"strings"

	"golang.org/x/tools/go/ssa"
)

// WINDOW engine (used by C09): byte windows, linear forms and guard facts.
//
// A *window* is a []byte value described as (base, lo, hi): the bytes
// base[lo:hi] of a base buffer (a []byte parameter, a make([]byte, n), or a
// fixed array).  lo / hi are *linear forms* Σ aᵢ·leafᵢ + c over origin terms
// (E10a), so "rest[:n]" after "rest = data[offset:][k:]" is the window
// (data, offset+k, offset+k+n) whatever temporaries the source uses.
//
// A *fact* is a linear form known to be ≥ 0 at a program point: it is read
// off the branch conditions whose CFG edge dominates the point (integer
// comparisons, and "err == nil" edges of callees that carry a verified
// post-summary).  entails(goal) searches a 0/1 combination of at most three
// facts whose difference with the goal is a non-negative constant plus
// non-negative leaves — a sound (incomplete) Farkas certificate.  Nothing is
// executed and no solver is involved.

type lin struct {
	c int64
	t map[string]int64
}

func linConst(c int64) lin { return lin{c: c, t: map[string]int64{}} }

func (a lin) plus(b lin, k int64) lin {
	n := lin{c: a.c + k*b.c, t: map[string]int64{}}
	for s, v := range a.t {
		n.t[s] = v
	}
	for s, v := range b.t {
		n.t[s] += k * v
		if n.t[s] == 0 {
			delete(n.t, s)
		}
	}
	return n
}

func (a lin) addc(c int64) lin { return a.plus(linConst(c), 1) }

func (a lin) isConst() (int64, bool) { return a.c, len(a.t) == 0 }

func (a lin) eq(b lin) bool { d := a.plus(b, -1); return d.c == 0 && len(d.t) == 0 }

func (a lin) String() string {
	var ks []string
	for k := range a.t {
		ks = append(ks, k)
	}
	sort.Strings(ks)
	var sb strings.Builder
	for _, k := range ks {
		v := a.t[k]
		switch {
		case v == 1:
			sb.WriteString(" + " + k)
		case v == -1:
			sb.WriteString(" - " + k)
		case v < 0:
			fmt.Fprintf(&sb, " - %d·%s", -v, k)
		default:
			fmt.Fprintf(&sb, " + %d·%s", v, k)
		}
	}
	if a.c != 0 || sb.Len() == 0 {
		if a.c < 0 {
			fmt.Fprintf(&sb, " - %d", -a.c)
		} else {
			fmt.Fprintf(&sb, " + %d", a.c)
		}
	}
	return strings.TrimPrefix(strings.TrimPrefix(sb.String(), " + "), " ")
}

// win is a byte window base[lo:hi].
type win struct {
	base ssa.Value
	lo   lin
	hi   lin
}

func (w *win) length() lin { return w.hi.plus(w.lo, -1) }

// postSummary instantiates the facts a callee guarantees when it returns a nil error.
type postSummary func(e *wEng, call *ssa.Call) []lin

type wEng struct {
	r      *Run
	fn     *ssa.Function
	nonneg map[string]bool
	phiN   map[*ssa.Phi]string
	post   map[string]postSummary
	wmemo  map[ssa.Value]*win
	// integer conversions that are not value-preserving by type alone
	intTyped map[string]bool  // leaves whose static type is the platform int (≤ MaxInt by type)
	upper    map[string]int64 // declared upper bounds of leaves (preconditions, see rules)
	convs    map[*ssa.Convert]*convInfo
	indMemo  map[*ssa.BasicBlock][]lin // inductionFacts per block (present while being computed: no circular use)
}

// convInfo records how one integer conversion was justified.
type convInfo struct {
	ok  bool
	why string
}

func newWEng(r *Run, fn *ssa.Function, post map[string]postSummary) *wEng {
	return &wEng{r: r, fn: fn, nonneg: map[string]bool{}, phiN: map[*ssa.Phi]string{}, post: post, wmemo: map[ssa.Value]*win{},
		intTyped: map[string]bool{}, upper: map[string]int64{}, convs: map[*ssa.Convert]*convInfo{}, indMemo: map[*ssa.BasicBlock][]lin{}}
}

func isByteSlice(t types.Type) bool {
	s, ok := t.Underlying().(*types.Slice)
	if !ok {
		return false
	}
	b, ok := s.Elem().Underlying().(*types.Basic)
	return ok && b.Kind() == types.Uint8
}

func isIntType(t types.Type) bool {
	b, ok := t.Underlying().(*types.Basic)
	return ok && b.Info()&types.IsInteger != 0
}

func isUnsigned(t types.Type) bool {
	b, ok := t.Underlying().(*types.Basic)
	return ok && b.Info()&types.IsUnsigned != 0
}

// declareNonneg records a precondition "this value is ≥ 0" (e.g. the offset parameter).
func (e *wEng) declareNonneg(v ssa.Value) { e.nonneg[e.leafName(v)] = true }

func (e *wEng) leafName(v ssa.Value) string {
	if p, ok := v.(*ssa.Phi); ok && !isInduction(p) {
		if n, ok := e.phiN[p]; ok {
			return n
		}
		n := fmt.Sprintf("φ%d", len(e.phiN))
		e.phiN[p] = n
		return n
	}
	return e.r.D.D(v)
}

func (e *wEng) leaf(v ssa.Value) lin {
	n := e.leafName(v)
	nn := isUnsigned(v.Type())
	switch x := v.(type) {
	case *ssa.Call:
		if b, ok := x.Call.Value.(*ssa.Builtin); ok && (b.Name() == "len" || b.Name() == "cap") {
			nn = true
		}
		if f := x.Call.StaticCallee(); f != nil && (FuncName(f) == "(reflect.Value).Len" || FuncName(f) == "(*bytes.Buffer).Len") {
			nn = true
		}
	case *ssa.Phi:
		if isInduction(x) {
			// counter: constant non-negative start, positive step
			ok := true
			for _, ed := range x.Edges {
				if c, isC := ed.(*ssa.Const); isC {
					if i, exact := constant.Int64Val(c.Value); !exact || i < 0 {
						ok = false
					}
				} else if b, isB := ed.(*ssa.BinOp); !isB || b.Op != token.ADD {
					ok = false
				}
			}
			nn = nn || ok
		}
	}
	if nn {
		e.nonneg[n] = true
	}
	if b, ok := v.Type().Underlying().(*types.Basic); ok && b.Kind() == types.Int {
		e.intTyped[n] = true
	}
	return lin{t: map[string]int64{n: 1}}
}

// lin normalises an integer SSA value to a linear form (ideal integers:
// numeric conversions are taken as value-preserving; recorded as assumption).
func (e *wEng) lin(v ssa.Value) lin {
	switch x := v.(type) {
	case *ssa.Const:
		if x.Value != nil && x.Value.Kind() == constant.Int {
			if i, ok := constant.Int64Val(x.Value); ok {
				return linConst(i)
			}
		}
	case *ssa.Convert:
		if isIntType(x.Type()) && isIntType(x.X.Type()) {
			if e.convPreserves(x) {
				return e.lin(x.X)
			}
			// the conversion may wrap: its result is an unrelated integer
			n := "wrap:" + e.r.D.D(x)
			if isUnsigned(x.Type()) {
				e.nonneg[n] = true
			}
			return lin{t: map[string]int64{n: 1}}
		}
	case *ssa.ChangeType:
		return e.lin(x.X)
	case *ssa.Phi:
		if isRangePre(x) {
			n := fmt.Sprintf("it@%d", x.Block().Index)
			e.nonneg[n] = true
			return lin{c: -1, t: map[string]int64{n: 1}}
		}
	case *ssa.BinOp:
		switch x.Op {
		case token.ADD:
			return e.lin(x.X).plus(e.lin(x.Y), 1)
		case token.SUB:
			return e.lin(x.X).plus(e.lin(x.Y), -1)
		case token.MUL:
			if c, ok := e.lin(x.X).isConst(); ok {
				return linConst(0).plus(e.lin(x.Y), c)
			}
			if c, ok := e.lin(x.Y).isConst(); ok {
				return linConst(0).plus(e.lin(x.X), c)
			}
		}
	case *ssa.UnOp:
		if a, ok := x.X.(*ssa.Alloc); ok && x.Op == token.MUL {
			if sv := uniqueStore(a); sv != nil {
				return e.lin(sv)
			}
		}
	case *ssa.Call:
		if b, ok := x.Call.Value.(*ssa.Builtin); ok && b.Name() == "len" && len(x.Call.Args) == 1 {
			if w := e.window(x.Call.Args[0]); w != nil {
				return w.length()
			}
		}
	}
	return e.leaf(v)
}

// intRange is the value range of an integer type under the loaded build
// configuration (int/uint/uintptr take the configuration's word size).
func (e *wEng) intRange(t types.Type) (lo, hi *big.Int) {
	b := t.Underlying().(*types.Basic)
	bits := e.r.P.Sizes().Sizeof(b) * 8
	one := big.NewInt(1)
	if b.Info()&types.IsUnsigned != 0 {
		return big.NewInt(0), new(big.Int).Sub(new(big.Int).Lsh(one, uint(bits)), one)
	}
	h := new(big.Int).Lsh(one, uint(bits-1))
	return new(big.Int).Neg(h), new(big.Int).Sub(h, one)
}

// convPreserves decides whether an integer conversion keeps the value: either
// the target type holds every value of the source type, or the guards that
// dominate the conversion (plus declared bounds) confine the operand to the
// target's range.  The upper bound "≤ MaxInt" is discharged by exhibiting a
// bound that is itself a platform int (a length, an int variable) or a
// constant/declared bound within range.
func (e *wEng) convPreserves(x *ssa.Convert) bool {
	if ci := e.convs[x]; ci != nil {
		return ci.ok
	}
	ci := &convInfo{}
	e.convs[x] = ci
	slo, shi := e.intRange(x.X.Type())
	tlo, thi := e.intRange(x.Type())
	needLo, needHi := slo.Cmp(tlo) < 0, shi.Cmp(thi) > 0
	if !needLo && !needHi {
		ci.ok, ci.why = true, "target type holds every source value"
		return true
	}
	ci.ok = true // provisional, so that recursive uses of this conversion do not loop
	v := e.lin(x.X)
	facts := e.factsAt(x.Block())
	okLo, okHi := !needLo, !needHi
	if needLo { // only signed → unsigned (tlo = 0) or narrower signed
		if tlo.Sign() == 0 {
			okLo = e.entails(v, facts)
		} else if tlo.IsInt64() {
			okLo = e.entails(v.addc(-tlo.Int64()), facts)
		}
	}
	if needHi {
		okHi = e.boundedAbove(v, thi, facts)
	}
	if ph, isPhi := x.X.(*ssa.Phi); isPhi && !(okLo && okHi) && !isInduction(ph) && (ph.Block() == x.Block() || ph.Block().Dominates(x.Block())) {
		// a value chosen among several (`n := a; if b < n { n = b }`, min(a, b)): it is in range when
		// each of the values is, under what holds on the edge over which it is chosen
		okLo, okHi = true, true
		for j, ed := range ph.Edges {
			ev := e.lin(ed)
			ef := e.edgeFacts(ph.Block().Preds[j], ph.Block())
			if needLo {
				if tlo.Sign() == 0 {
					okLo = okLo && e.entails(ev, ef)
				} else {
					okLo = okLo && tlo.IsInt64() && e.entails(ev.addc(-tlo.Int64()), ef)
				}
			}
			if needHi {
				okHi = okHi && e.boundedAbove(ev, thi, ef)
			}
		}
	}
	ci.ok = okLo && okHi
	switch {
	case ci.ok:
		ci.why = "operand confined to the target range by dominating guards / declared bounds"
	case !okLo:
		ci.why = "operand " + v.String() + " not shown ≥ " + tlo.String()
	default:
		ci.why = "operand " + v.String() + " not shown ≤ " + thi.String()
	}
	return ci.ok
}

// boundedAbove: v ≤ max follows.  Accepted certificates: v is a constant ≤ max;
// v is a single leaf with a declared bound ≤ max; or some fact says u − v ≥ 0
// (possibly after adding up to two more facts) where u is "small by type": at
// most one positive unit term that is a platform-int leaf (≤ MaxInt ≤ max when
// the target is at least int-sized) or has a declared bound ≤ max, all other
// terms non-positive multiples of non-negative leaves, constant ≤ 0.
func (e *wEng) boundedAbove(v lin, max *big.Int, facts []lin) bool {
	_, intHi := e.intRange(types.Typ[types.Int])
	small := func(u lin) bool {
		pos := 0
		lim := new(big.Int)
		for k, c := range u.t {
			if c < 0 {
				if !e.nonneg[k] {
					return false
				}
				continue
			}
			pos++
			if pos > 1 || c != 1 {
				return false
			}
			if b, ok := e.upper[k]; ok {
				lim.SetInt64(b)
			} else if e.intTyped[k] {
				lim.Set(intHi)
			} else {
				return false
			}
		}
		lim.Add(lim, big.NewInt(u.c))
		return lim.Cmp(max) <= 0
	}
	if small(v) {
		return true
	}
	n := len(facts)
	for i := 0; i < n; i++ { // fact: u − v ≥ 0 with u small  ⇔  (fact + v) small
		u1 := facts[i].plus(v, 1)
		if small(u1) {
			return true
		}
		for j := 0; j < n; j++ {
			if j == i {
				continue
			}
			if small(u1.plus(facts[j], 1)) {
				return true
			}
		}
	}
	return false
}

// declareUpper records a precondition "leaf ≤ bound".
func (e *wEng) declareUpper(name string, bound int64) { e.upper[name] = bound }

// window describes a []byte value; nil when it is not derived from a
// recognised base by slicing.
func (e *wEng) window(v ssa.Value) *win {
	if w, ok := e.wmemo[v]; ok {
		return w
	}
	var w *win
	switch x := v.(type) {
	case *ssa.Parameter:
		if isByteSlice(x.Type()) {
			n := "len(" + e.r.D.D(x) + ")"
			e.nonneg[n] = true
			e.intTyped[n] = true
			w = &win{base: x, lo: linConst(0), hi: lin{t: map[string]int64{n: 1}}}
		}
	case *ssa.MakeSlice:
		if isByteSlice(x.Type()) {
			w = &win{base: x, lo: linConst(0), hi: e.lin(x.Len)}
		}
	case *ssa.Call:
		// a fresh buffer holding the big-endian form of an integer (its own base, filled whole)
		if k, _, ok := freshBigEndian(x); ok {
			w = &win{base: x, lo: linConst(0), hi: linConst(k)}
		}
	case *ssa.Slice:
		var bw *win
		if a, ok := x.X.(*ssa.Alloc); ok {
			if arr, ok := a.Type().(*types.Pointer).Elem().Underlying().(*types.Array); ok {
				if b, ok := arr.Elem().Underlying().(*types.Basic); ok && b.Kind() == types.Uint8 {
					bw = &win{base: a, lo: linConst(0), hi: linConst(arr.Len())}
				}
			}
		} else if isByteSlice(x.X.Type()) {
			bw = e.window(x.X)
		}
		if bw != nil {
			nw := *bw
			if x.Low != nil {
				nw.lo = bw.lo.plus(e.lin(x.Low), 1)
			}
			if x.High != nil {
				nw.hi = bw.lo.plus(e.lin(x.High), 1)
			}
			w = &nw
		}
	}
	e.wmemo[v] = w
	return w
}

// isRemainingInput: w is a suffix base[lo:] of a parameter buffer (its length
// is what is left of the input, not a number taken from the input).
func (e *wEng) isRemainingInput(w *win) bool {
	p, ok := w.base.(*ssa.Parameter)
	return ok && w.hi.eq(e.window(p).hi)
}

// ---- facts ---------------------------------------------------------------------

// factsAt returns the linear forms known to be ≥ 0 whenever block b executes.
func (e *wEng) factsAt(b *ssa.BasicBlock) []lin {
	var out []lin
	for _, p := range e.fn.Blocks {
		if len(p.Instrs) == 0 || len(p.Succs) != 2 || p.Succs[0] == p.Succs[1] {
			continue
		}
		ifi, ok := p.Instrs[len(p.Instrs)-1].(*ssa.If)
		if !ok {
			continue
		}
		for k := 0; k < 2; k++ {
			if edgeDominates(p, k, b) {
				out = append(out, e.condFacts(ifi.Cond, k == 0)...)
			}
		}
	}
	for _, p := range e.fn.Blocks {
		if len(p.Preds) >= 2 && (p == b || p.Dominates(b)) {
			out = append(out, e.inductionFacts(p)...)
		}
	}
	return out
}

// edgeCondFacts: what the branch at the end of block p tells about the edge p → s
// (nothing when p does not end in a two-way branch or both ways lead to s).
func (e *wEng) edgeCondFacts(p, s *ssa.BasicBlock) []lin {
	if len(p.Instrs) == 0 || len(p.Succs) != 2 || p.Succs[0] == p.Succs[1] {
		return nil
	}
	ifi, ok := p.Instrs[len(p.Instrs)-1].(*ssa.If)
	if !ok {
		return nil
	}
	switch s {
	case p.Succs[0]:
		return e.condFacts(ifi.Cond, true)
	case p.Succs[1]:
		return e.condFacts(ifi.Cond, false)
	}
	return nil
}

// edgeFacts: the linear forms known to be ≥ 0 whenever the edge p → s is taken.
func (e *wEng) edgeFacts(p, s *ssa.BasicBlock) []lin {
	return append(e.factsAt(p), e.edgeCondFacts(p, s)...)
}

// inductionFacts: facts about a loop counter that hold whenever the counter's block B is
// entered because they hold on every edge into B (a loop invariant, proved by induction).
//
// A loop whose test is evaluated before the first iteration and again after each one
// (go/ssa's lowering of `for i := range n`; any do-while shaped loop) has no single
// branch edge that dominates its body: the body is entered from the guard `0 < n` with
// i = 0 and from the latch `i+1 < n` with i := i+1.  For a counter i = φ(…, i+k, …) of B a
// candidate g(i) is read off the branch of a back edge (a condition over the incoming value
// i+k, rewritten over the new value of i); it is accepted when, for EVERY edge P → B with
// incoming value x, g(x) follows from the facts of that edge (the branch at the end of P; for
// edges that do not advance the counter also what dominates P).  The other operands of the
// condition must be loop-invariant SSA values (defined in a block that strictly dominates B,
// parameters, constants) so that the leaf names in g denote the same numbers on every edge
// and in every iteration.  Then g(i) holds at every execution of B, hence (SSA: i is not
// redefined before B is re-entered) at every block B dominates.
func (e *wEng) inductionFacts(B *ssa.BasicBlock) []lin {
	if fs, ok := e.indMemo[B]; ok {
		return fs
	}
	e.indMemo[B] = nil
	var out []lin
	for _, bi := range B.Instrs {
		ph, ok := bi.(*ssa.Phi)
		if !ok {
			break
		}
		if !isInduction(ph) || isRangePre(ph) || !isIntType(ph.Type()) {
			continue
		}
		self := e.leaf(ph)
		name := e.leafName(ph)
		// incoming value per edge, as a linear form; which edges advance the counter
		in := make([]lin, len(ph.Edges))
		back := make([]bool, len(ph.Edges))
		okShape := true
		for j, ed := range ph.Edges {
			in[j] = e.lin(ed)
			switch c := in[j].t[name]; {
			case c == 0:
			case c == 1 && len(in[j].plus(self, -1).t) == 0:
				back[j] = true
			default:
				okShape = false
			}
		}
		if !okShape {
			continue
		}
		subst := func(g lin, x lin) lin { // g with the counter replaced by x
			c := g.t[name]
			return g.plus(self, -c).plus(x, c)
		}
		seen := map[string]bool{}
		for j := range ph.Edges {
			if !back[j] {
				continue
			}
			P := B.Preds[j]
			if len(P.Instrs) == 0 {
				continue
			}
			ifi, isIf := P.Instrs[len(P.Instrs)-1].(*ssa.If)
			if !isIf || !invariantCond(ifi.Cond, ph, B) {
				continue
			}
			k := in[j].plus(self, -1).c
			for _, f := range e.edgeCondFacts(P, B) {
				if f.t[name] == 0 {
					continue
				}
				g := subst(f, self.addc(-k)) // f speaks of the old value i = i' − k
				if seen[g.String()] {
					continue
				}
				seen[g.String()] = true
				okAll := true
				for m := range ph.Edges {
					Pm := B.Preds[m]
					facts := e.edgeCondFacts(Pm, B)
					if !back[m] {
						facts = append(facts, e.factsAt(Pm)...)
					}
					if !e.entails(subst(g, in[m]), facts) {
						okAll = false
						break
					}
				}
				if okAll {
					out = append(out, g)
				}
			}
		}
	}
	e.indMemo[B] = out
	return out
}

// invariantCond: the condition compares integer expressions built from the counter ph,
// constants and values that do not change while the loop around B runs.
func invariantCond(c ssa.Value, ph *ssa.Phi, B *ssa.BasicBlock) bool {
	var inv func(v ssa.Value, depth int) bool
	inv = func(v ssa.Value, depth int) bool {
		if v == ssa.Value(ph) {
			return true
		}
		switch x := v.(type) {
		case *ssa.Const, *ssa.Parameter:
			return true
		case *ssa.BinOp:
			if depth < 6 && inv(x.X, depth+1) && inv(x.Y, depth+1) {
				return true
			}
		case *ssa.Convert:
			if depth < 6 && inv(x.X, depth+1) {
				return true
			}
		case *ssa.ChangeType:
			if depth < 6 && inv(x.X, depth+1) {
				return true
			}
		}
		if in, ok := v.(ssa.Instruction); ok && in.Block() != nil && in.Block() != B && in.Block().Dominates(B) {
			return true
		}
		return false
	}
	switch x := c.(type) {
	case *ssa.UnOp:
		if x.Op == token.NOT {
			return invariantCond(x.X, ph, B)
		}
	case *ssa.BinOp:
		return inv(x.X, 0) && inv(x.Y, 0)
	}
	return false
}

func (e *wEng) condFacts(c ssa.Value, truth bool) []lin {
	switch x := c.(type) {
	case *ssa.UnOp:
		if x.Op == token.NOT {
			return e.condFacts(x.X, !truth)
		}
	case *ssa.BinOp:
		if x.Op == token.EQL || x.Op == token.NEQ {
			v := x.X
			if isNilConst(v) {
				v = x.Y
			} else if !isNilConst(x.Y) {
				v = nil
			}
			if v != nil {
				isNil := (x.Op == token.EQL) == truth
				if ex, ok := v.(*ssa.Extract); ok && isNil {
					if call, ok := ex.Tuple.(*ssa.Call); ok {
						if ps := e.post[CalleeOf(call)]; ps != nil && ex.Index == call.Call.Signature().Results().Len()-1 {
							return ps(e, call)
						}
					}
				}
				return nil
			}
		}
		if !isIntType(x.X.Type()) || !isIntType(x.Y.Type()) {
			return nil
		}
		a, b := e.lin(x.X), e.lin(x.Y)
		op := x.Op
		if !truth {
			switch op {
			case token.LSS:
				op = token.GEQ
			case token.LEQ:
				op = token.GTR
			case token.GTR:
				op = token.LEQ
			case token.GEQ:
				op = token.LSS
			case token.EQL:
				op = token.NEQ
			case token.NEQ:
				op = token.EQL
			}
		}
		switch op {
		case token.LSS: // a < b  ⇒  b - a - 1 ≥ 0
			return []lin{b.plus(a, -1).addc(-1)}
		case token.LEQ:
			return []lin{b.plus(a, -1)}
		case token.GTR:
			return []lin{a.plus(b, -1).addc(-1)}
		case token.GEQ:
			return []lin{a.plus(b, -1)}
		case token.EQL:
			return []lin{a.plus(b, -1), b.plus(a, -1)}
		}
	}
	return nil
}

// trivially ≥ 0: non-negative constant plus positive multiples of non-negative leaves
func (e *wEng) obviouslyNonneg(a lin) bool {
	if a.c < 0 {
		return false
	}
	for k, v := range a.t {
		if v < 0 || !e.nonneg[k] {
			return false
		}
	}
	return true
}

// entails: goal ≥ 0 follows from the facts (each used at most once, ≤ 3 of them).
func (e *wEng) entails(goal lin, facts []lin) bool {
	if e.obviouslyNonneg(goal) {
		return true
	}
	n := len(facts)
	for i := 0; i < n; i++ {
		g1 := goal.plus(facts[i], -1)
		if e.obviouslyNonneg(g1) {
			return true
		}
		for j := i + 1; j < n; j++ {
			g2 := g1.plus(facts[j], -1)
			if e.obviouslyNonneg(g2) {
				return true
			}
			for k := j + 1; k < n; k++ {
				if e.obviouslyNonneg(g2.plus(facts[k], -1)) {
					return true
				}
			}
		}
	}
	return false
}

func (e *wEng) entailsAt(goal lin, at ssa.Instruction) bool {
	return e.entails(goal, e.factsAt(at.Block()))
}

// ---- byte accesses ---------------------------------------------------------------

// access is one use of a byte window.
type access struct {
	in   ssa.Instruction
	v    ssa.Value // the window value used
	w    *win
	kind string // "index" | "slice" | "uintN" | "putN" | "pass:<callee>" | "return" | "escape:<what>"
	pos  []lin  // absolute positions read/written in the base (point accesses)
	need []lin  // what must be ≥ 0 for the access to stay inside the window
	arg  int    // argument index for pass
}

var bigEndianWidth = map[string]int64{
	"(binary.bigEndian).Uint16": 2, "(binary.bigEndian).Uint32": 4, "(binary.bigEndian).Uint64": 8,
	"(binary.bigEndian).PutUint16": 2, "(binary.bigEndian).PutUint32": 4, "(binary.bigEndian).PutUint64": 8,
}

// bigEndianAppend: binary.BigEndian.AppendUintN(b, x) returns b followed by the N/8 bytes of the
// big-endian form of x.  With b = nil the result IS that form: a fresh buffer of exactly N/8
// bytes, filled whole by the call (what make([]byte, N/8) + PutUintN establish in two steps).
var bigEndianAppend = map[string]int64{
	"(binary.bigEndian).AppendUint16": 2, "(binary.bigEndian).AppendUint32": 4, "(binary.bigEndian).AppendUint64": 8,
}

// freshBigEndian: v is AppendUintN(nil, x); returns N/8 and x.
func freshBigEndian(v ssa.Value) (int64, ssa.Value, bool) {
	c, ok := v.(*ssa.Call)
	if !ok {
		return 0, nil, false
	}
	k, ok := bigEndianAppend[CalleeOf(c)]
	if !ok || len(c.Call.Args) != 3 || !isNilConst(c.Call.Args[1]) {
		return 0, nil, false
	}
	return k, c.Call.Args[2], true
}

// accesses lists every use of every byte window of the function.  A use the
// engine does not understand is reported as kind "escape:…" (rules fail on it).
func (e *wEng) accesses() []access {
	var out []access
	seen := map[ssa.Value]bool{}
	var roots []ssa.Value
	for _, p := range e.fn.Params {
		if isByteSlice(p.Type()) {
			roots = append(roots, p)
		}
	}
	eachInstr(e.fn, func(in ssa.Instruction) {
		switch x := in.(type) {
		case *ssa.MakeSlice:
			if isByteSlice(x.Type()) {
				roots = append(roots, x)
			}
		case *ssa.Slice:
			if _, ok := x.X.(*ssa.Alloc); ok && e.window(x) != nil {
				roots = append(roots, x)
			}
		case *ssa.Call:
			if k, _, ok := freshBigEndian(x); ok {
				// the call is both the buffer and the one write that fills it: bytes 0 … k−1
				roots = append(roots, x)
				a := access{in: x, v: x, w: e.window(x), kind: "putN", arg: -1}
				for j := int64(0); j < k; j++ {
					a.pos = append(a.pos, linConst(j))
				}
				out = append(out, a)
			}
		}
	})
	var visit func(v ssa.Value)
	visit = func(v ssa.Value) {
		if seen[v] {
			return
		}
		seen[v] = true
		w := e.window(v)
		if w == nil || v.Referrers() == nil {
			return
		}
		for _, ref := range *v.Referrers() {
			switch x := ref.(type) {
			case *ssa.DebugRef:
			case *ssa.IndexAddr:
				idx := e.lin(x.Index)
				out = append(out, access{in: x, v: v, w: w, kind: "index", pos: []lin{w.lo.plus(idx, 1)}, need: []lin{idx, w.length().plus(idx, -1).addc(-1)}})
			case *ssa.Slice:
				nw := e.window(x)
				a := access{in: x, v: v, w: w, kind: "slice"}
				if nw != nil {
					a.need = append(a.need, nw.lo.plus(w.lo, -1), w.hi.plus(nw.hi, -1), nw.hi.plus(nw.lo, -1))
				} else {
					a.kind = "escape:slice"
				}
				out = append(out, a)
				visit(x)
			case *ssa.MakeInterface:
				// boxed into an interface: followed to the call that receives it
				out = append(out, e.boxUses(x, w)...)
			case *ssa.Call:
				name := CalleeOf(x)
				if b, ok := x.Call.Value.(*ssa.Builtin); ok && b.Name() == "len" {
					continue
				}
				ai := -1
				for i, a := range CallArgs(x) {
					if a == v {
						ai = i
					}
				}
				if k, ok := bigEndianWidth[name]; ok {
					a := access{in: x, v: v, w: w, kind: "uintN", arg: ai, need: []lin{w.length().addc(-k)}}
					if strings.Contains(name, "Put") {
						a.kind = "putN"
					}
					for j := int64(0); j < k; j++ {
						a.pos = append(a.pos, w.lo.addc(j))
					}
					out = append(out, a)
					continue
				}
				out = append(out, access{in: x, v: v, w: w, kind: "pass:" + name, arg: ai})
			case *ssa.Return:
				out = append(out, access{in: x, v: v, w: w, kind: "return"})
			default:
				out = append(out, access{in: ref, v: v, w: w, kind: fmt.Sprintf("escape:%T", ref)})
			}
		}
	}
	for _, v := range roots {
		visit(v)
	}
	return out
}

func (e *wEng) boxUses(mi *ssa.MakeInterface, w *win) []access {
	var out []access
	for _, ref := range *mi.Referrers() {
		switch x := ref.(type) {
		case *ssa.DebugRef:
		case *ssa.Call:
			out = append(out, access{in: x, v: mi, w: w, kind: "pass:" + CalleeOf(x)})
		default:
			out = append(out, access{in: ref, v: mi, w: w, kind: fmt.Sprintf("escape:%T", ref)})
		}
	}
	return out
}

// ---- case regions of a type switch over a reflect.Value parameter ------------------

var reflectKinds = map[int64]string{1: "Bool", 2: "Int", 7: "Uint", 8: "Uint8", 9: "Uint16", 10: "Uint32", 11: "Uint64", 17: "Array", 22: "Ptr", 23: "Slice", 24: "String", 25: "Struct"}

func globalName(v ssa.Value) string {
	if u, ok := v.(*ssa.UnOp); ok && u.Op == token.MUL {
		if g, ok := u.X.(*ssa.Global); ok {
			return g.Name()
		}
	}
	return ""
}

func callOn(v ssa.Value, callee string, recv ssa.Value) bool {
	c, ok := v.(*ssa.Call)
	if !ok {
		return false
	}
	f := c.Call.StaticCallee()
	return f != nil && FuncName(f) == callee && len(c.Call.Args) > 0 && c.Call.Args[0] == recv
}

// caseHeads maps case labels of the two switches over value parameter vp
// ("uint16Type", "kind:Enum", "kind:Struct", …) to the head block of the case
// body, and returns the conditions in evaluation order.
type caseRegion struct {
	label string
	head  *ssa.BasicBlock
	cond  ssa.Value
}

func caseRegions(fn *ssa.Function, vp ssa.Value) []caseRegion {
	var out []caseRegion
	for _, b := range fn.Blocks {
		if len(b.Instrs) == 0 || len(b.Succs) != 2 {
			continue
		}
		ifi, ok := b.Instrs[len(b.Instrs)-1].(*ssa.If)
		if !ok {
			continue
		}
		bo, ok := ifi.Cond.(*ssa.BinOp)
		if !ok || bo.Op != token.EQL {
			continue
		}
		label := ""
		for _, pr := range [][2]ssa.Value{{bo.X, bo.Y}, {bo.Y, bo.X}} {
			x, y := pr[0], pr[1]
			switch {
			case callOn(x, "(reflect.Value).Type", vp) && globalName(y) != "":
				label = globalName(y)
			case callOn(x, "(reflect.Value).Kind", vp):
				if c, ok := y.(*ssa.Const); ok && c.Value != nil {
					if i, exact := constant.Int64Val(c.Value); exact {
						label = "kind:" + reflectKinds[i]
						if reflectKinds[i] == "" {
							label = fmt.Sprintf("kind:%d", i)
						}
					}
				} else if yc, ok := y.(*ssa.Call); ok && yc.Call.IsInvoke() && yc.Call.Method.Name() == "Kind" && globalName(yc.Call.Value) != "" {
					label = "kind:of(" + globalName(yc.Call.Value) + ")"
				}
			}
		}
		if label != "" {
			out = append(out, caseRegion{label: label, head: b.Succs[0], cond: ifi.Cond})
		}
	}
	return out
}

// inRegion: the case body headed by head (entered only through its test) contains b.
func inRegion(head, b *ssa.BasicBlock) bool {
	return len(head.Preds) == 1 && head.Dominates(b)
}

func regionLabel(regs []caseRegion, b *ssa.BasicBlock) string {
	best := ""
	var bestHead *ssa.BasicBlock
	for _, cr := range regs {
		if inRegion(cr.head, b) && (bestHead == nil || bestHead.Dominates(cr.head)) {
			best, bestHead = cr.label, cr.head
		}
	}
	if best == "" {
		return "outside-cases"
	}
	return best
}

func loopHeadOf(in ssa.Instruction) *ssa.BasicBlock {
	// nearest dominator that is a loop header (has a back edge from a block it dominates)
	for b := in.Block(); b != nil; b = b.Idom() {
		for _, p := range b.Preds {
			if b.Dominates(p) {
				return b
			}
		}
	}
	return in.Block()
}

func instrIndex(in ssa.Instruction) int {
	for i, x := range in.Block().Instrs {
		if x == in {
			return i
		}
	}
	return -1
}
