package main

import (
	"fmt"

	"golang.org/x/tools/go/ssa"
)

func init() {
	register("C05", "Decides structural necessary conditions of 'signature verification accepts exactly the valid log signatures': "+
		"(R1) tls.VerifySignature, for every pair (signature-algorithm code 0..255, dynamic type of the key: *rsa / *dsa / *ecdsa.PublicKey / any other type incl. nil), whichever of the two the code looks at first and also when the pair is compared through a function that maps the key's type to its algorithm (summarised from that function's own type tests): only (RSA,*rsa) (DSA,*dsa) (ECDSA,*ecdsa) can reach the accepting return, each only through its own library verifier; every other pair is refused (mismatch ⇒ error, no call of the declared algorithm's verifier, no panic path through the asserted key; codes outside 1..3 reach no verifier at all); for the three accepted pairs the accepting return is unreachable when the hash cannot be computed, when the DER (r,s) does not parse, when r or s is not positive (tested before the verifier runs), or when the library verifier rejects; trailing bytes after the DER value do not block acceptance; every other return carries a non-nil error; "+
		"(R2) the verifier's operands are the hash of (declared hash algorithm, the data argument), the asserted key and the carried signature bytes / the (r,s) decoded from them; generateHash maps codes 1..6 to MD5,SHA1,SHA224,SHA256,SHA384,SHA512 and refuses every other code 0..255, hashing exactly the data; "+
		"(R3) NewSignatureVerifier succeeds exactly for (RSA ∧ (≥2048 bits ∨ opt-in)) ∨ (ECDSA ∧ (P-256 ∨ opt-in)), never for another key type, and stores the key it vetted; "+
		"(R4) VerifySCTSignature / VerifySTHSignature return the serializer's error or the verdict of tls.VerifySignature over (verifier's key, serialized input of the arguments, the object's own signature) and nothing else; "+
		"(R5) loglist3.NewFromSignedJSON yields a list only after tls.VerifySignature succeeded over the very bytes that are then parsed, with (SHA256, algorithm of the key's type), and refuses other key types; "+
		"(R6) ctutil.VerifySCT[WithVerifier] refuse a nil verifier / unusable key and otherwise return the verifier's verdict for the leaf built from their arguments; "+
		"(R8) every verdict function above tls.VerifySignature (found from the call graph: single error/bool result, hands something it was given to the next verification layer) reports 'valid' only on a path on which a call of the next layer reported 'valid', returns no verdict of another origin (a remembered one, a second source), treats a failed verification as final and verifies operands that derive from its own receiver and parameters; the only ways round are an absent verifier (client.LogClient without one, counted) and a remembered verdict decided by R9; "+
		"(R9) a verdict function that reports 'valid' from memory (a record read from a sync/atomic.Pointer cell instead of a verdict of this call) does so only when the remembered verification answers this call's question: the record is read once, is never written after its publication, is published only in that function and only after a call of the next layer reported valid; for every leaf of every operand of that call (key taken apart per dynamic type into its fields, declared hash and signature algorithm, data, signature bytes) the branch outcomes holding on every path to the return entail that the current leaf equals what the record holds for it (==, bytes.Equal, big.Int.Cmp, a SHA-2 digest of it, or a module predicate summarised from its own true-paths), the record's field was filled from that same operand of the verified call, and what it keeps is a private copy, not the caller's slice or key object; the wrappers' plain `return nil` is accepted only where it cannot execute once the verdict call failed; "+
		"NOT covered: cryptographic validity itself (library verifiers are trusted), that every signed field is in the serialized input (C04), single-bit mutation behaviour, DER corner cases inside asn1.Unmarshal, tls.CreateSignature; remembered verdicts held in anything but a sync/atomic.Pointer to an immutable record (a map, a mutex-guarded field, atomic.Value), filled outside the verdict function or through a copy function the source normaliser did not expand are not decided sound, they are reported (R8/R9 fail closed); SHA-2 collision resistance and 'the next layer's verdict depends on its operands only' are assumed.",
		runC05)
}

var c05Verifiers = map[int64]string{1: "rsa.VerifyPKCS1v15", 2: "dsa.Verify", 3: "ecdsa.Verify"}
var c05KeyType = map[int64]string{1: "*rsa.PublicKey", 2: "*dsa.PublicKey", 3: "*ecdsa.PublicKey"}
var c05AlgName = map[int64]string{1: "RSA", 2: "DSA", 3: "ECDSA"}

func runC05(r *Run) {
	r.Assume("crypto/rsa.VerifyPKCS1v15, crypto/dsa.Verify, crypto/ecdsa.Verify and crypto.Hash behave per their documentation")
	r.Assume("a successful asn1.Unmarshal into struct{R,S *big.Int} leaves both pointers non-nil")

	for name, want := range map[string]string{
		"tls.RSA": "1", "tls.DSA": "2", "tls.ECDSA": "3", "tls.Anonymous": "0",
		"tls.None": "0", "tls.MD5": "1", "tls.SHA1": "2", "tls.SHA224": "3", "tls.SHA256": "4", "tls.SHA384": "5", "tls.SHA512": "6",
		"crypto.MD5": "2", "crypto.SHA1": "3", "crypto.SHA224": "4", "crypto.SHA256": "5", "crypto.SHA384": "6", "crypto.SHA512": "7",
	} {
		r.Rule("C05.R2")
		c := r.P.LookupConst(name)
		r.Check("const:"+name, c != nil && c.Val().ExactString() == want, "-", name+" = "+want+" (RFC 5246 §7.4.1.4.1 / package crypto)")
	}

	c05VerifySignature(r)
	c05GenerateHash(r)
	c05NewVerifier(r)
	c05Wrappers(r)
	c05LogList(r)
	c05Ctutil(r)
	c05Chain(r)
	c05DebugDump(r)

	// signed-field coverage of the SCT / STH signature inputs (rule set of C04.R3)
	r.Shared("C05.R7", func() {
		c04Inputs(r)
	})
}

// ---- R1 / R2: tls.VerifySignature — decided on the product (algorithm code × key type), see rules_t6c05.go

func c05GenerateHash(r *Run) {
	r.Rule("C05.R2")
	fn := r.Fn("tls.generateHash")
	if fn == nil {
		return
	}
	accept := nilErrReturns(fn)
	r.Floor("accepting returns of generateHash", len(accept), 1)
	if _, n := r.D.constSigma(fn, "p0", 0); n == 0 {
		r.Fail("generateHash:scrutinee", r.FnPos(fn), "undecided: no comparison of the hash code with a constant")
		return
	}
	newCalls := CallsTo(fn, "(crypto.Hash).New")
	bad := 0
	for x := int64(0); x < 256; x++ {
		sx, _ := r.D.constSigma(fn, "p0", x)
		reach := r.D.Walk(fn, sx, nil, nil)
		r.Valuations++
		ret := anyReach(reach, accept)
		if x < 1 || x > 6 {
			if ret != nil {
				bad++
				r.Fail(fmt.Sprintf("generateHash:code=%d-refused", x), r.Where(ret), fmt.Sprintf("hash algorithm code %d is accepted", x))
			}
			continue
		}
		key := fmt.Sprintf("generateHash:code=%d", x)
		want := fmt.Sprint(x + 1) // tls code c ↦ crypto.Hash(c+1), constants checked above
		if ret == nil {
			r.Fail(key, r.FnPos(fn), "no accepting return reachable for a defined hash code")
			continue
		}
		gotType := r.D.DUnder(ret.Results[1], reach)
		gotNew := "-"
		if len(newCalls) == 1 {
			gotNew = r.D.DUnder(CallArgs(newCalls[0])[0], reach)
		}
		r.Check(key, gotType == want && gotNew == want, r.Where(ret), fmt.Sprintf("code %d ↦ hasher crypto.Hash(%s), reported type crypto.Hash(%s); want %s", x, gotNew, gotType, want))
	}
	r.Check("generateHash:other-250-codes-refused", bad == 0, r.FnPos(fn), fmt.Sprintf("%d codes outside 1..6 accepted", bad))
	w := r.OneCall(fn, "generateHash:write", "iface(hash.Hash).Write")
	if w != nil {
		r.ExpectArg(w, "generateHash:write.hasher", 0, "(crypto.Hash).New(*)")
		r.ExpectArg(w, "generateHash:write.data", 1, "p1")
	}
	for _, ret := range accept {
		c := callOfValue(ret.Results[0])
		ok := c != nil && w != nil && CalleeOf(c) == "iface(hash.Hash).Sum" && CallArgs(c)[0] == CallArgs(w)[0] && anyGlob("nil || new:[0]byte#*[:]", r.D.D(CallArgs(c)[1]))
		r.Check("generateHash:digest", ok, r.Where(ret), "digest = Sum(empty) of the very hasher that was fed the data: "+r.D.D(ret.Results[0]))
	}
	// hash.Hash.Write never returns an error (package hash), so its error check is not an obligation
}

// ---- R3: NewSignatureVerifier ---------------------------------------------------

func c05NewVerifier(r *Run) {
	r.Rule("C05.R3")
	fn := r.Fn("ct.NewSignatureVerifier")
	if fn == nil {
		return
	}
	accept := nilErrReturns(fn)
	r.Floor("accepting returns of NewSignatureVerifier", len(accept), 1)
	isRSA, isEC := boolAtom("p0.(*rsa.PublicKey)#1"), boolAtom("p0.(*ecdsa.PublicKey)#1")
	small := ordAtomR("(*big.Int).BitLen(p0.(*rsa.PublicKey)#0.N)", "2048")
	// "the key's curve (parameters) differ from P-256": written with != or with == (inverted)
	offCurve, offT, offF := boolAtom("(*elliptic.P256()* != *p0.(*ecdsa.PublicKey)#0*)"), "T", "F"
	if _, _, err := r.bindSets(fn, nil, nil, AtomSet{offCurve, "T"}); err != nil {
		offCurve, offT, offF = boolAtom("(*elliptic.P256()* == *p0.(*ecdsa.PublicKey)#0*)"), "F", "T"
	}
	allow := boolAtom("g:ct.AllowVerificationWithNonCompliantKeys")
	n := 0
	for _, kt := range []string{"rsa", "ecdsa", "other"} {
		for _, bits := range []string{"<", "=", ">"} {
			for _, off := range []string{"T", "F"} {
				for _, al := range []string{"T", "F"} {
					offVal := offF
					if off == "T" {
						offVal = offT
					}
					sets := []AtomSet{{small, bits}, {offCurve, offVal}, {allow, al}}
					switch kt {
					case "rsa":
						sets = append(sets, AtomSet{isRSA, "T"}, AtomSet{isEC, "F"})
					case "ecdsa":
						sets = append(sets, AtomSet{isRSA, "F"}, AtomSet{isEC, "T"})
					default:
						sets = append(sets, AtomSet{isRSA, "F"}, AtomSet{isEC, "F"})
					}
					s, _, err := r.bindSets(fn, nil, nil, sets...)
					if err != nil {
						r.Fail("NewSignatureVerifier:table", r.FnPos(fn), "undecided: "+err.Error())
						return
					}
					reach := r.D.Walk(fn, s, nil, nil)
					r.Valuations++
					n++
					rets := reachableReturns(fn, reach)
					got := len(rets) == 1 && anyReach(reach, accept) != nil
					refused := anyReach(reach, accept) == nil
					want := (kt == "rsa" && (bits != "<" || al == "T")) || (kt == "ecdsa" && (off == "F" || al == "T"))
					key := fmt.Sprintf("NewSignatureVerifier[key=%s,bits%s2048,offP256=%s,optin=%s]", kt, bits, off, al)
					if want {
						r.Check(key, got, r.FnPos(fn), fmt.Sprintf("property: constructed; code: accepting return only=%v", got))
					} else {
						r.Check(key, refused, r.FnPos(fn), fmt.Sprintf("property: refused; code: accepting return unreachable=%v", refused))
					}
				}
			}
		}
	}
	for _, ret := range accept {
		r.ExpectFields(fn, "NewSignatureVerifier:verifier", ret.Results[0], map[string]string{"PubKey": "p0"})
	}
	for _, ret := range Returns(fn) {
		if errKind(ret.Results[1]) != "nil" {
			// the error is non-nil at this return: constructed here, or a value (e.g. the verdict a
			// policy helper handed back) that this return is only reached with after it tested non-nil
			r.Check("NewSignatureVerifier:error-return", r.D.D(ret.Results[0]) == "nil" && nonNilAt(ret.Results[1], ret.Block()), r.Where(ret), "refusal returns (nil, non-nil error)")
		}
	}
}

// ---- R4: SignatureVerifier wrappers ----------------------------------------------

func c05Wrappers(r *Run) {
	r.Rule("C05.R4")
	if fn := r.Fn("(ct.SignatureVerifier).VerifySignature"); fn != nil {
		cs := r.VerdictShape(fn, "SignatureVerifier.VerifySignature", "tls.VerifySignature", c05NilAfterVerdict(r, fn, "tls.VerifySignature"))
		r.Check("SignatureVerifier.VerifySignature:delegates", len(cs) >= 1, r.FnPos(fn), "returns tls.VerifySignature's verdict")
		for _, c := range cs {
			r.ExpectArg(c, "SignatureVerifier.VerifySignature:key", 0, "p0.PubKey")
			r.ExpectArg(c, "SignatureVerifier.VerifySignature:data", 1, "p1")
			r.ExpectArg(c, "SignatureVerifier.VerifySignature:sig", 2, "p2")
		}
	}
	for _, w := range []struct{ fn, ser, sigField string }{
		{"(ct.SignatureVerifier).VerifySCTSignature", "ct.SerializeSCTSignatureInput", "p1.Signature"},
		{"(ct.SignatureVerifier).VerifySTHSignature", "ct.SerializeSTHSignatureInput", "p1.TreeHeadSignature"},
	} {
		fn := r.Fn(w.fn)
		if fn == nil {
			continue
		}
		k := short(w.fn)
		cs := r.VerdictShape(fn, k, "(ct.SignatureVerifier).VerifySignature || tls.VerifySignature", c05NilAfterVerdict(r, fn, "(ct.SignatureVerifier).VerifySignature || tls.VerifySignature"))
		r.Check(k+":delegates", len(cs) >= 1, r.FnPos(fn), "returns the verdict of the signature check")
		ser := r.OneCall(fn, k+":serializer", w.ser)
		if ser != nil {
			for i := range CallArgs(ser) {
				r.ExpectArg(ser, fmt.Sprintf("%s:serializer.arg%d", k, i), i, fmt.Sprintf("p%d", i+1))
			}
			r.FailEdge(fn, k, EdgeSpec{Name: "serializer-error", Atom: nilAtom(w.ser + "(*)#1"), Bad: "non", Want: wantErr(false), Unreach: asInstrs(cs)})
		}
		for _, c := range cs {
			args := CallArgs(c)
			off := 0
			if CalleeOf(c) == "tls.VerifySignature" {
				r.ExpectArg(c, k+":verify.key", 0, "p0.PubKey")
			} else {
				r.ExpectArg(c, k+":verify.verifier", 0, "p0")
			}
			off = len(args) - 2
			r.ExpectArg(c, k+":verify.data", off, w.ser+"(*)#0")
			r.ExpectArg(c, k+":verify.sig", off+1, w.sigField)
			if ser != nil {
				r.Check(k+":verify.data-is-serialized-input", sameResult(args[off], CallResult(ser, 0)), r.Where(c), "the bytes verified are result 0 of "+w.ser)
			}
		}
	}
}

// ---- R5: signed log list -----------------------------------------------------------

func c05LogList(r *Run) {
	r.Rule("C05.R5")
	fn := r.Fn("loglist3.NewFromSignedJSON")
	if fn == nil {
		return
	}
	var yield []*ssa.Return // returns that may hand out a list
	for _, ret := range Returns(fn) {
		if r.D.D(ret.Results[0]) != "nil" {
			yield = append(yield, ret)
		} else {
			r.Check("NewFromSignedJSON:refusal", errKind(ret.Results[1]) == "non", r.Where(ret), "a nil list comes with a non-nil error")
		}
	}
	r.Floor("list-yielding returns of NewFromSignedJSON", len(yield), 1)
	vc := r.OneCall(fn, "NewFromSignedJSON:verify", "tls.VerifySignature")
	if vc == nil {
		return
	}
	r.Gate(fn, "NewFromSignedJSON:verify-fails", nil, nil, nilAtom("tls.VerifySignature(*)"), "non", yield, asInstrs(CallsTo(fn, "loglist3.NewFromJSON")), "signature does not verify")
	r.ExpectArg(vc, "NewFromSignedJSON:verify.key", 0, "p2")
	r.ExpectArg(vc, "NewFromSignedJSON:verify.data", 1, "p0")
	r.ExpectFields(fn, "NewFromSignedJSON:sig", CallArgs(vc)[2], map[string]string{"Algorithm.Hash": "4", "Signature": "p1"})
	// the bytes parsed are the bytes verified
	for _, ret := range yield {
		c := callOfValue(ret.Results[0])
		ok := c != nil && CalleeOf(c) == "loglist3.NewFromJSON" && r.D.D(CallArgs(c)[0]) == "p0" && sameResult(ret.Results[1], CallResult(c, 1))
		r.Check("NewFromSignedJSON:parses-verified-bytes", ok, r.Where(ret), "the list returned is NewFromJSON(llData) of the verified llData, with its error: "+r.D.D(ret.Results[0]))
	}
	// key type ↦ algorithm; other key types refused before any verification
	isRSA, isEC := boolAtom("p2.(*rsa.PublicKey)#1"), boolAtom("p2.(*ecdsa.PublicKey)#1")
	a := baseAlloc(CallArgs(vc)[2])
	var algStore *ssa.Store
	if a != nil {
		if sts := r.StoresTo(fn, "&("+r.D.allocName(a)+".Algorithm.Signature)"); len(sts) == 1 {
			algStore = sts[0]
		}
	}
	if algStore == nil {
		r.Fail("NewFromSignedJSON:algorithm", r.Where(vc), "undecided: the signature algorithm of the DigitallySigned is not set by one store")
		return
	}
	for _, c := range []struct {
		name, rsa, ec, want string
	}{{"rsa", "T", "F", "1"}, {"ecdsa", "F", "T", "3"}} {
		s, _, err := r.bindSets(fn, nil, nil, AtomSet{isRSA, c.rsa}, AtomSet{isEC, c.ec})
		if err != nil {
			r.Fail("NewFromSignedJSON:algorithm["+c.name+"]", r.FnPos(fn), "undecided: "+err.Error())
			continue
		}
		got := r.ValueUnder(fn, algStore.Val, s)
		r.Check("NewFromSignedJSON:algorithm["+c.name+"]", got == c.want, r.Where(algStore), fmt.Sprintf("%s key ⇒ declared signature algorithm %s (want %s)", c.name, got, c.want))
	}
	if s, _, err := r.bindSets(fn, nil, nil, AtomSet{isRSA, "F"}, AtomSet{isEC, "F"}); err != nil {
		r.Fail("NewFromSignedJSON:other-key-type", r.FnPos(fn), "undecided: "+err.Error())
	} else {
		reach := r.D.Walk(fn, s, nil, nil)
		r.Valuations++
		r.Check("NewFromSignedJSON:other-key-type", anyReach(reach, yield) == nil && !reach.Has(vc), r.FnPos(fn), "a key that is neither RSA nor ECDSA yields no list and no verification attempt")
	}
}

// ---- R6: ctutil -----------------------------------------------------------------------

func c05Ctutil(r *Run) {
	r.Rule("C05.R6")
	if fn := r.Fn("ctutil.VerifySCTWithVerifier"); fn != nil {
		cs := r.VerdictShape(fn, "VerifySCTWithVerifier", "(ct.SignatureVerifier).VerifySCTSignature", nil)
		r.Check("VerifySCTWithVerifier:delegates", len(cs) >= 1, r.FnPos(fn), "returns the verifier's verdict")
		r.FailEdge(fn, "VerifySCTWithVerifier", EdgeSpec{Name: "nil-verifier", Atom: nilAtom("p0"), Bad: "nil", Want: wantErr(false),
			Unreach: asInstrs(CallsTo(fn, "(ct.SignatureVerifier).VerifySCTSignature"))})
		if lc := r.OneCall(fn, "VerifySCTWithVerifier:createLeaf", "ctutil.createLeaf"); lc != nil {
			// the leaf is built from this call's chain, SCT and embedded flag (whatever way
			// createLeaf's parameter list packages them)
			createLeafInputs(r, "VerifySCTWithVerifier:createLeaf", 1)
			r.FailEdge(fn, "VerifySCTWithVerifier", EdgeSpec{Name: "createLeaf-error", Atom: nilAtom("ctutil.createLeaf(*)#1"), Bad: "non", Want: wantErr(false), Unreach: asInstrs(cs)})
			for _, c := range cs {
				r.ExpectArg(c, "VerifySCTWithVerifier:verify.verifier", 0, "*p0")
				r.ExpectArg(c, "VerifySCTWithVerifier:verify.sct", 1, "*p2")
				r.ExpectFields(fn, "VerifySCTWithVerifier:verify.entry", CallArgs(c)[2], map[string]string{"Leaf": "*ctutil.createLeaf(*)#0"})
			}
		}
	}
	if fn := r.Fn("ctutil.VerifySCT"); fn != nil {
		cs := r.VerdictShape(fn, "VerifySCT", "ctutil.VerifySCTWithVerifier", nil)
		r.Check("VerifySCT:delegates", len(cs) >= 1, r.FnPos(fn), "returns VerifySCTWithVerifier's verdict")
		if nc := r.OneCall(fn, "VerifySCT:NewSignatureVerifier", "ct.NewSignatureVerifier"); nc != nil {
			r.ExpectArg(nc, "VerifySCT:key", 0, "p0")
			r.FailEdge(fn, "VerifySCT", EdgeSpec{Name: "unusable-key", Atom: nilAtom("ct.NewSignatureVerifier(p0)#1"), Bad: "non", Want: wantErr(false), Unreach: asInstrs(cs)})
			for _, c := range cs {
				r.Check("VerifySCT:uses-vetted-verifier", sameResult(CallArgs(c)[0], CallResult(nc, 0)), r.Where(c), "the verifier used is the one NewSignatureVerifier vetted")
				for i := 1; i <= 3; i++ {
					r.ExpectArg(c, fmt.Sprintf("VerifySCT:arg%d", i), i, fmt.Sprintf("p%d", i))
				}
			}
		}
	}
}
