package main

import (
	"fmt"
	"go/token"
	"go/types"
	"os"
	"sort"
	"strconv"
	"strings"

	"golang.org/x/tools/go/ssa"
)

// Round 8, C02.R3 (also run as C01.R11): "the path handed on" restated on the fact it establishes, so that
// a path handed on WITHOUT a call of Verify is decided instead of being refused for being a second return.
//
//	fact   every path ValidateChain hands on (result of a return whose error is nil) is
//	       (V) an element of Verify's result for which chainsEquivalent(parsed chain, it) held, or
//	       (D) the parsed submitted chain itself, where that chain is a complete path on its own:
//	           it holds exactly one certificate (the branch outcomes on every way to the return leave no
//	           other length), and that certificate is — byte for byte — a certificate of the trusted pool
//	           whose CertPool Verify searches as Roots.  Nothing has to be signed by anything in a path of
//	           one trusted root, it starts with the submitted leaf, holds every submitted certificate and
//	           ends with a certificate of the pool; Verify answers the same (Verify:leaf-is-root⇒no-search).
//	       Returns of form (D) are markers of every leaf filter like the call of Verify is (no admission
//	       without the filters).
//
//	"byte for byte a member" is decided on the membership predicate, whatever it is called: with every exact
//	comparison it makes coming out false it answers false.  An exact comparison is a probe of a map of the
//	pool keyed by a collision-resistant hash of the certificate's Raw, an equality of Raw (Certificate.Equal /
//	bytes.Equal) with an element of a list of the pool, or a call of another such predicate — where the
//	container is one that only ever receives certificates that enter the pool's CertPool at the same time
//	(decided on every writer of the field in the module).  A predicate that also answers true for a
//	look-alike (same subject and key, other signature) is refused: the look-alike's signature is never checked.

var c02Hashes = []string{"sha256.Sum256", "sha256.Sum224", "sha512.Sum512", "sha512.Sum384", "sha512.Sum512_256"}

// c02HandedOn splits the success returns of ValidateChain into those that hand on the verified path that
// chainsEquivalent compared (as the return sees it) and the others.
func c02HandedOn(r *Run, fn *ssa.Function, ce ssa.CallInstruction) (verified, direct []ssa.Instruction) {
	want := r.D.D(CallArgs(ce)[1])
	for _, in := range successReturns(fn) {
		ret := in.(*ssa.Return)
		got := r.D.D(ret.Results[0])
		if got != want {
			got = r.D.DUnder(ret.Results[0], r.edgesReaching(fn, Sigma{}, ret))
		}
		if got == want {
			verified = append(verified, ret)
		} else {
			direct = append(direct, ret)
		}
	}
	return
}

// c02RootsOf: the trusted pool object whose CertPool Verify searches as Roots, the accessor that hands out
// that CertPool and the field of the pool type it reads.
func c02RootsOf(r *Run, fn *ssa.Function, verify ssa.CallInstruction) (pool ssa.Value, field *types.Var, why string) {
	a := baseAlloc(CallArgs(verify)[1])
	if a == nil {
		return nil, nil, "the options of Verify are not built in a local allocation"
	}
	st := r.StoresTo(fn, "&("+r.D.allocName(a)+".Roots)")
	if len(st) != 1 {
		return nil, nil, fmt.Sprintf("%d stores to VerifyOptions.Roots", len(st))
	}
	c, ok := st[0].Val.(*ssa.Call)
	if !ok || c.Call.StaticCallee() == nil || len(c.Call.StaticCallee().Blocks) == 0 || len(c.Call.Args) != 1 {
		return nil, nil, "VerifyOptions.Roots is " + clipStr(r.D.D(st[0].Val), 100) + ", not the CertPool handed out by an accessor of a pool object"
	}
	acc := c.Call.StaticCallee()
	for _, ret := range Returns(acc) {
		var fv *types.Var
		if len(ret.Results) == 1 {
			if ld, ok := ret.Results[0].(*ssa.UnOp); ok && ld.Op == token.MUL {
				if fa, ok := ld.X.(*ssa.FieldAddr); ok && len(acc.Params) == 1 && fa.X == ssa.Value(acc.Params[0]) {
					fv = fieldOf(fa)
				}
			}
		}
		if fv == nil || field != nil && fv != field {
			return nil, nil, FuncName(acc) + " does not return one field of its receiver"
		}
		field = fv
	}
	if field == nil {
		return nil, nil, FuncName(acc) + " has no return"
	}
	return c.Call.Args[0], field, ""
}

// c02UnverifiedPath records the obligations of one success return of form (D).
func c02UnverifiedPath(r *Run, fn *ssa.Function, ret *ssa.Return, ce, verify ssa.CallInstruction) {
	key := "ValidateChain:unverified-path"
	chainV := CallArgs(ce)[0]
	chain := r.D.D(chainV)
	got := r.D.D(ret.Results[0])
	if got != chain {
		got = r.D.DUnder(ret.Results[0], r.edgesReaching(fn, Sigma{}, ret))
	}
	d := "a path handed on without chain verification is the parsed submitted chain itself (" + clipStr(chain, 80) + ")"
	if got != chain {
		// … or a fresh list holding exactly its first certificate (the same path once single-certificate is established)
		if elems, ok := varargElems(ret.Results[0]); ok && len(elems) == 1 && r.D.D(elems[0]) == chain+"[0]" {
			got, d = chain, "a path handed on without chain verification is a fresh list of the first certificate of the parsed submitted chain ("+clipStr(chain, 80)+"[0]), which is that chain when it holds one certificate (ValidateChain:unverified-path:single-certificate)"
		}
	}
	if got != chain {
		d = "hands on " + clipStr(got, 100) + ", which is neither a verified path that chainsEquivalent compared with the submitted chain (" + clipStr(r.D.D(CallArgs(ce)[1]), 80) +
			") nor the parsed submitted chain: the validated chain handed on need not contain the submitted certificates"
	}
	// (kept under the key of the general clause: every path handed on is one the submission was compared with)
	r.Check("ValidateChain:returns-the-compared-path", got == chain, r.Where(ret), d)

	c02SingleCert(r, fn, ret, key+":single-certificate", chainV)

	pool, field, why := c02RootsOf(r, fn, verify)
	if why != "" {
		r.Fail(key+":exact-member-of-trusted-pool", r.Where(ret), "undecided: "+why)
		return
	}
	c02MemberGate(r, fn, ret, key+":exact-member-of-trusted-pool", pool, field, chain+"[0]")
}

// c02SingleCert: on every way to ret the parsed chain holds exactly one certificate.  The tests of its length
// against constants (len(chain), or len(rawChain): the parse loop puts every raw certificate into the chain —
// ValidateChain:every-parsed-cert-kept, loop-over-whole-raw-chain, chain-built-here) are enumerated; under every
// valuation with which ret may execute, the lengths the valuation allows are {1}.
func c02SingleCert(r *Run, fn *ssa.Function, ret *ssa.Return, key string, chainV ssa.Value) {
	chain := r.D.D(chainV)
	lens := map[string]bool{"len(" + chain + ")": true, "len(p0)": true}
	type lt struct {
		key    string
		c      int64
		cFirst bool // the atom's A operand is the constant
	}
	var tests []lt
	atoms := r.D.AtomsOf(fn)
	for _, k := range keysOf(atoms) {
		ci := atoms[k]
		if ci.Kind != "ord" {
			continue
		}
		if c, err := strconv.ParseInt(ci.A, 10, 64); err == nil && lens[ci.B] {
			tests = append(tests, lt{k, c, true})
		} else if c, err := strconv.ParseInt(ci.B, 10, 64); err == nil && lens[ci.A] {
			tests = append(tests, lt{k, c, false})
		}
	}
	what := "the chain handed on without chain verification"
	if len(tests) == 0 {
		r.Fail(key, r.Where(ret), what+" is not limited to one certificate: no test of the number of submitted certificates lies on the way to this return, so the certificates submitted after the first are handed on although nothing checked that each is signed by the next (or are left out of the path handed on)")
		return
	}
	if len(tests) > 5 {
		r.Fail(key, r.Where(ret), "undecided: too many tests of the chain length")
		return
	}
	// element 0 has been read on every way to the return: the chain is not empty there
	lo := int64(0)
	eachInstr(fn, func(in ssa.Instruction) {
		if ia, ok := in.(*ssa.IndexAddr); ok && isConstInt(ia.Index, 0) && r.D.D(ia.X) == chain && ia.Block().Dominates(ret.Block()) {
			lo = 1
		}
	})
	hi := int64(2)
	for _, t := range tests {
		if t.c+2 > hi {
			hi = t.c + 2
		}
	}
	rel := func(a, b int64) string {
		switch {
		case a < b:
			return "<"
		case a > b:
			return ">"
		}
		return "="
	}
	bad, one := "", false
	dom := []string{"<", "=", ">"}
	idx := make([]int, len(tests))
	for {
		s := Sigma{}
		for i, t := range tests {
			s[t.key] = dom[idx[i]]
		}
		var fits []int64
		for n := lo; n <= hi; n++ {
			ok := true
			for _, t := range tests {
				got := rel(n, t.c)
				if t.cFirst {
					got = rel(t.c, n)
				}
				ok = ok && got == s[t.key]
			}
			if ok {
				fits = append(fits, n)
			}
		}
		if len(fits) > 0 {
			r.Valuations++
			if r.D.Walk(fn, s, nil, nil).Has(ret) {
				for _, n := range fits {
					if n == 1 {
						one = true
					} else if bad == "" {
						more := ""
						if n == hi {
							more = " or more"
						}
						bad = fmt.Sprintf("%s may hold %d%s certificates (the return is reachable under %s): the certificates submitted after the first are handed on although nothing checked that each is signed by the next (or are left out of the path handed on)", what, n, more, s)
						if n == 0 {
							bad = fmt.Sprintf("%s may be empty (the return is reachable under %s)", what, s)
						}
					}
				}
			}
		}
		i := 0
		for i < len(idx) {
			idx[i]++
			if idx[i] < len(dom) {
				break
			}
			idx[i] = 0
			i++
		}
		if i == len(idx) {
			break
		}
	}
	switch {
	case bad != "":
		r.Fail(key, r.Where(ret), bad)
	case !one:
		r.Fail(key, r.Where(ret), "undecided: the return is not reachable with a chain of one certificate")
	default:
		if os.Getenv("CTVERIF_C02DEBUG") != "" {
			fmt.Fprintf(os.Stderr, "c02debug: %s ok (lo=%d, %d tests)\n", key, lo, len(tests))
		}
		r.Pass(key, r.Where(ret), what+" holds exactly one certificate on every way to the return (tests of the number of submitted certificates enumerated)")
	}
}

// c02MemberGate: ret executes only behind the true outcome of a predicate call that takes the trusted pool
// and the submitted leaf, and that predicate is an exact membership test (c02ExactMember).
func c02MemberGate(r *Run, fn *ssa.Function, ret *ssa.Return, key string, pool ssa.Value, rootsField *types.Var, leaf string) {
	poolT := r.D.D(pool)
	atoms := r.D.AtomsOf(fn)
	type cand struct {
		c          *ssa.Call
		pi, ci     int
		otherCerts []string
	}
	var gates []cand
	for _, v := range r.atomSites(fn, wKeySet(keysOf(atoms))) {
		c, ok := v.(*ssa.Call)
		if !ok {
			continue
		}
		k := r.D.Classify(v).Key
		r.Valuations += 2
		if r.D.Walk(fn, Sigma{k: "F"}, nil, nil).Has(ret) || !r.D.Walk(fn, Sigma{k: "T"}, nil, nil).Has(ret) {
			continue
		}
		g := cand{c: c, pi: -1, ci: -1}
		for i, a := range c.Call.Args {
			switch {
			case r.D.D(a) == poolT:
				g.pi = i
			case r.D.D(a) == leaf:
				g.ci = i
			case strings.HasSuffix(TypeName(a.Type()), "x509.Certificate"):
				g.otherCerts = append(g.otherCerts, r.D.D(a))
			}
		}
		gates = append(gates, g)
	}
	what := "the certificate handed on without chain verification"
	var best *cand
	for i := range gates {
		if g := &gates[i]; g.pi >= 0 && (best == nil || g.ci >= 0 && best.ci < 0) {
			best = g
		}
	}
	switch {
	case best == nil:
		d := what + " is not known to be in the trusted pool: no test of membership in " + poolT + " (the pool Verify searches as Roots) comes out true on every way to this return"
		if len(gates) > 0 {
			d += " (it is guarded by " + clipStr(r.D.D(gates[0].c), 120) + ", which does not look into that pool)"
		}
		r.Fail(key, r.Where(ret), d)
		return
	case best.ci < 0:
		r.Fail(key, r.Where(best.c), what+" is the submitted leaf ("+clipStr(leaf, 80)+"), but the membership test "+clipStr(r.D.D(best.c), 160)+" looks up "+strings.Join(best.otherCerts, ", ")+" — another certificate")
		return
	}
	f := best.c.Call.StaticCallee()
	if f == nil || len(f.Blocks) == 0 {
		r.Fail(key, r.Where(best.c), "undecided: the membership test "+clipStr(r.D.D(best.c), 160)+" has no body to decide")
		return
	}
	m := &c02Membership{r: r, roots: rootsField, memo: map[string]string{}, fields: map[*types.Var]string{}}
	why := m.exact(f, best.pi, best.ci, 0)
	d := fmt.Sprintf("%s is byte for byte a certificate of the trusted pool: the return executes only when %s(%s, leaf) answers true, and that predicate answers false whenever none of its exact comparisons (%s) hits; what it compares with only ever receives certificates that enter the pool's CertPool",
		what, FuncName(f), poolT, strings.Join(m.seen, "; "))
	if why != "" {
		d = fmt.Sprintf("%s is admitted on the word of %s, which is not an exact membership test: %s — what is handed on as a valid path need not be a certificate of the trusted pool (a look-alike with the subject and key of a root, say), and no signature was checked", what, FuncName(f), why)
	}
	r.Check(key, why == "", r.Where(best.c), d)
	if os.Getenv("CTVERIF_C02DEBUG") != "" {
		fmt.Fprintf(os.Stderr, "c02debug: %s ok=%v: %s\n", key, why == "", d)
	}
	if why == "" {
		r.Assume("SHA-2 fingerprints of certificates do not collide; x509.CertPool has no removal: a certificate added to a pool stays in it; the slice a pool hands out through a getter is not written by its callers")
	}
}

type c02Membership struct {
	r      *Run
	roots  *types.Var
	memo   map[string]string
	fields map[*types.Var]string
	seen   []string // the exact comparisons found, for the record
}

// exact decides that f — taking the pool as parameter pi and the certificate as parameter ci — answers true
// only when one of its exact comparisons hits ("" when decided, else what stands against it).
func (m *c02Membership) exact(f *ssa.Function, pi, ci, depth int) string {
	r := m.r
	mk := fmt.Sprintf("%s/%d/%d", FuncName(f), pi, ci)
	if w, ok := m.memo[mk]; ok {
		return w
	}
	m.memo[mk] = "undecided: recursive membership test " + FuncName(f)
	res := func(w string) string { m.memo[mk] = w; return w }
	if depth > 3 || pi >= len(f.Params) || ci >= len(f.Params) || len(f.Blocks) == 0 {
		return res("undecided: " + FuncName(f) + " cannot be followed")
	}
	if rs := f.Signature.Results(); rs.Len() != 1 || TypeName(rs.At(0).Type()) != "bool" {
		return res("undecided: " + FuncName(f) + " does not answer with one boolean")
	}
	poolP, certP := ssa.Value(f.Params[pi]), ssa.Value(f.Params[ci])
	witness := map[ssa.Value]bool{}
	var refused []string
	note := func(s string) {
		for _, x := range m.seen {
			if x == s {
				return
			}
		}
		m.seen = append(m.seen, s)
	}
	// the field of the pool parameter that value v is loaded from
	poolField := func(v ssa.Value) *types.Var {
		if ld, ok := v.(*ssa.UnOp); ok && ld.Op == token.MUL {
			if fa, ok := ld.X.(*ssa.FieldAddr); ok && fa.X == poolP {
				return fieldOf(fa)
			}
		}
		return nil
	}
	// v = (element of a list field of the pool), optionally its field Raw
	poolElem := func(v ssa.Value, raw bool) *types.Var {
		if raw {
			x, ok := fieldLoad(v, "Raw")
			if !ok {
				return nil
			}
			v = x
		}
		if ld, ok := v.(*ssa.UnOp); ok && ld.Op == token.MUL {
			if ia, ok := ld.X.(*ssa.IndexAddr); ok {
				return poolField(ia.X)
			}
		}
		return nil
	}
	isCert := func(v ssa.Value, raw bool) bool {
		if raw {
			x, ok := fieldLoad(v, "Raw")
			return ok && x == certP
		}
		return v == certP
	}
	// the predicate only looks: it neither writes the pool nor hands it to anything that is not such a predicate
	var writes []string
	rootsInPool := func(addr ssa.Value) bool {
		for i := 0; i < 8; i++ {
			switch a := addr.(type) {
			case *ssa.FieldAddr:
				addr = a.X
			case *ssa.IndexAddr:
				addr = a.X
			case *ssa.UnOp:
				addr = a.X
			default:
				return addr == poolP
			}
		}
		return false
	}
	eachInstr(f, func(in ssa.Instruction) {
		switch x := in.(type) {
		case *ssa.Store:
			if rootsInPool(x.Addr) {
				writes = append(writes, "it writes "+clipStr(r.D.D(x.Addr), 80)+" at "+r.Where(x))
			}
		case *ssa.MapUpdate:
			if rootsInPool(x.Map) {
				writes = append(writes, "it updates "+clipStr(r.D.D(x.Map), 80)+" at "+r.Where(x))
			}
		case *ssa.Lookup:
			fv := poolField(x.X)
			if fv == nil {
				return
			}
			if _, isMap := x.X.Type().Underlying().(*types.Map); !isMap {
				return
			}
			h := ""
			if kc, ok := x.Index.(*ssa.Call); ok && len(kc.Call.Args) == 1 && isCert(kc.Call.Args[0], true) {
				for _, cand := range c02Hashes {
					if CalleeOf(kc) == cand {
						h = cand
					}
				}
			}
			if h == "" {
				refused = append(refused, "the probe "+clipStr(r.D.D(x), 120)+" is not keyed by a collision-resistant hash of the whole certificate (its Raw)")
				return
			}
			if w := m.container(fv, h); w != "" {
				refused = append(refused, w)
				return
			}
			if x.CommaOk {
				for _, ref := range *x.Referrers() {
					if e, ok := ref.(*ssa.Extract); ok && e.Index == 1 {
						witness[e] = true
					}
				}
			} else if TypeName(x.Type()) == "bool" {
				witness[x] = true
			}
			note("a probe of " + fv.Name() + " keyed by " + h + "(cert.Raw)")
		case *ssa.Call:
			args := x.Call.Args
			switch callee := CalleeOf(x); {
			case callee == "(*x509.Certificate).Equal" && len(args) == 2, callee == "bytes.Equal" && len(args) == 2:
				raw := callee == "bytes.Equal"
				var fv *types.Var
				if isCert(args[0], raw) {
					fv = poolElem(args[1], raw)
				} else if isCert(args[1], raw) {
					fv = poolElem(args[0], raw)
				}
				if fv == nil {
					return
				}
				if w := m.container(fv, ""); w != "" {
					refused = append(refused, w)
					return
				}
				witness[x] = true
				note("equality of Raw with an element of " + fv.Name())
			default:
				g := x.Call.StaticCallee()
				gp, gc := -1, -1
				for i, a := range CallArgs(x) {
					if a == poolP {
						gp = i
					} else if a == certP {
						gc = i
					}
				}
				if gp < 0 {
					return
				}
				if g == nil || len(g.Blocks) == 0 || g == f || gc < 0 || x.Call.IsInvoke() {
					writes = append(writes, "it hands the pool to "+CalleeOf(x)+" at "+r.Where(x)+", which is not followed")
					return
				}
				if rs := g.Signature.Results(); rs.Len() != 1 || TypeName(rs.At(0).Type()) != "bool" {
					writes = append(writes, "it hands the pool to "+CalleeOf(x)+" at "+r.Where(x)+", which is not a membership test")
					return
				}
				if w := m.exact(g, gp, gc, depth+1); w != "" {
					refused = append(refused, FuncName(g)+" is not exact ("+clipStr(w, 160)+")")
					writes = append(writes, "it hands the pool to "+FuncName(g)+" at "+r.Where(x)+", which is not an exact membership test")
					return
				}
				witness[x] = true
			}
		}
	})
	if len(writes) > 0 && len(witness) > 0 {
		// (a call of a predicate that is not exact is reported below as such, where it decides the answer)
		for _, w := range writes {
			if !strings.Contains(w, "not an exact membership test") {
				return res("a membership test must only look, but " + w + " (undecided: the pool may be changed by the question)")
			}
		}
	}
	if len(witness) == 0 {
		w := FuncName(f) + " makes no exact comparison of the certificate with the contents of the pool (a probe of a map of the pool keyed by a SHA-2 hash of its Raw, or equality of Raw with an element of a list of the pool)"
		if len(refused) > 0 {
			w += ": " + strings.Join(refused, "; ")
		}
		return res(w)
	}
	s := Sigma{}
	for w := range witness {
		s[r.D.Classify(w).Key] = "F"
	}
	reach := r.D.Walk(f, s, nil, nil)
	r.Valuations++
	for _, ret := range reachableReturns(f, reach) {
		for _, leaf := range c02LeavesUnder(ret.Results[0], reach) {
			if witness[leaf] {
				continue
			}
			if b, ok := isBoolConst(leaf); ok && !b {
				continue
			}
			w := fmt.Sprintf("it answers %s at %s when none of its exact comparisons hits", clipStr(r.D.D(leaf), 80), r.Where(ret))
			if len(refused) > 0 {
				w += " (not counted as exact: " + strings.Join(refused, "; ") + ")"
			}
			return res(w)
		}
	}
	return res("")
}

// fieldLoad: v is the load of field `name` of a struct behind a pointer; returns that pointer.
func fieldLoad(v ssa.Value, name string) (ssa.Value, bool) {
	ld, ok := v.(*ssa.UnOp)
	if !ok || ld.Op != token.MUL {
		return nil, false
	}
	fa, ok := ld.X.(*ssa.FieldAddr)
	if !ok {
		return nil, false
	}
	if fv := fieldOf(fa); fv == nil || fv.Name() != name {
		return nil, false
	}
	return fa.X, true
}

// c02LeavesUnder: the values v can have on the edges of a walk (φ-nodes restricted to the edges taken).
func c02LeavesUnder(v ssa.Value, reach *Reach) []ssa.Value {
	var out []ssa.Value
	seen := map[ssa.Value]bool{}
	var visit func(v ssa.Value, depth int)
	visit = func(v ssa.Value, depth int) {
		if seen[v] {
			return
		}
		seen[v] = true
		if ph, ok := v.(*ssa.Phi); ok && depth < 8 {
			for i, e := range ph.Edges {
				if reach == nil || reach.Edges[[2]int{ph.Block().Preds[i].Index, ph.Block().Index}] {
					visit(e, depth+1)
				}
			}
			return
		}
		out = append(out, v)
	}
	visit(v, 0)
	return out
}

// container decides, over every function of the module, that field fv of the pool type (a map keyed by
// hash(cert.Raw) when hash is given, else a list of certificates) only ever receives certificates that are
// added, in the same step, to the CertPool in the pool's roots field — so a hit in it is a certificate Verify
// finds among its Roots — and that the CertPool is never replaced without the container being emptied.
func (m *c02Membership) container(fv *types.Var, hash string) string {
	if w, ok := m.fields[fv]; ok {
		return w
	}
	r := m.r
	what := "the list " + fv.Name()
	if hash != "" {
		what = "the map " + fv.Name()
	}
	bad := ""
	fail := func(in ssa.Instruction, s string) {
		if bad == "" {
			bad = what + " of the pool " + s + " at " + r.Where(in)
		}
	}
	// the certificate added to the roots CertPool of the same pool object, on every way through instruction at
	entersPool := func(at ssa.Instruction, base, cert ssa.Value) bool {
		fn := at.Parent()
		found := false
		eachInstr(fn, func(in ssa.Instruction) {
			c, ok := in.(*ssa.Call)
			if !ok || CalleeOf(c) != "(*x509.CertPool).AddCert" || len(c.Call.Args) != 2 || c.Call.Args[1] != cert {
				return
			}
			ld, ok := c.Call.Args[0].(*ssa.UnOp)
			if !ok || ld.Op != token.MUL {
				return
			}
			fa, ok := ld.X.(*ssa.FieldAddr)
			if !ok || fieldOf(fa) != m.roots || fa.X != base && r.D.D(fa.X) != r.D.D(base) {
				return
			}
			found = found || alwaysWith(at, c)
		})
		return found
	}
	updates := 0
	var rootStores []*ssa.Store
	for _, fn := range r.P.ModFuncs {
		eachInstr(fn, func(in ssa.Instruction) {
			if f, ok := in.(*ssa.Field); ok && (fieldOfVal(f) == fv || fieldOfVal(f) == m.roots) {
				fail(in, "is read out of a copy of the pool struct (undecided)")
			}
			fa, ok := in.(*ssa.FieldAddr)
			if !ok {
				return
			}
			if fieldOf(fa) == m.roots {
				for _, ref := range *fa.Referrers() {
					if st, ok := ref.(*ssa.Store); ok && st.Addr == ssa.Value(fa) {
						rootStores = append(rootStores, st)
					}
				}
				return
			}
			if fieldOf(fa) != fv {
				return
			}
			for _, ref := range *fa.Referrers() {
				switch x := ref.(type) {
				case *ssa.DebugRef:
				case *ssa.Store:
					if x.Addr != ssa.Value(fa) {
						fail(x, "has its address stored away (undecided)")
						continue
					}
					switch v := x.Val.(type) {
					case *ssa.MakeMap, *ssa.MakeSlice:
					case *ssa.Const:
						if !v.IsNil() {
							fail(x, "is replaced by "+r.D.D(v))
						}
					case *ssa.Call: // list = append(list, certs…)
						if hash != "" || CalleeOf(v) != "append" || len(v.Call.Args) != 2 || r.D.D(v.Call.Args[0]) != deref(r.D.D(fa)) {
							fail(x, "is replaced by "+clipStr(r.D.D(v), 100))
							continue
						}
						elems, built := varargElems(v.Call.Args[1])
						if !built || len(elems) == 0 {
							fail(x, "grows by "+clipStr(r.D.D(v.Call.Args[1]), 100)+" (undecided)")
							continue
						}
						for _, el := range elems {
							updates++
							if !entersPool(x, fa.X, el) {
								fail(x, "receives "+clipStr(r.D.D(el), 80)+", which is not added to the pool's CertPool ("+m.roots.Name()+") on every way through that statement")
							}
						}
					default:
						fail(x, "is replaced by "+clipStr(r.D.D(x.Val), 100))
					}
				case *ssa.UnOp:
					if x.Op != token.MUL {
						fail(x, "is used in an unexpected way (undecided)")
						continue
					}
					for _, use := range *x.Referrers() {
						switch u := use.(type) {
						case *ssa.DebugRef, *ssa.Lookup, *ssa.Range, *ssa.Index:
						case *ssa.Slice, *ssa.Return:
							if hash != "" {
								fail(u, "is handed out")
							}
						case *ssa.IndexAddr:
							for _, w := range *u.Referrers() {
								if st, ok := w.(*ssa.Store); ok && st.Addr == ssa.Value(u) {
									fail(st, "has an element overwritten")
								} else if ld, ok := w.(*ssa.UnOp); !ok || ld.Op != token.MUL {
									if _, dbg := w.(*ssa.DebugRef); !dbg {
										fail(w, "has an element's address taken (undecided)")
									}
								}
							}
						case *ssa.MapUpdate:
							if u.Map != ssa.Value(x) {
								fail(u, "is stored into another map (undecided)")
								continue
							}
							updates++
							kc, ok := u.Key.(*ssa.Call)
							var cert ssa.Value
							if ok && CalleeOf(kc) == hash && len(kc.Call.Args) == 1 {
								cert, ok = fieldLoad(kc.Call.Args[0], "Raw")
							}
							if !ok || cert == nil {
								fail(u, "receives the key "+clipStr(r.D.D(u.Key), 100)+", which is not "+hash+" of a certificate's Raw as the probe computes it")
								continue
							}
							if TypeName(x.Type().Underlying().(*types.Map).Elem()) == "bool" && r.D.D(u.Value) != "true" {
								fail(u, "records "+r.D.D(u.Value)+" for a certificate")
							}
							if !entersPool(u, fa.X, cert) {
								fail(u, "receives the fingerprint of "+clipStr(r.D.D(cert), 80)+", which is not added to the pool's CertPool ("+m.roots.Name()+") on every way through that statement: a hit need not be a certificate Verify finds among its Roots")
							}
						case *ssa.Call:
							switch CalleeOf(u) {
							case "len", "cap":
							case "append":
								if hash != "" || len(u.Call.Args) == 0 || u.Call.Args[0] != ssa.Value(x) {
									fail(u, "is appended to something else (undecided)")
								}
							case "delete": // fewer members: the slow path decides
							default:
								fail(u, "is handed to "+CalleeOf(u)+" (undecided)")
							}
						default:
							fail(use, "is used in an unexpected way (undecided)")
						}
					}
				default:
					fail(ref, "has its address handed on (undecided)")
				}
			}
		})
	}
	// the CertPool of a pool object is set where the object is made: a later replacement would leave the
	// container with members the new CertPool does not hold
	for _, st := range rootStores {
		fa := st.Addr.(*ssa.FieldAddr)
		fresh := false
		if a, ok := fa.X.(*ssa.Alloc); ok && a.Block() == st.Block() {
			fresh = true
			for _, ref := range *a.Referrers() {
				if in, ok := ref.(ssa.Instruction); ok && in.Block() == st.Block() && instrIdx(in) < instrIdx(st) {
					if _, isFA := ref.(*ssa.FieldAddr); !isFA {
						fresh = false
					}
				}
			}
		}
		if !fresh {
			fail(st, "can go stale: the pool's CertPool ("+m.roots.Name()+") is replaced in an existing pool object")
		}
	}
	if bad == "" && updates == 0 {
		bad = what + " of the pool is never filled (undecided)"
	}
	m.fields[fv] = bad
	return bad
}

// varargElems: v is the slice of a local array that holds the elements written out at a call site
// (append(s, e1, …, ek)); returns e1 … ek.
func varargElems(v ssa.Value) ([]ssa.Value, bool) {
	arr := baseAlloc(wSliceBase(v))
	if arr == nil {
		return nil, false
	}
	at, ok := arr.Type().Underlying().(*types.Pointer).Elem().Underlying().(*types.Array)
	if !ok {
		return nil, false
	}
	var out []ssa.Value
	for _, ref := range *arr.Referrers() {
		switch x := ref.(type) {
		case *ssa.IndexAddr:
			for _, ref2 := range *x.Referrers() {
				st, isSt := ref2.(*ssa.Store)
				if !isSt || st.Addr != ssa.Value(x) {
					return nil, false
				}
				out = append(out, st.Val)
			}
		case *ssa.Slice, *ssa.DebugRef:
		default:
			return nil, false
		}
	}
	return out, int64(len(out)) == at.Len()
}

// alwaysWith: whenever instruction a executes, instruction b executes in the same call (b's block is a's,
// dominates it, or cuts a's block off from every return).
func alwaysWith(a, b ssa.Instruction) bool {
	if a.Block() == b.Block() || b.Block().Dominates(a.Block()) {
		return true
	}
	seen := map[*ssa.BasicBlock]bool{b.Block(): true}
	work := []*ssa.BasicBlock{a.Block()}
	for len(work) > 0 {
		blk := work[len(work)-1]
		work = work[:len(work)-1]
		if seen[blk] {
			continue
		}
		seen[blk] = true
		if n := len(blk.Instrs); n > 0 {
			if _, ok := blk.Instrs[n-1].(*ssa.Return); ok {
				return false
			}
		}
		work = append(work, blk.Succs...)
	}
	return true
}

// c02SuccessForms records how the success returns of ValidateChain divide.
func c02SuccessForms(r *Run, fn *ssa.Function, verified, direct []ssa.Instruction) {
	var at []string
	for _, d := range direct {
		at = append(at, r.Where(d))
	}
	sort.Strings(at)
	d := fmt.Sprintf("%d success return(s) hand on a verified path that was compared with the submitted chain", len(verified))
	if len(direct) > 0 {
		d += fmt.Sprintf("; %d hand on a path without chain verification (%s), decided under ValidateChain:unverified-path", len(direct), strings.Join(at, ", "))
	}
	if len(verified) == 0 {
		d = "undecided: no success return of ValidateChain hands on a verified path"
	}
	r.Check("ValidateChain:success-returns", len(verified) > 0, r.FnPos(fn), d)
}
