package main

import (
	"fmt"
	"go/ast"
	"go/token"
	"go/types"
	"sort"
	"strings"

	"golang.org/x/tools/go/ssa"
)

// Generic machinery shared by the C02 and C18 rules (built on E1 PSR):
//
//   * CheckWindow  – decides "t is inside [start, limit) with optional bounds" for one
//                    implementation by enumerating presence × order valuations;
//   * CheckCases   – decision table over named atoms: every valuation belongs to a class,
//                    each class prescribes the shape of the returns that may execute and
//                    instructions that must / must not be reachable; the return sets of
//                    different classes must be disjoint;
//   * GuardAtom    – MustGuard for an atom given as RuleAtom (orientation-safe ord atoms);
//   * loop / path helpers over the σ-consistent edge set of a walk.

// ---- CFG helpers ---------------------------------------------------------------

// loopHeaderOf returns the header of the innermost natural loop containing b (nil if none).
func loopHeaderOf(b *ssa.BasicBlock) *ssa.BasicBlock {
	var best *ssa.BasicBlock
	for _, h := range b.Parent().Blocks {
		if !h.Dominates(b) {
			continue
		}
		in := false
		for _, p := range h.Preds {
			if !h.Dominates(p) {
				continue // not a back edge
			}
			// natural loop of p→h: blocks reaching p without passing through h
			seen := map[*ssa.BasicBlock]bool{h: true}
			work := []*ssa.BasicBlock{p}
			for len(work) > 0 {
				c := work[len(work)-1]
				work = work[:len(work)-1]
				if seen[c] {
					continue
				}
				seen[c] = true
				work = append(work, c.Preds...)
			}
			if seen[b] {
				in = true
			}
		}
		if in && (best == nil || best.Dominates(h)) {
			best = h
		}
	}
	return best
}

// pathReach returns the blocks reachable from `from` along the edges a walk may
// take; blocks in stop are reported when reached but not expanded.
func pathReach(reach *Reach, from *ssa.BasicBlock, stop map[*ssa.BasicBlock]bool) map[*ssa.BasicBlock]bool {
	out := map[*ssa.BasicBlock]bool{}
	work := []*ssa.BasicBlock{from}
	first := true
	for len(work) > 0 {
		c := work[len(work)-1]
		work = work[:len(work)-1]
		if out[c] && !first {
			continue
		}
		out[c] = true
		if stop[c] && !first {
			continue
		}
		first = false
		for _, s := range c.Succs {
			if reach.Edges[[2]int{c.Index, s.Index}] && !out[s] {
				work = append(work, s)
			}
		}
	}
	return out
}

func wBlockSet(ins []ssa.Instruction) map[*ssa.BasicBlock]bool {
	m := map[*ssa.BasicBlock]bool{}
	for _, in := range ins {
		m[in.Block()] = true
	}
	return m
}

func wAnyIn(set map[*ssa.BasicBlock]bool, among map[*ssa.BasicBlock]bool) bool {
	for b := range among {
		if set[b] {
			return true
		}
	}
	return false
}

// bindAtom returns the atom keys of fn bound by a rule atom.
func (r *Run) bindAtom(fn *ssa.Function, a RuleAtom) []string {
	var out []string
	found := r.D.AtomsOf(fn)
	for _, k := range keysOf(found) {
		ci := found[k]
		if a.OrdA != "" {
			if ci.Kind == "ord" && (glob(a.OrdA, ci.A) && glob(a.OrdB, ci.B) || glob(a.OrdA, ci.B) && glob(a.OrdB, ci.A)) {
				out = append(out, k)
			}
		} else if glob(a.Pat, k) {
			out = append(out, k)
		}
	}
	return out
}

// atomSites returns the SSA boolean values of fn's branch conditions that classify to one of keys.
func (r *Run) atomSites(fn *ssa.Function, keys map[string]bool) []ssa.Value {
	var out []ssa.Value
	seen := map[ssa.Value]bool{}
	var visit func(v ssa.Value, depth int)
	visit = func(v ssa.Value, depth int) {
		if depth > 6 || seen[v] {
			return
		}
		seen[v] = true
		if _, ok := isBoolConst(v); ok {
			return
		}
		switch x := v.(type) {
		case *ssa.Phi:
			for _, e := range x.Edges {
				visit(e, depth+1)
			}
			return
		case *ssa.UnOp:
			if x.Op == token.NOT {
				visit(x.X, depth+1)
				return
			}
		}
		if keys[r.D.Classify(v).Key] {
			out = append(out, v)
		}
	}
	for _, b := range fn.Blocks {
		if n := len(b.Instrs); n > 0 {
			if ifi, ok := b.Instrs[n-1].(*ssa.If); ok {
				visit(ifi.Cond, 0)
			}
		}
	}
	return out
}

// domEntry: among the blocks testing one of the atom keys, the one dominating all others.
func (r *Run) domEntry(fn *ssa.Function, keys map[string]bool) *ssa.BasicBlock {
	blocks := r.blocksTesting(fn, func(ci *CondInfo) bool { return keys[ci.Key] })
	for _, c := range blocks {
		all := true
		for _, o := range blocks {
			if !c.Dominates(o) {
				all = false
			}
		}
		if all {
			return c
		}
	}
	return nil
}

func wKeySet(lists ...[]string) map[string]bool {
	m := map[string]bool{}
	for _, l := range lists {
		for _, k := range l {
			m[k] = true
		}
	}
	return m
}

// ---- window tables -----------------------------------------------------------------

// Window describes one implementation of "t inside [start, limit)".
type Window struct {
	Name         string // construct name (part of the obligation keys)
	Fn           *ssa.Function
	T, S, L      string // operand globs of the instant and the two bounds
	PresS, PresL string // atom-key globs of the presence tests ("" = bound always present; equal = one test for both)
	// Outcome classifies one walk: may the region treat t as inside / as outside?
	Outcome func(val map[string]string, reach *Reach, entry *ssa.BasicBlock) (inside, outside bool, note string)
}

// CheckWindow enumerates presence × ord(t,start) × ord(t,limit) (feasible combinations
// under start <= limit; the order atom of an absent bound is left unfixed) and compares
// the outcome with the property: inside ⇔ (¬pS ∨ t ≥ start) ∧ (¬pL ∨ t < limit).
// Returns the region entry block (nil when undecided).
func (r *Run) CheckWindow(w Window) *ssa.BasicBlock {
	fn := w.Fn
	key := w.Name + ":window"
	aS, aL := RuleAtom{Name: "oS", OrdA: w.T, OrdB: w.S, Dom: []string{"?", "<", "=", ">"}}, RuleAtom{Name: "oL", OrdA: w.T, OrdB: w.L, Dom: []string{"?", "<", "=", ">"}}
	kS, kL := r.bindAtom(fn, aS), r.bindAtom(fn, aL)
	if len(kS) == 0 || len(kL) == 0 {
		r.Fail(key, r.FnPos(fn), fmt.Sprintf("undecided: %s has no comparison of the instant %s with start %s (%d found) / limit %s (%d found) as time instants", FuncName(fn), w.T, w.S, len(kS), w.L, len(kL)))
		return nil
	}
	atoms := []RuleAtom{aS, aL}
	all := [][]string{kS, kL}
	same := w.PresS != "" && w.PresS == w.PresL
	for _, p := range []struct{ name, pat string }{{"pS", w.PresS}, {"pL", w.PresL}} {
		if p.pat == "" || (same && p.name == "pL") {
			continue
		}
		a := RuleAtom{Name: p.name, Pat: p.pat, Dom: []string{"nil", "non"}}
		ks := r.bindAtom(fn, a)
		if len(ks) == 0 {
			r.Fail(key, r.FnPos(fn), fmt.Sprintf("undecided: %s has no presence test %s", FuncName(fn), p.pat))
			return nil
		}
		atoms = append([]RuleAtom{a}, atoms...)
		all = append(all, ks)
	}
	entry := r.domEntry(fn, wKeySet(all...))
	if entry == nil {
		r.Fail(key, r.FnPos(fn), "undecided: no single block of "+FuncName(fn)+" dominates all tests of the window")
		return nil
	}
	// exactness (R4): the order atoms are comparisons of time.Time instants
	for _, v := range r.atomSites(fn, wKeySet(kS, kL)) {
		c, ok := v.(*ssa.Call)
		if b, isBin := v.(*ssa.BinOp); isBin {
			// t.Compare(u) <op> 0
			if cc, isCall := b.X.(*ssa.Call); isCall {
				c, ok = cc, true
			} else if cc, isCall := b.Y.(*ssa.Call); isCall {
				c, ok = cc, true
			}
		}
		name := ""
		if ok && c.Call.StaticCallee() != nil {
			name = FuncName(c.Call.StaticCallee())
		}
		side := "start"
		if wKeySet(kL)[r.D.Classify(v).Key] {
			side = "limit"
		}
		r.Check(w.Name+":instant-comparison["+side+"."+strings.TrimPrefix(name, "(time.Time).")+"]", name == "(time.Time).Before" || name == "(time.Time).After" || name == "(time.Time).Equal" || name == "(time.Time).Compare", r.Where(entry.Instrs[len(entry.Instrs)-1]),
			"window comparison "+r.D.D(v)+" is a comparison of whole time.Time instants (sub-second parts count)")
	}
	where := r.Where(entry.Instrs[len(entry.Instrs)-1])
	n := 0
	res, err := r.D.Table(fn, entry, nil, atoms, func(val map[string]string, reach *Reach, s Sigma) {
		pS, pL := true, true
		if w.PresS != "" {
			pS = val["pS"] == "non"
		}
		if same {
			pL = pS
		} else if w.PresL != "" {
			pL = val["pL"] == "non"
		}
		oS, oL := val["oS"], val["oL"]
		if pS != (oS != "?") || pL != (oL != "?") {
			return
		}
		if pS && pL && (oS == "<" && oL != "<" || oS == "=" && oL == ">") {
			return // infeasible when start <= limit
		}
		want := (!pS || oS != "<") && (!pL || oL == "<")
		lab := func(p bool, o, b string) string {
			if !p {
				return "no " + b
			}
			return "t" + o + b
		}
		label := lab(pS, oS, "start") + "," + lab(pL, oL, "limit")
		in, out, note := w.Outcome(val, reach, entry)
		n++
		r.Check(key+"["+label+"]", in == want && out == !want, where,
			fmt.Sprintf("property: inside=%v; code may treat t as inside=%v, as outside=%v %s", want, in, out, note))
	})
	if err != nil {
		r.Fail(key, r.FnPos(fn), "undecided: "+err.Error())
		return nil
	}
	r.Valuations += res.Valuations
	floor := 6
	if w.PresS != "" {
		floor = 7
		if !same {
			floor = 13
		}
	}
	r.Check(key+":valuations", n == floor, where, fmt.Sprintf("%d feasible presence × order valuations decided (expected %d)", n, floor))
	return entry
}

// ---- decision tables over named atoms ------------------------------------------------

type CaseTable struct {
	Atoms []RuleAtom
	// Class names the class of a valuation ("" = valuation not considered).
	Class func(val map[string]string) string
	// Want validates every return that may execute in a valuation of the class (nil = any).
	Want map[string]func(r *Run, ret *ssa.Return) (bool, string)
	// Reach / Unreach: instructions that must be may-reachable / unreachable in every valuation of the class.
	Reach, Unreach map[string][]ssa.Instruction
	// Shared lists classes whose return sets need not be disjoint from the others.
	Shared map[string]bool
}

// CheckCases walks from the block that dominates all tests of the atoms, once per
// valuation, and records one obligation per class.
func (r *Run) CheckCases(fn *ssa.Function, key string, ct CaseTable) {
	var all [][]string
	for _, a := range ct.Atoms {
		ks := r.bindAtom(fn, a)
		if len(ks) == 0 {
			r.Fail(key, r.FnPos(fn), fmt.Sprintf("undecided: no branch condition of %s tests %s%s~%s (the check is missing)", FuncName(fn), a.Pat, a.OrdA, a.OrdB))
			return
		}
		all = append(all, ks)
	}
	entry := r.domEntry(fn, wKeySet(all...))
	if entry == nil {
		r.Fail(key, r.FnPos(fn), "undecided: no single block of "+FuncName(fn)+" dominates all tests of "+key)
		return
	}
	where := r.Where(entry.Instrs[len(entry.Instrs)-1])
	type row struct {
		class string
		s     Sigma
		rets  []*ssa.Return
	}
	var rows []row
	bad := map[string]string{}
	count := map[string]int{}
	res, err := r.D.Table(fn, entry, nil, ct.Atoms, func(val map[string]string, reach *Reach, s Sigma) {
		c := ct.Class(val)
		if c == "" {
			return
		}
		count[c]++
		reach = r.WalkRefined(fn, s, entry, nil, reach)
		rets := reachableReturns(fn, reach)
		rows = append(rows, row{c, s, rets})
		if len(rets) == 0 {
			bad[c] = fmt.Sprintf("no return reachable under %s (undecided)", s)
		}
		if w := ct.Want[c]; w != nil {
			for _, ret := range rets {
				if ok, why := w(r, ret); !ok {
					bad[c] = fmt.Sprintf("under %s the return at %s may execute: %s", s, r.Where(ret), why)
				}
			}
		}
		for _, m := range ct.Reach[c] {
			if !reach.Has(m) {
				bad[c] = fmt.Sprintf("under %s the instruction at %s is unreachable", s, r.Where(m))
			}
		}
		for _, m := range ct.Unreach[c] {
			if reach.Has(m) {
				bad[c] = fmt.Sprintf("under %s the instruction at %s may execute", s, r.Where(m))
			}
		}
	})
	if err != nil {
		r.Fail(key, r.FnPos(fn), "undecided: "+err.Error())
		return
	}
	r.Valuations += res.Valuations
	owner := map[*ssa.Return]string{}
	for _, rw := range rows {
		if ct.Shared[rw.class] {
			continue
		}
		for _, ret := range rw.rets {
			if o, ok := owner[ret]; ok && o != rw.class {
				bad[rw.class] = fmt.Sprintf("the return at %s may execute both in case %q and in case %q (under %s)", r.Where(ret), o, rw.class, rw.s)
			}
			owner[ret] = rw.class
		}
	}
	var classes []string
	for c := range count {
		classes = append(classes, c)
	}
	sort.Strings(classes)
	if len(classes) < 2 {
		r.Fail(key, where, "undecided: fewer than two cases enumerated")
	}
	for _, c := range classes {
		d := bad[c]
		if d == "" {
			d = fmt.Sprintf("%d valuations: returns and reachability as the property prescribes for case %q", count[c], c)
		}
		r.Check(key+"["+c+"]", bad[c] == "", where, d)
	}
}

// WalkRefined sharpens a σ-walk for conditions that were held in a boolean temporary: such a
// condition reaches its test as a φ of a block the walk has already left (`b := x && y || z;
// if b && w`), where the plain walk (which only knows the edge through which the current block
// was entered) cannot tell which of the φ's inputs arrived. Under σ an execution takes only
// edges of the coarse walk, so a φ whose block is strictly dominated by the start block is
// evaluated over those incoming edges only; the walk is repeated with that evaluation until
// the edge set no longer shrinks. Each round over-approximates the executions consistent with
// σ (induction over the rounds), so instructions outside the result cannot execute under σ.
func (r *Run) WalkRefined(fn *ssa.Function, s Sigma, from *ssa.BasicBlock, stop map[*ssa.BasicBlock]bool, coarse *Reach) *Reach {
	if from == nil {
		from = fn.Blocks[0]
	}
	if coarse == nil {
		coarse = r.D.Walk(fn, s, from, stop)
	}
	for round := 0; round < 8; round++ {
		next := r.walkUnder(fn, s, from, stop, coarse)
		r.Valuations++
		if len(next.Edges) >= len(coarse.Edges) && len(next.Blocks) >= len(coarse.Blocks) {
			return next
		}
		coarse = next
	}
	return coarse
}

func (r *Run) walkUnder(fn *ssa.Function, s Sigma, from *ssa.BasicBlock, stop map[*ssa.BasicBlock]bool, prev *Reach) *Reach {
	type st struct {
		b    *ssa.BasicBlock
		pred int
	}
	seen := map[st]bool{}
	out := &Reach{Blocks: map[*ssa.BasicBlock]bool{}, Edges: map[[2]int]bool{}}
	work := []st{{from, -1}}
	for len(work) > 0 {
		c := work[len(work)-1]
		work = work[:len(work)-1]
		if seen[c] || stop[c.b] && c.b != from {
			continue
		}
		seen[c] = true
		out.Blocks[c.b] = true
		succs := c.b.Succs
		if len(c.b.Instrs) > 0 {
			if ifi, ok := c.b.Instrs[len(c.b.Instrs)-1].(*ssa.If); ok {
				switch r.evalUnder(ifi.Cond, s, c.b, c.pred, from, prev, 0) {
				case T:
					succs = c.b.Succs[:1]
				case F:
					succs = c.b.Succs[1:2]
				}
			}
		}
		for _, sb := range succs {
			pi := -1
			for i, p := range sb.Preds {
				if p == c.b {
					pi = i
					break
				}
			}
			if !(stop[sb] && sb != from) {
				out.Edges[[2]int{c.b.Index, sb.Index}] = true
			}
			work = append(work, st{sb, pi})
		}
	}
	return out
}

// evalUnder is Describer.eval with φ-nodes of already-left blocks restricted to the incoming
// edges of prev (see WalkRefined).
func (r *Run) evalUnder(v ssa.Value, s Sigma, blk *ssa.BasicBlock, pred int, from *ssa.BasicBlock, prev *Reach, depth int) Tri {
	if depth > 8 {
		return U
	}
	if b, ok := isBoolConst(v); ok {
		if b {
			return T
		}
		return F
	}
	switch v := v.(type) {
	case *ssa.UnOp:
		if v.Op == token.NOT {
			return r.evalUnder(v.X, s, blk, pred, from, prev, depth+1).Not()
		}
	case *ssa.Phi:
		pb := v.Block()
		if pb == blk && pred >= 0 && pred < len(v.Edges) {
			return r.evalUnder(v.Edges[pred], s, pb.Preds[pred], -1, from, prev, depth+1)
		}
		restrict := prev != nil && pb != from && from.Dominates(pb) && prev.Blocks[pb]
		res, n := U, 0
		for i, e := range v.Edges {
			if restrict && !prev.Edges[[2]int{pb.Preds[i].Index, pb.Index}] {
				continue
			}
			t := r.evalUnder(e, s, pb.Preds[i], -1, from, prev, depth+1)
			if t == U {
				return U
			}
			if n > 0 && t != res {
				return U
			}
			res = t
			n++
		}
		return res
	case *ssa.BinOp:
		if v.Op == token.EQL || v.Op == token.NEQ {
			if bt, ok := v.X.Type().Underlying().(*types.Basic); ok && bt.Info()&types.IsBoolean != 0 {
				a := r.evalUnder(v.X, s, blk, pred, from, prev, depth+1)
				b := r.evalUnder(v.Y, s, blk, pred, from, prev, depth+1)
				if a != U && b != U {
					if (a == b) == (v.Op == token.EQL) {
						return T
					}
					return F
				}
			}
		}
	}
	ci := r.D.Classify(v)
	if val, ok := s[ci.Key]; ok {
		if ci.True[val] {
			return T
		}
		return F
	}
	return U
}

// GuardAtom: from block `from` (nil = entry), no marker may execute when the atom has a
// bad value; with every other value at least one marker is reachable.
func (r *Run) GuardAtom(fn *ssa.Function, from *ssa.BasicBlock, key string, a RuleAtom, badVals string, markers []ssa.Instruction, what string) {
	if len(markers) == 0 {
		r.Fail(key, r.FnPos(fn), "no marker instruction for "+what)
		return
	}
	a.Name = "a"
	ok, detail := true, ""
	res, err := r.D.Table(fn, from, nil, []RuleAtom{a}, func(val map[string]string, reach *Reach, s Sigma) {
		any := false
		for _, m := range markers {
			if reach.Has(m) {
				any = true
				if isBad(badVals, val["a"]) {
					ok, detail = false, fmt.Sprintf("%s at %s is reachable under %s", what, r.Where(m), s)
				}
			}
		}
		if !isBad(badVals, val["a"]) && !any {
			ok, detail = false, fmt.Sprintf("%s is unreachable even under %s (positive control)", what, s)
		}
	})
	if err != nil {
		r.Fail(key, r.FnPos(fn), "undecided: "+err.Error())
		return
	}
	r.Valuations += res.Valuations
	if ok {
		detail = fmt.Sprintf("%s unreachable whenever %v ∈ {%s}; reachable otherwise", what, res.Bound["a"], badVals)
	}
	r.Check(key, ok, r.Where(markers[0]), detail)
}

// ---- small shape helpers -----------------------------------------------------------

// retIs builds a Want: result i must render as one of the alternatives; the error
// result (last) must be nil / non-nil as stated ("nil", "non", "" = don't care).
func retIs(i int, alts string, errWant string) func(r *Run, ret *ssa.Return) (bool, string) {
	return func(r *Run, ret *ssa.Return) (bool, string) {
		n := len(ret.Results)
		if i >= n {
			return false, "too few results"
		}
		if d := r.D.D(ret.Results[i]); alts != "" && !anyGlob(alts, d) {
			return false, fmt.Sprintf("result %d is %s, expected %s", i, d, alts)
		}
		if errWant != "" {
			k := errKind(ret.Results[n-1])
			if errWant == "non" && k == "nil" || errWant == "nil" && k != "nil" {
				return false, "error result is " + k + ", expected " + errWant
			}
		}
		return true, ""
	}
}

// structReturn: the (single or i-th) result is a struct value built in a local
// allocation whose field stores match want (field -> glob).
func structReturn(i int, typeGlob string, want map[string]string) func(r *Run, ret *ssa.Return) (bool, string) {
	return func(r *Run, ret *ssa.Return) (bool, string) {
		if i >= len(ret.Results) {
			return false, "too few results"
		}
		a := baseAlloc(ret.Results[i])
		if a == nil {
			return false, "result " + r.D.D(ret.Results[i]) + " is not a locally built " + typeGlob
		}
		name := r.D.allocName(a)
		if !glob("new:"+typeGlob+"#*", name) {
			return false, "result is a " + name + ", expected " + typeGlob
		}
		for _, f := range keysOf(want) {
			sts := r.StoresTo(ret.Parent(), "&("+name+"."+f+")")
			if len(sts) == 0 {
				return false, "field " + f + " of the returned " + typeGlob + " is never set"
			}
			for _, st := range sts {
				if got := r.D.D(st.Val); !anyGlob(want[f], got) {
					return false, fmt.Sprintf("%s.%s <- %s, expected %s", typeGlob, f, got, want[f])
				}
			}
		}
		return true, ""
	}
}

// storesAt returns the stores of fn whose address renders exactly as addr (no glob: type
// names contain '*').
func (r *Run) storesAt(fn *ssa.Function, addr string) []*ssa.Store {
	var out []*ssa.Store
	eachInstr(fn, func(in ssa.Instruction) {
		if st, ok := in.(*ssa.Store); ok && r.D.D(st.Addr) == addr {
			out = append(out, st)
		}
	})
	return out
}

// ExpectPointee: what a pointer-typed field (named by the origin term `target` of its content,
// e.g. new:T#*.F for the field F of the struct built in new:T) points to is written only with
// values matching valGlob, at least min times — independent of how the pointee comes about:
// written through the pointer loaded back from the field (`x.F = &V{}; *x.F = v`), or built in
// a local first whose address is then put into the field (`t := v; x.F = &t`).
// Every pointer put into the field must be nil or a local allocation, else the rule is undecided.
func (r *Run) ExpectPointee(fn *ssa.Function, key, target, valGlob string, min int) {
	var content []*ssa.Store
	seen := map[*ssa.Store]bool{}
	add := func(st *ssa.Store) {
		if !seen[st] {
			seen[st] = true
			content = append(content, st)
		}
	}
	// (a) stores through the pointer held in the field
	for _, st := range r.StoresTo(fn, target) {
		add(st)
	}
	// (b) stores into the allocations whose address is put into the field
	for _, ps := range r.StoresTo(fn, "&("+target+")") {
		if isNilConst(ps.Val) {
			continue
		}
		a, ok := ps.Val.(*ssa.Alloc)
		if !ok {
			r.Fail(key, r.Where(ps), fmt.Sprintf("undecided: %s <- %s is not the address of a local value", r.D.D(ps.Addr), r.D.D(ps.Val)))
			return
		}
		eachInstr(fn, func(in ssa.Instruction) {
			if st, ok := in.(*ssa.Store); ok && st != ps && baseAlloc(st.Addr) == a {
				if _, isLoad := st.Addr.(*ssa.UnOp); !isLoad {
					add(st)
				}
			}
		})
	}
	if len(content) < min {
		r.Fail(key, r.FnPos(fn), fmt.Sprintf("expected >= %d stores to %s in %s, found %d", min, target, FuncName(fn), len(content)))
		return
	}
	for _, st := range content {
		got := r.D.D(st.Val)
		r.Check(key, anyGlob(valGlob, got), r.Where(st), fmt.Sprintf("%s <- %s (expected %s)", r.D.D(st.Addr), got, valGlob))
	}
}

// allocOf returns the name of the local allocation that receives (whole-value store) a value matching valGlob.
func (r *Run) allocOf(fn *ssa.Function, valGlob string) string {
	name := ""
	eachInstr(fn, func(in ssa.Instruction) {
		if st, ok := in.(*ssa.Store); ok {
			if a, ok := st.Addr.(*ssa.Alloc); ok && glob(valGlob, r.D.D(st.Val)) {
				name = selBase(r.D.D(a)) // a local that only holds a copy reads as the value itself
			}
		}
	})
	return name
}

func clipStr(s string, n int) string {
	if len(s) > n {
		return s[:n] + "…"
	}
	return strings.TrimSpace(s)
}

// ---- AST / error-value helpers ------------------------------------------------------

// pkgVarElems renders the elements of the composite literal initialising a package-level variable.
func (r *Run) pkgVarElems(pkg, name string) string {
	pk := r.P.Pkg(pkg)
	if pk == nil {
		return "?"
	}
	for _, f := range pk.Syntax {
		for _, d := range f.Decls {
			gd, ok := d.(*ast.GenDecl)
			if !ok {
				continue
			}
			for _, sp := range gd.Specs {
				vs, ok := sp.(*ast.ValueSpec)
				if !ok {
					continue
				}
				for i, n := range vs.Names {
					if n.Name != name || i >= len(vs.Values) {
						continue
					}
					cl, ok := vs.Values[i].(*ast.CompositeLit)
					if !ok {
						return "?"
					}
					var parts []string
					for _, e := range cl.Elts {
						if tv, ok := pk.TypesInfo.Types[e]; ok && tv.Value != nil {
							parts = append(parts, tv.Value.ExactString())
						} else {
							parts = append(parts, "?")
						}
					}
					return strings.Join(parts, ".")
				}
			}
		}
	}
	return "?"
}

// c02NilOnlyVia: every return of fn (single error result) is non-nil by construction, a
// package-level error variable, or exactly the term via.
func c02NilOnlyVia(r *Run, fn *ssa.Function, key, via string) {
	n := 0
	for _, ret := range Returns(fn) {
		d := r.D.D(ret.Results[0])
		if d == via {
			n++
		}
		r.Check(key+":nil-only-via-signature-check", d == via || errKind(ret.Results[0]) == "non" || c02IsErrVar(r, d), r.Where(ret), "returns "+clipStr(d, 120))
	}
	r.Check(key+":delegates", n == 1, r.FnPos(fn), fmt.Sprintf("%d returns of %s", n, via))
}

// package-level error variable that no module function assigns (initialised once, non-nil)
var c02ErrVarMemo = map[string]bool{}

func c02IsErrVar(r *Run, d string) bool {
	if !glob("g:x509.*rr*", d) && !glob("g:trillian/ctfe.Err*", d) {
		return false
	}
	if v, ok := c02ErrVarMemo[d]; ok {
		return v
	}
	ok := true
	for _, fn := range r.P.ModFuncs {
		if fn.Name() == "init" {
			continue
		}
		eachInstr(fn, func(in ssa.Instruction) {
			if st, isSt := in.(*ssa.Store); isSt {
				if g, isG := st.Addr.(*ssa.Global); isG && "*"+r.D.D(g) == "*&("+d+")" {
					ok = false
				}
			}
		})
	}
	c02ErrVarMemo[d] = ok
	return ok
}
